//! What a harness run reports back to tools/check: counts, distribution,
//! samples, violations (each with a replay file).
use std::collections::{BTreeMap, HashSet};
use std::hash::{Hash, Hasher};

pub fn jstr(s: &str) -> String {
    let mut o = String::from("\"");
    for c in s.chars() {
        match c {
            '"' => o.push_str("\\\""),
            '\\' => o.push_str("\\\\"),
            '\n' => o.push_str("\\n"),
            '\r' => o.push_str("\\r"),
            '\t' => o.push_str("\\t"),
            c if (c as u32) < 0x20 => o.push_str(&format!("\\u{:04x}", c as u32)),
            c => o.push(c),
        }
    }
    o.push('"');
    o
}

pub struct Violation {
    pub what: String,
    pub replay: Vec<(String, String)>, // key -> value (strings), written as a JSON object
    pub known: Option<String>,         // key of a known finding, if it matches one
}

pub struct Report {
    pub property: String,
    pub evaluations: u64,
    pub distinct: HashSet<u64>,
    pub nontrivial_rule: String,
    pub samples: Vec<String>,
    pub dist: BTreeMap<String, u64>,
    pub violations: Vec<Violation>,
    pub exhaustive: bool,
    pub notes: Vec<String>,
    pub max_violations: usize,
}

impl Report {
    pub fn new(property: &str, rule: &str) -> Report {
        Report {
            property: property.into(),
            evaluations: 0,
            distinct: HashSet::new(),
            nontrivial_rule: rule.into(),
            samples: Vec::new(),
            dist: BTreeMap::new(),
            violations: Vec::new(),
            exhaustive: false,
            notes: Vec::new(),
            max_violations: 5,
        }
    }
    pub fn eval(&mut self) { self.evaluations += 1; }
    pub fn nontrivial<T: Hash>(&mut self, key: &T) {
        let mut h = std::collections::hash_map::DefaultHasher::new();
        key.hash(&mut h);
        self.distinct.insert(h.finish());
    }
    pub fn sample(&mut self, s: String) {
        if self.samples.len() < 8 { self.samples.push(s); }
    }
    pub fn bump(&mut self, k: &str) { *self.dist.entry(k.to_string()).or_insert(0) += 1; }
    pub fn add(&mut self, k: &str, n: u64) { *self.dist.entry(k.to_string()).or_insert(0) += n; }
    pub fn violation(&mut self, what: String, replay: Vec<(String, String)>) {
        self.violations.push(Violation { what, replay, known: None });
    }
    pub fn full(&self) -> bool { self.violations.len() >= self.max_violations }

    pub fn merge(&mut self, other: Report) {
        self.evaluations += other.evaluations;
        self.distinct.extend(other.distinct);
        for s in other.samples { self.sample(s); }
        for (k, v) in other.dist { *self.dist.entry(k).or_insert(0) += v; }
        self.violations.extend(other.violations);
        self.notes.extend(other.notes);
    }

    pub fn to_json(&self) -> String {
        let mut o = String::from("{");
        o.push_str(&format!("\"property\":{},", jstr(&self.property)));
        o.push_str(&format!("\"evaluations\":{},", self.evaluations));
        o.push_str(&format!("\"distinct_nontrivial\":{},", self.distinct.len()));
        o.push_str(&format!("\"rule\":{},", jstr(&self.nontrivial_rule)));
        o.push_str(&format!("\"exhaustive\":{},", self.exhaustive));
        o.push_str("\"samples\":[");
        o.push_str(&self.samples.iter().map(|s| jstr(s)).collect::<Vec<_>>().join(","));
        o.push_str("],\"distribution\":{");
        o.push_str(&self.dist.iter().map(|(k, v)| format!("{}:{}", jstr(k), v)).collect::<Vec<_>>().join(","));
        o.push_str("},\"notes\":[");
        o.push_str(&self.notes.iter().map(|s| jstr(s)).collect::<Vec<_>>().join(","));
        o.push_str("],\"violations\":[");
        let vs: Vec<String> = self.violations.iter().map(|v| {
            let mut s = String::from("{");
            s.push_str(&format!("\"what\":{},", jstr(&v.what)));
            s.push_str(&format!("\"known\":{},", v.known.as_ref().map_or("null".to_string(), |k| jstr(k))));
            s.push_str("\"replay\":{");
            s.push_str(&v.replay.iter().map(|(k, val)| format!("{}:{}", jstr(k), jstr(val))).collect::<Vec<_>>().join(","));
            s.push_str("}}");
            s
        }).collect();
        o.push_str(&vs.join(","));
        o.push_str("]}");
        o
    }
}
