//! The model side: the extracted OCaml driver as a child process.  Env queries
//! ("Q ...") are answered here from the very crates the library uses.
use crate::ast::{hex, unhex};
use regex::Regex;
use std::collections::HashMap;
use std::io::{BufRead, BufReader, Write};
use std::process::{Child, ChildStdin, ChildStdout, Command, Stdio};

#[derive(Clone, Debug, PartialEq, Eq, Hash)]
pub enum Out {
    Ok(String),
    Err,
    Panic,
    Timeout,
}
impl Out {
    pub fn show(&self) -> String {
        match self {
            Out::Ok(s) => format!("Ok({s:?})"),
            Out::Err => "Err".into(),
            Out::Panic => "Panic".into(),
            Out::Timeout => "Timeout".into(),
        }
    }
}

pub struct Driver {
    child: Child,
    stdin: ChildStdin,
    stdout: BufReader<ChildStdout>,
    regexes: HashMap<String, Option<Regex>>,
    pub oracle_calls: u64,
}

pub fn parse_out(toks: &[&str]) -> (Out, usize) {
    match toks.first().copied() {
        Some("ok") => (Out::Ok(unhex(toks[1])), 2),
        Some("err") => (Out::Err, 1),
        Some("panic") => (Out::Panic, 1),
        other => panic!("driver: bad outcome {other:?} in {toks:?}"),
    }
}

impl Driver {
    pub fn spawn(path: &str) -> Driver {
        let mut child = Command::new("sh")
            .arg("-c")
            .arg(format!("ulimit -s 1000000 2>/dev/null || ulimit -s unlimited 2>/dev/null; exec {path}"))
            .stdin(Stdio::piped())
            .stdout(Stdio::piped())
            .stderr(Stdio::inherit())
            .spawn()
            .unwrap_or_else(|e| panic!("cannot start model driver {path}: {e}"));
        let stdin = child.stdin.take().unwrap();
        let stdout = BufReader::new(child.stdout.take().unwrap());
        Driver { child, stdin, stdout, regexes: HashMap::new(), oracle_calls: 0 }
    }

    fn regex(&mut self, p: &str) -> Option<Regex> {
        if let Some(r) = self.regexes.get(p) {
            return r.clone();
        }
        let r = Regex::new(p).ok();
        if self.regexes.len() > 20000 {
            self.regexes.clear();
        }
        self.regexes.insert(p.to_string(), r.clone());
        r
    }

    fn answer(&mut self, q: &[&str]) -> String {
        self.oracle_calls += 1;
        match q[0] {
            "valid" => format!("A {}", if self.regex(&unhex(q[1])).is_some() { 1 } else { 0 }),
            "match" => {
                let re = self.regex(&unhex(q[1])).expect("oracle: match on invalid regex");
                format!("A {}", if re.is_match(&unhex(q[2])) { 1 } else { 0 })
            }
            "find" => {
                let re = self.regex(&unhex(q[1])).expect("oracle: find on invalid regex");
                let t = unhex(q[2]);
                match re.find(&t) { Some(m) => format!("A some {}", hex(m.as_str())), None => "A none".into() }
            }
            "group" => {
                let re = self.regex(&unhex(q[1])).expect("oracle: group on invalid regex");
                let t = unhex(q[2]);
                let i: usize = q[3].parse().unwrap_or(usize::MAX);
                match re.captures(&t).and_then(|c| c.get(i)) { Some(m) => format!("A some {}", hex(m.as_str())), None => "A none".into() }
            }
            "replace" => {
                let all = q[1] == "1";
                let re = self.regex(&unhex(q[2])).expect("oracle: replace on invalid regex");
                let t = unhex(q[3]);
                let r = unhex(q[4]);
                let out = if all { re.replace_all(&t, r.as_str()).to_string() } else { re.replace(&t, r.as_str()).to_string() };
                format!("A {}", hex(&out))
            }
            "upper" => format!("A {}", hex(&unhex(q[1]).to_uppercase())),
            "lower" => format!("A {}", hex(&unhex(q[1]).to_lowercase())),
            "strip" => format!("A {}", hex(&fast_strip_ansi::strip_ansi_string(&unhex(q[1])))),
            other => panic!("oracle: unknown query {other}"),
        }
    }

    /// Send one request line, serve oracle queries, return the tokens after "R".
    pub fn request(&mut self, line: &str) -> Vec<String> {
        self.stdin.write_all(line.as_bytes()).unwrap();
        self.stdin.write_all(b"\n").unwrap();
        self.stdin.flush().unwrap();
        loop {
            let mut buf = String::new();
            let n = self.stdout.read_line(&mut buf).unwrap();
            if n == 0 {
                panic!("model driver died on request: {line}");
            }
            let toks: Vec<&str> = buf.split_whitespace().collect();
            match toks.first().copied() {
                Some("Q") => {
                    let a = self.answer(&toks[1..]);
                    self.stdin.write_all(a.as_bytes()).unwrap();
                    self.stdin.write_all(b"\n").unwrap();
                    self.stdin.flush().unwrap();
                }
                Some("R") => return toks[1..].iter().map(|s| s.to_string()).collect(),
                _ => panic!("model driver: unexpected line {buf:?}"),
            }
        }
    }

    /// RUN: (impl model result, spec result)
    pub fn run(&mut self, dbg: bool, ops_wire: &str, input: &str) -> (Out, Out) {
        let r = self.request(&format!("RUN {} {} {}", if dbg { 1 } else { 0 }, ops_wire, hex(input)));
        let toks: Vec<&str> = r.iter().map(|s| s.as_str()).collect();
        if toks.first().copied() == Some("error") {
            panic!("model driver error: {toks:?}");
        }
        let (a, n) = parse_out(&toks);
        assert_eq!(toks[n], "|");
        let (b, _) = parse_out(&toks[n + 1..]);
        (a, b)
    }
}

impl Drop for Driver {
    fn drop(&mut self) {
        let _ = self.child.kill();
        let _ = self.child.wait();
    }
}
