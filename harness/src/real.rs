//! The implementation side: the real library, every call under catch_unwind.
use crate::driver::Out;
use std::panic::{catch_unwind, AssertUnwindSafe};
use std::sync::atomic::{AtomicU64, Ordering};
use string_pipeline::Template;

/// seconds since start at which the current library call began (0 = idle); read by the watchdog
pub static CALL_STARTED_MS: AtomicU64 = AtomicU64::new(0);
pub static CALL_DESC: std::sync::Mutex<String> = std::sync::Mutex::new(String::new());

fn now_ms() -> u64 {
    use std::time::{SystemTime, UNIX_EPOCH};
    SystemTime::now().duration_since(UNIX_EPOCH).unwrap().as_millis() as u64
}

pub fn guarded<T>(desc: &dyn Fn() -> String, f: impl FnOnce() -> T) -> Result<T, ()> {
    if let Ok(mut d) = CALL_DESC.try_lock() {
        *d = desc();
    }
    CALL_STARTED_MS.store(now_ms(), Ordering::SeqCst);
    let r = catch_unwind(AssertUnwindSafe(f));
    CALL_STARTED_MS.store(0, Ordering::SeqCst);
    r.map_err(|_| ())
}

pub fn install_quiet_panic_hook() {
    std::panic::set_hook(Box::new(|_| {}));
}

/// fd 2 -> /dev/null (debug tracing writes a lot there); the harness reports on stdout only
pub fn silence_stderr() {
    unsafe {
        let devnull = libc::open(b"/dev/null\0".as_ptr() as *const libc::c_char, libc::O_WRONLY);
        if devnull >= 0 {
            libc::dup2(devnull, 2);
            libc::close(devnull);
        }
    }
}

pub fn start_watchdog(limit_ms: u64) {
    std::thread::spawn(move || loop {
        std::thread::sleep(std::time::Duration::from_millis(250));
        let st = CALL_STARTED_MS.load(Ordering::SeqCst);
        if st != 0 && now_ms().saturating_sub(st) > limit_ms {
            let d = CALL_DESC.lock().map(|d| d.clone()).unwrap_or_default();
            println!("HANG {}", d);
            std::process::exit(3);
        }
    });
}

pub enum Parsed {
    Ok(Template),
    Err(String),
    Panic,
}

pub fn parse(t: &str) -> Parsed {
    match guarded(&|| format!("parse {t:?}"), || Template::parse(t)) {
        Ok(Ok(tpl)) => Parsed::Ok(tpl),
        Ok(Err(e)) => Parsed::Err(e),
        Err(()) => Parsed::Panic,
    }
}

pub fn parse_with_debug(t: &str, dbg: Option<bool>) -> Parsed {
    match guarded(&|| format!("parse_with_debug {t:?} {dbg:?}"), || Template::parse_with_debug(t, dbg)) {
        Ok(Ok(tpl)) => Parsed::Ok(tpl),
        Ok(Err(e)) => Parsed::Err(e),
        Err(()) => Parsed::Panic,
    }
}

pub fn format(tpl: &Template, x: &str) -> Out {
    match guarded(&|| format!("format {:?} on {x:?}", tpl.template_string()), || tpl.format(x)) {
        // a String that is not valid UTF-8 can only come from unchecked byte manipulation: it is a crash in waiting
        Ok(Ok(s)) => if std::str::from_utf8(s.as_bytes()).is_ok() { Out::Ok(s) } else { Out::Panic },
        Ok(Err(_)) => Out::Err,
        Err(()) => Out::Panic,
    }
}

pub fn parse_format(t: &str, x: &str) -> Out {
    match parse(t) {
        Parsed::Ok(tpl) => format(&tpl, x),
        Parsed::Err(_) => Out::Err,
        Parsed::Panic => Out::Panic,
    }
}

/// parsed operations of a single-block template, as harness AST
pub fn parsed_ops(tpl: &Template) -> Vec<Vec<crate::ast::Op>> {
    tpl.get_template_sections().iter().map(|(_, ops)| ops.iter().map(crate::ast::op_from_real).collect()).collect()
}

/// format_with_inputs under catch_unwind
pub fn fwi(tpl: &Template, inputs: &[Vec<String>], seps: &[String]) -> Out {
    let refs: Vec<Vec<&str>> = inputs.iter().map(|v| v.iter().map(|s| s.as_str()).collect()).collect();
    let slices: Vec<&[&str]> = refs.iter().map(|v| v.as_slice()).collect();
    let sep_refs: Vec<&str> = seps.iter().map(|s| s.as_str()).collect();
    match guarded(&|| format!("format_with_inputs {:?}", tpl.template_string()), || tpl.format_with_inputs(&slices, &sep_refs)) {
        Ok(Ok(s)) => Out::Ok(s), Ok(Err(_)) => Out::Err, Err(()) => Out::Panic,
    }
}

/// format() keeping the error text (only ever compared between two runs of the real library)
pub fn format_msg(tpl: &Template, x: &str) -> Result<Result<String, String>, ()> {
    guarded(&|| format!("format {:?} on {x:?}", tpl.template_string()), || tpl.format(x))
}
