//! The harness's own copy of the operation AST: what generators produce, what
//! gets printed as template text, what is sent to the model driver, and what the
//! real parser's output is converted to for structural comparison.
use string_pipeline::verif_hooks::{PadDirection, RangeSpec, SortDirection, StringOp, TrimDirection};

#[derive(Clone, Debug, PartialEq, Eq, Hash)]
pub enum Range {
    Index(i128),
    Range(Option<i128>, Option<i128>, bool),
}

#[derive(Clone, Copy, Debug, PartialEq, Eq, Hash)]
pub enum TDir { Both, Left, Right }
#[derive(Clone, Copy, Debug, PartialEq, Eq, Hash)]
pub enum SDir { Asc, Desc }
#[derive(Clone, Copy, Debug, PartialEq, Eq, Hash)]
pub enum PDir { Left, Right, Both }

#[derive(Clone, Debug, PartialEq, Eq, Hash)]
pub enum Op {
    Split(String, Range),
    Join(String),
    Replace(String, String, String),
    Upper,
    Lower,
    Trim(String, TDir),
    Substring(Range),
    Append(String),
    Prepend(String),
    Surround(String),
    StripAnsi,
    Filter(String),
    FilterNot(String),
    Slice(Range),
    Map(Vec<Op>),
    Sort(SDir),
    Reverse,
    Unique,
    Pad(u128, char, PDir),
    RegexExtract(String, Option<u128>),
}

impl Op {
    pub fn name(&self) -> &'static str {
        match self {
            Op::Split(..) => "split", Op::Join(..) => "join", Op::Replace(..) => "replace",
            Op::Upper => "upper", Op::Lower => "lower", Op::Trim(..) => "trim",
            Op::Substring(..) => "substring", Op::Append(..) => "append", Op::Prepend(..) => "prepend",
            Op::Surround(..) => "surround", Op::StripAnsi => "strip_ansi", Op::Filter(..) => "filter",
            Op::FilterNot(..) => "filter_not", Op::Slice(..) => "slice", Op::Map(..) => "map",
            Op::Sort(..) => "sort", Op::Reverse => "reverse", Op::Unique => "unique",
            Op::Pad(..) => "pad", Op::RegexExtract(..) => "regex_extract",
        }
    }
}

/* ---------- conversion from the real parser's output --------------------- */

pub fn range_from_real(r: &RangeSpec) -> Range {
    match r {
        RangeSpec::Index(i) => Range::Index(*i as i128),
        RangeSpec::Range(a, b, inc) => Range::Range(a.map(|x| x as i128), b.map(|x| x as i128), *inc),
    }
}

pub fn op_from_real(op: &StringOp) -> Op {
    match op {
        StringOp::Split { sep, range } => Op::Split(sep.clone(), range_from_real(range)),
        StringOp::Join { sep } => Op::Join(sep.clone()),
        StringOp::Replace { pattern, replacement, flags } => Op::Replace(pattern.clone(), replacement.clone(), flags.clone()),
        StringOp::Upper => Op::Upper,
        StringOp::Lower => Op::Lower,
        StringOp::Trim { chars, direction } => Op::Trim(chars.clone(), match direction {
            TrimDirection::Both => TDir::Both, TrimDirection::Left => TDir::Left, TrimDirection::Right => TDir::Right }),
        StringOp::Substring { range } => Op::Substring(range_from_real(range)),
        StringOp::Append { suffix } => Op::Append(suffix.clone()),
        StringOp::Prepend { prefix } => Op::Prepend(prefix.clone()),
        StringOp::Surround { text } => Op::Surround(text.clone()),
        StringOp::StripAnsi => Op::StripAnsi,
        StringOp::Filter { pattern } => Op::Filter(pattern.clone()),
        StringOp::FilterNot { pattern } => Op::FilterNot(pattern.clone()),
        StringOp::Slice { range } => Op::Slice(range_from_real(range)),
        StringOp::Map { operations } => Op::Map(operations.iter().map(op_from_real).collect()),
        StringOp::Sort { direction } => Op::Sort(match direction { SortDirection::Asc => SDir::Asc, SortDirection::Desc => SDir::Desc }),
        StringOp::Reverse => Op::Reverse,
        StringOp::Unique => Op::Unique,
        StringOp::Pad { width, char, direction } => Op::Pad(*width as u128, *char, match direction {
            PadDirection::Left => PDir::Left, PadDirection::Right => PDir::Right, PadDirection::Both => PDir::Both }),
        StringOp::RegexExtract { pattern, group } => Op::RegexExtract(pattern.clone(), group.map(|g| g as u128)),
    }
}

/* ---------- canonical printer (documented syntax) ------------------------- */

/// The documented escapes: `\:` `\|` `\{` `\}` `\\` and `\n` `\t` `\r`.
pub fn esc(s: &str) -> String {
    let mut o = String::new();
    for c in s.chars() {
        match c {
            ':' | '|' | '{' | '}' | '\\' => { o.push('\\'); o.push(c); }
            '\n' => o.push_str("\\n"),
            '\t' => o.push_str("\\t"),
            '\r' => o.push_str("\\r"),
            _ => o.push(c),
        }
    }
    o
}

pub fn print_range(r: &Range) -> String {
    match r {
        Range::Index(i) => i.to_string(),
        Range::Range(a, b, inc) => {
            let dots = if *inc { "..=" } else { ".." };
            format!("{}{}{}", a.map_or(String::new(), |x| x.to_string()), dots, b.map_or(String::new(), |x| x.to_string()))
        }
    }
}

pub fn print_op(op: &Op) -> String {
    match op {
        Op::Split(sep, r) => format!("split:{}:{}", esc(sep), print_range(r)),
        Op::Join(sep) => format!("join:{}", esc(sep)),
        Op::Replace(p, r, f) => format!("replace:s/{p}/{r}/{f}"),
        Op::Upper => "upper".into(),
        Op::Lower => "lower".into(),
        Op::Trim(chars, d) => {
            let ds = match d { TDir::Both => "both", TDir::Left => "left", TDir::Right => "right" };
            if chars.is_empty() { format!("trim:{ds}") } else { format!("trim:{}:{}", esc(chars), ds) }
        }
        Op::Substring(r) => format!("substring:{}", print_range(r)),
        Op::Append(s) => format!("append:{}", esc(s)),
        Op::Prepend(s) => format!("prepend:{}", esc(s)),
        Op::Surround(s) => format!("surround:{}", esc(s)),
        Op::StripAnsi => "strip_ansi".into(),
        Op::Filter(p) => format!("filter:{p}"),
        Op::FilterNot(p) => format!("filter_not:{p}"),
        Op::Slice(r) => format!("slice:{}", print_range(r)),
        Op::Map(body) => format!("map:{{{}}}", print_ops(body)),
        Op::Sort(d) => match d { SDir::Asc => "sort:asc".into(), SDir::Desc => "sort:desc".into() },
        Op::Reverse => "reverse".into(),
        Op::Unique => "unique".into(),
        Op::Pad(w, c, d) => {
            let ds = match d { PDir::Left => "left", PDir::Right => "right", PDir::Both => "both" };
            format!("pad:{}:{}:{}", w, esc(&c.to_string()), ds)
        }
        Op::RegexExtract(p, g) => match g { Some(g) => format!("regex_extract:{p}:{g}"), None => format!("regex_extract:{p}") },
    }
}

pub fn print_ops(ops: &[Op]) -> String {
    ops.iter().map(print_op).collect::<Vec<_>>().join("|")
}

pub fn print_block(ops: &[Op]) -> String {
    format!("{{{}}}", print_ops(ops))
}

/* ---------- wire format for the model driver ------------------------------ */

pub fn hex(s: &str) -> String {
    if s.is_empty() { return "_".into(); }
    s.chars().map(|c| format!("{:x}", c as u32)).collect::<Vec<_>>().join(".")
}
pub fn unhex(h: &str) -> String {
    if h == "_" { return String::new(); }
    h.split('.').map(|x| char::from_u32(u32::from_str_radix(x, 16).unwrap()).unwrap_or('\u{FFFD}')).collect()
}
/// like unhex but reports invalid scalar values instead of replacing them
pub fn unhex_checked(h: &str) -> Result<String, String> {
    if h == "_" { return Ok(String::new()); }
    let mut o = String::new();
    for x in h.split('.') {
        let v = u32::from_str_radix(x, 16).map_err(|e| e.to_string())?;
        o.push(char::from_u32(v).ok_or_else(|| format!("invalid scalar {v:x}"))?);
    }
    Ok(o)
}

pub fn wire_range(r: &Range) -> String {
    match r {
        Range::Index(i) => format!("i {i}"),
        Range::Range(a, b, inc) => format!("r {} {} {}",
            a.map_or("n".to_string(), |x| x.to_string()),
            b.map_or("n".to_string(), |x| x.to_string()),
            if *inc { 1 } else { 0 }),
    }
}

pub fn wire_op(op: &Op) -> String {
    match op {
        Op::Split(s, r) => format!("split {} {}", hex(s), wire_range(r)),
        Op::Join(s) => format!("join {}", hex(s)),
        Op::Replace(a, b, c) => format!("replace {} {} {}", hex(a), hex(b), hex(c)),
        Op::Upper => "upper".into(),
        Op::Lower => "lower".into(),
        Op::Trim(c, d) => format!("trim {} {}", hex(c), match d { TDir::Both => "b", TDir::Left => "l", TDir::Right => "r" }),
        Op::Substring(r) => format!("substring {}", wire_range(r)),
        Op::Append(s) => format!("append {}", hex(s)),
        Op::Prepend(s) => format!("prepend {}", hex(s)),
        Op::Surround(s) => format!("surround {}", hex(s)),
        Op::StripAnsi => "strip_ansi".into(),
        Op::Filter(p) => format!("filter {}", hex(p)),
        Op::FilterNot(p) => format!("filter_not {}", hex(p)),
        Op::Slice(r) => format!("slice {}", wire_range(r)),
        Op::Map(body) => format!("map {}", wire_ops(body)),
        Op::Sort(d) => format!("sort {}", match d { SDir::Asc => "a", SDir::Desc => "d" }),
        Op::Reverse => "reverse".into(),
        Op::Unique => "unique".into(),
        Op::Pad(w, c, d) => format!("pad {} {:x} {}", w, *c as u32, match d { PDir::Left => "l", PDir::Right => "r", PDir::Both => "b" }),
        Op::RegexExtract(p, g) => format!("regex_extract {} {}", hex(p), g.map_or("n".to_string(), |g| g.to_string())),
    }
}

pub fn wire_ops(ops: &[Op]) -> String {
    let mut s = ops.len().to_string();
    for o in ops { s.push(' '); s.push_str(&wire_op(o)); }
    s
}

pub fn wire_strlist(l: &[String]) -> String {
    let mut s = l.len().to_string();
    for x in l { s.push(' '); s.push_str(&hex(x)); }
    s
}

/* ---------- whole templates ------------------------------------------------- */

#[derive(Clone, Debug, PartialEq, Eq, Hash)]
pub enum Section {
    Lit(String),
    Sec(Vec<Op>),
}

pub fn wire_section(s: &Section) -> String {
    match s { Section::Lit(l) => format!("L {}", hex(l)), Section::Sec(ops) => format!("S {}", wire_ops(ops)) }
}
pub fn wire_template(dbg: bool, secs: &[Section]) -> String {
    let mut s = format!("{} {}", if dbg { 1 } else { 0 }, secs.len());
    for x in secs { s.push(' '); s.push_str(&wire_section(x)); }
    s
}
pub fn sections_from_real(t: &string_pipeline::Template) -> Vec<Section> {
    t.get_section_info().iter().map(|si| match si.section_type {
        string_pipeline::SectionType::Literal => Section::Lit(si.content.clone().unwrap_or_default()),
        string_pipeline::SectionType::Template => Section::Sec(si.operations.as_ref().map(|o| o.iter().map(op_from_real).collect()).unwrap_or_default()),
    }).collect()
}

/* ---------- the documented spellings: an independent, AST-guided matcher -------
   spelled_by(T, s): is the text s one of the documented ways of writing template T
   (plus the short list of tolerated liberalities)?  Used as the oracle for "all of
   the accepted text is accounted for".                                           */

fn unesc(c: char) -> char { match c { 'n' => '\n', 't' => '\t', 'r' => '\r', o => o } }

struct M<'a> { s: &'a [char], i: usize }
impl<'a> M<'a> {
    fn lit(&mut self, t: &str) -> bool {
        let cs: Vec<char> = t.chars().collect();
        if self.s.len() >= self.i + cs.len() && self.s[self.i..self.i + cs.len()] == cs[..] { self.i += cs.len(); true } else { false }
    }
    fn peek(&self) -> Option<char> { self.s.get(self.i).copied() }
    /// an escaped argument whose decoding is exactly `val` (raw specials not allowed unescaped)
    fn arg(&mut self, val: &str, allow_raw_specials: bool) -> bool {
        for want in val.chars() {
            match self.peek() {
                Some('\\') => {
                    match self.s.get(self.i + 1) { Some(x) if unesc(*x) == want => self.i += 2, _ => return false }
                }
                Some(c) if c == want && (allow_raw_specials || !matches!(c, ':' | '|' | '{' | '}')) => self.i += 1,
                _ => return false,
            }
        }
        true
    }
    fn num(&mut self, v: i128) -> bool {
        let start = self.i;
        let neg = if self.peek() == Some('-') { self.i += 1; true } else { false };
        let ds = self.i;
        let mut acc: i128 = 0;
        while let Some(c) = self.peek() { if let Some(d) = c.to_digit(10) { acc = acc.saturating_mul(10).saturating_add(d as i128); self.i += 1; } else { break; } }
        if self.i == ds { self.i = start; return false; }
        if (if neg { -acc } else { acc }) == v { true } else { self.i = start; false }
    }
    /// an unsigned count (pad width, capture group): digits only, no sign
    fn unum(&mut self, v: i128) -> bool {
        if self.peek() == Some('-') || self.peek() == Some('+') { return false; }
        self.num(v)
    }
    fn range(&mut self, r: &Range) -> bool {
        match r {
            Range::Index(i) => self.num(*i),
            Range::Range(a, b, inc) => {
                if let Some(a) = a { if !self.num(*a) { return false; } }
                if !self.lit(if *inc { "..=" } else { ".." }) { return false; }
                if !*inc && self.peek() == Some('=') { return false; }
                if let Some(b) = b { if !self.num(*b) { return false; } }
                true
            }
        }
    }
    fn op(&mut self, op: &Op, in_map: bool) -> bool {
        let save = self.i;
        let ok = self.op_inner(op, in_map);
        if !ok { self.i = save; }
        ok
    }
    fn try_alt(&mut self, f: &mut dyn FnMut(&mut Self) -> bool) -> bool {
        let save = self.i;
        if f(self) { true } else { self.i = save; false }
    }
    fn at_op_end(&self) -> bool { matches!(self.peek(), Some('|') | Some('}') | None) }
    fn op_inner(&mut self, op: &Op, in_map: bool) -> bool {
        match op {
            Op::Split(sep, r) => {
                // split:ARG:RANGE  |  split:ARG (map only, full range)  |  shorthand (top level, sep " ")
                if self.try_alt(&mut |m| m.lit("split:") && m.arg(sep, true) && m.lit(":") && m.range(r) && m.at_op_end()) { return true; }
                if in_map && *r == Range::Range(None, None, false) && self.try_alt(&mut |m| m.lit("split:") && m.arg(sep, true) && m.at_op_end()) { return true; }
                if !in_map && sep == " " && self.try_alt(&mut |m| m.range(r) && m.at_op_end()) { return true; }
                false
            }
            Op::Join(s) => self.lit("join:") && self.arg(s, false),
            Op::Replace(p, r, f) => self.lit("replace:s/") && self.lit(p) && self.lit("/") && self.lit(r) && self.lit("/") && self.lit(f),
            Op::Upper => self.lit("upper"),
            Op::Lower => self.lit("lower"),
            Op::Trim(chars, d) => {
                let ds = match d { TDir::Both => "both", TDir::Left => "left", TDir::Right => "right" };
                if chars.is_empty() && *d == TDir::Both && self.try_alt(&mut |m| m.lit("trim") && m.at_op_end()) { return true; }
                if chars.is_empty() && self.try_alt(&mut |m| m.lit("trim:") && m.lit(ds) && m.at_op_end()) { return true; }
                if self.try_alt(&mut |m| m.lit("trim:") && m.arg(chars, false) && m.lit(":") && m.lit(ds) && m.at_op_end()) { return true; }
                if *d == TDir::Both && self.try_alt(&mut |m| {
                    let st = m.i + 5;
                    if !(m.lit("trim:") && m.arg(chars, false) && m.at_op_end()) { return false; }
                    let raw: String = m.s[st..m.i].iter().collect();
                    !matches!(raw.as_str(), "left" | "right" | "both")
                }) { return true; }
                false
            }
            Op::Substring(r) => self.lit("substring:") && self.range(r),
            Op::Append(s) => self.lit("append:") && self.arg(s, false),
            Op::Prepend(s) => self.lit("prepend:") && self.arg(s, false),
            Op::Surround(s) => (self.try_alt(&mut |m| m.lit("surround:")) || self.try_alt(&mut |m| m.lit("quote:"))) && self.arg(s, false),
            Op::StripAnsi => self.lit("strip_ansi"),
            Op::Filter(p) => self.lit("filter:") && self.lit(p),
            Op::FilterNot(p) => self.lit("filter_not:") && self.lit(p),
            Op::Slice(r) => self.lit("slice:") && self.range(r),
            Op::Map(body) => {
                if in_map || body.is_empty() { return false; }
                if !self.lit("map:{") { return false; }
                for (k, o) in body.iter().enumerate() {
                    if k > 0 && !self.lit("|") { return false; }
                    if !self.op(o, true) { return false; }
                }
                self.lit("}")
            }
            Op::Sort(d) => {
                if *d == SDir::Desc { return self.lit("sort:desc"); }
                if self.try_alt(&mut |m| m.lit("sort:asc") && m.at_op_end()) { return true; }
                self.try_alt(&mut |m| m.lit("sort") && m.at_op_end())
            }
            Op::Reverse => self.lit("reverse"),
            Op::Unique => self.lit("unique"),
            Op::Pad(w, c, d) => {
                let ds = match d { PDir::Both => "both", PDir::Left => "left", PDir::Right => "right" };
                let cs = c.to_string();
                if !(self.lit("pad:") && self.unum(*w as i128)) { return false; }
                // [:CHAR[:DIR]] ; tolerated: CHAR written as several characters (first one used)
                if *c == ' ' && *d == PDir::Right && self.at_op_end() { return true; }
                let pad_arg = |m: &mut Self| -> bool {
                    if !m.arg(&cs, false) { return false; }
                    // tolerated liberality: extra argument characters after the first
                    loop { match m.peek() { Some('\\') => { if m.i + 1 < m.s.len() { m.i += 2; } else { return false; } } Some(':') | Some('|') | Some('}') | Some('{') | None => return true, Some(_) => m.i += 1 } }
                };
                if *d == PDir::Right && self.try_alt(&mut |m| m.lit(":") && pad_arg(m) && m.at_op_end()) { return true; }
                self.try_alt(&mut |m| m.lit(":") && pad_arg(m) && m.lit(":") && m.lit(ds) && m.at_op_end())
            }
            Op::RegexExtract(p, g) => {
                if !(self.lit("regex_extract:") && self.lit(p)) { return false; }
                match g { None => true, Some(g) => self.lit(":") && self.unum(*g as i128) }
            }
        }
    }
}

/// is `text` (without the outer braces) a documented spelling of the pipeline `ops`?
pub fn block_spelled_by(ops: &[Op], text: &str) -> bool {
    let cs: Vec<char> = text.chars().collect();
    let mut m = M { s: &cs, i: 0 };
    if m.peek() == Some('!') { m.i += 1; }
    for (k, o) in ops.iter().enumerate() {
        if k > 0 && !m.lit("|") { return false; }
        if !m.op(o, false) { return false; }
    }
    m.i == cs.len()
}

/// split a template text into literal / `${..}` text and `{..}` blocks the documented way
/// (escape-aware brace matching), then match each block against the parsed operations
pub fn template_spelled_by(secs: &[Section], text: &str) -> bool {
    let cs: Vec<char> = text.chars().collect();
    let mut i = 0;
    let mut lit = String::new();
    let mut k = 0;
    let flush = |lit: &mut String, k: &mut usize| -> bool {
        if lit.is_empty() { return true; }
        let ok = matches!(secs.get(*k), Some(Section::Lit(l)) if l == lit);
        *k += 1; lit.clear(); ok
    };
    while i < cs.len() {
        if cs[i] == '{' {
            let shell = lit.ends_with('$');
            let mut depth = 1; let mut j = i + 1; let mut esc = false;
            while j < cs.len() {
                if !shell && esc { esc = false; }
                else if !shell && cs[j] == '\\' { esc = true; }
                else if cs[j] == '{' { depth += 1; }
                else if cs[j] == '}' { depth -= 1; if depth == 0 { break; } }
                j += 1;
            }
            if j >= cs.len() { return false; }
            if shell { lit.extend(cs[i..=j].iter()); }
            else {
                if !flush(&mut lit, &mut k) { return false; }
                let body: String = cs[i + 1..j].iter().collect();
                match secs.get(k) { Some(Section::Sec(ops)) => if !block_spelled_by(ops, &body) { return false; }, _ => return false }
                k += 1;
            }
            i = j + 1;
        } else { lit.push(cs[i]); i += 1; }
    }
    flush(&mut lit, &mut k) && k == secs.len()
}
