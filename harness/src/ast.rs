//! The harness's own copy of the operation AST: what generators produce, what
//! gets printed as template text, what is sent to the model driver, and what the
//! real parser's output is converted to for structural comparison.
use string_pipeline::verif_hooks::{PadDirection, RangeSpec, SortDirection, StringOp, TrimDirection};

#[derive(Clone, Debug, PartialEq, Eq, Hash)]
pub enum Range {
    Index(i128),
    Range(Option<i128>, Option<i128>, bool),
}

#[derive(Clone, Copy, Debug, PartialEq, Eq, Hash)]
pub enum TDir { Both, Left, Right }
#[derive(Clone, Copy, Debug, PartialEq, Eq, Hash)]
pub enum SDir { Asc, Desc }
#[derive(Clone, Copy, Debug, PartialEq, Eq, Hash)]
pub enum PDir { Left, Right, Both }

#[derive(Clone, Debug, PartialEq, Eq, Hash)]
pub enum Op {
    Split(String, Range),
    Join(String),
    Replace(String, String, String),
    Upper,
    Lower,
    Trim(String, TDir),
    Substring(Range),
    Append(String),
    Prepend(String),
    Surround(String),
    StripAnsi,
    Filter(String),
    FilterNot(String),
    Slice(Range),
    Map(Vec<Op>),
    Sort(SDir),
    Reverse,
    Unique,
    Pad(u128, char, PDir),
    RegexExtract(String, Option<u128>),
}

impl Op {
    pub fn name(&self) -> &'static str {
        match self {
            Op::Split(..) => "split", Op::Join(..) => "join", Op::Replace(..) => "replace",
            Op::Upper => "upper", Op::Lower => "lower", Op::Trim(..) => "trim",
            Op::Substring(..) => "substring", Op::Append(..) => "append", Op::Prepend(..) => "prepend",
            Op::Surround(..) => "surround", Op::StripAnsi => "strip_ansi", Op::Filter(..) => "filter",
            Op::FilterNot(..) => "filter_not", Op::Slice(..) => "slice", Op::Map(..) => "map",
            Op::Sort(..) => "sort", Op::Reverse => "reverse", Op::Unique => "unique",
            Op::Pad(..) => "pad", Op::RegexExtract(..) => "regex_extract",
        }
    }
}

/* ---------- conversion from the real parser's output --------------------- */

pub fn range_from_real(r: &RangeSpec) -> Range {
    match r {
        RangeSpec::Index(i) => Range::Index(*i as i128),
        RangeSpec::Range(a, b, inc) => Range::Range(a.map(|x| x as i128), b.map(|x| x as i128), *inc),
    }
}

pub fn op_from_real(op: &StringOp) -> Op {
    match op {
        StringOp::Split { sep, range } => Op::Split(sep.clone(), range_from_real(range)),
        StringOp::Join { sep } => Op::Join(sep.clone()),
        StringOp::Replace { pattern, replacement, flags } => Op::Replace(pattern.clone(), replacement.clone(), flags.clone()),
        StringOp::Upper => Op::Upper,
        StringOp::Lower => Op::Lower,
        StringOp::Trim { chars, direction } => Op::Trim(chars.clone(), match direction {
            TrimDirection::Both => TDir::Both, TrimDirection::Left => TDir::Left, TrimDirection::Right => TDir::Right }),
        StringOp::Substring { range } => Op::Substring(range_from_real(range)),
        StringOp::Append { suffix } => Op::Append(suffix.clone()),
        StringOp::Prepend { prefix } => Op::Prepend(prefix.clone()),
        StringOp::Surround { text } => Op::Surround(text.clone()),
        StringOp::StripAnsi => Op::StripAnsi,
        StringOp::Filter { pattern } => Op::Filter(pattern.clone()),
        StringOp::FilterNot { pattern } => Op::FilterNot(pattern.clone()),
        StringOp::Slice { range } => Op::Slice(range_from_real(range)),
        StringOp::Map { operations } => Op::Map(operations.iter().map(op_from_real).collect()),
        StringOp::Sort { direction } => Op::Sort(match direction { SortDirection::Asc => SDir::Asc, SortDirection::Desc => SDir::Desc }),
        StringOp::Reverse => Op::Reverse,
        StringOp::Unique => Op::Unique,
        StringOp::Pad { width, char, direction } => Op::Pad(*width as u128, *char, match direction {
            PadDirection::Left => PDir::Left, PadDirection::Right => PDir::Right, PadDirection::Both => PDir::Both }),
        StringOp::RegexExtract { pattern, group } => Op::RegexExtract(pattern.clone(), group.map(|g| g as u128)),
    }
}

/* ---------- canonical printer (documented syntax) ------------------------- */

/// The documented escapes: `\:` `\|` `\{` `\}` `\\` and `\n` `\t` `\r`.
pub fn esc(s: &str) -> String {
    let mut o = String::new();
    for c in s.chars() {
        match c {
            ':' | '|' | '{' | '}' | '\\' => { o.push('\\'); o.push(c); }
            '\n' => o.push_str("\\n"),
            '\t' => o.push_str("\\t"),
            '\r' => o.push_str("\\r"),
            _ => o.push(c),
        }
    }
    o
}

pub fn print_range(r: &Range) -> String {
    match r {
        Range::Index(i) => i.to_string(),
        Range::Range(a, b, inc) => {
            let dots = if *inc { "..=" } else { ".." };
            format!("{}{}{}", a.map_or(String::new(), |x| x.to_string()), dots, b.map_or(String::new(), |x| x.to_string()))
        }
    }
}

pub fn print_op(op: &Op) -> String {
    match op {
        Op::Split(sep, r) => format!("split:{}:{}", esc(sep), print_range(r)),
        Op::Join(sep) => format!("join:{}", esc(sep)),
        Op::Replace(p, r, f) => format!("replace:s/{p}/{r}/{f}"),
        Op::Upper => "upper".into(),
        Op::Lower => "lower".into(),
        Op::Trim(chars, d) => {
            let ds = match d { TDir::Both => "both", TDir::Left => "left", TDir::Right => "right" };
            if chars.is_empty() { format!("trim:{ds}") } else { format!("trim:{}:{}", esc(chars), ds) }
        }
        Op::Substring(r) => format!("substring:{}", print_range(r)),
        Op::Append(s) => format!("append:{}", esc(s)),
        Op::Prepend(s) => format!("prepend:{}", esc(s)),
        Op::Surround(s) => format!("surround:{}", esc(s)),
        Op::StripAnsi => "strip_ansi".into(),
        Op::Filter(p) => format!("filter:{p}"),
        Op::FilterNot(p) => format!("filter_not:{p}"),
        Op::Slice(r) => format!("slice:{}", print_range(r)),
        Op::Map(body) => format!("map:{{{}}}", print_ops(body)),
        Op::Sort(d) => match d { SDir::Asc => "sort:asc".into(), SDir::Desc => "sort:desc".into() },
        Op::Reverse => "reverse".into(),
        Op::Unique => "unique".into(),
        Op::Pad(w, c, d) => {
            let ds = match d { PDir::Left => "left", PDir::Right => "right", PDir::Both => "both" };
            format!("pad:{}:{}:{}", w, esc(&c.to_string()), ds)
        }
        Op::RegexExtract(p, g) => match g { Some(g) => format!("regex_extract:{p}:{g}"), None => format!("regex_extract:{p}") },
    }
}

pub fn print_ops(ops: &[Op]) -> String {
    ops.iter().map(print_op).collect::<Vec<_>>().join("|")
}

pub fn print_block(ops: &[Op]) -> String {
    format!("{{{}}}", print_ops(ops))
}

/* ---------- wire format for the model driver ------------------------------ */

pub fn hex(s: &str) -> String {
    if s.is_empty() { return "_".into(); }
    s.chars().map(|c| format!("{:x}", c as u32)).collect::<Vec<_>>().join(".")
}
pub fn unhex(h: &str) -> String {
    if h == "_" { return String::new(); }
    h.split('.').map(|x| char::from_u32(u32::from_str_radix(x, 16).unwrap()).unwrap_or('\u{FFFD}')).collect()
}
/// like unhex but reports invalid scalar values instead of replacing them
pub fn unhex_checked(h: &str) -> Result<String, String> {
    if h == "_" { return Ok(String::new()); }
    let mut o = String::new();
    for x in h.split('.') {
        let v = u32::from_str_radix(x, 16).map_err(|e| e.to_string())?;
        o.push(char::from_u32(v).ok_or_else(|| format!("invalid scalar {v:x}"))?);
    }
    Ok(o)
}

pub fn wire_range(r: &Range) -> String {
    match r {
        Range::Index(i) => format!("i {i}"),
        Range::Range(a, b, inc) => format!("r {} {} {}",
            a.map_or("n".to_string(), |x| x.to_string()),
            b.map_or("n".to_string(), |x| x.to_string()),
            if *inc { 1 } else { 0 }),
    }
}

pub fn wire_op(op: &Op) -> String {
    match op {
        Op::Split(s, r) => format!("split {} {}", hex(s), wire_range(r)),
        Op::Join(s) => format!("join {}", hex(s)),
        Op::Replace(a, b, c) => format!("replace {} {} {}", hex(a), hex(b), hex(c)),
        Op::Upper => "upper".into(),
        Op::Lower => "lower".into(),
        Op::Trim(c, d) => format!("trim {} {}", hex(c), match d { TDir::Both => "b", TDir::Left => "l", TDir::Right => "r" }),
        Op::Substring(r) => format!("substring {}", wire_range(r)),
        Op::Append(s) => format!("append {}", hex(s)),
        Op::Prepend(s) => format!("prepend {}", hex(s)),
        Op::Surround(s) => format!("surround {}", hex(s)),
        Op::StripAnsi => "strip_ansi".into(),
        Op::Filter(p) => format!("filter {}", hex(p)),
        Op::FilterNot(p) => format!("filter_not {}", hex(p)),
        Op::Slice(r) => format!("slice {}", wire_range(r)),
        Op::Map(body) => format!("map {}", wire_ops(body)),
        Op::Sort(d) => format!("sort {}", match d { SDir::Asc => "a", SDir::Desc => "d" }),
        Op::Reverse => "reverse".into(),
        Op::Unique => "unique".into(),
        Op::Pad(w, c, d) => format!("pad {} {:x} {}", w, *c as u32, match d { PDir::Left => "l", PDir::Right => "r", PDir::Both => "b" }),
        Op::RegexExtract(p, g) => format!("regex_extract {} {}", hex(p), g.map_or("n".to_string(), |g| g.to_string())),
    }
}

pub fn wire_ops(ops: &[Op]) -> String {
    let mut s = ops.len().to_string();
    for o in ops { s.push(' '); s.push_str(&wire_op(o)); }
    s
}

pub fn wire_strlist(l: &[String]) -> String {
    let mut s = l.len().to_string();
    for x in l { s.push(' '); s.push_str(&hex(x)); }
    s
}
