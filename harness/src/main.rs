//! Correspondence harness: runs the real string_pipeline (built from /repo's
//! working tree with --features verif-hooks) and the extracted Coq model on the
//! same cases and reports where they differ.  One sub-command per property.
mod ast;
mod driver;
mod gens;
mod props;
mod real;
mod report;
mod rng;

use report::Report;
use rng::Rng;

pub struct Opts {
    pub prop: String,
    pub tier: String,
    pub seed: u64,
    pub driver: String,
    pub out: String,
    pub replay: Option<String>,
    pub threads: usize,
    pub corpus: String,
    pub cli_bin: String,
}

pub struct Ctx {
    pub rng: Rng,
    pub drv: driver::Driver,
    pub rep: Report,
    pub thorough: bool,
}

impl Opts {
    pub fn thorough(&self) -> bool { self.tier == "thorough" }
    /// number of cases for this tier
    pub fn cases(&self, quick: u64, thorough: u64) -> u64 { if self.thorough() { thorough } else { quick } }
}

/// Run `total` cases over worker threads; each worker has its own model driver
/// and an Rng forked deterministically from (seed, worker index).
pub fn run_parallel(opts: &Opts, prop: &str, rule: &str, total: u64,
                    f: &(dyn Fn(&mut Ctx, u64) + Sync)) -> Report {
    let nthreads = opts.threads.max(1);
    let mut merged = Report::new(prop, rule);
    std::thread::scope(|s| {
        let mut handles = Vec::new();
        for w in 0..nthreads {
            let per = total / nthreads as u64 + if (w as u64) < total % nthreads as u64 { 1 } else { 0 };
            let seed = opts.seed;
            let driver_path = opts.driver.clone();
            let thorough = opts.thorough();
            handles.push(s.spawn(move || {
                let mut master = Rng::new(seed ^ (w as u64).wrapping_mul(0xA24BAED4963EE407));
                let mut ctx = Ctx { rng: master.fork(), drv: driver::Driver::spawn(&driver_path), rep: Report::new(prop, rule), thorough };
                for i in 0..per {
                    if ctx.rep.full() { break; }
                    // strided global index: worker w handles w, w+n, w+2n, ...
                    let t0 = std::time::Instant::now();
                    let idx = w as u64 + i * nthreads as u64;
                    // a panic of the harness itself while it handles what the library returned (e.g. a String that is
                    // not valid UTF-8) is reported with the case that caused it instead of killing the run
                    let r = std::panic::catch_unwind(std::panic::AssertUnwindSafe(|| f(&mut ctx, idx)));
                    if r.is_err() {
                        let d = crate::real::CALL_DESC.lock().map(|d| d.clone()).unwrap_or_default();
                        ctx.rep.violation(format!("{prop}: the harness could not process what the library returned in case {idx} (last library call: {})", d.chars().take(300).collect::<String>()),
                            vec![("kind".into(), "property".into()), ("case".into(), idx.to_string()), ("last_call".into(), d), ("theorem".into(), "C16_valid_strings / C03".into())]);
                        ctx.drv = driver::Driver::spawn(&driver_path);
                    }
                    let dt = t0.elapsed().as_millis() as u64;
                    if dt > 1500 { ctx.rep.bump("slow_cases_over_1500ms"); if ctx.rep.notes.len() < 3 { ctx.rep.notes.push(format!("slow case index {} took {} ms", w as u64 + i * nthreads as u64, dt)); } }
                }
                ctx.rep.add("oracle_calls", ctx.drv.oracle_calls);
                ctx.rep
            }));
        }
        for h in handles {
            merged.merge(h.join().expect("worker panicked"));
        }
    });
    merged
}

fn main() {
    let args: Vec<String> = std::env::args().collect();
    if args.len() < 2 {
        eprintln!("usage: sp-harness <property> [--tier quick|thorough] [--seed N] --driver PATH --out FILE [--replay FILE]");
        std::process::exit(2);
    }
    let mut opts = Opts {
        prop: args[1].clone(), tier: "quick".into(), seed: 1, driver: String::new(), out: String::new(),
        replay: None, threads: 8, corpus: String::new(), cli_bin: String::new(),
    };
    let mut i = 2;
    while i < args.len() {
        let v = args.get(i + 1).cloned().unwrap_or_default();
        match args[i].as_str() {
            "--tier" => opts.tier = v,
            "--seed" => opts.seed = v.parse().unwrap_or(1),
            "--driver" => opts.driver = v,
            "--out" => opts.out = v,
            "--replay" => opts.replay = Some(v),
            "--threads" => opts.threads = v.parse().unwrap_or(8),
            "--corpus" => opts.corpus = v,
            "--cli-bin" => opts.cli_bin = v,
            other => { eprintln!("unknown option {other}"); std::process::exit(2); }
        }
        i += 2;
    }
    real::install_quiet_panic_hook();
    real::silence_stderr();
    real::start_watchdog(if opts.thorough() { 20_000 } else { 10_000 });
    let t0 = std::time::Instant::now();
    let rep = props::dispatch(&opts);
    let mut json = rep.to_json();
    json.pop();
    json.push_str(&format!(",\"wall_s\":{:.3},\"seed\":{},\"tier\":{}}}", t0.elapsed().as_secs_f64(), opts.seed, report::jstr(&opts.tier)));
    if opts.out.is_empty() { println!("{json}"); } else { std::fs::write(&opts.out, json).expect("write --out"); }
    println!("HARNESS property={} evaluations={} distinct={} violations={}", rep.property, rep.evaluations, rep.distinct.len(), rep.violations.len());
    for v in &rep.violations { println!("HARNESS-VIOLATION {}", v.what); }
}
