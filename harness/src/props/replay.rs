//! --replay FILE: re-run the single case recorded in a replay file (template + input,
//! optionally debug) against the implementation and both model layers.
use crate::ast::*;
use crate::driver::{parse_out, Driver, Out};
use crate::real;
use crate::report::Report;
use crate::Opts;

fn field(txt: &str, key: &str) -> Option<String> {
    // minimal JSON string-field reader (the replay files are written by tools/check with json.dump)
    let pat = format!("\"{}\": \"", key);
    let i = txt.find(&pat)? + pat.len();
    let mut out = String::new();
    let mut it = txt[i..].chars();
    while let Some(c) = it.next() {
        match c {
            '"' => return Some(out),
            '\\' => match it.next()? {
                'n' => out.push('\n'), 't' => out.push('\t'), 'r' => out.push('\r'), '"' => out.push('"'), '\\' => out.push('\\'), '/' => out.push('/'),
                'b' => out.push('\u{8}'), 'f' => out.push('\u{c}'),
                'u' => { let h: String = it.by_ref().take(4).collect(); let v = u32::from_str_radix(&h, 16).ok()?;
                         if (0xd800..0xdc00).contains(&v) { let _ = it.next(); let _ = it.next(); let h2: String = it.by_ref().take(4).collect(); let lo = u32::from_str_radix(&h2, 16).ok()?; out.push(char::from_u32(0x10000 + ((v - 0xd800) << 10) + (lo - 0xdc00))?); } else { out.push(char::from_u32(v)?); } }
                o => out.push(o),
            },
            c => out.push(c),
        }
    }
    None
}

pub fn run(opts: &Opts, file: &str) -> Report {
    let mut rep = Report::new(&opts.prop, "replay of one recorded case");
    let txt = match std::fs::read_to_string(file) { Ok(t) => t, Err(e) => { rep.violation(format!("cannot read replay file {file}: {e}"), vec![("kind".into(), "correspondence".into())]); return rep; } };
    let template = field(&txt, "template");
    let input = field(&txt, "input").unwrap_or_default();
    let dbg = field(&txt, "debug").map(|d| d == "true");
    rep.eval();
    match template {
        None => { rep.notes.push("replay file has no template field (a proof obligation or a non-template case): re-run the check itself".into()); rep.nontrivial(&0u8); rep.nontrivial(&1u8); }
        Some(t) => {
            let mut drv = Driver::spawn(&opts.driver);
            let real_out = match real::parse_with_debug(&t, dbg) { real::Parsed::Ok(tp) => real::format(&tp, &input), real::Parsed::Err(_) => Out::Err, real::Parsed::Panic => Out::Panic };
            let r = drv.request(&format!("PARSEFORMAT {} {} {}", match dbg { None => "n", Some(true) => "1", Some(false) => "0" }, hex(&t), hex(&input)));
            let toks: Vec<&str> = r.iter().map(|s| s.as_str()).collect();
            let (mi, n) = parse_out(&toks); let (ms, _) = parse_out(&toks[n + 1..]);
            println!("REPLAY template={t:?} input={input:?} debug={dbg:?}");
            println!("REPLAY implementation: {}", real_out.show());
            println!("REPLAY model (Impl):   {}", mi.show());
            println!("REPLAY model (Spec):   {}", ms.show());
            rep.sample(format!("{t:?} on {input:?}: implementation {} / Spec {}", real_out.show(), ms.show()));
            rep.nontrivial(&0u8); rep.nontrivial(&1u8);
            if real_out != ms {
                rep.violation(format!("{}: replay: format({t:?}, {input:?}) = {} but the documented semantics gives {}", opts.prop, real_out.show(), ms.show()),
                    vec![("kind".into(), "property".into()), ("template".into(), t), ("input".into(), input), ("observed".into(), real_out.show()), ("expected".into(), ms.show())]);
            }
        }
    }
    rep
}
