use crate::report::Report;
use crate::Opts;

pub mod common;
pub mod c06;

pub fn dispatch(opts: &Opts) -> Report {
    match opts.prop.as_str() {
        "C06" => c06::run(opts),
        other => { eprintln!("no harness routine for {other}"); std::process::exit(2); }
    }
}
