use crate::report::Report;
use crate::Opts;

pub mod common;
pub mod c06;
pub mod pipes;
pub mod parsing;
pub mod templates;
pub mod cli;
pub mod replay;

pub fn dispatch(opts: &Opts) -> Report {
    if let Some(f) = &opts.replay { return replay::run(opts, f); }
    match opts.prop.as_str() {
        "C06" => c06::run(opts),
        "C02" => parsing::c02(opts),
        "C03" => parsing::c03(opts),
        "C11" => parsing::c11(opts),
        "C12" => parsing::c12(opts),
        "C04" => templates::c04(opts),
        "C05" => templates::c05(opts),
        "C10" => templates::c10(opts),
        "C17" => templates::c17(opts),
        "C18" => templates::c18(opts),
        "C19" => templates::c19(opts),
        "C20" => templates::c20(opts),
        "C13" => cli::c13(opts),
        "C01" => pipes::c01(opts),
        "C07" => pipes::c07(opts),
        "C08" => pipes::c08(opts),
        "C09" => pipes::c09(opts),
        "C14" => pipes::c14(opts),
        "C15" => pipes::c15(opts),
        "C16" => pipes::c16(opts),
        other => { eprintln!("no harness routine for {other}"); std::process::exit(2); }
    }
}
