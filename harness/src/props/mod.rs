use crate::report::Report;
use crate::Opts;

pub mod common;
pub mod c06;
pub mod pipes;

pub fn dispatch(opts: &Opts) -> Report {
    match opts.prop.as_str() {
        "C06" => c06::run(opts),
        "C01" => pipes::c01(opts),
        "C07" => pipes::c07(opts),
        "C08" => pipes::c08(opts),
        "C09" => pipes::c09(opts),
        "C14" => pipes::c14(opts),
        "C15" => pipes::c15(opts),
        "C16" => pipes::c16(opts),
        other => { eprintln!("no harness routine for {other}"); std::process::exit(2); }
    }
}
