//! Properties about the template language: C02 (fidelity, all spellings),
//! C03 (totality), C11 (escapes), C12 (rejection of ill-formed text).
use super::common::*;
use crate::ast::*;
use crate::driver::Out;
use crate::gens;
use crate::real;
use crate::report::Report;
use crate::rng::Rng;
use crate::{run_parallel, Ctx, Opts};

fn viol(ctx: &mut Ctx, kind: &str, what: String, kv: Vec<(&str, String)>) {
    let mut r: Vec<(String, String)> = vec![("kind".into(), kind.into())];
    r.extend(kv.into_iter().map(|(k, v)| (k.to_string(), v)));
    ctx.rep.violation(what, r);
}

/// outcome of the real parser as the model driver prints it
pub fn real_parse_wire(t: &str, dbg: Option<Option<bool>>) -> String {
    let p = match dbg { None => real::parse(t), Some(d) => real::parse_with_debug(t, d) };
    match p {
        real::Parsed::Ok(tpl) => format!("ok {}", wire_template(tpl.is_debug(), &sections_from_real(&tpl))),
        real::Parsed::Err(_) => "err".into(),
        real::Parsed::Panic => "panic".into(),
    }
}
pub fn model_parse_wire(ctx: &mut Ctx, t: &str, dbg: Option<Option<bool>>) -> String {
    let r = match dbg {
        None => ctx.drv.request(&format!("PARSE {}", hex(t))),
        Some(d) => ctx.drv.request(&format!("PARSEDBG {} {}", match d { None => "n", Some(true) => "1", Some(false) => "0" }, hex(t))),
    };
    r.join(" ")
}

/// compare real parser and model parser on one string; true if they agree
pub fn parse_agree(ctx: &mut Ctx, pid: &str, t: &str) -> (bool, String) {
    let r = real_parse_wire(t, None);
    let m = model_parse_wire(ctx, t, None);
    if r != m {
        let kind = if r == "panic" { "property" } else { "correspondence" };
        viol(ctx, kind, format!("{pid}: Template::parse({t:?}) gives [{r}] but the model parser gives [{m}]"),
             vec![("template", t.to_string()), ("observed", r.clone()), ("model", m), ("theorem", "parser correspondence (Peg + Convert + Scanner)".into())]);
        return (false, r);
    }
    (true, r)
}

/* ---------- re-spelling -------------------------------------------------------- */
fn respell_num(rng: &mut Rng, v: i128) -> String {
    let z = match rng.below(5) { 0 => "0", 1 => "00", _ => "" };
    if v < 0 { format!("-{}{}", z, -v) } else if v == 0 && rng.chance(1, 4) { "-0".into() } else { format!("{}{}", z, v) }
}
fn respell_range(rng: &mut Rng, r: &Range) -> String {
    match r {
        Range::Index(i) => respell_num(rng, *i),
        Range::Range(a, b, inc) => format!("{}{}{}", a.map_or(String::new(), |x| respell_num(rng, x)), if *inc { "..=" } else { ".." }, b.map_or(String::new(), |x| respell_num(rng, x))),
    }
}
fn respell_arg(rng: &mut Rng, s: &str) -> String {
    let mut o = String::new();
    for c in s.chars() {
        match c {
            ':' | '|' | '{' | '}' | '\\' => { o.push('\\'); o.push(c); }
            '\n' => o.push_str("\\n"), '\t' => o.push_str("\\t"), '\r' => o.push_str("\\r"),
            'n' | 't' | 'r' => o.push(c),
            _ => { if rng.chance(1, 6) { o.push('\\'); } o.push(c); }   // "any other \X is literal X"
        }
    }
    o
}
fn respell_op(rng: &mut Rng, op: &Op, in_map: bool, first: bool) -> String {
    match op {
        Op::Split(sep, r) => {
            // the shorthand is documented as the whole block / its first operation ({1}, {1..3}); after a
            // raw regex argument `|1` would be read as part of the pattern, so it is only used in first position
            if !in_map && first && sep == " " && rng.chance(1, 2) { return respell_range(rng, r); }
            format!("split:{}:{}", respell_arg(rng, sep), respell_range(rng, r))
        }
        Op::Join(s) => format!("join:{}", respell_arg(rng, s)),
        Op::Trim(chars, d) => {
            let ds = match d { TDir::Both => "both", TDir::Left => "left", TDir::Right => "right" };
            if chars.is_empty() { return if *d == TDir::Both && rng.chance(1, 2) { "trim".into() } else { format!("trim:{ds}") }; }
            let a = respell_arg(rng, chars);
            if *d == TDir::Both && !matches!(a.as_str(), "left" | "right" | "both") && rng.chance(1, 2) { format!("trim:{a}") } else { format!("trim:{a}:{ds}") }
        }
        Op::Substring(r) => format!("substring:{}", respell_range(rng, r)),
        Op::Slice(r) => format!("slice:{}", respell_range(rng, r)),
        Op::Append(s) => format!("append:{}", respell_arg(rng, s)),
        Op::Prepend(s) => format!("prepend:{}", respell_arg(rng, s)),
        Op::Surround(s) => format!("{}:{}", if rng.chance(1, 2) { "quote" } else { "surround" }, respell_arg(rng, s)),
        Op::Sort(SDir::Asc) => if rng.chance(1, 2) { "sort".into() } else { "sort:asc".into() },
        Op::Pad(w, c, d) => {
            let ws = respell_num(rng, *w as i128).replace("-0", "0");
            let ca = respell_arg(rng, &c.to_string());
            match (c, d) {
                (' ', PDir::Right) if rng.chance(1, 2) => format!("pad:{ws}"),
                (_, PDir::Right) if rng.chance(1, 2) => format!("pad:{ws}:{ca}"),
                _ => format!("pad:{ws}:{ca}:{}", match d { PDir::Left => "left", PDir::Right => "right", PDir::Both => "both" }),
            }
        }
        Op::RegexExtract(p, Some(g)) => format!("regex_extract:{p}:{}", respell_num(rng, *g as i128).replace("-0", "0")),
        Op::Map(body) => format!("map:{{{}}}", body.iter().map(|o| respell_op(rng, o, true, false)).collect::<Vec<_>>().join("|")),
        other => print_op(other),
    }
}
pub fn respell_block(rng: &mut Rng, ops: &[Op], dbg: bool) -> String {
    let body = ops.iter().enumerate().map(|(k, o)| respell_op(rng, o, false, k == 0)).collect::<Vec<_>>().join("|");
    format!("{{{}{}}}", if dbg { "!" } else { "" }, body)
}

/// a pipeline whose raw regex / sed texts are writable in the documented syntax
pub fn wf_pipeline(rng: &mut Rng, max_len: usize) -> Vec<Op> {
    loop {
        let ops = gens::pipeline(rng, max_len);
        if ops_raw_ok(&ops) { return ops; }
    }
}
pub fn ops_raw_ok(ops: &[Op]) -> bool {
    ops.iter().all(|o| match o {
        Op::Filter(p) | Op::FilterNot(p) | Op::RegexExtract(p, _) => gens::raw_ok(p, false),
        Op::Replace(p, r, _) => gens::raw_ok(p, true) && gens::raw_ok(r, true) && !p.is_empty(),
        Op::Map(b) => !b.is_empty() && ops_raw_ok(b),
        _ => true,
    })
}

/* ---------- C02 ------------------------------------------------------------------ */
pub fn c02(opts: &Opts) -> Report {
    run_parallel(opts, "C02",
        "random well-formed pipelines (all operations, every range form / direction / flag subset, arguments over the full Unicode range with specials) printed canonically AND in a random equivalent spelling (shorthand, quote, defaults omitted, leading zeros, -0, redundant escapes, map-split without range); the real parser must return exactly the generating pipeline, and the model parser the same; non-trivial when some argument needs an escape or a non-default field; distinct by (pipeline, spelling)",
        opts.cases(5_000, 200_000), &|ctx, i| {
            let mut ops = wf_pipeline(&mut ctx.rng, 6);
            if ctx.rng.chance(1, 5) { // arguments over the whole Unicode range
                let a = gens::unicode_text(&mut ctx.rng, 6);
                ops.push(match ctx.rng.below(4) { 0 => Op::Append(a), 1 => Op::Join(a), 2 => Op::Split(a, gens::range(&mut ctx.rng)), _ => Op::Trim(a, gens::tdir(&mut ctx.rng)) });
            }
            let dbg = ctx.rng.chance(1, 10);
            for variant in 0..2 {
                let text = if variant == 0 { if dbg { format!("{{!{}}}", print_ops(&ops)) } else { print_block(&ops) } } else { respell_block(&mut ctx.rng, &ops, dbg) };
                ctx.rep.eval();
                let nontriv = text.contains('\\') || text.contains("..") || ops.iter().any(|o| matches!(o, Op::Map(_) | Op::Pad(..) | Op::Replace(..)));
                if nontriv { ctx.rep.nontrivial(&(text.clone(), variant)); }
                ctx.rep.bump(if variant == 0 { "canonical" } else { "respelled" });
                if !block_spelled_by(&ops, &text[1..text.len() - 1]) {
                    ctx.rep.bump("matcher_rejects_own_spelling"); // harness self-check
                    viol(ctx, "correspondence", format!("C02: harness matcher rejects its own spelling {text:?} of {ops:?}"), vec![("template", text.clone())]);
                    return;
                }
                match real::parse(&text) {
                    real::Parsed::Ok(tpl) => {
                        let secs = sections_from_real(&tpl);
                        if secs != vec![Section::Sec(ops.clone())] || tpl.is_debug() != dbg {
                            viol(ctx, "property", format!("C02: {text:?} is understood as {secs:?} (debug {}) instead of {ops:?} (debug {dbg})", tpl.is_debug()),
                                 vec![("template", text.clone()), ("expected_ops", format!("{ops:?}")), ("observed", format!("{secs:?}")), ("theorem", "C02_all_spellings".into())]);
                            return;
                        }
                    }
                    real::Parsed::Err(e) => {
                        viol(ctx, "property", format!("C02: documented spelling {text:?} of {ops:?} is rejected: {e}"),
                             vec![("template", text.clone()), ("expected_ops", format!("{ops:?}")), ("observed", format!("Err({e})")), ("theorem", "C02_all_spellings".into())]);
                        return;
                    }
                    real::Parsed::Panic => {
                        viol(ctx, "property", format!("C02: parsing {text:?} panics"), vec![("template", text.clone()), ("observed", "Panic".into()), ("theorem", "C03_parse_total".into())]);
                        return;
                    }
                }
                if !parse_agree(ctx, "C02", &text).0 { return; }
                if i < 2 { ctx.rep.sample(format!("{text} => {ops:?}")); }
            }
            // the canonical printer of the MODEL (Model/Syntax.v print_block, the subject of C02_canonical_printer_roundtrip
            // and C02_every_spelling_roundtrip): its text, given to the real parser, must come back as these operations
            {
                let r = ctx.drv.request(&format!("PRINT {}", wire_ops(&ops)));
                if r.len() >= 2 && r[0] == "1" {
                    let text = unhex(&r[1]);
                    ctx.rep.eval(); ctx.rep.bump("model_printer_texts");
                    let ok = match real::parse(&text) { real::Parsed::Ok(tpl) => sections_from_real(&tpl) == vec![Section::Sec(ops.clone())] && !tpl.is_debug(), _ => false };
                    if !ok {
                        viol(ctx, "property", format!("C02: the model printer writes {ops:?} as {text:?}, which the parser does not read back as those operations"),
                             vec![("template", text.clone()), ("expected_ops", format!("{ops:?}")), ("theorem", "C02_canonical_printer_roundtrip".into())]);
                        return;
                    }
                    if !parse_agree(ctx, "C02", &text).0 { return; }
                } else { ctx.rep.bump("not_in_printable_fragment"); }
            }
            // the meaning depends on the text only: two blocks in one template that differ in the letter case of one
            // argument / in one replace flag are two different pipelines, and each means what it says
            if i % 4 == 3 && !dbg {
                if let Some(ops2) = super::templates::tweak_case_or_flag(&ops) {
                    let text = format!("{} {}", print_block(&ops), print_block(&ops2));
                    let x = gens::input_for(&mut ctx.rng, &ops);
                    let whole = real::parse_format(&text, &x);
                    let parts = match (real::parse_format(&print_block(&ops), &x), real::parse_format(&print_block(&ops2), &x)) { (Out::Ok(a), Out::Ok(b)) => Out::Ok(format!("{a} {b}")), _ => Out::Err };
                    ctx.rep.eval(); ctx.rep.bump("near_duplicate_blocks");
                    if whole != parts {
                        viol(ctx, "property", format!("C02: format({text:?}, {x:?}) = {} but its two blocks, each formatted alone, give {}", whole.show(), parts.show()),
                             vec![("template", text.clone()), ("input", x.clone()), ("observed", whole.show()), ("expected", parts.show()), ("theorem", "C02_printed_text_means_its_operations".into())]);
                        return;
                    }
                }
            }
            // the same block embedded in a mixed template: after literal text, and directly after a ${...} group
            if i % 4 == 1 && !dbg {
                let b = print_block(&ops);
                let var = *ctx.rng.pick(&["HOME", "a", "DIR:-${HOME}/x"]);
                let (text, expect) = if i % 8 == 5 {
                    // a mixed template whose block never closes is refused first, on this thread, and must leave nothing behind
                    for bad in ["id: {split:,:1|", "v={append:\\}", "${x {upper", "a{map:{upper}"] { let _ = real::parse(bad); }
                    ctx.rep.bump("after_refused_template");
                    (format!("id: {b}"), vec![Section::Lit("id: ".into()), Section::Sec(ops.clone())])
                } else if ctx.rng.chance(1, 2) {
                    (format!("${{{var}}}{b}"), vec![Section::Lit(format!("${{{var}}}")), Section::Sec(ops.clone())])
                } else {
                    (format!("${{{var}}}{b}{b}.bak"), vec![Section::Lit(format!("${{{var}}}")), Section::Sec(ops.clone()), Section::Sec(ops.clone()), Section::Lit(".bak".into())])
                };
                ctx.rep.eval(); ctx.rep.bump("after_shell_variable");
                match real::parse(&text) {
                    real::Parsed::Ok(tpl) => {
                        let secs = sections_from_real(&tpl);
                        if secs != expect {
                            viol(ctx, "property", format!("C02: {text:?} is understood as {secs:?} instead of {expect:?}"),
                                 vec![("template", text.clone()), ("expected", format!("{expect:?}")), ("observed", format!("{secs:?}")), ("theorem", "C02_all_spellings".into())]);
                            return;
                        }
                    }
                    real::Parsed::Err(e) => { viol(ctx, "property", format!("C02: {text:?} is rejected: {e}"), vec![("template", text.clone()), ("observed", format!("Err({e})")), ("theorem", "C02_all_spellings".into())]); return; }
                    real::Parsed::Panic => { viol(ctx, "property", format!("C02: parsing {text:?} panics"), vec![("template", text.clone()), ("observed", "Panic".into()), ("theorem", "C03_parse_total".into())]); return; }
                }
                if !parse_agree(ctx, "C02", &text).0 { return; }
            }
        })
}

/* ---------- C11 ------------------------------------------------------------------ */
pub fn c11(opts: &Opts) -> Report {
    run_parallel(opts, "C11",
        "argument strings over the full Unicode range biased to backslashes, unbalanced braces, colons, pipes, newlines and multi-byte characters x the argument-taking operations (append, prepend, surround, quote, join, split, trim, pad) x top level and map body; the user-level identity is evaluated on the implementation and the parsed structure is compared with the model; distinct by (operation, context, argument)",
        opts.cases(5_000, 300_000), &|ctx, i| {
            let s: String = match ctx.rng.below(5) {
                // texts whose escaped spelling puts an escaped special right before something a look-ahead of the grammar tests
                4 => { let a = *ctx.rng.pick(&[":1", ":..", ":-2", "|upper", "|sort", "}|x", "\\}", "a:0b", "é:42", "::3", "|", ":", "\\:1", "{:..}",
                        // the two-character TEXTS backslash + n / t / r / : / | (not the control characters)
                        "\\n", "\\t", "\\r", "\\:", "\\|", "\\\\",
                        // texts that look like character ranges
                        "a-c", "x-z", "1-3", "α-ω", "a-", "-z"]); if ctx.rng.chance(1, 2) { a.to_string() } else { format!("{}{}", gens::word(&mut ctx.rng), a) } }
                0 => gens::unicode_text(&mut ctx.rng, 8),
                1 => { let n = 1 + ctx.rng.below(5); (0..n).map(|_| *ctx.rng.pick(&['\\', '{', '}', ':', '|', '\n', '\t', '\r', 'n', 't', 'é', '😀', '/', ' '])).collect() }
                _ => gens::simple_arg(&mut ctx.rng),
            };
            let e = esc(&s);
            let x = if ctx.rng.chance(1, 2) { "x".to_string() } else { gens::word(&mut ctx.rng) };
            let which = ctx.rng.below(8);
            let in_map = ctx.rng.chance(1, 2);
            // three contexts: a single block, inside a map body, and a block embedded between literals (the
            // multi-template scanner instead of the single-block shortcut)
            let mixed = !in_map && ctx.rng.chance(1, 3);
            let wrap = |inner: String| if in_map { format!("{{split:\\n:..|map:{{{inner}}}}}") } else if mixed { format!("<{{{inner}}}>") } else { format!("{{{inner}}}") };
            // (template, expected result on x, expected op)
            let (text, expected, op): (String, Option<String>, Op) = match which {
                0 => (wrap(format!("append:{e}")), Some(format!("{x}{s}")), Op::Append(s.clone())),
                1 => (wrap(format!("prepend:{e}")), Some(format!("{s}{x}")), Op::Prepend(s.clone())),
                2 => (wrap(format!("surround:{e}")), Some(format!("{s}{x}{s}")), Op::Surround(s.clone())),
                3 => (wrap(format!("quote:{e}")), Some(format!("{s}{x}{s}")), Op::Surround(s.clone())),
                4 => (wrap(format!("split:,:..|join:{e}")), None, Op::Join(s.clone())),
                5 => (wrap(format!("split:{e}:..|join:,")), None, Op::Split(s.clone(), Range::Range(None, None, false))),
                6 => (wrap(format!("trim:{e}:both")), None, Op::Trim(s.clone(), TDir::Both)),   // user-level identity checked below
                _ => { let c = s.chars().next().unwrap_or(' ');
                       let (d, dn) = *ctx.rng.pick(&[(PDir::Left, "left"), (PDir::Right, "right"), (PDir::Both, "both")]);
                       let w = x.chars().count() + 1 + ctx.rng.below(6);
                       let need = w - x.chars().count();
                       let (l, r) = match d { PDir::Left => (need, 0), PDir::Right => (0, need), PDir::Both => (need / 2, need - need / 2) };
                       (wrap(format!("pad:{w}:{}:{dn}", esc(&c.to_string()))), Some(format!("{}{}{}", c.to_string().repeat(l), x, c.to_string().repeat(r))), Op::Pad(w as u128, c, d)) }
            };
            if x.contains('\n') && in_map { return; }
            ctx.rep.eval();
            ctx.rep.nontrivial(&(which, in_map, s.clone()));
            ctx.rep.bump(&format!("op_{}_{}", op.name(), if in_map { "map" } else { "top" }));
            ctx.rep.bump(if s.is_ascii() { "arg_ascii" } else { "arg_non_ascii" });
            // 0b. tracing on: the argument reaches the operation all the same (values of 41+ bytes in at most 40 characters included)
            if i % 5 == 2 && !in_map {
                let long: String = match (i / 5) % 3 { 0 => "ж".repeat(21), 1 => "→".repeat(14), _ => format!("{}{}", "a".repeat(35), "é".repeat(4)) };
                for (arg, xx) in [(s.clone(), x.clone()), (long.clone(), "x".to_string()), (s.clone(), long.clone())] {
                    let ea = esc(&arg);
                    for (kw, want) in [("append", format!("{xx}{arg}")), ("prepend", format!("{arg}{xx}")), ("surround", format!("{arg}{xx}{arg}"))] {
                        let got = real::parse_format(&format!("{{!{kw}:{ea}}}"), &xx);
                        ctx.rep.bump("traced_arguments");
                        if got != Out::Ok(want.clone()) {
                            viol(ctx, "property", format!("C11: with tracing on, format(\"{{!{kw}:{ea}}}\", {xx:?}) = {} but the argument applied to the input gives {want:?}", got.show()),
                                 vec![("template", format!("{{!{kw}:{ea}}}")), ("input", xx.clone()), ("observed", got.show()), ("expected", want), ("theorem", "C11_arguments_reach_the_operation / C10_transparent".into())]);
                            return;
                        }
                    }
                }
            }
            // 0a. the same operation twice in a row with two different arguments: each acts in its place
            if i % 9 == 4 && !x.contains('\n') {
                let s2: String = if ctx.rng.chance(1, 2) { gens::simple_arg(&mut ctx.rng) } else { format!("{}é", gens::word(&mut ctx.rng)) };
                let e2 = esc(&s2);
                for (kw, want) in [("prepend", format!("{s2}{s}{x}")), ("append", format!("{x}{s}{s2}")), ("surround", format!("{s2}{s}{x}{s}{s2}"))] {
                    let want = if mixed { format!("<{want}>") } else { want };
                    let t2 = wrap(format!("{kw}:{e}|{kw}:{e2}"));
                    let got = real::parse_format(&t2, &x);
                    ctx.rep.bump("same_operation_twice");
                    if got != Out::Ok(want.clone()) {
                        viol(ctx, "property", format!("C11: format({t2:?}, {x:?}) = {} but the two arguments, applied one after the other, give {want:?}", got.show()),
                             vec![("template", t2), ("input", x.clone()), ("observed", got.show()), ("expected", want), ("theorem", "C11_arguments_reach_the_operation".into())]);
                        return;
                    }
                }
            }
            // 0. the section next to a near-duplicate of itself (one letter case changed) in one template
            if !in_map && !mixed && i % 3 == 1 {
                let op1 = vec![op.clone()];
                let xx = if matches!(op, Op::Join(_) | Op::Split(..)) { "a,b" } else { x.as_str() };
                let ops_nd: Vec<Op> = match &op { Op::Join(_) => vec![Op::Split(",".into(), Range::Range(None, None, false)), op.clone()], _ => op1 };
                ctx.rep.bump("near_duplicate_section_templates");
                if let Some((t3, whole, parts)) = super::templates::near_duplicate_sections_disagree(&ops_nd, xx) {
                    viol(ctx, "property", format!("C11: format({t3:?}, {xx:?}) = {} but its sections, each formatted alone, give {}", whole.show(), parts.show()),
                         vec![("template", t3), ("input", xx.to_string()), ("observed", whole.show()), ("expected", parts.show()), ("theorem", "C11_arguments_reach_the_operation / C04_compose".into())]);
                    return;
                }
            }
            // 1. structure
            match real::parse(&text) {
                real::Parsed::Ok(tpl) => {
                    let secs = sections_from_real(&tpl);
                    let only_sec: Vec<&Section> = secs.iter().filter(|s| matches!(s, Section::Sec(_))).collect();
                    let found = match only_sec.as_slice() { [Section::Sec(ops)] => {
                        let body: Vec<Op> = if in_map { match ops.get(1) { Some(Op::Map(b)) => b.clone(), _ => vec![] } } else { ops.clone() };
                        body.contains(&op)
                    } _ => false };
                    if !found {
                        viol(ctx, "property", format!("C11: {text:?}: the argument {s:?} does not reach the operation as written; parsed {secs:?}"),
                             vec![("template", text.clone()), ("argument", s.clone()), ("observed", format!("{secs:?}")), ("theorem", "C11_escape_roundtrip".into())]);
                        return;
                    }
                    // 2. the user-level identity
                    if let Some(exp0) = &expected {
                        let exp = &(if mixed { format!("<{exp0}>") } else { exp0.clone() });
                        let got = real::format(&tpl, &x);
                        if got != Out::Ok(exp.clone()) {
                            viol(ctx, "property", format!("C11: format({text:?}, {x:?}) = {} but the argument is {s:?}, expected {exp:?}", got.show()),
                                 vec![("template", text.clone()), ("input", x.clone()), ("observed", got.show()), ("expected", format!("{exp:?}")), ("theorem", "C11_escape_roundtrip".into())]);
                            return;
                        }
                    }
                }
                real::Parsed::Err(e2) => {
                    viol(ctx, "property", format!("C11: {text:?} (argument {s:?} written with the documented escapes) is rejected: {e2}"),
                         vec![("template", text.clone()), ("argument", s.clone()), ("observed", format!("Err({e2})")), ("theorem", "C11_escape_roundtrip".into())]);
                    return;
                }
                real::Parsed::Panic => { viol(ctx, "property", format!("C11: parsing {text:?} panics"), vec![("template", text.clone()), ("theorem", "C03_parse_total".into())]); return; }
            }
            if !parse_agree(ctx, "C11", &text).0 { return; }
            // trim: every character of the argument is in the set, exactly as written (white space at the edges of the
            // argument included): s ++ core ++ s trims to core when core shares no character with s
            if which == 6 && !s.trim().is_empty() && !in_map {
                let core = if s.chars().any(|c| "0core0".contains(c)) { "QWQ" } else { "0core0" };
                if !s.chars().any(|c| core.contains(c)) {
                    let xin = format!("{s}{core}{s}");
                    let want = if mixed { format!("<{core}>") } else { core.to_string() };
                    let got = real::parse_format(&text, &xin);
                    if got != Out::Ok(want.clone()) {
                        viol(ctx, "property", format!("C11: format({text:?}, {xin:?}) = {} but every character of the argument {s:?} is in the trim set: expected {want:?}", got.show()),
                             vec![("template", text.clone()), ("input", xin), ("observed", got.show()), ("expected", format!("{want:?}")), ("theorem", "C11_escape_roundtrip".into())]);
                        return;
                    }
                    ctx.rep.bump("trim_user_level_checks");
                }
            }
            // split: the list a split leaves at the end of a pipeline is rendered with exactly the separator written
            if which == 5 && !in_map && !s.is_empty() {
                let t2 = if mixed { format!("<{{split:{e}:..|slice:..}}>") } else { format!("{{split:{e}:..|slice:..}}") };
                let xin = format!("a{s}b{s}c");
                let want = if mixed { format!("<{xin}>") } else { xin.clone() };
                let got = real::parse_format(&t2, &xin);
                if got != Out::Ok(want.clone()) {
                    viol(ctx, "property", format!("C11: format({t2:?}, {xin:?}) = {} but the separator {s:?} is the text written: expected {want:?}", got.show()),
                         vec![("template", t2), ("input", xin), ("observed", got.show()), ("expected", format!("{want:?}")), ("theorem", "C11_escape_roundtrip".into())]);
                    return;
                }
                ctx.rep.bump("split_render_checks");
            }
            if i < 3 { ctx.rep.sample(format!("{text} with argument {s:?}")); }
        })
}

/* ---------- malformed streams ---------------------------------------------------- */
pub const TOKENS: &[&str] = &[
    "{", "}", "|", ":", "\\", "!", "..", "=", "-", "0", "1", "9", "a", "x", " ", ",",
    "split", "join", "upper", "trim", "map", "filter", "sort", "pad", "replace", "slice", "substring", "regex_extract", "append", "unique",
    "left", "desc", "s/", "/", "+", "#", "^", "*", "?", ";", "$",
];

fn corrupt(rng: &mut Rng, s: &str) -> String {
    let cs: Vec<char> = s.chars().collect();
    let mut out = cs.clone();
    let pos = rng.below(cs.len() + 1);
    let tok: Vec<char> = rng.pick(TOKENS).chars().collect();
    match rng.below(4) {
        0 => { if pos < out.len() { out.remove(pos); } }
        1 => { for (k, c) in tok.iter().enumerate() { out.insert((pos + k).min(out.len()), *c); } }
        2 => { if pos < out.len() { out[pos] = tok[0]; } }
        _ => { if pos + 1 < out.len() { out.swap(pos, pos + 1); } }
    }
    out.into_iter().collect()
}

fn numeric_extreme(rng: &mut Rng) -> String {
    let digits = 1 + rng.below(25);
    let mut n: String = (0..digits).map(|_| char::from(b'0' + rng.below(10) as u8)).collect();
    if rng.chance(1, 3) { n = "9".repeat(digits); }
    if rng.chance(1, 3) { n = match rng.below(4) { 0 => "9223372036854775807".into(), 1 => "9223372036854775808".into(), 2 => "18446744073709551615".into(), _ => "18446744073709551616".into() }; }
    let neg = if rng.chance(1, 3) { "-" } else { "" };
    // a sign in front of zero: a number for an index, not for a width or a group
    if rng.chance(1, 8) { n = rng.pick(&["0", "00", "000"]).to_string(); }
    match rng.below(9) {
        0 => format!("{{{neg}{n}}}"),
        1 => format!("{{{neg}{n}..}}"),
        2 => format!("{{..={neg}{n}}}"),
        3 => format!("{{split:,:{neg}{n}}}"),
        4 => format!("{{split:,:{neg}{n}..{neg}{n}}}"),
        5 => format!("{{substring:{neg}{n}}}"),
        6 => format!("{{pad:{neg}{n}}}"),
        7 => format!("{{regex_extract:a(b):{neg}{n}}}"),
        _ => format!("{{split:,:..|slice:{neg}{n}..={n}|map:{{substring:{neg}{n}}}}}"),
    }
}

/// k-th string over the token alphabet (all strings of 1..=max tokens, in order)
pub fn token_string(mut k: u64, max: u32) -> Option<String> {
    let n = TOKENS.len() as u64;
    let mut d = 1u32; let mut block = n;
    loop { if d > max { return None; } if k < block { break; } k -= block; d += 1; block = n.pow(d); }
    let mut s = String::new();
    for _ in 0..d { s.push_str(TOKENS[(k % n) as usize]); k /= n; }
    Some(s)
}
pub fn token_total(max: u32) -> u64 { (1..=max).map(|d| (TOKENS.len() as u64).pow(d)).sum() }

/* ---------- C12 ------------------------------------------------------------------ */
/// the property's own predicate on one string: accepted => every character is
/// accounted for by the parsed structure (documented spellings + tolerated band)
fn c12_predicate(ctx: &mut Ctx, t: &str) -> bool {
    // a parse that fails half-way through a mixed template, right before the parse under test
    if t.len() % 7 == 3 { let _ = real::parse("id: {split:,:1|"); let _ = real::parse("${x {upper"); }
    match real::parse(t) {
        real::Parsed::Ok(tpl) => {
            let secs = sections_from_real(&tpl);
            if !template_spelled_by(&secs, t) {
                viol(ctx, "property", format!("C12: {t:?} is accepted as {secs:?}, which does not account for all of the text"),
                     vec![("template", t.to_string()), ("observed", format!("{secs:?}")), ("theorem", "C12_accepted_text_is_accounted_for".into())]);
                return false;
            }
            ctx.rep.bump("accepted");
            true
        }
        real::Parsed::Err(_) => { ctx.rep.bump("rejected"); true }
        real::Parsed::Panic => {
            viol(ctx, "property", format!("C12: parsing {t:?} panics"), vec![("template", t.to_string()), ("observed", "Panic".into()), ("theorem", "C03_parse_total".into())]);
            false
        }
    }
}

pub fn c12(opts: &Opts) -> Report {
    let max_tok: u32 = if opts.thorough() { 4 } else { 3 };
    let sweep = token_total(max_tok);
    let wrapped = token_total(max_tok - 1);     // the same strings wrapped in one pair of braces
    let edits = opts.cases(6_000, 150_000);
    let mut rep = run_parallel(opts, "C12",
        "ALL strings over a 41-token alphabet (operation names, { } | : \\ ! .. = -, digits, letters, foreign punctuation) up to 3 tokens (quick) / 4 (thorough), bare and wrapped in braces, plus single-edit corruptions of printed pipelines and numeric extremes; for each: accept/reject and structure of the real parser vs the model parser, and, when accepted, the AST-guided matcher must account for every character; strings that get past the brace scanner are counted as non-trivial, distinct by text",
        sweep + wrapped + edits, &|ctx, i| {
            let t: String = if i < sweep { token_string(i, max_tok).unwrap() }
                else if i < sweep + wrapped { format!("{{{}}}", token_string(i - sweep, max_tok - 1).unwrap()) }
                else if (i - sweep - wrapped) % 5 == 4 { numeric_extreme(&mut ctx.rng) }
                else if (i - sweep - wrapped) % 10 == 3 {
                    // a block (valid or corrupted) DIRECTLY after a ${...} shell-variable group: it is a section, not literal text
                    let ops = wf_pipeline(&mut ctx.rng, 3); let b = print_block(&ops);
                    let b = if ctx.rng.chance(1, 2) { corrupt(&mut ctx.rng, &b) } else { b };
                    let var = *ctx.rng.pick(&["HOME", "a", "DIR:-${HOME}/x", "x y", ""]);
                    ctx.rep.bump("after_shell_variable");
                    format!("{}${{{var}}}{b}{}", if ctx.rng.chance(1, 2) { "p " } else { "" }, if ctx.rng.chance(1, 2) { ".bak" } else { "" })
                }
                else if (i - sweep - wrapped) % 10 == 1 {
                    ctx.rep.bump("near_miss_families");
                    let bad = ctx.rng.pick(&["{bogus}", "{upper|}", "{split:,}", "{99999999999999999999}", "{map:{map:{upper}}}"]).to_string();
                    match ctx.rng.below(6) {
                        0 => format!("${{\\}}{bad}}}"), 1 => format!("${{a\\}}{bad}"), 2 => "${\\{}".to_string(),
                        3 => format!("{{split:,:..|map:{{replace:s//x/}}}}"),
                        4 => format!("a{{!!{}}}", print_ops(&wf_pipeline(&mut ctx.rng, 2))),
                        _ => format!("{{upper}}{{!!}}"),
                    }
                }
                else if (i - sweep - wrapped) % 10 == 7 {
                    // parse a valid block first, then the same block with doubled braces inside literal text:
                    // what the parser saw before must not make the malformed text acceptable
                    let ops = wf_pipeline(&mut ctx.rng, 3); let b = print_block(&ops);
                    let _ = real::parse(&b);
                    ctx.rep.bump("doubled_braces_after_valid_parse");
                    match ctx.rng.below(5) { 0 => format!("x{{{b}}}"), 1 => format!("{{{b}}} done"), 2 => format!("id={{{b}}};"), 3 => format!("{{{b}}}"), _ => format!("{{{{{b}}}}}") }
                }
                else { let ops = wf_pipeline(&mut ctx.rng, 4); let base = if ctx.rng.chance(1, 3) { format!("pre {} post", print_block(&ops)) } else { print_block(&ops) }; corrupt(&mut ctx.rng, &base) };
            ctx.rep.eval();
            if t.contains('{') && t.contains('}') { ctx.rep.nontrivial(&t); }
            if !c12_predicate(ctx, &t) { return; }
            if !parse_agree(ctx, "C12", &t).0 { return; }
            if i >= sweep + wrapped && ctx.rep.samples.len() < 4 { ctx.rep.sample(t.clone()); }
        });
    // the same predicate at the command line: a template FILE is accepted (--validate) exactly when the library accepts
    // its whole content (less surrounding white space) -- every line of it, not the first
    if !opts.cli_bin.is_empty() {
        let dir = std::env::temp_dir().join(format!("sp-verif-c12-{}-{}", std::process::id(), opts.seed));
        let _ = std::fs::create_dir_all(&dir);
        let ok = ["{upper}", "a {lower} b", "plain text", "{split:,:..|join:-}"];
        let bad = ["{nope}", "{upper", "{split:,:99999999999999999999}", "{split:,:..|map:{map:{upper}}}", "{upper|}", "tail {lower"];
        for k in 0..36usize {
            let first = ok[k % 4]; let second = if (k / 4) % 2 == 0 { bad[k % 6] } else { ok[(k + 1) % 4] };
            let content = format!("{first}{}{second}{}", ["\n", "\r\n", "\n\n"][k % 3], ["", "\n"][k % 2]);
            let f = dir.join(format!("t{k}")); let _ = std::fs::write(&f, &content);
            let out = std::process::Command::new(&opts.cli_bin).arg("--validate").arg("-t").arg(&f).stdin(std::process::Stdio::null()).output();
            let _ = std::fs::remove_file(&f);
            let lib_ok = matches!(real::parse(content.trim()), real::Parsed::Ok(_));
            rep.evaluations += 1; rep.bump("template_files_validated");
            match out {
                Ok(o) => { let cli_ok = o.status.code() == Some(0);
                    if cli_ok != lib_ok { rep.violation(format!("C12: a template file with the content {content:?} is {} by --validate, but that text is {} by the parser", if cli_ok { "accepted" } else { "rejected" }, if lib_ok { "accepted" } else { "rejected" }),
                        vec![("kind".into(), "property".into()), ("template".into(), content.clone()), ("route".into(), "string-pipeline --validate -t FILE".into()), ("theorem".into(), "C12_accepted_iff / C13_validate_is_parse".into())]); break; } }
                Err(e) => { rep.violation(format!("C12: cannot run the CLI binary: {e}"), vec![("kind".into(), "correspondence".into())]); break; }
            }
        }
        let _ = std::fs::remove_dir_all(&dir);
    }
    rep.exhaustive = true;
    rep.add("token_sweep_strings", sweep + wrapped);
    rep.add("edit_and_numeric_cases", edits);
    rep
}

/* ---------- C03 ------------------------------------------------------------------ */
fn straddling_input(rng: &mut Rng) -> String {
    // multi-byte characters placed so that byte offsets 15, 20 and 40 fall inside them
    let pad = rng.below(45);
    let c = *rng.pick(&['é', '日', '😀', 'ß', '€']);
    let n = 1 + rng.below(40);
    let mut s = "a".repeat(pad);
    for _ in 0..n { s.push(c); }
    if rng.chance(1, 2) { s.push_str(&gens::text(rng, 3)); }
    s
}
pub fn c03(opts: &Opts) -> Report {
    let parses = opts.cases(20_000, 1_500_000);
    let formats = opts.cases(5_000, 200_000);
    run_parallel(opts, "C03",
        "malformed-template stream (token strings, single/double edits of valid templates, 1-25-digit numerals with and without -, unbalanced and escaped braces, arbitrary Unicode) through parse / parse_with_debug, and accepted templates formatted with debug off and on over inputs whose multi-byte characters straddle byte offsets 15/20/40 in every value the tracer previews; every call under catch_unwind and a watchdog, harness built with overflow checks and debug assertions; distinct by (template, input, debug)",
        parses + formats, &|ctx, i| {
            ctx.rep.eval();
            if i < parses {
                let t: String = match i % 6 {
                    0 => token_string(ctx.rng.next() % token_total(4), 4).unwrap(),
                    1 => numeric_extreme(&mut ctx.rng),
                    2 => { let ops = wf_pipeline(&mut ctx.rng, 4); let b = print_block(&ops); let c = corrupt(&mut ctx.rng, &b); corrupt(&mut ctx.rng, &c) }
                    3 => gens::unicode_text(&mut ctx.rng, 12),
                    4 => { let ops = wf_pipeline(&mut ctx.rng, 3); format!("{}{}{}", gens::unicode_text(&mut ctx.rng, 4), print_block(&ops), gens::unicode_text(&mut ctx.rng, 4)) }
                    _ => { let ops = wf_pipeline(&mut ctx.rng, 4); corrupt(&mut ctx.rng, &print_block(&ops)) }
                };
                ctx.rep.nontrivial(&(t.clone(), 0u8));
                ctx.rep.bump("parse_calls");
                let dbg = match ctx.rng.below(3) { 0 => None, 1 => Some(None), _ => Some(Some(ctx.rng.chance(1, 2))) };
                let r = real_parse_wire(&t, dbg);
                if r == "panic" {
                    viol(ctx, "property", format!("C03: parsing {t:?} panics"), vec![("template", t.clone()), ("observed", "Panic".into()), ("theorem", "C03_parse_total".into())]);
                    return;
                }
                let m = model_parse_wire(ctx, &t, dbg);
                if r != m {
                    viol(ctx, "correspondence", format!("C03: parse({t:?}, {dbg:?}) = [{r}] but model = [{m}]"), vec![("template", t.clone()), ("observed", r), ("model", m), ("theorem", "parser correspondence".into())]);
                    return;
                }
                ctx.rep.bump(if r.starts_with("ok") { "parse_ok" } else { "parse_err" });
            } else {
                let mut ops = wf_pipeline(&mut ctx.rng, 5);
                if i % 25 == 11 {
                    let w = *ctx.rng.pick(&[65_535u128, 65_536, 65_537, 70_000]);
                    let pd = gens::pdir(&mut ctx.rng);
                    ops = if ctx.rng.chance(1, 2) { vec![Op::Pad(w, ' ', pd)] } else { vec![Op::Split(",".into(), Range::Range(None, None, false)), Op::Map(vec![Op::Pad(w, ' ', pd)])] };
                    ctx.rep.bump("pad_width_around_65536");
                }
                if i % 25 == 17 {
                    // list items whose multi-byte characters straddle the tracer's preview limits
                    ops = vec![Op::Split(",".into(), Range::Range(None, None, false)), Op::Map(vec![Op::Upper])];
                    ctx.rep.bump("straddling_map_items");
                }
                let case_len = i % 25 == 21;
                if case_len {
                    // a literal pattern with flag i (and other flag sets) on texts whose characters change their UTF-8
                    // length under case mapping, some growing, some shrinking, the match in between
                    let fl = *ctx.rng.pick(&["i", "i", "gi", "", "im", "is"]);
                    let (pat, rep) = *ctx.rng.pick(&[("x", "-"), ("X", ""), ("k", "<>"), ("ss", "_")]);
                    let re = Op::Replace(pat.to_string(), rep.to_string(), fl.to_string());
                    ops = if ctx.rng.chance(1, 2) { vec![re] } else { vec![Op::Split(",".into(), Range::Range(None, None, false)), Op::Map(vec![re])] };
                    ctx.rep.bump("case_length_changing_texts");
                }
                if i % 25 == 7 {
                    // a capture group that exists in the pattern but does not take part in the match
                    let (pat, g) = *ctx.rng.pick(&[("(a)?b", 1u128), ("(\\d+)-|([a-z]+)", 1), ("(\\d+)-|([a-z]+)", 2), ("(x)?(o)", 1), ("(a)|(b)", 2), ("(a)(b)?", 2)]);
                    let re = Op::RegexExtract(pat.to_string(), Some(g));
                    ops = if ctx.rng.chance(1, 2) { vec![re] } else { vec![Op::Split(" ".into(), Range::Range(None, None, false)), Op::Map(vec![re])] };
                    ctx.rep.bump("optional_group_extractions");
                }
                let lit1 = if ctx.rng.chance(1, 2) { straddling_input(&mut ctx.rng) } else { " ".repeat(ctx.rng.below(4)) };
                let text = match ctx.rng.below(3) { 0 => print_block(&ops), 1 => format!("{lit1}{}", print_block(&ops)), _ => format!("{}{lit1}{}", print_block(&ops), print_block(&[Op::Upper])) };
                let x = if case_len {
                    let n = 2 + ctx.rng.below(5);
                    (0..n).map(|_| *ctx.rng.pick(&["\u{1E9E}", "\u{212A}", "\u{212B}", "\u{130}", "\u{23A}", "\u{23E}", "x", "X", "k", "ss", "ß", "ŉ", "ǰ", ","])).collect::<String>()
                } else if i % 25 == 17 { format!("{},{},x", straddling_input(&mut ctx.rng).replace(',', ""), straddling_input(&mut ctx.rng).replace(',', "")) } else if i % 25 == 7 { ctx.rng.pick(&["b", "abc", "o b", "a", "12- abc b"]).to_string() } else if ctx.rng.chance(2, 3) { straddling_input(&mut ctx.rng) } else { gens::input_for(&mut ctx.rng, &ops) };
                let dbg = ctx.rng.chance(2, 3);
                ctx.rep.nontrivial(&(text.clone(), x.clone(), dbg));
                ctx.rep.bump(if dbg { "format_debug_on" } else { "format_debug_off" });
                let out = match real::parse_with_debug(&text, Some(dbg)) {
                    real::Parsed::Ok(tpl) => real::format(&tpl, &x),
                    real::Parsed::Err(_) => Out::Err,
                    real::Parsed::Panic => Out::Panic,
                };
                if out == Out::Panic {
                    viol(ctx, "property", format!("C03: format({text:?}, {x:?}) with debug={dbg} panics"),
                         vec![("template", text.clone()), ("input", x.clone()), ("debug", dbg.to_string()), ("observed", "Panic".into()), ("theorem", "C03_format_total".into())]);
                    return;
                }
                let r = ctx.drv.request(&format!("PARSEFORMAT {} {} {}", if dbg { "1" } else { "0" }, hex(&text), hex(&x)));
                let toks: Vec<&str> = r.iter().map(|s| s.as_str()).collect();
                let (mi, _) = crate::driver::parse_out(&toks);
                if mi != out {
                    viol(ctx, if mi == Out::Panic || out == Out::Panic { "property" } else { "correspondence" },
                         format!("C03: format({text:?}, {x:?}) debug={dbg}: code {} vs model {}", out.show(), mi.show()),
                         vec![("template", text.clone()), ("input", x.clone()), ("debug", dbg.to_string()), ("observed", out.show()), ("model", mi.show()), ("theorem", "C01_format_refines".into())]);
                    return;
                }
                if ctx.rep.samples.len() < 3 { ctx.rep.sample(format!("format({text:?}, {x:?}) debug={dbg} -> {}", out.show())); }
            }
        })
}
