//! Properties decided on whole pipelines through the three-way comparison:
//! C01 (general), C07 (kinds), C08 (map), C09 (split/join), C14 (regex),
//! C15 (list laws), C16 (character operations).
use super::common::*;
use crate::ast::*;
use crate::driver::Out;
use crate::gens;
use crate::real;
use crate::report::Report;
use crate::rng::Rng;
use crate::{run_parallel, Ctx, Opts};

fn fmt(t: &str, x: &str) -> Out { real::parse_format(t, x) }

fn viol(ctx: &mut Ctx, what: String, kv: Vec<(&str, String)>) {
    let mut r: Vec<(String, String)> = vec![("kind".into(), "property".into())];
    r.extend(kv.into_iter().map(|(k, v)| (k.to_string(), v)));
    ctx.rep.violation(what, r);
}

fn hist(ctx: &mut Ctx, ops: &[Op], input: &str, out: &Out) {
    for o in ops { ctx.rep.bump(&format!("op_{}", o.name())); if let Op::Map(b) = o { for o2 in b { ctx.rep.bump(&format!("mapop_{}", o2.name())); } } }
    ctx.rep.bump(&format!("len_{}", ops.len().min(9)));
    ctx.rep.bump(if input.is_ascii() { "input_ascii" } else { "input_non_ascii" });
    ctx.rep.bump(match out { Out::Ok(_) => "result_ok", Out::Err => "result_err", Out::Panic => "result_panic", Out::Timeout => "result_timeout" });
}

/* ---------------- C01 ------------------------------------------------------ */
pub fn c01(opts: &Opts) -> Report {
    run_parallel(opts, "C01",
        "random mostly-well-typed pipelines over all 21 operations (length 0-8, map bodies 1-3, every argument shape) x inputs (empty, ASCII, mixed-width Unicode, multi-line, ANSI-decorated); a case is non-trivial when at least two operations were reached or a reached operation produced the error; distinct by (template text, input)",
        opts.cases(6_000, 300_000), &|ctx, i| {
            if i % 6 == 5 {
                // mixed template: literals and sections, repeated and near-duplicate sections, one input
                let mut segs = super::templates::segments(&mut ctx.rng, 6);
                if i % 60 == 17 {
                    // a flagged replace next to a pattern that spells the flag letters followed by the replace pattern
                    use super::templates::Seg;
                    let (a, fl, b) = *ctx.rng.pick(&[("tem", "i", "item"), ("ango", "m", "mango"), ("tem", "s", "stem"), ("ello", "im", "imello")]);
                    segs = vec![Seg::Sec(vec![Op::Replace(a.into(), "X".into(), fl.into())]), Seg::Lit(" / ".into()), Seg::Sec(vec![Op::Split(",".into(), Range::Range(None, None, false)), Op::Filter(b.into())])];
                    if ctx.rng.chance(1, 2) { segs.reverse(); }
                }
                let (text, secs) = super::templates::assemble(&segs);
                let all_ops: Vec<Op> = secs.iter().filter_map(|s| if let Section::Sec(o) = s { Some(o.clone()) } else { None }).flatten().collect();
                let x = if i % 60 == 17 { ctx.rng.pick(&["ITEM,item,stem", "tango,mango,TANGO", "Hello,imello,stem"]).to_string() } else { gens::input_for(&mut ctx.rng, &all_ops) };
                ctx.rep.eval(); ctx.rep.bump("mixed_templates");
                if secs.len() >= 2 { ctx.rep.nontrivial(&(text.clone(), x.clone())); }
                let real_out = real::parse_format(&text, &x);
                let r = ctx.drv.request(&format!("FORMAT {} {}", wire_template(false, &secs), hex(&x)));
                let toks: Vec<&str> = r.iter().map(|s| s.as_str()).collect();
                let (mi, n) = crate::driver::parse_out(&toks); let (ms, _) = crate::driver::parse_out(&toks[n + 1..]);
                if real_out != ms || mi != real_out {
                    viol(ctx, format!("C01: format({text:?}, {x:?}) = {} but the documented semantics gives {} (Impl model {})", real_out.show(), ms.show(), mi.show()),
                         vec![("template", text.clone()), ("input", x.clone()), ("observed", real_out.show()), ("expected", ms.show()), ("impl_model", mi.show()), ("theorem", "C01_format_refines".into())]);
                }
                return;
            }
            let mut ops = if i % 50 == 49 { long_input_ops(&mut ctx.rng) } else { gens::pipeline(&mut ctx.rng, 8) };
            let mut input = if i % 50 == 49 { long_input(&mut ctx.rng) } else { gens::input_for(&mut ctx.rng, &ops) };
            if i % 12 == 3 {
                let set = ctx.rng.pick(&["-", "A", "*", "-=", "xy"]).to_string();
                let cs: Vec<char> = set.chars().collect();
                let c1 = *ctx.rng.pick(&cs); let c2 = *ctx.rng.pick(&cs); let e1 = gens::alias_mod256(&mut ctx.rng, c1); let e2 = gens::alias_mod256(&mut ctx.rng, c2);
                input = format!("{}{e1}core{e2}{}", set, set);
                ops = vec![Op::Trim(set, gens::tdir(&mut ctx.rng))];
                ctx.rep.bump("trim_low_byte_alias");
            }
            if i % 12 == 7 {
                // a plain-text pattern that OCCURS in the input, flags without g/i/x, a replacement with $-references:
                // the engine expands them whatever shortcut the code takes for literal patterns
                let words = ["hello world", "5 USD", "a,b,c", "foo bar foo", "ünï code", "x1 x2"];
                input = ctx.rng.pick(&words).to_string();
                let pat: String = { let ws: Vec<&str> = input.split(|c: char| c == ' ' || c == ',').filter(|w| !w.is_empty()).collect(); ctx.rng.pick(&ws).to_string() };
                let repl = ctx.rng.pick(&["[$0]", "$$", "<$1>", "${0}!", "$0$0", "a$"]).to_string();
                let fl = ctx.rng.pick(&["", "m", "s", "ms"]).to_string();
                let rep = Op::Replace(pat, repl, fl);
                ops = match ctx.rng.below(3) { 0 => vec![rep], 1 => vec![Op::Split(" ".into(), Range::Range(None, None, false)), Op::Map(vec![rep]), Op::Join(" ".into())], _ => vec![rep, Op::Upper] };
                ctx.rep.bump("literal_pattern_dollar_replacement");
            }
            if i % 60 == 26 {
                // pure-ASCII texts wrapped in every ASCII white-space character (VT and FF included), default trim on each
                // side, directly and under map (no random choice: the case index selects the shape)
                let k = (i / 60) as usize;
                let ws = ['\u{b}', '\u{c}', ' ', '\t', '\n', '\r'];
                let (l, r) = (ws[k % 6], ws[(k / 6) % 6]);
                let dir = [TDir::Both, TDir::Left, TDir::Right][(k / 36) % 3];
                input = format!("{l} {l}hello world{r} {r}");
                ops = if k % 2 == 0 { vec![Op::Trim(String::new(), dir)] } else { input = format!("{input},{l}x{r}"); vec![Op::Split(",".into(), Range::Range(None, None, false)), Op::Map(vec![Op::Trim(String::new(), dir)]), Op::Join("|".into())] };
                ctx.rep.bump("ascii_whitespace_wrapped_trim");
            }
            let shorthand = i % 12 == 9;
            if shorthand {
                // the first operation written in the documented shorthand ({N}, {A..B}, {..=B}, ...): every one of the ten
                // range shapes in turn, then a kind-sensitive tail; the result is that of the pipeline written out in full
                let k = (i / 12) as usize; let (a, b) = ([0i128, 1, -1, 2, -2][k % 5], [2i128, 1, -1, 3, 0][(k / 5) % 5]);
                let r = match k % 10 { 0 => Range::Index(a), 1 => Range::Range(Some(a), Some(b), false), 2 => Range::Range(Some(a), Some(b), true), 3 => Range::Range(None, Some(b), false),
                    4 => Range::Range(None, Some(b), true), 5 => Range::Range(Some(a), None, false), 6 => Range::Range(None, None, false), 7 => Range::Range(Some(a), Some(a), true),
                    8 => Range::Range(None, Some(a), true), _ => Range::Index(b) };
                let tail: Vec<Op> = match (k / 10) % 4 { 0 => vec![], 1 => vec![Op::Map(vec![Op::Upper])], 2 => vec![Op::Sort(SDir::Desc), Op::Join("+".into())], _ => vec![Op::Upper] };
                ops = vec![Op::Split(" ".into(), r)]; ops.extend(tail);
                input = ctx.rng.pick(&["a b c d e", "one two", "x", "", "p  q é ü"]).to_string();
                ctx.rep.bump("shorthand_first_operation");
            }
            let t = triple(ctx, &ops, &input, false);
            ctx.rep.eval();
            hist(ctx, &ops, &input, &t.real);
            if ops.len() >= 2 || t.real == Out::Err { ctx.rep.nontrivial(&(t.text.clone(), input.clone())); }
            if i < 3 { ctx.rep.sample(format!("{} on {:?} -> {}", t.text, input, t.real.show())); }
            if shorthand {
                if let Op::Split(_, r) = &ops[0] {
                    let short = if ops.len() > 1 { format!("{{{}|{}}}", print_range(r), print_ops(&ops[1..])) } else { format!("{{{}}}", print_range(r)) };
                    let got = real::parse_format(&short, &input);
                    if got != t.spec {
                        viol(ctx, format!("C01: format({short:?}, {input:?}) = {} but the documented semantics of the shorthand ({}) gives {}", got.show(), t.text, t.spec.show()),
                             vec![("template", short), ("input", input.clone()), ("observed", got.show()), ("expected", t.spec.show()), ("theorem", "C01_refines / C02_shorthand".into())]);
                        return;
                    }
                }
            }
            // left to right (C01_prefix_then_suffix): a leading run of string-to-string operations can be run first, as a
            // pipeline of its own, and the rest run on its output; both routes through the public API give the same result
            let k = ops.iter().take_while(|o| matches!(o, Op::Upper | Op::Lower | Op::Trim(..) | Op::Substring(..) | Op::Append(..) | Op::Prepend(..) | Op::Surround(..) | Op::StripAnsi | Op::Pad(..) | Op::RegexExtract(..) | Op::Replace(..))).count();
            if k >= 1 && k < ops.len() && !shorthand && input.len() < 4_000 {
                let (ta, tb) = (format!("{{{}}}", print_ops(&ops[..k])), format!("{{{}}}", print_ops(&ops[k..])));
                let two_step = match real::parse_format(&ta, &input) { Out::Ok(mid) => real::parse_format(&tb, &mid), other => other };
                ctx.rep.bump("prefix_then_suffix_routes");
                if two_step != t.real {
                    viol(ctx, format!("C01: {} on {:?} = {} but {} and then {} on its output = {}", t.text, input, t.real.show(), ta, tb, two_step.show()),
                         vec![("template", t.text.clone()), ("prefix_template", ta), ("suffix_template", tb), ("input", input.clone()), ("observed", t.real.show()), ("expected", two_step.show()), ("theorem", "C01_prefix_then_suffix".into())]);
                    return;
                }
            }
            judge(ctx, "C01", &t, &ops, &input, "C01_refines");
        })
}

fn long_input_ops(rng: &mut Rng) -> Vec<Op> {
    let sep = rng.pick(&[",", " ", "::", "é"]).to_string();
    let mut ops = vec![Op::Split(sep, Range::Range(None, None, false))];
    // cheap tails only: the model's sort/unique are quadratic
    for _ in 0..rng.below(3) {
        ops.push(match rng.below(6) {
            0 => Op::Slice(gens::range(rng)),
            1 => Op::Reverse,
            2 => Op::Filter("1".into()),
            3 => Op::Map(vec![Op::Upper]),
            4 => Op::Join(gens::sep(rng)),
            _ => Op::Sort(SDir::Desc),
        });
        if matches!(ops.last(), Some(Op::Join(_))) { break; }
    }
    ops
}
fn long_input(rng: &mut Rng) -> String {
    // around the split-cache admission limits: 10 000 bytes / 1 000 parts
    let n = *rng.pick(&[990usize, 999, 1000, 1001, 1200]);
    let w = *rng.pick(&["a", "ab", "abcdefghij", "é", "0123456789"]);
    let sep = *rng.pick(&[",", " ", "::", "é"]);
    let mut s = String::new();
    for k in 0..n { if k > 0 { s.push_str(sep); } s.push_str(w); if k % 7 == 0 { s.push_str(&k.to_string()); } }
    s
}

/* ---------------- C07 ------------------------------------------------------ */
fn representative_ops() -> Vec<Op> {
    vec![
        Op::Split(",".into(), Range::Index(1)), Op::Split(",".into(), Range::Range(None, None, false)),
        Op::Join("-".into()), Op::Replace("a".into(), "b".into(), "g".into()), Op::Replace("zz".into(), "y".into(), String::new()), Op::Upper, Op::Lower,
        Op::Trim(String::new(), TDir::Both), Op::Substring(Range::Range(Some(0), Some(2), false)),
        Op::Append("x".into()), Op::Prepend("y".into()), Op::Surround("'".into()), Op::StripAnsi,
        Op::Filter("a".into()), Op::FilterNot("zzz".into()), Op::Slice(Range::Range(Some(0), Some(5), false)), Op::Slice(Range::Index(0)),
        Op::Map(vec![Op::Upper]), Op::Map(vec![Op::Split(" ".into(), Range::Range(None, None, false)), Op::Sort(SDir::Asc)]),
        Op::Map(vec![Op::Sort(SDir::Asc)]),
        Op::Sort(SDir::Desc), Op::Reverse, Op::Unique, Op::Pad(4, '*', PDir::Both), Op::RegexExtract("a+".into(), None),
    ]
}
const C07_INPUTS: &[&str] = &["", "a", "a,b", "zzz", "b,a,a c,,d e f", ",", "x1,y2,z3,a,a,a,a,a,a,a,b"];

/// prefixes that empty the intermediate list, so that what follows meets an empty list
fn emptying_prefixes() -> Vec<Vec<Op>> {
    let full = Range::Range(None, None, false);
    vec![
        vec![Op::Split(",".into(), full.clone()), Op::Filter("^ZZZ$".into())],
        vec![Op::Split(",".into(), full.clone()), Op::Slice(Range::Range(Some(50), Some(60), false))],
        vec![Op::Split(",".into(), Range::Range(Some(9), Some(3), false))],
        // not emptying, but kind-critical: an inclusive range with equal bounds selects a LIST of one item, by any carrier
        vec![Op::Split(",".into(), Range::Range(Some(1), Some(1), true))],
        vec![Op::Split(",".into(), Range::Range(Some(0), Some(0), true))],
        vec![Op::Split(",".into(), Range::Range(Some(-1), Some(-1), true))],
        vec![Op::Split(",".into(), full.clone()), Op::Slice(Range::Range(Some(1), Some(1), true))],
        // a valid replace whose flag letters are repeated or unknown (accepted and ignored): success must not depend on the data
        vec![Op::Replace("b".into(), "X".into(), "mm".into())],
        vec![Op::Replace("a".into(), "X".into(), "e".into())],
        vec![Op::Split(",".into(), full.clone()), Op::Map(vec![Op::Replace("b".into(), "X".into(), "ssp".into())])],
    ]
}

pub fn c07(opts: &Opts) -> Report {
    let reps = representative_ops();
    let n = reps.len() as u64;
    let depth: u32 = if opts.thorough() { 4 } else { 3 };
    let mut total = 0u64;
    for d in 1..=depth { total += n.pow(d); }
    let prefixes = emptying_prefixes();
    let ext = prefixes.len() as u64 * n * n;       // every pair of operations after every emptying prefix
    // split:S:.. | join:S with EQUAL separators after a list-producing step, then every operation and every pair
    let rt_prefix: Vec<Op> = vec![Op::Split(" ".into(), Range::Range(None, None, false)), Op::Split(",".into(), Range::Range(None, None, false)), Op::Join(",".into())];
    let rt = n + n * n;
    let rt_ref = &rt_prefix;
    let reps_ref = &reps;
    let prefixes_ref = &prefixes;
    let mut rep = run_parallel(opts, "C07",
        "every sequence of operation kinds (all 21 operations, three map bodies: well-typed string body, well-typed list body, ill-typed body) up to the tier's length, enumerated exhaustively, plus every pair of operations after each of three prefixes that empty the intermediate list; each on 7 inputs that make intermediate lists empty, singleton and long; distinct by (template, input)",
        total + ext + rt, &|ctx, i0| {
            let mut ops = Vec::new();
            let d;
            if i0 >= total + ext {
                let i = i0 - total - ext;
                ops = rt_ref.clone();
                if i < n { ops.push(reps_ref[i as usize].clone()); } else { let j = i - n; ops.push(reps_ref[(j % n) as usize].clone()); ops.push(reps_ref[(j / n) as usize].clone()); }
                d = 5;
            } else if i0 < total {
                let mut i = i0;
                let mut dd = 1u32; let mut block = n;
                while i >= block { i -= block; dd += 1; block = n.pow(dd); }
                for _ in 0..dd { ops.push(reps_ref[(i % n) as usize].clone()); i /= n; }
                d = dd;
            } else {
                let mut i = i0 - total;
                ops = prefixes_ref[(i / (n * n)) as usize].clone(); i %= n * n;
                ops.push(reps_ref[(i % n) as usize].clone()); ops.push(reps_ref[(i / n) as usize].clone());
                d = 4;
            }
            let r = ctx.drv.request(&format!("TYPE {}", wire_ops(&ops)));
            let infer_none = r[0] == "none";
            let well_typed = r[1] == "1";
            let text = print_block(&ops);
            for x in C07_INPUTS {
                ctx.rep.eval();
                ctx.rep.nontrivial(&(text.clone(), x.to_string()));
                let t = triple(ctx, &ops, x, false);
                if !judge(ctx, "C07", &t, &ops, x, "C07_code_follows_the_discipline") { return; }
                if well_typed && !matches!(t.real, Out::Ok(_)) {
                    viol(ctx, format!("C07: well-typed pipeline {} fails on {:?}: {}", text, x, t.real.show()),
                         vec![("template", text.clone()), ("input", x.to_string()), ("observed", t.real.show()), ("theorem", "C07_progress".into())]);
                    return;
                }
                if infer_none && *x == "a,b" {
                    // the same through format_with_inputs with two inputs for the section: no partial result
                    if let real::Parsed::Ok(tpl) = real::parse(&text) {
                        let got = real::fwi(&tpl, &[vec![x.to_string(), "zzz".to_string()]], &[" ".to_string()]);
                        if got != Out::Err {
                            viol(ctx, format!("C07: ill-typed pipeline {} through format_with_inputs on two inputs gives {} instead of an error", text, got.show()),
                                 vec![("template", text.clone()), ("input", x.to_string()), ("observed", got.show()), ("theorem", "C07_ill_typed_fails".into())]);
                            return;
                        }
                    }
                }
                // the same pipeline as the second section of a template whose first section is its proper prefix:
                // the kinds are those of the pipeline as written, whatever an earlier section has computed
                if ops.len() >= 2 && i0 % 5 == 3 && (*x == "a,b" || x.starts_with("b,a")) {
                    let pre = print_block(&ops[..ops.len() - 1]);
                    let both = real::parse_format(&format!("{pre} {text}"), x);
                    let alone_pre = real::parse_format(&pre, x);
                    let want = match (&alone_pre, &t.real) { (Out::Ok(a), Out::Ok(b)) => Out::Ok(format!("{a} {b}")), (Out::Panic, _) | (_, Out::Panic) => Out::Panic, _ => Out::Err };
                    ctx.rep.bump("after_own_prefix_section");
                    if both != want {
                        viol(ctx, format!("C07: {pre} {text} on {x:?} gives {} but the two sections alone give {} and {}", both.show(), alone_pre.show(), t.real.show()),
                             vec![("template", format!("{pre} {text}")), ("input", x.to_string()), ("observed", both.show()), ("expected", want.show()), ("theorem", "C07_ill_typed_fails / C07_progress".into())]);
                        return;
                    }
                }
                if infer_none && t.real != Out::Err {
                    viol(ctx, format!("C07: ill-typed pipeline {} does not fail on {:?}: {}", text, x, t.real.show()),
                         vec![("template", text.clone()), ("input", x.to_string()), ("observed", t.real.show()), ("theorem", "C07_ill_typed_fails".into())]);
                    return;
                }
            }
            ctx.rep.bump(if well_typed { "well_typed" } else if infer_none { "top_ill_typed" } else { "ill_typed_in_map_body" });
            ctx.rep.bump("programs");
            if ctx.rep.samples.len() < 4 && d == 3 { ctx.rep.sample(format!("{} (well_typed={}, infer_none={})", text, well_typed, infer_none)); }
        });
    // the same discipline at the command line: when a later section is ill-typed the run fails as a whole -- exit 1 and
    // NOTHING on stdout, not the sections before it
    if !opts.cli_bin.is_empty() {
        for (k, tpl) in ["A={upper} B={sort} C={lower}", "{split:,:..|join:-} then {split:,:..|upper}", "x{lower}y{unique}", "{upper}{split:,:0|map:{upper}}", "ok {upper}"].iter().enumerate() {
            for flags in [vec![], vec!["--quiet"]] {
                let out = std::process::Command::new(&opts.cli_bin).args(&flags).arg("--").arg(tpl).arg("a,b").stdin(std::process::Stdio::null()).output();
                rep.evaluations += 1; rep.bump("cli_whole_run_fails");
                if let Ok(o) = out {
                    let so = String::from_utf8_lossy(&o.stdout).to_string();
                    let lib = real::parse_format(tpl, "a,b");
                    let ok = match &lib { Out::Ok(v) => o.status.code() == Some(0) && so == *v, _ => o.status.code() == Some(1) && so.is_empty() };
                    if !ok { rep.violation(format!("C07: string-pipeline {flags:?} {tpl:?} a,b: exit {:?}, stdout {so:?}, but the library gives {}", o.status.code(), lib.show()),
                        vec![("kind".into(), "property".into()), ("template".into(), tpl.to_string()), ("input".into(), "a,b".into()), ("route".into(), "cli".into()), ("case".into(), k.to_string()), ("theorem".into(), "C07_ill_typed_fails / C13_cli_err".into())]); break; }
                }
            }
        }
    }
    rep.exhaustive = true;
    rep
}

/* ---------------- C08 ------------------------------------------------------ */
pub fn c08(opts: &Opts) -> Report {
    run_parallel(opts, "C08",
        "random sub-pipelines over every operation allowed inside map x lists with empty items, duplicates, non-ASCII, one/many items, failing items at random positions; the map run is compared with n standalone runs of {Q} through the public API and with the model; non-trivial when the list has >= 2 items; distinct by (template, input)",
        opts.cases(3_000, 100_000), &|ctx, i| {
            let body = if ctx.rng.chance(1, 4) { vec![ctx.rng.pick(&[Op::Upper, Op::Lower, Op::Reverse, Op::Trim(String::new(), TDir::Both), Op::Substring(Range::Range(Some(1), None, false)), Op::Pad(6, '*', PDir::Left)]).clone()] }
                       else { let n = 1 + ctx.rng.below(4); gens::pipeline_from(&mut ctx.rng, false, n, false) };
            let s = gens::sep(&mut ctx.rng);
            let j = gens::sep(&mut ctx.rng);
            if i % 5 == 4 {
                // an earlier stage of the same template changes the items (e.g. makes them non-ASCII although the
                // input is pure ASCII) before the map under test: the map must see the items, not the original input
                let pre = match ctx.rng.below(4) {
                    0 => Op::Map(vec![Op::Append(ctx.rng.pick(&["é", "ß", "日", "ǆ"]).to_string())]),
                    1 => Op::Map(vec![Op::Prepend(ctx.rng.pick(&["É", "ß", "😀"]).to_string())]),
                    2 => Op::Map(vec![Op::Replace("a".into(), ctx.rng.pick(&["ä", "ß", "İ"]).to_string(), "g".into())]),
                    _ => Op::Map(vec![Op::Surround("ñ".into())]),
                };
                let mut ops = vec![Op::Split(",".into(), Range::Range(None, None, false)), pre, Op::Map(body.clone())];
                if ctx.rng.chance(1, 2) { ops.insert(0, Op::Replace("ss".into(), "ß".into(), "g".into())); }
                let input = ctx.rng.pick(&["caf,th,x", "strasse,gross,ab", "a,b,c", "hello world,foo", "abc", ""]).to_string();
                let t = triple(ctx, &ops, &input, false);
                ctx.rep.eval(); ctx.rep.bump("pre_stage_cases");
                ctx.rep.nontrivial(&(t.text.clone(), input.clone()));
                hist(ctx, &ops, &input, &t.real);
                judge(ctx, "C08", &t, &ops, &input, "C08_code_does_this");
                return;
            }
            if i % 20 == 11 {
                // tracing on: items whose multi-byte characters straddle every plausible preview limit of the tracer
                let lim = *ctx.rng.pick(&[20usize, 30, 40, 50, 60, 64, 80, 100, 128]);
                let c = *ctx.rng.pick(&['é', '日', '😀']);
                let items: Vec<String> = (0..4).map(|k| format!("{}{}", "a".repeat(lim - 1 - (k % c.len_utf8().max(2))), c.to_string().repeat(3))).collect();
                let xin = items.join(",");
                let text = "{!split:,:..|map:{upper}|join:,}".to_string();
                let got = real::parse_format(&text, &xin);
                let want = Out::Ok(items.iter().map(|w| w.to_uppercase()).collect::<Vec<_>>().join(","));
                ctx.rep.eval(); ctx.rep.bump("traced_straddling_items");
                if got != want { viol(ctx, format!("C08: with tracing on, {text} over items of about {lim} bytes ending in {c:?} gives {} instead of the item-by-item result", got.show()), vec![("template", text), ("input", xin), ("observed", got.show()), ("expected", want.show()), ("theorem", "C08_same_length".into())]); }
                return;
            }
            if i % 20 == 7 {
                // lists whose length sits at a power of two or next to it: same length out as in, item by item
                let n = *ctx.rng.pick(gens::SIZE_SWEEP);
                let (b, f): (Op, fn(&str) -> String) = ctx.rng.pick(&[(Op::Upper, (|w: &str| w.to_uppercase()) as fn(&str) -> String), (Op::Append("!".into()), |w: &str| format!("{w}!")), (Op::Substring(Range::Range(Some(0), Some(2), false)), |w: &str| w.chars().take(2).collect())]).clone();
                let items: Vec<String> = (0..n).map(|k| format!("w{k}é")).collect();
                let xin = items.join(",");
                let text = print_block(&[Op::Split(",".into(), Range::Range(None, None, false)), Op::Map(vec![b]), Op::Join(",".into())]);
                let got = real::parse_format(&text, &xin);
                let want = Out::Ok(items.iter().map(|w| f(w)).collect::<Vec<_>>().join(","));
                ctx.rep.eval(); ctx.rep.bump("size_sweep_cases");
                if got != want { viol(ctx, format!("C08: {text} over {n} items gives a different list than item-by-item ({} vs {} bytes)", got.show().len(), want.show().len()), vec![("template", text), ("input", xin), ("observed", got.show()), ("expected", want.show()), ("theorem", "C08_same_length".into())]); }
                return;
            }
            if i % 20 == 3 {
                // a sub-pipeline that fails on the items, directly followed by a slice / filter that would discard them:
                // the error of an item fails the call whatever happens to the item afterwards
                let failing = ctx.rng.pick(&[vec![Op::Sort(SDir::Asc)], vec![Op::Unique], vec![Op::Slice(Range::Range(Some(0), Some(1), false))], vec![Op::Split(" ".into(), Range::Range(None, None, false)), Op::Upper], vec![Op::Upper, Op::Filter("[".into())], vec![Op::RegexExtract("(".into(), None)]]).clone();
                let after = ctx.rng.pick(&[Op::Slice(Range::Range(Some(3), None, false)), Op::Slice(Range::Range(Some(5), Some(9), false)), Op::Slice(Range::Range(Some(2), Some(1), false)), Op::Slice(Range::Range(Some(0), Some(0), false)), Op::Slice(Range::Range(Some(-1), Some(-2), false)), Op::Filter("^ZZZ$".into()), Op::Slice(Range::Range(Some(1), None, false))]).clone();
                let ops = vec![Op::Split(",".into(), Range::Range(None, None, false)), Op::Map(failing), after];
                let input = ctx.rng.pick(&["a,b", "a,b,c", "x"]).to_string();
                let t = triple(ctx, &ops, &input, false);
                ctx.rep.eval(); ctx.rep.bump("failing_items_then_discarded");
                ctx.rep.nontrivial(&(t.text.clone(), input.clone()));
                judge(ctx, "C08", &t, &ops, &input, "C08_first_error_fails_the_call");
                return;
            }
            let ops = vec![Op::Split(s.clone(), Range::Range(None, None, false)), Op::Map(body.clone()), Op::Join(j.clone())];
            let input = gens::input_for(&mut ctx.rng, &ops);
            let t = triple(ctx, &ops, &input, false);
            ctx.rep.eval();
            hist(ctx, &ops, &input, &t.real);
            if !judge(ctx, "C08", &t, &ops, &input, "C08_code_does_this") { return; }
            // n standalone runs through the public API
            let items: Vec<String> = if s.is_empty() {
                let mut v = vec![String::new()]; v.extend(input.chars().map(|c| c.to_string())); v.push(String::new()); v
            } else { input.split(s.as_str()).map(|x| x.to_string()).collect() };
            if items.len() >= 2 { ctx.rep.nontrivial(&(t.text.clone(), input.clone())); }
            let q = print_block(&body);
            let mut outs = Vec::new();
            let mut failed = false;
            for it in &items {
                match fmt(&q, it) { Out::Ok(o) => outs.push(o), Out::Err => { failed = true; break; } other => {
                    viol(ctx, format!("C08: standalone {} on {:?}: {}", q, it, other.show()), vec![("template", q.clone()), ("input", it.clone()), ("theorem", "C03".into())]); return; } }
            }
            let expected = if failed { Out::Err } else { Out::Ok(outs.join(&j)) };
            if t.real != expected {
                viol(ctx, format!("C08: {} on {:?} = {} but the standalone runs of {} give {}", t.text, input, t.real.show(), q, expected.show()),
                     vec![("template", t.text.clone()), ("input", input.clone()), ("observed", t.real.show()), ("expected", expected.show()), ("theorem", "C08_map_is_per_item".into())]);
            }
            if i < 3 { ctx.rep.sample(format!("{} on {:?} -> {}", t.text, input, t.real.show())); }
        })
}

/* ---------------- C09 ------------------------------------------------------ */
pub fn c09(opts: &Opts) -> Report {
    run_parallel(opts, "C09",
        "inputs x separators (one ASCII byte, several bytes, non-ASCII, empty, self-overlapping) x list-preserving tails, sizes straddling the split-cache limits; the three identities are evaluated through the public API and each run is compared with the model; non-trivial when the separator occurs in the input; distinct by (input, separator, tail)",
        opts.cases(4_000, 200_000), &|ctx, i| {
            let mut s = gens::sep(&mut ctx.rng);
            if i % 40 == 17 || i % 40 == 18 { s = "3".to_string(); }
            let big = i % 40 == 39;
            // the two inputs below have the same 64-bit DefaultHasher value: visiting one right after the other
            // exposes a split cache keyed by the hash instead of the text
            let collide = i % 40 == 17 || i % 40 == 18;
            let x = if collide { if i % 40 == 17 { super::templates::COLLIDE_A.to_string() } else { super::templates::COLLIDE_B.to_string() } } else if big { long_input(&mut ctx.rng) } else {
                let base = Op::Split(s.clone(), Range::Range(None, None, false));
                let mut x = gens::input_for(&mut ctx.rng, &[base]);
                if ctx.rng.chance(1, 4) { x = gens::unicode_text(&mut ctx.rng, 12); }
                x
            };
            ctx.rep.eval();
            let full = Range::Range(None, None, false);
            if i % 40 == 5 || i % 40 == 25 {
                // join with a self-overlapping separator, then split on it again: items ending in a proper prefix of the
                // separator make the joined text split differently from the list that was joined
                let s2 = ctx.rng.pick(&["aa", "--", "::", "→→", "abab", "-=-"]).to_string();
                let first: String = s2.chars().take(1 + ctx.rng.below(s2.chars().count() - 1)).collect();
                let n = 2 + ctx.rng.below(4);
                let items: Vec<String> = (0..n).map(|_| match ctx.rng.below(4) { 0 => format!("{}{first}", gens::word(&mut ctx.rng)), 1 => first.clone(), 2 => format!("{first}{}", gens::word(&mut ctx.rng)), _ => gens::word(&mut ctx.rng) }).collect();
                let x = items.join(",");
                let s3 = ctx.rng.pick(&["+", "", ",", "aa"]).to_string();
                let mut ops = vec![Op::Split(",".into(), full.clone()), Op::Join(s2.clone()), Op::Split(s2.clone(), full.clone())];
                match ctx.rng.below(3) { 0 => ops.push(Op::Join(s3)), 1 => ops.push(Op::Slice(gens::range(&mut ctx.rng))), _ => { ops.push(Op::Map(vec![Op::Upper])); ops.push(Op::Join(s3)); } }
                let t = triple(ctx, &ops, &x, false);
                ctx.rep.bump("overlapping_rejoin");
                ctx.rep.nontrivial(&(x.clone(), s2.clone(), t.text.clone()));
                if !judge(ctx, "C09", &t, &ops, &x, "C09_code_does_this") { return; }
                // the same joined text, split by a later, independent call (a single-split section, then a general one)
                let joined = items.join(&s2);
                for ops2 in [vec![Op::Split(s2.clone(), Range::Index(1))], vec![Op::Split(s2.clone(), full.clone()), Op::Join("|".into())]] {
                    let t2 = triple(ctx, &ops2, &joined, false);
                    if !judge(ctx, "C09", &t2, &ops2, &joined, "C09_code_does_this") { return; }
                }
                return;
            }
            if i % 40 == 9 || i % 40 == 29 {
                // the same single-split section on two different texts of the same byte length held in ONE buffer
                // (a line buffer cleared and refilled): what was computed for the first must not come back for the second
                let n = 2 + ctx.rng.below(4);
                let a: Vec<String> = (0..n).map(|_| gens::word(&mut ctx.rng)).collect();
                let mut b: Vec<String> = a.iter().map(|w| w.chars().rev().collect::<String>().to_uppercase()).collect(); b.rotate_left(1);
                let sepc = if s.is_empty() || s.len() > 2 { ",".to_string() } else { s.clone() };
                let (xa, xb) = (a.join(&sepc), b.join(&sepc));
                if xa.len() == xb.len() && xa != xb {
                    let r = gens::range(&mut ctx.rng);
                    let ops = vec![Op::Split(sepc.clone(), r)];
                    let text = print_block(&ops);
                    if let real::Parsed::Ok(tpl) = real::parse(&text) {
                        let mut buf = String::with_capacity(xa.len() + 8);
                        buf.push_str(&xa); let ra = real::format(&tpl, &buf);
                        buf.clear(); buf.push_str(&xb); let rb = real::format(&tpl, &buf);
                        let (_, sa) = ctx.drv.run(false, &wire_ops(&ops), &xa); let (_, sb) = ctx.drv.run(false, &wire_ops(&ops), &xb);
                        ctx.rep.bump("same_buffer_pairs");
                        if ra != sa || rb != sb {
                            viol(ctx, format!("C09: {text} on {xa:?} then on {xb:?} in the same buffer: {} then {}; each alone gives {} and {}", ra.show(), rb.show(), sa.show(), sb.show()),
                                 vec![("template", text.clone()), ("input", xb.clone()), ("previous_input", xa.clone()), ("observed", rb.show()), ("expected", sb.show()), ("theorem", "C09_fast_single_split".into())]);
                            return;
                        }
                    }
                }
                // two sections of one template that differ only in the letter case of the join separator
                let jl = ctx.rng.pick(&["x", "ab", "é", "q"]).to_string(); let ju = jl.to_uppercase();
                let text = format!("{} {}", print_block(&[Op::Split(",".into(), full.clone()), Op::Join(ju.clone())]), print_block(&[Op::Split(",".into(), full.clone()), Op::Join(jl.clone())]));
                let xin = "a,b,c";
                let got = real::parse_format(&text, xin);
                let want = Out::Ok(format!("{} {}", xin.replace(',', &ju), xin.replace(',', &jl)));
                if got != want { viol(ctx, format!("C09: format({text:?}, {xin:?}) = {} but each join is plain replacement: {}", got.show(), want.show()), vec![("template", text), ("input", xin.into()), ("observed", got.show()), ("expected", want.show()), ("theorem", "C09_join_split_is_replace".into())]); return; }
            }
            if i % 40 == 21 {
                // texts whose byte length sits at a power of two or next to it (and at 64 KiB), split twice
                let len = if ctx.rng.chance(1, 6) { *ctx.rng.pick(&[65_535usize, 65_536, 65_537]) } else { *ctx.rng.pick(gens::SIZE_SWEEP) };
                let mut xin = String::from("ab,cd,"); xin.push_str(&"z".repeat(len.saturating_sub(6)));
                for _ in 0..2 {
                    let got = real::parse_format("{split:,:..|join:+}", &xin);
                    let g2 = real::parse_format("{split:,:..}", &xin);
                    ctx.rep.bump("size_sweep_cases");
                    if got != Out::Ok(xin.replace(',', "+")) || g2 != Out::Ok(xin.clone()) {
                        viol(ctx, format!("C09: a {}-byte text: split|join:+ gives {} bytes, split alone gives {} bytes", xin.len(), got.show().len(), g2.show().len()), vec![("template", "{split:,:..|join:+}".into()), ("input_description", format!("'ab,cd,' + 'z' up to {len} bytes")), ("theorem", "C09_join_split_is_replace".into())]);
                        return;
                    }
                }
            }
            if i % 40 == 27 {
                // line-structured texts on both sides of the cache limits, split on the line terminator: LF and CRLF endings,
                // with and without a final terminator, blank lines inside (no random choice: the case index selects the shape)
                let k = (i / 40) as usize;
                let size = [200usize, 9_990, 10_001, 12_000, 70_000][k % 5];
                let (eol, sp) = [("\n", "\n"), ("\r\n", "\n"), ("\r\n", "\r\n"), ("\n", "\n")][(k / 5) % 4];
                let final_eol = (k / 20) % 2 == 0;
                let mut xin = String::new(); let mut n = 0usize;
                while xin.len() < size { xin.push_str(&format!("line {n}")); if n % 7 == 3 { xin.push_str(eol); } xin.push_str(eol); n += 1; }
                if !final_eol { xin.push_str("end"); }
                for j in [";", ""] {
                    let ops = vec![Op::Split(sp.to_string(), full.clone()), Op::Join(j.to_string())];
                    let text = print_block(&ops);
                    let got = real::parse_format(&text, &xin);
                    ctx.rep.bump("line_structured_texts");
                    let want = Out::Ok(xin.replace(sp, j));
                    if got != want {
                        viol(ctx, format!("C09: {text} on a {}-byte text of lines ending in {:?}{}: {} bytes back, plain replacement gives {}", xin.len(), eol, if final_eol { " (final terminator present)" } else { "" }, got.show().len(), want.show().len()),
                             vec![("template", text.clone()), ("input", xin.clone()), ("observed", got.show()), ("expected", want.show()), ("theorem", "C09_join_split_is_replace".into())]);
                        return;
                    }
                }
                let one = print_block(&[Op::Split(sp.to_string(), full.clone())]);
                let got = real::parse_format(&one, &xin);
                if got != Out::Ok(xin.clone()) {
                    viol(ctx, format!("C09: {one} on a {}-byte text of lines ending in {:?}: the implicit join does not restore the text ({} bytes back)", xin.len(), eol, got.show().len()),
                         vec![("template", one.clone()), ("input", xin.clone()), ("observed", got.show()), ("expected", xin.clone()), ("theorem", "C09_join_split_id".into())]);
                    return;
                }
            }
            if i % 40 == 33 {
                // a text nobody has split before, split by several threads at once
                let len = *ctx.rng.pick(&[40usize, 600, 2_000, 12_000]);
                let tag = ctx.rng.below(1_000_000_000);
                let mut xin = format!("n{tag},{i},"); while xin.len() < len { xin.push_str("pq,rs "); }
                let outs: Vec<Out> = std::thread::scope(|sc| {
                    let hs: Vec<_> = (0..8).map(|_| { let xin = &xin; sc.spawn(move || real::parse_format("{split:,:..|join:,}", xin)) }).collect();
                    hs.into_iter().map(|h| h.join().unwrap_or(Out::Panic)).collect()
                });
                ctx.rep.bump("first_split_by_eight_threads");
                if let Some(bad) = outs.iter().find(|o| **o != Out::Ok(xin.clone())) {
                    viol(ctx, format!("C09: eight threads split a fresh {}-byte text on ',' and join it with ',' at the same time; one of them gets {} bytes back", xin.len(), bad.show().len()), vec![("template", "{split:,:..|join:,}".into()), ("input", xin.clone()), ("observed", bad.show()), ("theorem", "C09_join_split_is_replace".into())]);
                    return;
                }
            }
            if i % 40 == 13 {
                // two (separator, text) pairs that coincide when separator and text are glued with a delimiter character
                let d = *ctx.rng.pick(&['\u{1f}', '\u{0}', '\u{1e}', '\n', '|', ':', ' ']);
                let pairs = [("a".to_string(), format!("b{d}x")), (format!("a{d}b"), "x".to_string())];
                for (sp, xx) in pairs.iter().chain(pairs.iter().rev()) {
                    let ops = vec![Op::Split(sp.clone(), full.clone()), Op::Join("+".into())];
                    let t = triple(ctx, &ops, xx, false);
                    ctx.rep.bump("glued_key_pairs");
                    if !judge(ctx, "C09", &t, &ops, xx, "C09_cached_split_is_split") { return; }
                    let ops1 = vec![Op::Split(sp.clone(), full.clone())];
                    let t1 = triple(ctx, &ops1, xx, false);
                    if !judge(ctx, "C09", &t1, &ops1, xx, "C09_cached_split_is_split") { return; }
                }
            }
            // identity 1: split then (implicit) join restores the text
            let ops1 = vec![Op::Split(s.clone(), full.clone())];
            let t1 = triple(ctx, &ops1, &x, false);
            if !judge(ctx, "C09", &t1, &ops1, &x, "C09_code_does_this") { return; }
            if t1.real != Out::Ok(x.clone()) {
                viol(ctx, format!("C09: {} on {:?} = {} (not the original text)", t1.text, x, t1.real.show()),
                     vec![("template", t1.text.clone()), ("input", x.clone()), ("observed", t1.real.show()), ("theorem", "C09_join_split_id".into())]);
                return;
            }
            // identity 2: a different join separator is plain replacement
            let j = gens::sep(&mut ctx.rng);
            let ops2 = vec![Op::Split(s.clone(), full.clone()), Op::Join(j.clone())];
            let t2 = triple(ctx, &ops2, &x, false);
            if !judge(ctx, "C09", &t2, &ops2, &x, "C09_code_does_this") { return; }
            let expect2 = Out::Ok(x.replace(s.as_str(), &j));
            if t2.real != expect2 {
                viol(ctx, format!("C09: {} on {:?} = {} but str::replace gives {}", t2.text, x, t2.real.show(), expect2.show()),
                     vec![("template", t2.text.clone()), ("input", x.clone()), ("observed", t2.real.show()), ("expected", expect2.show()), ("theorem", "C09_join_split_is_replace".into())]);
                return;
            }
            // identity 3: implicit final join == explicit join with the last separator
            let mut ops3 = vec![Op::Split(s.clone(), full.clone())];
            if big { ops3 = long_input_ops(&mut ctx.rng); if let Op::Split(sp, _) = &mut ops3[0] { *sp = s.clone(); } }
            else { let n = ctx.rng.below(4); ops3.extend(gens::pipeline_from(&mut ctx.rng, true, n, true)); }
            let last = ctx.drv.request(&format!("LASTSEP {}", wire_ops(&ops3)));
            let last_sep = unhex(&last[0]);
            let t3 = triple(ctx, &ops3, &x, false);
            if !judge(ctx, "C09", &t3, &ops3, &x, "C09_code_does_this") { return; }
            let mut ops4 = ops3.clone(); ops4.push(Op::Join(last_sep.clone()));
            let t4 = triple(ctx, &ops4, &x, false);
            if !judge(ctx, "C09", &t4, &ops4, &x, "C09_code_does_this") { return; }
            if t3.real != t4.real {
                viol(ctx, format!("C09: {} and {} differ on {:?}: {} vs {}", t3.text, t4.text, x, t3.real.show(), t4.real.show()),
                     vec![("template", t3.text.clone()), ("template2", t4.text.clone()), ("input", x.clone()), ("observed", t3.real.show()), ("expected", t4.real.show()), ("theorem", "C09_implicit_join".into())]);
                return;
            }
            // identity 4 (the other direction): a non-empty list whose items are free of a one-character separator
            // comes back, item by item, from join-then-split (random choices from a fork of the stream)
            if s.chars().count() == 1 && !big {
                let mut r4 = ctx.rng.clone();
                let c = s.chars().next().unwrap();
                let mut items: Vec<String> = vec![String::new()];
                for d in x.chars().filter(|d| *d != c) { if r4.chance(1, 4) { items.push(String::new()); } items.last_mut().unwrap().push(d); }
                if r4.chance(1, 3) { items.push(String::new()); }
                let joined = items.join(s.as_str());
                let ops5 = vec![Op::Split(s.clone(), full.clone()), Op::Map(vec![Op::Prepend("<".into()), Op::Append(">".into())]), Op::Join("/".into())];
                let t5 = triple(ctx, &ops5, &joined, false);
                if !judge(ctx, "C09", &t5, &ops5, &joined, "C09_code_does_this") { return; }
                let expect5 = Out::Ok(items.iter().map(|it| format!("<{it}>")).collect::<Vec<_>>().join("/"));
                if t5.real != expect5 {
                    viol(ctx, format!("C09: {} on the join of {} separator-free items = {} but the items were {}", t5.text, items.len(), t5.real.show(), expect5.show()),
                         vec![("template", t5.text.clone()), ("input", joined.clone()), ("observed", t5.real.show()), ("expected", expect5.show()), ("theorem", "C09_split_join_id".into())]);
                    return;
                }
                ctx.rep.bump("split_of_join_lists");
                if items.len() > 1 { ctx.rep.bump("split_of_join_lists_with_two_or_more_items"); }
            }
            if !s.is_empty() && x.contains(s.as_str()) { ctx.rep.nontrivial(&(x.clone(), s.clone(), t3.text.clone())); }
            ctx.rep.bump(if big { "big_input" } else { "small_input" });
            ctx.rep.bump(match s.len() { 0 => "sep_empty", 1 => "sep_one_byte", _ => if s.is_ascii() { "sep_multi_ascii" } else { "sep_non_ascii" } });
            if i < 3 { ctx.rep.sample(format!("{} on {:?} -> {}", t3.text, x, t3.real.show())); }
        })
}

/* ---------------- C14 ------------------------------------------------------ */
fn regex_text(rng: &mut Rng) -> String {
    let words = ["hello", "Hello", "HELLO world", "foo bar", "a1b22c333", "line one\nLine Two\nline three", "", "aaa", "ab", "file.txt", "x{2}", "ooo", "éa É", "a.c abc",
                 "ab12 cd345", "name.surname@example.com", "xfoo food", "all ll wellx"];
    let mut s = rng.pick(&words).to_string();
    if rng.chance(1, 3) { s.push(' '); s.push_str(*rng.pick(&words)); }
    s
}
pub fn c14(opts: &Opts) -> Report {
    run_parallel(opts, "C14",
        "regex pool (literals, classes, anchors, groups, named groups, alternation, quantifiers, case variants, invalid patterns) x all orders of every subset of g,i,m,s x replacements with $0/$1/${name} x inputs with and without matches, newlines, mixed case; expected value computed by calling regex 1.11.1 directly with the documented flag mapping; distinct by (template, input)",
        opts.cases(6_000, 300_000), &|ctx, i| {
            let x = regex_text(&mut ctx.rng);
            if i % 6 == 5 {
                // two replaces in a row with the SAME pattern text and DIFFERENT flags: nothing of the first may leak into the second
                let pat = ctx.rng.pick(&["hello", "^l", "o", "Line", "a.c", "l+", "world$", "B"]).to_string();
                let f1 = gens::flags(&mut ctx.rng); let mut f2 = gens::flags(&mut ctx.rng);
                if f1 == f2 { f2 = if f1.contains('i') { f1.replace('i', "") } else { format!("{f1}i") }; }
                let (r1, r2) = ("<$0>".to_string(), "[$0]".to_string());
                let apply = |text: &str, fl: &str, repl: &str| -> Option<String> {
                    let mut pfx = String::new(); for c in ['i', 'm', 's'] { if fl.contains(c) { pfx.push(c); } }
                    let full = if pfx.is_empty() { pat.clone() } else { format!("(?{pfx}){pat}") };
                    regex::Regex::new(&full).ok().map(|re| if fl.contains('g') { re.replace_all(text, repl).to_string() } else { re.replace(text, repl).to_string() })
                };
                let expected = match apply(&x, &f1, &r1).and_then(|m| apply(&m, &f2, &r2)) { Some(o) => Out::Ok(o), None => Out::Err };
                let ops = vec![Op::Replace(pat.clone(), r1, f1), Op::Replace(pat.clone(), r2, f2)];
                let t = triple(ctx, &ops, &x, false);
                ctx.rep.eval(); ctx.rep.bump("double_replace_cases");
                ctx.rep.nontrivial(&(t.text.clone(), x.clone()));
                if !judge(ctx, "C14", &t, &ops, &x, "C14_replace_is_engine") { return; }
                if t.real != expected {
                    viol(ctx, format!("C14: {} on {:?} = {} but the regex crate called directly gives {}", t.text, x, t.real.show(), expected.show()),
                         vec![("template", t.text.clone()), ("input", x.clone()), ("observed", t.real.show()), ("expected", expected.show()), ("theorem", "C14_replace_is_engine".into())]);
                }
                return;
            }
            if i % 30 == 19 {
                let pat = ctx.rng.pick(&["x", "a", "b", "k", "s"]).to_string();
                let xin = ctx.rng.pick(&["\u{1E9E}x\u{130}", "\u{212A}a\u{23A}x", "\u{212B}\u{23E}b x", "x\u{1E9E}\u{130}x", "\u{130}\u{1E9E}k\u{212A}"]).to_string();
                let fl = ctx.rng.pick(&["i", "im", "is", "gi"]).to_string();
                let ops = vec![Op::Replace(pat.clone(), "-".into(), fl.clone())];
                let re = regex::Regex::new(&format!("(?{}){pat}", fl.replace('g', ""))).unwrap();
                let exp = Out::Ok(if fl.contains('g') { re.replace_all(&xin, "-").to_string() } else { re.replace(&xin, "-").to_string() });
                let t = triple(ctx, &ops, &xin, false);
                ctx.rep.eval(); ctx.rep.bump("case_length_changing_inputs");
                if !judge(ctx, "C14", &t, &ops, &xin, "C14_replace_is_engine") { return; }
                if t.real != exp { viol(ctx, format!("C14: {} on {:?} = {} but the engine gives {}", t.text, xin, t.real.show(), exp.show()), vec![("template", t.text.clone()), ("input", xin.clone()), ("observed", t.real.show()), ("expected", exp.show()), ("theorem", "C14_replace_is_engine".into())]); }
                return;
            }
            if i % 30 == 9 {
                // an escaped "|" or ":" inside a pattern, followed by what would end the argument if it were not escaped
                let k = (i / 30) as usize;
                let pat = ["a\\|sort", "^\\|upper$", "\\w+\\:80", "^\\w\\:1$", "x\\|join:,", "\\:..", "b\\|unique"][k % 7];
                let items = ["a|sort", "|upper", "host:80", "w:1", "x|join:,", "a:..", "b|unique", "a", "sort", "host80"];
                let xs = items.join(";");
                let re = regex::Regex::new(pat).unwrap();
                for neg in [false, true] {
                    let text = format!("{{split:;:..|{}:{pat}|join:;}}", if neg { "filter_not" } else { "filter" });
                    let got = real::parse_format(&text, &xs);
                    let want = Out::Ok(items.iter().filter(|w| re.is_match(w) != neg).cloned().collect::<Vec<_>>().join(";"));
                    ctx.rep.eval(); ctx.rep.bump("escaped_terminators_inside_patterns");
                    if got != want { viol(ctx, format!("C14: {text} on {xs:?} = {} but the engine with the pattern {pat:?} gives {}", got.show(), want.show()), vec![("template", text), ("input", xs.clone()), ("observed", got.show()), ("expected", want.show()), ("theorem", "C14_filter_is_engine".into())]); return; }
                }
                let t2 = format!("{{regex_extract:{pat}}}"); let x2 = items[k % 7];
                let g2 = real::parse_format(&t2, x2); let w2 = Out::Ok(re.find(x2).map(|m| m.as_str().to_string()).unwrap_or_default());
                if g2 != w2 { viol(ctx, format!("C14: {t2} on {x2:?} = {} but the engine gives {}", g2.show(), w2.show()), vec![("template", t2), ("input", x2.to_string()), ("observed", g2.show()), ("expected", w2.show()), ("theorem", "C14_extract_is_engine".into())]); }
                return;
            }
            if i % 30 == 3 {
                // a filter that meets an EMPTY list still has to be a valid pattern: same outcome whatever the data
                let k = (i / 30) as usize;
                let bad = ["[", "(", "a{2,1}", "\\p{Foo}"][k % 4];
                let mk = |first: &str, neg: bool| vec![Op::Split(",".into(), Range::Range(None, None, false)), Op::Filter(first.into()), if neg { Op::FilterNot(bad.into()) } else { Op::Filter(bad.into()) }, Op::Join(",".into())];
                for first in ["^z", "^a", "."] { for neg in [false, true] {
                    let ops = mk(first, neg);
                    if !gens::raw_ok(bad, false) { continue; }
                    let t = triple(ctx, &ops, "a,b", false);
                    ctx.rep.eval(); ctx.rep.bump("invalid_pattern_after_emptying_filter");
                    if !judge(ctx, "C14", &t, &ops, "a,b", "C14_filter_is_engine") { return; }
                    if t.real != Out::Err { viol(ctx, format!("C14: {} on \"a,b\" = {} although {bad:?} is not a valid pattern", t.text, t.real.show()), vec![("template", t.text.clone()), ("input", "a,b".into()), ("observed", t.real.show()), ("expected", "Err".into()), ("theorem", "C14_invalid_regex_is_error".into())]); return; }
                } }
                return;
            }
            if i % 30 == 21 {
                // empty items inside map: a pattern that matches the empty string rewrites them too, and a pattern that does
                // not compile is an error even if every item is empty
                let k = (i / 30) as usize;
                let (pat, rep, fl) = [("^$", "NA", ""), ("x*", "-", ""), ("^", "> ", "m"), ("$", ";", "gims"), ("(", "x", ""), ("[a-", "y", "g"), ("\\b", "|", "g")][k % 7];
                let xs = ["a,,b,", ",,", "", "x", ",a"][(k / 7) % 5];
                let body = if (k / 35) % 2 == 0 { vec![Op::Replace(pat.into(), rep.into(), fl.into())] } else { vec![Op::Upper, Op::Replace(pat.into(), rep.into(), fl.into()), Op::Trim(String::new(), TDir::Both)] };
                let ops = vec![Op::Split(",".into(), Range::Range(None, None, false)), Op::Map(body), Op::Join(",".into())];
                let mut pfx = String::new(); for c in ['i', 'm', 's'] { if fl.contains(c) { pfx.push(c); } }
                let full = if pfx.is_empty() { pat.to_string() } else { format!("(?{pfx}){pat}") };
                if gens::raw_ok(pat, true) {
                    let t = triple(ctx, &ops, xs, false);
                    ctx.rep.eval(); ctx.rep.bump("empty_items_inside_map");
                    if !judge(ctx, "C14", &t, &ops, xs, "C14_replace_is_engine") { return; }
                    if ops.len() == 3 { if let Op::Map(b) = &ops[1] { if b.len() == 1 {
                        let exp = match regex::Regex::new(&full) { Ok(re) => Out::Ok(xs.split(',').map(|w| if fl.contains('g') { re.replace_all(w, rep).to_string() } else { re.replace(w, rep).to_string() }).collect::<Vec<_>>().join(",")), Err(_) => Out::Err };
                        if t.real != exp { viol(ctx, format!("C14: {} on {:?} = {} but the engine, item by item, gives {}", t.text, xs, t.real.show(), exp.show()), vec![("template", t.text.clone()), ("input", xs.to_string()), ("observed", t.real.show()), ("expected", exp.show()), ("theorem", "C14_replace_is_engine".into())]); }
                    } } }
                }
                return;
            }
            if i % 30 == 7 {
                // items that contain a line break, patterns with an anchored .* (a dot does not match a newline)
                let pat = ctx.rng.pick(&["^.*foo", "foo.*$", "^.*$", "^.*foo.*$", ".*foo", "^foo"]).to_string();
                let items = ["x\nfoo", "foo", "foo\nx", "two\nlines", "bar", "afoo b"];
                let xs = items.join(",");
                let neg = ctx.rng.chance(1, 2);
                let ops = vec![Op::Split(",".into(), Range::Range(None, None, false)), if neg { Op::FilterNot(pat.clone()) } else { Op::Filter(pat.clone()) }, Op::Join(",".into())];
                let re = regex::Regex::new(&pat).unwrap();
                let exp = Out::Ok(items.iter().filter(|s| re.is_match(s) != neg).cloned().collect::<Vec<_>>().join(","));
                let t = triple(ctx, &ops, &xs, false);
                ctx.rep.eval(); ctx.rep.bump("anchored_dot_star_multiline_items");
                if !judge(ctx, "C14", &t, &ops, &xs, "C14_filter_is_engine") { return; }
                if t.real != exp { viol(ctx, format!("C14: {} on {:?} = {} but the engine gives {}", t.text, xs, t.real.show(), exp.show()), vec![("template", t.text.clone()), ("input", xs.clone()), ("observed", t.real.show()), ("expected", exp.show()), ("theorem", "C14_filter_is_engine".into())]); }
                return;
            }
            if i % 30 == 13 {
                // two filters in a row: each pattern is its own regex (inline flags of the first do not reach the second,
                // an invalid pattern is an error even if gluing the two would be valid)
                let (p1, p2) = *ctx.rng.pick(&[("(?i)^tmp", "^Draft"), ("(?i)a", "B"), ("(?x) a b", "a b"), ("(a", "b)"), ("^#", "^$"), ("(?i)hello", "WORLD")]);
                let items = ["TMP1", "draft2", "Draft3", "keep", "a b", "ab", "B", "b", "hello WORLD", "Hello world", "#c", ""];
                let xs = items.join(",");
                let neg = ctx.rng.chance(1, 2);
                let ops = vec![Op::Split(",".into(), Range::Range(None, None, false)), if neg { Op::FilterNot(p1.into()) } else { Op::Filter(p1.into()) }, if neg { Op::FilterNot(p2.into()) } else { Op::Filter(p2.into()) }, Op::Join(",".into())];
                let exp = match (regex::Regex::new(p1), regex::Regex::new(p2)) {
                    (Ok(r1), Ok(r2)) => Out::Ok(items.iter().filter(|s| r1.is_match(s) != neg).filter(|s| r2.is_match(s) != neg).cloned().collect::<Vec<_>>().join(",")),
                    _ => Out::Err,
                };
                if gens::raw_ok(p1, false) && gens::raw_ok(p2, false) {
                    let t = triple(ctx, &ops, &xs, false);
                    ctx.rep.eval(); ctx.rep.bump("adjacent_filters");
                    if !judge(ctx, "C14", &t, &ops, &xs, "C14_filter_is_engine") { return; }
                    if t.real != exp { viol(ctx, format!("C14: {} on {:?} = {} but applying the two patterns one after the other gives {}", t.text, xs, t.real.show(), exp.show()), vec![("template", t.text.clone()), ("input", xs.clone()), ("observed", t.real.show()), ("expected", exp.show()), ("theorem", "C14_filter_is_engine".into())]); }
                }
                return;
            }
            let kind = ctx.rng.below(5);
            let mut x = x;
            // characters whose case folding is not what to_lowercase/to_uppercase give (long s, final sigma, Kelvin sign, dotless i)
            if ctx.rng.chance(1, 8) { x = format!("{} ſ ς K ı İ", x); }
            let pat = if ctx.rng.chance(1, 4) { ctx.rng.pick(&["hello", "WORLD", "o", "Line", "a", "É", "txt", "zzz", "l", "s", "σ", "k", "i", "ß"]).to_string() } else { gens::regex(&mut ctx.rng) };
            let (ops, expected): (Vec<Op>, Out) = match kind {
                0 | 1 => {
                    let fl = gens::flags(&mut ctx.rng);
                    let repl = ctx.rng.pick(gens::REPLACEMENTS).to_string();
                    let mut pfx = String::new();
                    for c in ['i', 'm', 's'] { if fl.contains(c) { pfx.push(c); } }
                    let full = if pfx.is_empty() { pat.clone() } else { format!("(?{pfx}){pat}") };
                    let exp = match regex::Regex::new(&full) {
                        Ok(re) => Out::Ok(if fl.contains('g') { re.replace_all(&x, repl.as_str()).to_string() } else { re.replace(&x, repl.as_str()).to_string() }),
                        Err(_) => Out::Err,
                    };
                    (vec![Op::Replace(pat.clone(), repl, fl)], exp)
                }
                2 => {
                    let g = if ctx.rng.chance(1, 2) { Some(ctx.rng.below(4) as u128) } else { None };
                    let exp = match regex::Regex::new(&pat) {
                        Ok(re) => Out::Ok(match g {
                            Some(gi) => re.captures(&x).and_then(|c| c.get(gi as usize)).map(|m| m.as_str().to_string()).unwrap_or_default(),
                            None => re.find(&x).map(|m| m.as_str().to_string()).unwrap_or_default(),
                        }),
                        Err(_) => Out::Err,
                    };
                    (vec![Op::RegexExtract(pat.clone(), g)], exp)
                }
                3 => {
                    let keep = ctx.rng.chance(1, 2);
                    let exp = match regex::Regex::new(&pat) {
                        Ok(re) => Out::Ok(x.split(' ').filter(|s| re.is_match(s) == keep).collect::<Vec<_>>().join(" ")),
                        Err(_) => Out::Err,
                    };
                    (vec![Op::Split(" ".into(), Range::Range(None, None, false)), if keep { Op::Filter(pat.clone()) } else { Op::FilterNot(pat.clone()) }], exp)
                }
                _ => {
                    let keep = ctx.rng.chance(1, 2);
                    let exp = match regex::Regex::new(&pat) {
                        Ok(re) => Out::Ok(if re.is_match(&x) == keep { x.clone() } else { String::new() }),
                        Err(_) => Out::Err,
                    };
                    (vec![if keep { Op::Filter(pat.clone()) } else { Op::FilterNot(pat.clone()) }], exp)
                }
            };
            if !gens::raw_ok(&pat, kind <= 1) { return; }
            let t = triple(ctx, &ops, &x, false);
            ctx.rep.eval();
            ctx.rep.nontrivial(&(t.text.clone(), x.clone()));
            hist(ctx, &ops, &x, &t.real);
            if let Op::Replace(_, _, fl) = &ops[0] { ctx.rep.bump(&format!("flags_{}", { let mut v: Vec<char> = fl.chars().collect(); v.sort(); v.dedup(); v.into_iter().collect::<String>() })); }
            if !judge(ctx, "C14", &t, &ops, &x, "C14_replace_is_engine / C14_extract_is_engine / C14_filter_is_engine") { return; }
            if t.real != expected {
                viol(ctx, format!("C14: {} on {:?} = {} but the regex crate called directly gives {}", t.text, x, t.real.show(), expected.show()),
                     vec![("template", t.text.clone()), ("input", x.clone()), ("observed", t.real.show()), ("expected", expected.show()), ("theorem", "C14_replace_is_engine".into())]);
            }
            if i < 3 { ctx.rep.sample(format!("{} on {:?} -> {}", t.text, x, t.real.show())); }
        })
}

/* L1 (the literal law the replace shortcut relies on), validated against the crate */
pub fn validate_l1(ctx: &mut Ctx, n: u64) {
    let meta = ['\\', '.', '*', '+', '?', '^', '$', '|', '[', ']', '(', ')', '{', '}'];
    for _ in 0..n {
        let p: String = gens::unicode_text(&mut ctx.rng, 5).chars().filter(|c| !meta.contains(c)).collect();
        let t = if ctx.rng.chance(1, 2) { gens::unicode_text(&mut ctx.rng, 10) } else { gens::text(&mut ctx.rng, 5) };
        let pfx = *ctx.rng.pick(&["", "(?m)", "(?s)", "(?ms)"]);
        ctx.rep.bump("L1_checks");
        let full = format!("{pfx}{p}");
        match regex::Regex::new(&full) {
            Err(e) => { viol(ctx, format!("law L1 fails: metacharacter-free pattern {:?} rejected by the engine: {}", full, e), vec![("pattern", full.clone()), ("theorem", "L1".into())]); return; }
            Ok(re) => if !t.contains(p.as_str()) && re.replace_all(&t, "X") != t {
                viol(ctx, format!("law L1 fails: {:?} does not occur in {:?} but the engine replaces", full, t), vec![("pattern", full.clone()), ("input", t.clone()), ("theorem", "L1".into())]); return; }
        }
    }
}

/* ---------------- C15 ------------------------------------------------------ */
fn list_input(rng: &mut Rng) -> (String, Vec<String>) {
    let n = match rng.below(12) { 0 => 0, 1 => 1, 2..=7 => 2 + rng.below(8), 8 => 30 + rng.below(50), 9 => 500 + rng.below(1500), 10 => *rng.pick(&[65usize, 99, 257, 1001]), _ => *rng.pick(&[2049usize, 2051, 4097, 2050, 63, 129, 511, 513, 1023, 1025, 4095]) };
    let pool = ["a", "b", "ab", "abc", "", "B", "é", "e", "日", "a ", "10", "9", "z", "aa", "ζ", "A"];
    // items that agree on their first 7-8 BYTES and differ after, with a multi-byte character across byte 8; prefixes of
    // one another; items differing only by a trailing NUL
    let long_pool = ["東京都港区", "東京都千代田区", "日本語学", "日本語", "日本語学校", "file-07ü.txt", "file-07é.txt", "file-07u.txt", "abcdefgé1", "abcdefgé0", "abcdefgh", "abcdefg", "a\0", "a\0\0", "1234567😀b", "1234567😀a"];
    let use_long = rng.chance(1, 5);
    let mut items: Vec<String> = (0..n).map(|_| if use_long { rng.pick(&long_pool).to_string() } else { rng.pick(&pool).to_string() }).collect();
    match rng.below(4) { 0 => items.sort(), 1 => { items.sort(); items.reverse(); } _ => {} }
    // items never contain the separator, so split gives exactly these items (empty list = one empty item)
    (items.join(","), if items.is_empty() { vec![String::new()] } else { items })
}
pub fn c15(opts: &Opts) -> Report {
    run_parallel(opts, "C15",
        "lists with duplicates, empty strings, non-ASCII, prefixes of one another, sorted / reverse-sorted, length 0..2000 x compositions of sort/unique/reverse/slice/filter; metamorphic relations evaluated on the implementation through the public API plus equality with the model; distinct by (template, input); non-trivial when the list has >= 2 items",
        opts.cases(2_500, 100_000), &|ctx, i| {
            let (x, items) = list_input(&mut ctx.rng);
            ctx.rep.eval();
            if items.len() >= 2 { ctx.rep.nontrivial(&(x.clone(), i % 7)); }
            ctx.rep.bump(&format!("listlen_{}", match items.len() { 0..=1 => "0-1", 2..=9 => "2-9", 10..=99 => "10-99", _ => "100+" }));
            let sp = "{split:,:..";
            let get = |tail: &str| -> Out { fmt(&format!("{sp}{tail}}}"), &x) };
            let as_items = |o: &Out| -> Option<Vec<String>> { match o { Out::Ok(s) => Some(s.split(',').map(|t| t.to_string()).collect()), _ => None } };
            // sort: ascending code-point order, a permutation; sort:desc is exactly its reverse
            let so = get("|sort"); let sd = get("|sort:desc"); let sr = get("|sort|reverse");
            let mut expect = items.clone(); expect.sort();
            if as_items(&so) != Some(expect.clone()) && !(items.len() == 1 && items[0].is_empty()) {
                viol(ctx, format!("C15: sort of {:?} = {}", x, so.show()), vec![("template", format!("{sp}|sort}}")), ("input", x.clone()), ("observed", so.show()), ("theorem", "C15_sort_is_ascending".into())]); return;
            }
            if sd != sr {
                viol(ctx, format!("C15: sort:desc != sort|reverse on {:?}: {} vs {}", x, sd.show(), sr.show()), vec![("template", format!("{sp}|sort:desc}}")), ("input", x.clone()), ("observed", sd.show()), ("expected", sr.show()), ("theorem", "C15_code_does_this".into())]); return;
            }
            // unique: first occurrences, original order
            let un = get("|unique");
            let mut seen = std::collections::HashSet::new();
            let ue: Vec<String> = items.iter().filter(|s| seen.insert((*s).clone())).cloned().collect();
            if as_items(&un) != Some(ue.clone()) {
                viol(ctx, format!("C15: unique of {:?} = {}", x, un.show()), vec![("template", format!("{sp}|unique}}")), ("input", x.clone()), ("observed", un.show()), ("theorem", "C15_unique_first_occurrence".into())]); return;
            }
            if get("|unique|unique") != un {
                viol(ctx, format!("C15: unique not idempotent on {:?}", x), vec![("template", format!("{sp}|unique|unique}}")), ("input", x.clone()), ("theorem", "C15_unique_idempotent".into())]); return;
            }
            // reverse twice
            if get("|reverse|reverse") != Out::Ok(x.clone()) {
                viol(ctx, format!("C15: reverse|reverse changes {:?}", x), vec![("template", format!("{sp}|reverse|reverse}}")), ("input", x.clone()), ("theorem", "C15_reverse_twice".into())]); return;
            }
            // filter / filter_not partition
            let pat = *ctx.rng.pick(&["a", "^a", "b$", "^$", ".", "[a-z]", "é", "^.$", "zzz", "\\A\\d*\\z", "\\B", "\\Aa?\\z", "x*", "\\d", "\\.txt$"]);
            let fi = get(&format!("|filter:{pat}|join:\\n")); let fnn = get(&format!("|filter_not:{pat}|join:\\n"));
            if let (Out::Ok(a), Out::Ok(b)) = (&fi, &fnn) {
                let re = regex::Regex::new(pat).unwrap();
                let ea: Vec<&String> = items.iter().filter(|s| re.is_match(s)).collect();
                let eb: Vec<&String> = items.iter().filter(|s| !re.is_match(s)).collect();
                let ja = ea.iter().map(|s| s.as_str()).collect::<Vec<_>>().join("\n");
                let jb = eb.iter().map(|s| s.as_str()).collect::<Vec<_>>().join("\n");
                if *a != ja || *b != jb {
                    viol(ctx, format!("C15: filter/filter_not:{pat} do not partition {:?}: {:?} / {:?}", x, a, b), vec![("template", format!("{sp}|filter:{pat}|join:\\n}}")), ("input", x.clone()), ("observed", format!("{a:?} / {b:?}")), ("expected", format!("{ja:?} / {jb:?}")), ("theorem", "C15_filter_partition".into())]); return;
                }
            } else {
                viol(ctx, format!("C15: filter on {:?} failed: {} {}", x, fi.show(), fnn.show()), vec![("input", x.clone()), ("template", format!("{sp}|filter:{pat}|join:\\n}}")), ("theorem", "C15_filter_partition".into())]); return;
            }
            // patterns that begin with a character some tools read as "not": here it is an ordinary regex character
            if i % 10 == 4 {
                let xin = "color: red !important;margin: 0;top: 1px !important;important: no;a != b;!";
                let its: Vec<&str> = xin.split(';').collect();
                for p3 in ["!important", "!=", "!", "^!", "!$", "-v", "~x", "\\!i", ""] {
                    let re = regex::Regex::new(p3).unwrap();
                    for neg in [false, true] {
                        let text = format!("{{split:;:..|{}:{p3}|join:;}}", if neg { "filter_not" } else { "filter" });
                        let got = real::parse_format(&text, xin);
                        let want = Out::Ok(its.iter().filter(|w| re.is_match(w) != neg).cloned().collect::<Vec<_>>().join(";"));
                        ctx.rep.bump("patterns_beginning_with_a_negation_sign");
                        if got != want { viol(ctx, format!("C15: {text} on {xin:?} = {} but the engine partitions to {}", got.show(), want.show()), vec![("template", text), ("input", xin.into()), ("observed", got.show()), ("expected", want.show()), ("theorem", "C15_filter_partition".into())]); return; }
                    }
                }
            }
            // sort and sort:desc inside map
            if i % 10 == 8 {
                let xin = "b a c;2 10 1;é e z";
                for d in [SDir::Asc, SDir::Desc] {
                    let ops = vec![Op::Split(";".into(), Range::Range(None, None, false)), Op::Map(vec![Op::Split(" ".into(), Range::Range(None, None, false)), Op::Sort(d), Op::Join("-".into())]), Op::Join(";".into())];
                    let t = triple(ctx, &ops, xin, false);
                    ctx.rep.bump("sort_inside_map");
                    if !judge(ctx, "C15", &t, &ops, xin, "C15_sort_desc_is_reverse_of_sort") { return; }
                    let want: String = xin.split(';').map(|g| { let mut v: Vec<&str> = g.split(' ').collect(); v.sort(); if d == SDir::Desc { v.reverse(); } v.join("-") }).collect::<Vec<_>>().join(";");
                    if t.real != Out::Ok(want.clone()) { viol(ctx, format!("C15: {} on {:?} = {} but the sorted groups are {:?}", t.text, xin, t.real.show(), want), vec![("template", t.text.clone()), ("input", xin.into()), ("observed", t.real.show()), ("expected", want), ("theorem", "C15_sort_is_ascending".into())]); return; }
                }
            }
            // the same partition inside map (its own grammar rules and converter arms), patterns with backslash escapes
            if i % 10 == 6 {
                let p2 = *ctx.rng.pick(&["\\.txt$", "\\d", "\\w\\w", "^\\d+$"]);
                let xin = "a.txt btxt c.md 42;dog 7 x.txt;";
                let mk = |neg: bool| vec![Op::Split(";".into(), Range::Range(None, None, false)), Op::Map(vec![Op::Split(" ".into(), Range::Range(None, None, false)), if neg { Op::FilterNot(p2.into()) } else { Op::Filter(p2.into()) }, Op::Join(" ".into())]), Op::Join(";".into())];
                for neg in [false, true] {
                    let ops = mk(neg);
                    let t = triple(ctx, &ops, xin, false);
                    ctx.rep.bump("filters_inside_map");
                    if !judge(ctx, "C15", &t, &ops, xin, "C15_filter_partition") { return; }
                    let re = regex::Regex::new(p2).unwrap();
                    let want: String = xin.split(';').map(|g| g.split(' ').filter(|w| re.is_match(w) != neg).collect::<Vec<_>>().join(" ")).collect::<Vec<_>>().join(";");
                    if t.real != Out::Ok(want.clone()) { viol(ctx, format!("C15: {} on {:?} = {} but the engine partitions to {:?}", t.text, xin, t.real.show(), want), vec![("template", t.text.clone()), ("input", xin.into()), ("observed", t.real.show()), ("expected", want), ("theorem", "C15_filter_partition".into())]); return; }
                }
            }
            // unique and sort commute (C15_unique_and_sort_commute), and sorting a reversed list changes nothing
            // (C15_sort_after_reverse): two routes through the public API each
            if i % 5 == 1 {
                let routes = [("{split:,:..|sort|unique}", "{split:,:..|unique|sort}", "C15_unique_and_sort_commute"), ("{split:,:..|reverse|sort}", "{split:,:..|sort}", "C15_sort_after_reverse")];
                for (a, b, thm) in routes {
                    let (ra, rb) = (real::parse_format(a, &x), real::parse_format(b, &x));
                    ctx.rep.bump("two_route_list_laws");
                    if ra != rb {
                        viol(ctx, format!("C15: {a} and {b} differ on {:?}: {} vs {}", x, ra.show(), rb.show()), vec![("template", a.to_string()), ("template2", b.to_string()), ("input", x.clone()), ("observed", ra.show()), ("expected", rb.show()), ("theorem", thm.into())]);
                        return;
                    }
                }
            }
            // a random composition against the model
            let n = 1 + ctx.rng.below(4);
            let mut ops = vec![Op::Split(",".into(), Range::Range(None, None, false))];
            for _ in 0..n { ops.push(match ctx.rng.below(9) { 0 => Op::Sort(SDir::Asc), 1 => Op::Sort(SDir::Desc), 2 => Op::Unique, 3 => Op::Reverse, 4 => Op::Slice(gens::range(&mut ctx.rng)), 5 => Op::Filter(pat.into()), 6 => Op::FilterNot(pat.into()),
                // a map between list operations: it may make equal items non-adjacent / change the order relation
                7 => Op::Map(vec![ctx.rng.pick(&[Op::Lower, Op::Upper, Op::Trim(String::new(), TDir::Both), Op::Substring(Range::Index(-1)), Op::Substring(Range::Range(None, Some(1), false))]).clone()]),
                _ => Op::Unique }); }
            // the composition the laws are about, in the order sort -> map -> unique, always present once in a while
            if i % 5 == 2 { ops = vec![Op::Split(",".into(), Range::Range(None, None, false)), Op::Sort(if i % 2 == 0 { SDir::Asc } else { SDir::Desc }), Op::Map(vec![ctx.rng.pick(&[Op::Lower, Op::Substring(Range::Index(-1)), Op::Trim(String::new(), TDir::Both)]).clone()]), Op::Unique]; }
            if items.len() <= 300 {
                let t = triple(ctx, &ops, &x, false);
                hist(ctx, &ops, &x, &t.real);
                judge(ctx, "C15", &t, &ops, &x, "C15_code_does_this");
                if i < 3 { ctx.rep.sample(format!("{} on {:?} -> {}", t.text, x, t.real.show())); }
            }
        })
}

/* ---------------- C16 ------------------------------------------------------ */
pub fn c16(opts: &Opts) -> Report {
    let mut rep = run_parallel(opts, "C16",
        "strings mixing 1-4-byte characters, combining marks, every White_Space character and controls x widths, pad characters, trim sets, directions x the string with and without a non-ASCII marker placed where the operation cannot reach it; laws on character counts evaluated on the implementation plus equality with the model; distinct by (template, input)",
        opts.cases(5_000, 200_000), &|ctx, i| {
            let base: String = match ctx.rng.below(4) {
                0 => gens::unicode_text(&mut ctx.rng, 10),
                1 => { let n = ctx.rng.below(4); let w = gens::word(&mut ctx.rng); let m = ctx.rng.below(4);
                       let l: String = (0..n).map(|_| *ctx.rng.pick(gens::WS_CHARS)).collect(); let r: String = (0..m).map(|_| *ctx.rng.pick(gens::WS_CHARS)).collect(); format!("{l}{w}{r}") }
                2 => { let n = ctx.rng.below(3); let w = gens::word(&mut ctx.rng);
                       let l: String = (0..n).map(|_| *ctx.rng.pick(&[' ', '\t', '\n', '\u{b}', '\u{c}', '\r'])).collect(); format!("{l}{w}{l}") }
                _ => gens::text(&mut ctx.rng, 4),
            };
            // strings of white space only (ASCII and not), and strings that begin with a combining mark
            let base = if i % 25 == 4 { let n = 1 + ctx.rng.below(4); (0..n).map(|_| *ctx.rng.pick(gens::WS_CHARS)).collect() } else if i % 25 == 14 { format!("\u{301}{base}") } else { base };
            if i % 25 == 9 || i % 25 == 19 {
                let ascii = gens::word(&mut ctx.rng);
                let n = ascii.chars().count() as i128;
                let nona = *ctx.rng.pick(&['é', '中', '😀', 'ß']);
                let (ops, x): (Vec<Op>, String) = if i % 25 == 9 {
                    // everything before position b is ASCII, the character AT b is not
                    (vec![Op::Substring(Range::Range(Some(ctx.rng.below(2) as i128), Some(n), true))], format!("{ascii}{nona}{}", if ctx.rng.chance(1, 2) { "d" } else { "" }))
                } else {
                    // an ASCII text padded with a non-ASCII fill, then an operation that works on characters
                    let second = ctx.rng.pick(&[Op::Reverse, Op::Substring(Range::Range(Some(1), Some(4), false)), Op::Trim(String::new(), TDir::Both), Op::Substring(Range::Index(-1))]).clone();
                    (vec![Op::Pad((n + 3) as u128, nona, gens::pdir(&mut ctx.rng)), second], ascii.clone())
                };
                ctx.rep.eval(); ctx.rep.bump("ascii_then_non_ascii_cases");
                let t = triple(ctx, &ops, &x, false);
                ctx.rep.nontrivial(&(t.text.clone(), x.clone()));
                judge(ctx, "C16", &t, &ops, &x, "C16_ascii_fast_paths_unobservable");
                return;
            }
            let op = match ctx.rng.below(8) {
                0 => Op::Reverse,
                1 => Op::Substring(gens::range(&mut ctx.rng)),
                2 | 3 => Op::Pad(ctx.rng.below(14) as u128, gens::pad_char(&mut ctx.rng), gens::pdir(&mut ctx.rng)),
                4 | 5 => Op::Trim(if ctx.rng.chance(1, 2) { String::new() } else if ctx.rng.chance(1, 3) { " \t".into() } else if ctx.rng.chance(1, 3) { ctx.rng.pick(&["A", "-", "*", "xy", "-=", "a ", "0"]).to_string() } else { gens::simple_arg(&mut ctx.rng) }, gens::tdir(&mut ctx.rng)),
                6 => Op::Upper,
                _ => Op::Lower,
            };
            ctx.rep.eval();
            // characters that agree with a member of the trim set / the pad character in their low byte only
            let base = match &op {
                Op::Trim(set, _) if !set.is_empty() && i % 3 == 0 => {
                    let cs: Vec<char> = set.chars().collect();
                    let mut edge = |rng: &mut Rng| -> String { (0..rng.below(3)).map(|_| { let c = *rng.pick(&cs); if rng.chance(1, 2) { gens::alias_mod256(rng, c) } else { c } }).collect() };
                    let (l, r) = (edge(&mut ctx.rng), edge(&mut ctx.rng));
                    ctx.rep.bump("low_byte_alias_inputs");
                    format!("{l}{base}{r}")
                }
                _ => base,
            };
            let ops = vec![op.clone()];
            let t = triple(ctx, &ops, &base, false);
            ctx.rep.nontrivial(&(t.text.clone(), base.clone()));
            hist(ctx, &ops, &base, &t.real);
            if !judge(ctx, "C16", &t, &ops, &base, "C16_ascii_fast_paths_unobservable") { return; }
            let out = match &t.real { Out::Ok(s) => s.clone(), _ => return };
            let chars = |s: &str| s.chars().count();
            match &op {
                Op::Pad(w, c, d) => {
                    let want = (*w as usize).max(chars(&base));
                    if chars(&out) != want || !out.contains(base.as_str()) {
                        viol(ctx, format!("C16: {} on {:?} = {:?}: width {} != {}", t.text, base, out, chars(&out), want), vec![("template", t.text.clone()), ("input", base.clone()), ("observed", out.clone()), ("theorem", "C16_pad_reaches_width".into())]); return;
                    }
                    let need = want - chars(&base);
                    let (l, r) = match d { PDir::Left => (need, 0), PDir::Right => (0, need), PDir::Both => (need / 2, need - need / 2) };
                    let exp = format!("{}{}{}", c.to_string().repeat(l), base, c.to_string().repeat(r));
                    if out != exp { viol(ctx, format!("C16: {} on {:?} = {:?}, expected {:?}", t.text, base, out, exp), vec![("template", t.text.clone()), ("input", base.clone()), ("observed", out.clone()), ("expected", exp), ("theorem", "C16_pad_shape".into())]); return; }
                }
                Op::Trim(set, d) => {
                    // trim == trim:left then trim:right, through the public API
                    if *d == TDir::Both {
                        let l = Op::Trim(set.clone(), TDir::Left); let r = Op::Trim(set.clone(), TDir::Right);
                        let two = fmt(&print_block(&[l, r]), &base);
                        if two != t.real { viol(ctx, format!("C16: {} != left-then-right on {:?}: {} vs {}", t.text, base, t.real.show(), two.show()), vec![("template", t.text.clone()), ("input", base.clone()), ("observed", t.real.show()), ("expected", two.show()), ("theorem", "C16_trim_is_left_then_right".into())]); return; }
                    }
                    // the same string with a non-ASCII marker right after the first kept character
                    if !out.is_empty() && !set.contains('\u{1F600}') {
                        let blank = set.trim().is_empty();
                        let in_set = |c: char| if blank { c.is_whitespace() } else { set.contains(c) };
                        let p_len = if *d == TDir::Right { 0 } else { base.len() - base.trim_start_matches(in_set).len() };
                        let k = out.chars().next().map(|c| c.len_utf8()).unwrap_or(0);
                        let marked = format!("{}{}{}", &base[..p_len + k], "\u{1F600}", &base[p_len + k..]);
                        let expect_marked = format!("{}{}{}", &out[..k], "\u{1F600}", &out[k..]);
                        let om = fmt(&t.text, &marked);
                        if om != Out::Ok(expect_marked.clone()) {
                            viol(ctx, format!("C16: {} depends on an unrelated non-ASCII character: {:?} -> {:?} but {:?} -> {}", t.text, base, out, marked, om.show()), vec![("template", t.text.clone()), ("input", marked.clone()), ("observed", om.show()), ("expected", format!("{expect_marked:?}")), ("theorem", "C16_ascii_fast_paths_unobservable".into())]); return;
                        }
                    }
                }
                Op::Reverse => {
                    let exp: String = base.chars().rev().collect();
                    if out != exp { viol(ctx, format!("C16: reverse of {:?} = {:?}", base, out), vec![("template", t.text.clone()), ("input", base.clone()), ("observed", out.clone()), ("expected", exp), ("theorem", "C16_reverse_whole_chars".into())]); return; }
                    // marker variant
                    let marked = format!("{base}\u{1F600}");
                    if fmt(&t.text, &marked) != Out::Ok(format!("\u{1F600}{exp}")) { viol(ctx, format!("C16: reverse depends on ASCII-ness: {:?}", marked), vec![("template", t.text.clone()), ("input", marked), ("theorem", "C16_ascii_fast_paths_unobservable".into())]); return; }
                }
                Op::Substring(r) => {
                    // appending a non-ASCII marker beyond the selected range must not change the selection of the first part
                    if let Range::Range(Some(a), Some(b), _) = r { if *a >= 0 && *b >= 0 && (*b as usize) + 1 < chars(&base) {
                        let marked = format!("{base}\u{1F600}");
                        let om = fmt(&t.text, &marked);
                        if om != t.real { viol(ctx, format!("C16: {} on {:?} = {} but with a marker appended = {}", t.text, base, t.real.show(), om.show()), vec![("template", t.text.clone()), ("input", marked), ("observed", om.show()), ("expected", t.real.show()), ("theorem", "C16_substring_whole_chars".into())]); return; }
                    } }
                }
                _ => {}
            }
            if i < 3 { ctx.rep.sample(format!("{} on {:?} -> {:?}", t.text, base, out)); }
        });
    // the complete whitespace table: model's is_ws vs char::is_whitespace for every scalar value
    let table_ok = whitespace_table_matches();
    rep.add("whitespace_table_scalars_checked", 0x110000 - 0x800);
    if let Err(c) = table_ok {
        rep.violation(format!("C16: model whitespace table disagrees with char::is_whitespace at U+{:04X}", c), vec![("kind".into(), "correspondence".into()), ("char".into(), format!("{c:x}"))]);
    }
    rep
}

pub fn model_is_ws(c: u32) -> bool {
    (9..=13).contains(&c) || c == 32 || c == 133 || c == 160 || c == 5760 || (8192..=8202).contains(&c) || c == 8232 || c == 8233 || c == 8239 || c == 8287 || c == 12288
}
fn whitespace_table_matches() -> Result<(), u32> {
    for v in 0..0x110000u32 { if let Some(c) = char::from_u32(v) { if c.is_whitespace() != model_is_ws(v) { return Err(v); } } }
    Ok(())
}
