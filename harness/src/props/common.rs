//! The three-way comparison shared by most properties:
//!   implementation (real crate)  vs  Impl model  vs  Spec model.
use crate::ast::*;
use crate::driver::Out;
use crate::real;
use crate::Ctx;

pub struct Triple {
    pub text: String,
    pub parsed_same: bool,
    pub real: Out,
    pub impl_model: Out,
    pub spec: Out,
}

/// Print the pipeline, parse and format it with the real library, run both model
/// layers on the same operations and input.
pub fn triple(ctx: &mut Ctx, ops: &[Op], input: &str, dbg: bool) -> Triple {
    let text = if dbg { format!("{{!{}}}", print_ops(ops)) } else { print_block(ops) };
    let (parsed_same, real_out) = match real::parse(&text) {
        real::Parsed::Ok(tpl) => {
            let secs = real::parsed_ops(&tpl);
            let same = secs.len() == 1 && secs[0] == ops;
            (same, real::format(&tpl, input))
        }
        real::Parsed::Err(_) => (false, Out::Err),
        real::Parsed::Panic => (false, Out::Panic),
    };
    let (impl_model, spec) = ctx.drv.run(dbg, &wire_ops(ops), input);
    Triple { text, parsed_same, real: real_out, impl_model, spec }
}

/// Record the verdict of a triple under property `pid`; returns true if clean.
pub fn judge(ctx: &mut Ctx, pid: &str, t: &Triple, ops: &[Op], input: &str, theorem: &str) -> bool {
    if !t.parsed_same {
        ctx.rep.violation(
            format!("{pid}: printed pipeline is not parsed back as itself: {:?}", t.text),
            vec![("kind".into(), "property".into()), ("template".into(), t.text.clone()), ("input".into(), input.into()),
                 ("expected_ops".into(), format!("{ops:?}")), ("theorem".into(), "C02_roundtrip".into())]);
        return false;
    }
    if t.real != t.spec {
        ctx.rep.violation(
            format!("{pid}: format({:?}, {:?}) = {} but the documented semantics gives {}", t.text, input, t.real.show(), t.spec.show()),
            vec![("kind".into(), "property".into()), ("template".into(), t.text.clone()), ("input".into(), input.into()),
                 ("observed".into(), t.real.show()), ("expected".into(), t.spec.show()), ("impl_model".into(), t.impl_model.show()),
                 ("theorem".into(), theorem.into())]);
        return false;
    }
    if t.impl_model != t.real {
        ctx.rep.violation(
            format!("{pid}: correspondence broken: Impl model gives {} but the code gives {} on ({:?}, {:?})", t.impl_model.show(), t.real.show(), t.text, input),
            vec![("kind".into(), "correspondence".into()), ("template".into(), t.text.clone()), ("input".into(), input.into()),
                 ("observed".into(), t.real.show()), ("impl_model".into(), t.impl_model.show()), ("theorem".into(), theorem.into())]);
        return false;
    }
    // the same pipeline next to a near-duplicate of itself (one letter case / one flag changed) in ONE template:
    // every section means what its own text says, whatever another section of the same call has computed
    if matches!(pid, "C01" | "C08" | "C14" | "C15" | "C16") && (t.text.len() + input.len()) % 3 == 0 {
        ctx.rep.bump("near_duplicate_section_templates");
        if let Some((text, whole, parts)) = super::templates::near_duplicate_sections_disagree(ops, input) {
            ctx.rep.violation(
                format!("{pid}: format({text:?}, {input:?}) = {} but its sections, each formatted alone, give {}", whole.show(), parts.show()),
                vec![("kind".into(), "property".into()), ("template".into(), text), ("input".into(), input.into()),
                     ("observed".into(), whole.show()), ("expected".into(), parts.show()), ("theorem".into(), format!("{theorem} / C04_compose"))]);
            return false;
        }
    }
    true
}
