//! C06: index and range arguments select the same items on every carrier.
//! Exhaustive small scope (all forms x bounds x lengths x carriers) plus random
//! large bounds; every case is compared with the model (Impl and Spec layers).
use super::common::*;
use crate::ast::*;
use crate::report::Report;
use crate::{run_parallel, Ctx, Opts};

fn bounds() -> Vec<i128> {
    let mut v: Vec<i128> = (-9..=9).collect();
    v.push(i64::MAX as i128);
    v.push(-(i64::MAX as i128));
    v.push(i64::MIN as i128);
    v
}

fn all_ranges() -> Vec<Range> {
    let b = bounds();
    let mut out = Vec::new();
    for &i in &b { out.push(Range::Index(i)); }
    let mut opt: Vec<Option<i128>> = vec![None];
    opt.extend(b.iter().map(|x| Some(*x)));
    for a in &opt { for e in &opt { for inc in [false, true] { out.push(Range::Range(*a, *e, inc)); } } }
    out
}

const LETTERS: &[&str] = &["a", "b", "c", "d", "e", "f", "g"];
const UNI: &[&str] = &["é", "日", "😀", "ß", "x", "€", "ñ"];

fn case(ctx: &mut Ctx, r: &Range, len: usize, carrier: usize) {
    let (ops, input): (Vec<Op>, String) = match carrier {
        // split parts
        0 => (vec![Op::Split(",".into(), r.clone())], LETTERS[..len].join(",")),
        // list items (length 0 through a filter that keeps nothing)
        1 => if len == 0 {
            (vec![Op::Split(",".into(), Range::Range(None, None, false)), Op::Filter("^ZZZ$".into()), Op::Slice(r.clone())], "a,b".into())
        } else {
            (vec![Op::Split(",".into(), Range::Range(None, None, false)), Op::Slice(r.clone())], LETTERS[..len].join(","))
        },
        // characters of an ASCII string
        2 => (vec![Op::Substring(r.clone())], LETTERS[..len].concat()),
        // characters of a non-ASCII string
        3 => (vec![Op::Substring(r.clone())], UNI[..len].concat()),
        // space separated words through the shorthand: printed by hand below
        4 => (vec![Op::Split(" ".into(), r.clone())], if len == 0 { String::new() } else { LETTERS[..len].join(" ") }),
        // split followed by another operation: the general interpreter path instead of the single-split section path
        5 => (vec![Op::Split(",".into(), r.clone()), Op::Join("+".into())], LETTERS[..len].join(",")),
        // split inside map
        6 => (vec![Op::Split(";".into(), Range::Range(None, None, false)), Op::Map(vec![Op::Split(",".into(), r.clone()), Op::Join("+".into())]), Op::Join(";".into())],
              format!("{};{}", LETTERS[..len].join(","), LETTERS[..len.min(2)].join(","))),
        // split applied to a list (the parts of an earlier split are split again and flattened)
        8 => (vec![Op::Split(",".into(), Range::Range(None, None, false)), Op::Split("-".into(), r.clone()), Op::Join("+".into())],
              LETTERS[..len].chunks(2).map(|c| c.join("-")).collect::<Vec<_>>().join(",")),
        // characters of a string that begins with a multi-byte character and continues in ASCII
        11 => (vec![Op::Substring(r.clone())], if len == 0 { String::new() } else { format!("é{}", LETTERS[..len - 1].concat()) }),
        // split applied to a list that an earlier step has emptied
        10 => (vec![Op::Split(",".into(), Range::Range(None, None, false)), Op::Filter("^ZZZ$".into()), Op::Split("-".into(), r.clone())], LETTERS[..len].join(",")),
        // slice directly after sort
        9 => (vec![Op::Split(",".into(), Range::Range(None, None, false)), Op::Sort(crate::ast::SDir::Desc), Op::Slice(r.clone()), Op::Join(",".into())], LETTERS[..len].join(",")),
        // a separator of two characters that overlaps itself, items ending in its first character
        _ => (vec![Op::Split("--".into(), r.clone())], (0..len).map(|k| if k % 2 == 0 { format!("{}-", LETTERS[k]) } else { LETTERS[k].to_string() }).collect::<Vec<_>>().join("--")),
    };
    ctx.rep.eval();
    ctx.rep.nontrivial(&(r.clone(), len, carrier));
    let t = if carrier == 4 {
        // shorthand spelling {R}: same operations, different text
        let text = format!("{{{}}}", print_range(r));
        let (parsed_same, real_out) = match crate::real::parse(&text) {
            crate::real::Parsed::Ok(tpl) => {
                let secs = crate::real::parsed_ops(&tpl);
                (secs.len() == 1 && secs[0] == ops, crate::real::format(&tpl, &input))
            }
            crate::real::Parsed::Err(_) => (false, crate::driver::Out::Err),
            crate::real::Parsed::Panic => (false, crate::driver::Out::Panic),
        };
        let (impl_model, spec) = ctx.drv.run(false, &wire_ops(&ops), &input);
        Triple { text, parsed_same, real: real_out, impl_model, spec }
    } else {
        triple(ctx, &ops, &input, false)
    };
    if ctx.rep.samples.len() < 6 && len == 5 && matches!(r, Range::Range(Some(-3), Some(9), true)) {
        ctx.rep.sample(format!("{} on {:?} -> {}", t.text, input, t.real.show()));
    }
    ctx.rep.bump(match carrier { 0 => "carrier_split", 1 => "carrier_slice", 2 => "carrier_substring_ascii", 3 => "carrier_substring_unicode", 4 => "carrier_shorthand", 5 => "carrier_split_in_pipeline", 6 => "carrier_split_in_map", 8 => "carrier_split_on_list", 9 => "carrier_slice_after_sort", 10 => "carrier_split_on_emptied_list", 11 => "carrier_substring_mixed", _ => "carrier_split_overlapping_separator" });
    judge(ctx, "C06", &t, &ops, &input, "apply_range_is_select / C06_carriers");
    // no index or range the parser accepts causes an error (on a well-typed carrier)
    if matches!(t.real, crate::driver::Out::Err | crate::driver::Out::Panic) && t.parsed_same {
        ctx.rep.violation(format!("C06: {} on {:?} failed: {}", t.text, input, t.real.show()),
            vec![("kind".into(), "property".into()), ("template".into(), t.text.clone()), ("input".into(), input.clone()),
                 ("observed".into(), t.real.show()), ("theorem".into(), "apply_range_never_fails".into())]);
    }
}

pub fn run(opts: &Opts) -> Report {
    let ranges = all_ranges();
    let mut cases: Vec<(Range, usize, usize)> = Vec::new();
    for r in &ranges { for l in 0..=7usize { for c in 0..12 { cases.push((r.clone(), l, c)); } } }
    let exhaustive_n = cases.len() as u64;
    let random_n = opts.cases(4_000, 200_000);
    let cases_ref = &cases;
    let mut rep = run_parallel(opts, "C06",
        "every (range form, bounds in {-9..9, +-(2^63-1), -2^63, none}, length 0..7, carrier) tuple, enumerated exhaustively (all distinct by construction), plus random cases with large bounds and longer collections",
        exhaustive_n + random_n, &|ctx, i| {
            if i < exhaustive_n {
                let (r, l, c) = &cases_ref[i as usize];
                case(ctx, r, *l, *c);
            } else {
                let r = crate::gens::range(&mut ctx.rng);
                let l = ctx.rng.below(8);
                let c = ctx.rng.below(12);
                case(ctx, &r, l, c);
            }
        });
    rep.exhaustive = true;
    rep.add("exhaustive_cases", exhaustive_n);
    rep.add("random_cases", random_n);
    rep
}
