//! Template-object properties: C04 (composition), C10 (debug transparency),
//! C18 (format_with_inputs), C20 (introspection), C05 (histories), C17 (threads),
//! C19 (strip_ansi).
use super::parsing::{ops_raw_ok, wf_pipeline};
use crate::ast::*;
use crate::driver::{parse_out, Out};
use crate::gens;
use crate::real;
use crate::report::Report;
use crate::rng::Rng;
use crate::{run_parallel, Ctx, Opts};
use string_pipeline::verif_hooks as hooks;
use string_pipeline::Template;

fn viol(ctx: &mut Ctx, kind: &str, what: String, kv: Vec<(&str, String)>) {
    let mut r: Vec<(String, String)> = vec![("kind".into(), kind.into())];
    r.extend(kv.into_iter().map(|(k, v)| (k.to_string(), v)));
    ctx.rep.violation(what, r);
}

/* ---------- segment generator ----------------------------------------------------- */
#[derive(Clone, Debug)]
pub enum Seg { Lit(String), Shell(String), Sec(Vec<Op>) }

fn literal_chunk(rng: &mut Rng) -> String {
    let n = 1 + rng.below(4);
    let mut s = String::new();
    // characters an over-eager clean-up would drop: byte-order mark, zero-width space, no-break space, plain blanks
    if rng.chance(1, 6) { s.push(*rng.pick(&['\u{feff}', '\u{200b}', '\u{a0}', ' ', '\n', '\t', '\u{2028}'])); }
    for _ in 0..n {
        match rng.below(10) {
            0 => s.push('}'), 1 => s.push('\\'), 2 => s.push('$'), 3 => s.push_str("  "), 4 => s.push_str(*rng.pick(gens::UNI_WORDS)),
            5 => s.push('\n'), 6 => s.push_str(": | "), 7 => s.push_str(&gens::unicode_text(rng, 6).replace('{', "")),
            _ => s.push_str(*rng.pick(gens::ASCII_WORDS)),
        }
    }
    s
}
pub fn segments(rng: &mut Rng, max: usize) -> Vec<Seg> {
    let n = rng.below(max + 1);
    let mut pool: Vec<Vec<Op>> = Vec::new();
    let mut segs = Vec::new();
    for _ in 0..n {
        match rng.below(10) {
            0..=3 => segs.push(Seg::Lit(literal_chunk(rng))),
            4 => segs.push(Seg::Shell(format!("{}{}", rng.pick(&["HOME", "x", "a:-{b}", "{}", "1", "p%\\", "a\\", "b\\\\", "c:-{\\}"]), ""))),
            _ => {
                // repeated sections and sections differing in one argument
                let ops = if !pool.is_empty() && rng.chance(1, 6) {
                    // an earlier section followed by one or two more operations (the earlier one is a proper prefix)
                    let mut o = rng.pick(&pool).clone();
                    let extra = match rng.below(6) { 0 => Op::Upper, 1 => Op::Sort(SDir::Desc), 2 => Op::Join("-".into()), 3 => Op::Unique, 4 => Op::Map(vec![Op::Upper]), _ => Op::Append("!".into()) };
                    o.push(extra); if rng.chance(1, 3) { o.push(Op::Join("+".into())); }
                    o
                } else if !pool.is_empty() && rng.chance(2, 5) {
                    // the same section again, or a near-duplicate differing in exactly one field
                    let mut o = rng.pick(&pool).clone();
                    if rng.chance(2, 3) && !o.is_empty() { let k = rng.below(o.len()); o[k] = tweak_op(rng, &o[k]); }
                    o
                } else if rng.chance(1, 6) {
                    // sections that differ only in a flag / letter case / one bound
                    let base = match rng.below(6) {
                        0 => Op::Replace("a".into(), "b".into(), String::new()),
                        1 => Op::Surround("q".into()),
                        2 => Op::Filter("a".into()),
                        3 => Op::Pad(3, 'x', PDir::Right),
                        4 => Op::Join("x".into()),
                        _ => Op::Trim("ab".into(), TDir::Both),
                    };
                    let mut o = vec![Op::Split(",".into(), Range::Range(None, None, false)), Op::Join(",".into()), base];
                    if rng.chance(1, 2) { o = vec![Op::Split(",".into(), Range::Range(None, None, false)), Op::Map(vec![o[2].clone()])]; }
                    o
                } else { let len = rng.below(4); let mut o = wf_pipeline(rng, len); if rng.chance(1, 4) { o = vec![Op::Split(gens::sep(rng), gens::range(rng))]; } o };
                pool.push(ops.clone());
                segs.push(Seg::Sec(ops));
            }
        }
    }
    segs
}
/// the same operation with exactly one field changed a little
pub fn tweak_op(rng: &mut Rng, op: &Op) -> Op {
    fn flip_case(s: &str) -> String {
        let mut done = false;
        let t: String = s.chars().map(|c| if !done && c.is_ascii_alphabetic() { done = true; if c.is_ascii_lowercase() { c.to_ascii_uppercase() } else { c.to_ascii_lowercase() } } else { c }).collect();
        if done { t } else { format!("{s}x") }
    }
    fn tweak_range(rng: &mut Rng, r: &Range) -> Range {
        match r {
            Range::Index(i) => Range::Index(i.saturating_add(1).min(i64::MAX as i128)),
            Range::Range(a, b, inc) => match rng.below(3) {
                0 => Range::Range(*a, *b, !*inc),
                1 => Range::Range(Some(a.unwrap_or(0).saturating_add(1).min(i64::MAX as i128)), *b, *inc),
                _ => Range::Range(*a, Some(b.unwrap_or(2).saturating_sub(1).max(i64::MIN as i128)), *inc),
            },
        }
    }
    match op {
        Op::Split(s, r) => if rng.chance(1, 2) { Op::Split(flip_case(s), r.clone()) } else { Op::Split(s.clone(), tweak_range(rng, r)) },
        Op::Join(s) => Op::Join(flip_case(s)),
        Op::Replace(p, r, f) => match rng.below(3) {
            0 => Op::Replace(p.clone(), r.clone(), if f.contains('g') { f.replace('g', "") } else { format!("{f}g") }),
            1 => Op::Replace(p.clone(), r.clone(), if f.contains('i') { f.replace('i', "") } else { format!("{f}i") }),
            _ => Op::Replace(p.clone(), flip_case(r), f.clone()),
        },
        Op::Trim(c, d) => if rng.chance(1, 2) { Op::Trim(flip_case(c), *d) } else { Op::Trim(c.clone(), match d { TDir::Both => TDir::Left, TDir::Left => TDir::Right, TDir::Right => TDir::Both }) },
        Op::Substring(r) => Op::Substring(tweak_range(rng, r)),
        Op::Slice(r) => Op::Slice(tweak_range(rng, r)),
        Op::Append(s) => Op::Append(flip_case(s)),
        Op::Prepend(s) => Op::Prepend(flip_case(s)),
        Op::Surround(s) => Op::Surround(flip_case(s)),
        Op::Filter(p) => if gens::raw_ok(&flip_case(p), false) && !p.contains('\\') { Op::Filter(flip_case(p)) } else { Op::FilterNot(p.clone()) },
        Op::FilterNot(p) => Op::Filter(p.clone()),
        Op::Sort(d) => Op::Sort(match d { SDir::Asc => SDir::Desc, SDir::Desc => SDir::Asc }),
        Op::Pad(w, c, d) => match rng.below(3) { 0 => Op::Pad(w + 1, *c, *d), 1 => Op::Pad(*w, if c.is_ascii_lowercase() { c.to_ascii_uppercase() } else if c.is_ascii_uppercase() { c.to_ascii_lowercase() } else { 'y' }, *d), _ => Op::Pad(*w, *c, match d { PDir::Left => PDir::Right, PDir::Right => PDir::Both, PDir::Both => PDir::Left }) },
        Op::RegexExtract(p, g) => Op::RegexExtract(p.clone(), match g { None => Some(0), Some(g) => Some(g + 1) }),
        Op::Map(b) => { let mut b2 = b.clone(); if !b2.is_empty() { let k = rng.below(b2.len()); b2[k] = tweak_op(rng, &b2[k]); } Op::Map(b2) }
        Op::Upper => Op::Lower, Op::Lower => Op::Upper,
        other => other.clone(),
    }
}

/// text of the template and the sections the scanner must find (adjacent literal text merges)
pub fn assemble(segs: &[Seg]) -> (String, Vec<Section>) {
    let mut text = String::new();
    let mut secs: Vec<Section> = Vec::new();
    let mut push_lit = |secs: &mut Vec<Section>, l: &str| {
        if l.is_empty() { return; }
        if let Some(Section::Lit(prev)) = secs.last_mut() { prev.push_str(l); } else { secs.push(Section::Lit(l.to_string())); }
    };
    for s in segs {
        match s {
            Seg::Lit(l) => { text.push_str(l); push_lit(&mut secs, l); }
            Seg::Shell(b) => { let t = format!("${{{b}}}"); text.push_str(&t); push_lit(&mut secs, &t); }
            Seg::Sec(ops) => {
                // a literal ending in '$' would turn this section into shell text: separate it
                if text.ends_with('$') { text.push(' '); push_lit(&mut secs, " "); }
                text.push_str(&print_block(ops)); secs.push(Section::Sec(ops.clone()));
            }
        }
    }
    (text, secs)
}

fn model_format(ctx: &mut Ctx, dbg: bool, secs: &[Section], x: &str) -> (Out, Out) {
    let r = ctx.drv.request(&format!("FORMAT {} {}", wire_template(dbg, secs), hex(x)));
    let toks: Vec<&str> = r.iter().map(|s| s.as_str()).collect();
    let (a, n) = parse_out(&toks);
    let (b, _) = parse_out(&toks[n + 1..]);
    (a, b)
}

/* ---------- C04 ------------------------------------------------------------------- */
pub fn c04(opts: &Opts) -> Report {
    run_parallel(opts, "C04",
        "random segment lists (0-10 segments: literals over all Unicode incl. $, }, backslashes; ${...} shell text; sections, repeated sections and sections differing in one argument, single-split sections) x inputs; format(whole) is compared with the concatenation of format({S}) through the public API, with the scanner's expected section list, and with the model; non-trivial when the template has >= 2 sections or >= 1 literal; distinct by (template, input)",
        opts.cases(4_000, 150_000), &|ctx, i| {
            let mut segs = segments(&mut ctx.rng, 10);
            // every 20th template: a long literal whose multi-byte characters sit on every plausible preview limit, next to a block
            let long_lit = i % 20 == 9;
            if long_lit {
                let k = (i / 20) as usize; let c = ['é', 'α', '日', '😀'][k % 4];
                let lit = format!("{}{}", "a".repeat(10 + (k / 4) % 12), c.to_string().repeat(14));
                if !matches!(segs.first(), Some(Seg::Lit(_))) { segs.insert(0, Seg::Lit(lit.clone())); }
                if !matches!(segs.last(), Some(Seg::Lit(_))) { segs.push(Seg::Sec(vec![Op::Upper])); segs.push(Seg::Lit(lit)); }
                ctx.rep.bump("long_multibyte_literals");
            }
            let (text, secs) = assemble(&segs);
            let all_ops: Vec<Op> = secs.iter().filter_map(|s| if let Section::Sec(o) = s { Some(o.clone()) } else { None }).flatten().collect();
            let x = gens::input_for(&mut ctx.rng, &all_ops);
            ctx.rep.eval();
            if secs.len() >= 2 { ctx.rep.nontrivial(&(text.clone(), x.clone())); }
            ctx.rep.bump(&format!("sections_{}", secs.len().min(9)));
            let tpl = match real::parse(&text) {
                real::Parsed::Ok(t) => t,
                real::Parsed::Err(e) => { viol(ctx, "property", format!("C04: assembled template {text:?} rejected: {e}"), vec![("template", text.clone()), ("theorem", "C04 scanner".into())]); return; }
                real::Parsed::Panic => { viol(ctx, "property", format!("C04: parse({text:?}) panics"), vec![("template", text.clone())]); return; }
            };
            // a template that is exactly one block takes the single-block path: same structure expected
            let got = sections_from_real(&tpl);
            if got != secs {
                viol(ctx, "property", format!("C04: {text:?} is scanned as {got:?}, expected {secs:?}"), vec![("template", text.clone()), ("observed", format!("{got:?}")), ("expected", format!("{secs:?}")), ("theorem", "C04 scanner".into())]);
                return;
            }
            if !super::parsing::parse_agree(ctx, "C04", &text).0 { return; }
            let whole = real::format(&tpl, &x);
            // parts through the public API
            let mut expect = Some(String::new());
            for s in &secs {
                match s {
                    Section::Lit(l) => if let Some(e) = expect.as_mut() { e.push_str(l); },
                    Section::Sec(ops) => match real::parse_format(&print_block(ops), &x) {
                        Out::Ok(o) => if let Some(e) = expect.as_mut() { e.push_str(&o); },
                        _ => { expect = None; break; }
                    },
                }
            }
            let expected = match expect { Some(e) => Out::Ok(e), None => Out::Err };
            if whole != expected {
                viol(ctx, "property", format!("C04: format({text:?}, {x:?}) = {} but its parts give {}", whole.show(), expected.show()),
                     vec![("template", text.clone()), ("input", x.clone()), ("observed", whole.show()), ("expected", expected.show()), ("theorem", "C04_compose".into())]);
                return;
            }
            // literals verbatim and sections as alone, with tracing switched on as well
            if long_lit || i % 8 == 5 {
                let traced = real::format(&tpl.clone().with_debug(true), &x);
                ctx.rep.bump("traced_compositions");
                if traced != expected {
                    viol(ctx, "property", format!("C04: with tracing on, format({text:?}, {x:?}) = {} but its parts give {}", traced.show(), expected.show()),
                         vec![("template", text.clone()), ("input", x.clone()), ("debug", "true".into()), ("observed", traced.show()), ("expected", expected.show()), ("theorem", "C04_compose / C10_transparent".into())]);
                    return;
                }
            }
            let (mi, ms) = model_format(ctx, false, &secs, &x);
            if mi != whole || ms != whole {
                viol(ctx, if ms != whole { "property" } else { "correspondence" }, format!("C04: format({text:?}, {x:?}) = {} but model impl {} / spec {}", whole.show(), mi.show(), ms.show()),
                     vec![("template", text.clone()), ("input", x.clone()), ("observed", whole.show()), ("expected", ms.show()), ("impl_model", mi.show()), ("theorem", "C04_compose".into())]);
                return;
            }
            if i < 3 { ctx.rep.sample(format!("{text:?} on {x:?} -> {}", whole.show())); }
        })
}

/* ---------- C10 ------------------------------------------------------------------- */
fn straddle(rng: &mut Rng) -> String {
    let pad = rng.below(45); let c = *rng.pick(&['é', '日', '😀', 'ß']); let n = 1 + rng.below(40);
    let mut s = "a".repeat(pad); for _ in 0..n { s.push(c); } s
}
pub fn c10(opts: &Opts) -> Report {
    let cli = opts.cli_bin.clone();
    run_parallel(opts, "C10",
        "every way of enabling debug ({!...}, parse_with_debug(Some(true)), with_debug, set_debug, CLI --debug, CLI {!...}) x templates (single block, mixed with literals of any length and script incl. whitespace-only literals, with map) x inputs whose previews exceed the trace's limits with multi-byte characters; the result with tracing on must equal the result with tracing off (stderr discarded); non-trivial when some traced value or literal exceeds a preview limit; distinct by (template, input, route)",
        opts.cases(3_000, 100_000), &|ctx, i| {
            let segs = if ctx.rng.chance(1, 2) { vec![Seg::Sec(wf_pipeline(&mut ctx.rng, 5))] } else {
                let mut v = segments(&mut ctx.rng, 5);
                if ctx.rng.chance(1, 2) { v.insert(0, Seg::Lit(straddle(&mut ctx.rng))); }
                if ctx.rng.chance(1, 3) { v.push(Seg::Lit(" ".repeat(1 + ctx.rng.below(3)))); }
                v
            };
            // a lone split (the fast path) on inputs beyond the cache admission limits (> 10 000 bytes, > 1 000 parts)
            if i % 20 == 1 {
                let k = (i / 20) as usize;
                let xin = if k % 2 == 0 { format!("{},tail,{}", "z".repeat(10_001), "y".repeat(50)) } else { (0..1_002).map(|n| format!("p{n}")).collect::<Vec<_>>().join(",") };
                let text = ["{split:,:1}", "a {split:,:-1} b", "{split:,:0..2}", "{split:,:..1}<{split:,:1}>"][(k / 2) % 4];
                let run = |d: bool| match real::parse_with_debug(text, Some(d)) { real::Parsed::Ok(t) => real::format(&t, &xin), real::Parsed::Err(_) => Out::Err, real::Parsed::Panic => Out::Panic };
                let (a, b) = (run(false), run(true));
                ctx.rep.bump("lone_split_beyond_cache_limits");
                if a != b { viol(ctx, "property", format!("C10: {text} on a {}-byte input with {} parts: tracing on {} vs off {}", xin.len(), xin.split(',').count(), trunc(&b.show()), trunc(&a.show())), vec![("template", text.to_string()), ("input_description", format!("{} bytes, {} comma-separated parts", xin.len(), xin.split(',').count())), ("input", xin.clone()), ("theorem", "C10_transparent".into())]); return; }
            }
            // an excluded execution first (a pad width no machine can allocate, traced): whatever it does, the ordinary
            // calls that follow are inside the property again, traced and untraced alike
            if i % 20 == 17 {
                ctx.rep.bump("after_an_unallocatable_traced_call");
                if let real::Parsed::Ok(t) = real::parse_with_debug("{pad:18446744073709551615}", Some(true)) { let _ = real::format(&t, "a"); }
                if let real::Parsed::Ok(t) = real::parse_with_debug("x{split:,:..|map:{pad:18446744073709551615:*:left}}", Some(true)) { let _ = real::format(&t, "a,b"); }
            }
            // a pattern that does not compile, in a step the run never reaches or reaches only after another failure
            let unreached = i % 20 == 13;
            let segs = if unreached {
                ctx.rep.bump("invalid_pattern_in_unreached_step");
                let all = || Op::Split(",".into(), Range::Range(None, None, false));
                let pool: Vec<Vec<Op>> = vec![
                    vec![all(), Op::Filter("zzz".into()), Op::Map(vec![Op::Filter("[".into())])],
                    vec![all(), Op::Upper, Op::Filter("[".into())],
                    vec![all(), Op::RegexExtract("[".into(), None)],
                    vec![Op::Split(",".into(), Range::Range(Some(5), None, false)), Op::Map(vec![Op::RegexExtract("(".into(), None)])],
                    vec![all(), Op::Map(vec![Op::Upper]), Op::Slice(Range::Range(Some(7), None, false)), Op::Map(vec![Op::Replace("(".into(), "x".into(), "g".into())])],
                    vec![all(), Op::FilterNot(".".into()), Op::Map(vec![Op::FilterNot("a{2,1}".into())]), Op::Join("-".into())],
                    vec![Op::Sort(SDir::Asc), Op::Filter("(".into())],
                    // a one-item list is a list: what follows a slice with a bare index sees the kind the documentation says
                    vec![all(), Op::Slice(Range::Index(1)), Op::Upper],
                    vec![all(), Op::Slice(Range::Index(-1)), Op::Map(vec![Op::Upper])],
                    vec![all(), Op::Slice(Range::Index(0)), Op::Sort(SDir::Desc), Op::Join("+".into())],
                ];
                // two sections that both fail, with different messages: the first failure is the one reported
                let multi: Vec<Vec<Seg>> = vec![
                    vec![Seg::Sec(vec![Op::Sort(SDir::Asc)]), Seg::Lit(" / ".into()), Seg::Sec(vec![Op::Unique])],
                    vec![Seg::Lit("first ".into()), Seg::Sec(vec![all(), Op::Upper]), Seg::Lit(" then ".into()), Seg::Sec(vec![Op::Filter("[".into())]), Seg::Lit(" end".into())],
                    vec![Seg::Sec(vec![Op::Filter("(".into())]), Seg::Sec(vec![Op::Filter(")".into())]), Seg::Sec(vec![Op::Join("-".into()), Op::Sort(SDir::Desc)])],
                ];
                let k = (i / 20) as usize;
                let n = pool.len() + multi.len();
                let mut v = if k % n < pool.len() { vec![Seg::Sec(pool[k % n].clone())] } else { multi[k % n - pool.len()].clone() };
                if (k / n) % 2 == 1 { v.insert(0, Seg::Lit("p: ".into())); }
                v
            } else { segs };
            let (text, secs) = assemble(&segs);
            if secs.is_empty() { return; }
            let all_ops: Vec<Op> = secs.iter().filter_map(|s| if let Section::Sec(o) = s { Some(o.clone()) } else { None }).flatten().collect();
            let x = if unreached { "a,b,c".to_string() } else if ctx.rng.chance(2, 3) { straddle(&mut ctx.rng) } else { gens::input_for(&mut ctx.rng, &all_ops) };
            ctx.rep.eval();
            let big = x.len() > 40 || secs.iter().any(|s| matches!(s, Section::Lit(l) if l.len() > 20));
            let off = match real::parse_with_debug(&text, Some(false)) { real::Parsed::Ok(t) => real::format(&t, &x), real::Parsed::Err(_) => Out::Err, real::Parsed::Panic => Out::Panic };
            let route = (i % 4) as usize;
            if big { ctx.rep.nontrivial(&(text.clone(), x.clone(), route)); }
            let on = match route {
                0 => { // {!...}: put the flag into the first section
                    let mut first = true;
                    let mut t2 = String::new();
                    for s in &segs { match s { Seg::Sec(ops) if first => { first = false; if t2.ends_with('$') { t2.push(' '); } t2.push_str(&format!("{{!{}}}", print_ops(ops))); } _ => { let (p, _) = assemble(&[s.clone()]); if t2.ends_with('$') && p.starts_with('{') { t2.push(' '); } t2.push_str(&p); } } }
                    if first { return; }
                    // adjust expectations when a separating space was inserted differently: compare against its own debug-off twin
                    let off2 = match real::parse_with_debug(&t2, Some(false)) { real::Parsed::Ok(t) => real::format(&t, &x), real::Parsed::Err(_) => Out::Err, real::Parsed::Panic => Out::Panic };
                    let on2 = match real::parse_with_debug(&t2, None) { real::Parsed::Ok(t) => { if !t.is_debug() { viol(ctx, "property", format!("C10: {t2:?} does not enable debug"), vec![("template", t2.clone())]); return; } real::format(&t, &x) } real::Parsed::Err(_) => Out::Err, real::Parsed::Panic => Out::Panic };
                    if on2 != off2 { viol(ctx, "property", format!("C10: {t2:?} on {x:?}: tracing on {} vs off {}", on2.show(), off2.show()), vec![("template", t2), ("input", x.clone()), ("route", "bang".into()), ("observed", on2.show()), ("expected", off2.show()), ("theorem", "C10_transparent".into())]); }
                    ctx.rep.bump("route_bang");
                    return;
                }
                1 => { ctx.rep.bump("route_parse_with_debug"); match real::parse_with_debug(&text, Some(true)) { real::Parsed::Ok(t) => real::format(&t, &x), real::Parsed::Err(_) => Out::Err, real::Parsed::Panic => Out::Panic } }
                2 => { ctx.rep.bump("route_with_debug"); match real::parse(&text) { real::Parsed::Ok(t) => { let t = t.with_debug(true); real::format(&t, &x) } real::Parsed::Err(_) => Out::Err, real::Parsed::Panic => Out::Panic } }
                _ => { ctx.rep.bump("route_set_debug"); match real::parse(&text) { real::Parsed::Ok(mut t) => { t.set_debug(true); if !t.is_debug() { viol(ctx, "property", "C10: set_debug(true) not reflected".into(), vec![("template", text.clone())]); return; } real::format(&t, &x) } real::Parsed::Err(_) => Out::Err, real::Parsed::Panic => Out::Panic } }
            };
            if on != off {
                viol(ctx, "property", format!("C10: format({text:?}, {x:?}): tracing on {} vs off {}", on.show(), off.show()),
                     vec![("template", text.clone()), ("input", x.clone()), ("route", route.to_string()), ("observed", on.show()), ("expected", off.show()), ("theorem", "C10_transparent".into())]);
                return;
            }
            // "the returned value OR ERROR is identical": when both runs fail, with the same message
            if on == Out::Err && off == Out::Err {
                let msg = |d: bool| match real::parse_with_debug(&text, Some(d)) { real::Parsed::Ok(t) => match real::format_msg(&t, &x) { Ok(Err(e)) => Some(e), _ => None }, _ => None };
                let (m_off, m_on) = (msg(false), msg(true));
                ctx.rep.bump("error_text_compared");
                if m_off.is_some() && m_on.is_some() && m_off != m_on {
                    viol(ctx, "property", format!("C10: format({text:?}, {x:?}) fails with {:?} when traced but with {:?} when not", m_on.clone().unwrap_or_default(), m_off.clone().unwrap_or_default()),
                         vec![("template", text.clone()), ("input", x.clone()), ("observed", m_on.unwrap_or_default()), ("expected", m_off.unwrap_or_default()), ("theorem", "C10_transparent".into())]);
                    return;
                }
            }
            // the structured entry point under tracing: several (or no) inputs per section
            if i % 3 == 1 {
                let nsec = secs.iter().filter(|s| matches!(s, Section::Sec(_))).count();
                let x2 = gens::text(&mut ctx.rng, 3);
                let inputs: Vec<Vec<String>> = (0..nsec).map(|k| match (k + i as usize) % 3 { 0 => vec![x.clone(), x2.clone()], 1 => vec![], _ => vec![x2.clone(), x.clone(), x.clone()] }).collect();
                let seps: Vec<String> = (0..nsec).map(|k| [" ", ",", "+"][k % 3].to_string()).collect();
                let run = |d: bool| match real::parse_with_debug(&text, Some(d)) { real::Parsed::Ok(t) => real::fwi(&t, &inputs, &seps), real::Parsed::Err(_) => Out::Err, real::Parsed::Panic => Out::Panic };
                let (f_off, f_on) = (run(false), run(true));
                ctx.rep.bump("format_with_inputs_on_off");
                if f_on != f_off {
                    viol(ctx, "property", format!("C10: format_with_inputs({text:?}, {inputs:?}, {seps:?}): tracing on {} vs off {}", f_on.show(), f_off.show()),
                         vec![("template", text.clone()), ("input", x.clone()), ("inputs", format!("{inputs:?}")), ("observed", f_on.show()), ("expected", f_off.show()), ("theorem", "C10_transparent".into())]);
                    return;
                }
            }
            let (mi, _) = model_format(ctx, true, &secs, &x);
            if mi != on {
                viol(ctx, "correspondence", format!("C10: model (debug) {} vs code {} on ({text:?}, {x:?})", mi.show(), on.show()), vec![("template", text.clone()), ("input", x.clone()), ("observed", on.show()), ("impl_model", mi.show()), ("theorem", "C10_transparent".into())]);
                return;
            }
            // the CLI routes, a sample of the cases (process spawns are slower)
            if !cli.is_empty() && i % 25 == 0 && !x.contains('\0') && !text.contains('\0') && !text.starts_with('-') {
                for flags in [vec![], vec!["--debug"]] {
                    ctx.rep.bump(if flags.is_empty() { "route_cli_plain" } else { "route_cli_debug" });
                    let out = std::process::Command::new(&cli).args(&flags).arg("--").arg(&text).arg(&x).stdin(std::process::Stdio::null()).output();
                    if let Ok(o) = out {
                        let got = if o.status.success() { Out::Ok(String::from_utf8_lossy(&o.stdout).to_string()) } else if o.status.code() == Some(1) { Out::Err } else { Out::Panic };
                        if got != off { viol(ctx, "property", format!("C10: CLI {flags:?} on ({text:?}, {x:?}) gives {} but the library (tracing off) gives {}", got.show(), off.show()), vec![("template", text.clone()), ("input", x.clone()), ("route", format!("cli {flags:?}")), ("observed", got.show()), ("expected", off.show()), ("theorem", "C10_transparent".into())]); return; }
                    }
                }
            }
            if !cli.is_empty() && i % 25 == 5 && !text.contains('\0') && !text.starts_with('-') {
                // --validate says the same thing on stdout, and exits the same way, with tracing on or off
                let run = |flags: &[&str]| std::process::Command::new(&cli).args(flags).arg("--").arg(&text).stdin(std::process::Stdio::null()).output().ok().map(|o| (o.status.code(), String::from_utf8_lossy(&o.stdout).to_string()));
                let plain = run(&["--validate"]); let traced = run(&["--validate", "--debug"]);
                ctx.rep.bump("route_cli_validate");
                if plain != traced {
                    viol(ctx, "property", format!("C10: CLI --validate on {text:?}: with --debug {:?}, without {:?}", traced, plain), vec![("template", text.clone()), ("route", "cli --validate".into()), ("observed", format!("{traced:?}")), ("expected", format!("{plain:?}")), ("theorem", "C10_transparent".into())]);
                    return;
                }
            }
            if i < 3 { ctx.rep.sample(format!("route {route}: {text:?} on {x:?} -> {}", on.show())); }
        })
}

/* ---------- C18 ------------------------------------------------------------------- */
pub fn c18(opts: &Opts) -> Report {
    run_parallel(opts, "C18",
        "templates x shapes of the inputs array (fewer / equal / more entries than sections; empty, single and multiple inputs per section; repeated inputs across sections) x separator arrays (shorter, equal, longer); format_with_inputs is compared with literals + separator-join of format({S_k}, input) through the public API and with the model; non-trivial when the template has >= 2 sections; distinct by (template, inputs, separators)",
        opts.cases(3_000, 100_000), &|ctx, i| {
            if i % 100 == 37 {
                // inputs that are slices of ONE buffer (a line and its first word, a text and its empty prefix)
                let line = format!("{} {}", gens::word(&mut ctx.rng), gens::word(&mut ctx.rng));
                let cut = line.find(' ').unwrap();
                let text = "first={upper} all={upper} none=[{upper}]";
                if let real::Parsed::Ok(tpl) = real::parse(text) {
                    let a: &[&str] = &[&line[..cut]]; let b: &[&str] = &[&line[..]]; let c: &[&str] = &[&line[..0]];
                    let got = match real::guarded(&|| "fwi-slices".to_string(), || tpl.format_with_inputs(&[a, b, c], &[])) { Ok(Ok(s)) => Out::Ok(s), Ok(Err(_)) => Out::Err, Err(()) => Out::Panic };
                    let want = Out::Ok(format!("first={} all={} none=[]", line[..cut].to_uppercase(), line.to_uppercase()));
                    ctx.rep.eval(); ctx.rep.bump("slices_of_one_buffer");
                    if got != want { viol(ctx, "property", format!("C18: format_with_inputs({text:?}) on slices of {line:?} = {} but each section on its own input gives {}", got.show(), want.show()), vec![("template", text.into()), ("inputs", format!("[[&line[..{cut}]], [&line], [&line[..0]]] of {line:?}")), ("observed", got.show()), ("expected", want.show()), ("theorem", "C18_memo_isolation".into())]); }
                }
                return;
            }
            if i % 100 == 17 {
                // one section with MANY inputs (not a multiple of any worker count), separators of several bytes
                let n = *ctx.rng.pick(&[257usize, 259, 1003, 65, 4097]);
                let sep = ctx.rng.pick(&[",", " · ", "→", ""]).to_string();
                let text = ctx.rng.pick(&["{upper}", "tags: {append:!}.", "{split:-:0}"]).to_string();
                let ins: Vec<String> = (0..n).map(|k| format!("w{k}-x")).collect();
                let got = match real::parse(&text) { real::Parsed::Ok(t) => real::fwi(&t, &[ins.clone()], &[sep.clone()]), _ => Out::Err };
                let inner = &text[text.find('{').unwrap()..=text.find('}').unwrap()];
                let parts: Vec<String> = ins.iter().map(|x| match real::parse_format(inner, x) { Out::Ok(o) => o, _ => "?".into() }).collect();
                let want = Out::Ok(format!("{}{}{}", &text[..text.find('{').unwrap()], parts.join(&sep), &text[text.find('}').unwrap() + 1..]));
                ctx.rep.eval(); ctx.rep.bump("many_inputs_cases");
                if got != want {
                    viol(ctx, "property", format!("C18: format_with_inputs({text:?}, {n} inputs, {sep:?}) = {} but the joined standalone results are {}", trunc(&got.show()), trunc(&want.show())),
                         vec![("template", text.clone()), ("inputs", format!("{n} inputs w0-x .. w{}-x", n - 1)), ("separators", format!("{sep:?}")), ("observed", got.show()), ("expected", want.show()), ("theorem", "C18_spec".into())]);
                }
                return;
            }
            let segs = segments(&mut ctx.rng, 7);
            let (text, secs) = assemble(&segs);
            let nsec = secs.iter().filter(|s| matches!(s, Section::Sec(_))).count();
            let mut pool: Vec<String> = (0..4).map(|_| if ctx.rng.chance(1, 5) { String::new() } else { gens::text(&mut ctx.rng, 3) }).collect();
            // two different inputs with the same 64-bit DefaultHasher value: the memo must not confuse them
            if ctx.rng.chance(1, 3) { pool = vec![COLLIDE_A.to_string(), COLLIDE_B.to_string(), pool[0].clone()]; }
            let k = match ctx.rng.below(4) { 0 => nsec.saturating_sub(1), 1 => nsec + 2, _ => nsec };
            let inputs: Vec<Vec<String>> = (0..k).map(|_| { let n = match ctx.rng.below(5) { 0 => 0, 1 | 2 => 1, _ => 2 + ctx.rng.below(3) }; (0..n).map(|_| ctx.rng.pick(&pool).clone()).collect() }).collect();
            let ks = match ctx.rng.below(4) { 0 => nsec.saturating_sub(1), 1 => nsec + 1, 2 => 0, _ => nsec };
            let seps: Vec<String> = (0..ks).map(|_| gens::sep(&mut ctx.rng)).collect();
            ctx.rep.eval();
            if nsec >= 2 { ctx.rep.nontrivial(&(text.clone(), inputs.clone(), seps.clone())); }
            ctx.rep.bump(match k.cmp(&nsec) { std::cmp::Ordering::Less => "inputs_fewer", std::cmp::Ordering::Equal => "inputs_equal", _ => "inputs_more" });
            let tpl = match real::parse(&text) { real::Parsed::Ok(t) => t, _ => { viol(ctx, "property", format!("C18: assembled template {text:?} rejected"), vec![("template", text.clone())]); return; } };
            let in_refs: Vec<Vec<&str>> = inputs.iter().map(|v| v.iter().map(|s| s.as_str()).collect()).collect();
            let in_slices: Vec<&[&str]> = in_refs.iter().map(|v| v.as_slice()).collect();
            let sep_refs: Vec<&str> = seps.iter().map(|s| s.as_str()).collect();
            let got = match real::guarded(&|| format!("format_with_inputs {text:?}"), || tpl.format_with_inputs(&in_slices, &sep_refs)) { Ok(Ok(s)) => Out::Ok(s), Ok(Err(_)) => Out::Err, Err(()) => Out::Panic };
            // expected through the public API
            let mut expect = Some(String::new());
            let mut idx = 0;
            'outer: for s in &secs {
                match s {
                    Section::Lit(l) => if let Some(e) = expect.as_mut() { e.push_str(l); },
                    Section::Sec(ops) => {
                        let ins: Vec<String> = inputs.get(idx).cloned().unwrap_or_default();
                        let sep = seps.get(idx).cloned().unwrap_or_else(|| " ".to_string());
                        let mut outs = Vec::new();
                        for inp in &ins { match real::parse_format(&print_block(ops), inp) { Out::Ok(o) => outs.push(o), _ => { expect = None; break 'outer; } } }
                        if let Some(e) = expect.as_mut() { e.push_str(&outs.join(&sep)); }
                        idx += 1;
                    }
                }
            }
            let expected = match expect { Some(e) => Out::Ok(e), None => Out::Err };
            if got != expected {
                viol(ctx, "property", format!("C18: format_with_inputs({text:?}, {inputs:?}, {seps:?}) = {} but sections alone give {}", got.show(), expected.show()),
                     vec![("template", text.clone()), ("inputs", format!("{inputs:?}")), ("separators", format!("{seps:?}")), ("observed", got.show()), ("expected", expected.show()), ("theorem", "C18_spec".into())]);
                return;
            }
            let mut req = format!("FWI {} {}", wire_template(false, &secs), inputs.len());
            for l in &inputs { req.push(' '); req.push_str(&wire_strlist(l)); }
            req.push(' '); req.push_str(&wire_strlist(&seps));
            let r = ctx.drv.request(&req);
            let toks: Vec<&str> = r.iter().map(|s| s.as_str()).collect();
            let (mi, n) = parse_out(&toks); let (ms, _) = parse_out(&toks[n + 1..]);
            if mi != got || ms != got {
                viol(ctx, if ms != got { "property" } else { "correspondence" }, format!("C18: code {} vs model impl {} / spec {} on ({text:?}, {inputs:?}, {seps:?})", got.show(), mi.show(), ms.show()),
                     vec![("template", text.clone()), ("inputs", format!("{inputs:?}")), ("separators", format!("{seps:?}")), ("observed", got.show()), ("expected", ms.show()), ("theorem", "C18_spec".into())]);
                return;
            }
            // same single input everywhere == plain format
            if nsec > 0 && i % 3 == 0 {
                let x = ctx.rng.pick(&pool).clone();
                let one: Vec<&str> = vec![x.as_str()];
                let all: Vec<&[&str]> = (0..nsec).map(|_| one.as_slice()).collect();
                let a = match real::guarded(&|| "fwi-single".to_string(), || tpl.format_with_inputs(&all, &[])) { Ok(Ok(s)) => Out::Ok(s), Ok(Err(_)) => Out::Err, Err(()) => Out::Panic };
                let b = real::format(&tpl, &x);
                if a != b { viol(ctx, "property", format!("C18: same single input {x:?}: format_with_inputs {} vs format {}", a.show(), b.show()), vec![("template", text.clone()), ("input", x), ("observed", a.show()), ("expected", b.show()), ("theorem", "C18_same_single_input_is_format".into())]); return; }
            }
            if i < 3 { ctx.rep.sample(format!("{text:?} inputs {inputs:?} seps {seps:?} -> {}", got.show())); }
        })
}

/* ---------- C20 ------------------------------------------------------------------- */
pub fn c20(opts: &Opts) -> Report {
    run_parallel(opts, "C20",
        "templates with no sections, only sections, adjacent and empty {} sections, ${...} text, braces and backslashes in literals (and arbitrary / corrupted strings): every public accessor of the real object is compared with the model's scanner and accessors and with format(); non-trivial when the template has >= 2 parts; distinct by template text",
        opts.cases(3_000, 100_000), &|ctx, i| {
            let text = match i % 5 {
                0 => gens::unicode_text(&mut ctx.rng, 10),
                // blocks held together by the smallest glue: one or two white-space characters, or a lone '!'
                4 if i % 10 == 9 => { let n = 2 + ctx.rng.below(3); let mut t = String::new(); if ctx.rng.chance(1, 3) { t.push_str(*ctx.rng.pick(&["!", "! ", " ", "!x "])); }
                    for k in 0..n { if k > 0 { t.push_str(*ctx.rng.pick(&[" ", "\n", "  ", "\u{a0}", "\t", "\r\n", " \n", ", ", "!"])); } t.push_str(&print_block(&wf_pipeline(&mut ctx.rng, 2))); } t }
                1 => { let (t, _) = assemble(&segments(&mut ctx.rng, 6)); let cs: Vec<char> = t.chars().collect(); if cs.is_empty() { t } else { let p = ctx.rng.below(cs.len()); let mut c2 = cs.clone(); c2.insert(p, *ctx.rng.pick(&['{', '}', '$', '\\'])); c2.into_iter().collect() } }
                _ => assemble(&segments(&mut ctx.rng, 8)).0,
            };
            // sometimes put the inline debug marker into one of the sections
            let text = if ctx.rng.chance(1, 4) { match text.find('{') { Some(p) if !text[..p].ends_with('$') => format!("{}!{}", &text[..=p], &text[p + 1..]), _ => text } } else { text };
            ctx.rep.eval();
            let (ok, wire) = super::parsing::parse_agree(ctx, "C20", &text);
            if !ok { return; }
            // the debug argument at parse time: Some(d) must win over inline markers, None takes them
            for dbg in [Some(true), Some(false), None] {
                let r = super::parsing::real_parse_wire(&text, Some(dbg));
                let m = super::parsing::model_parse_wire(ctx, &text, Some(dbg));
                if r != m {
                    viol(ctx, "property", format!("C20: parse_with_debug({text:?}, {dbg:?}) gives [{}] but the model gives [{}]", r.chars().take(200).collect::<String>(), m.chars().take(200).collect::<String>()),
                         vec![("template", text.clone()), ("debug_arg", format!("{dbg:?}")), ("observed", r.clone()), ("expected", m), ("theorem", "C20_debug_accessor / C10_parse_time_route".into())]);
                    return;
                }
                if let (Some(d), true) = (dbg, r.starts_with("ok ")) {
                    let flag = r.split(' ').nth(1) == Some("1");
                    if flag != d { viol(ctx, "property", format!("C20: parse_with_debug({text:?}, Some({d})).is_debug() = {flag}"), vec![("template", text.clone()), ("theorem", "C20_debug_accessor".into())]); return; }
                }
            }
            let tpl = match real::parse(&text) { real::Parsed::Ok(t) => t, _ => { ctx.rep.bump("rejected"); return; } };
            let _ = wire;
            let secs = sections_from_real(&tpl);
            if secs.len() >= 2 { ctx.rep.nontrivial(&text); }
            let info = tpl.get_section_info();
            let nsec = secs.iter().filter(|s| matches!(s, Section::Sec(_))).count();
            let mut bad: Option<String> = None;
            if tpl.template_string() != text { bad = Some("template_string differs from the text".into()); }
            if tpl.to_string() != text { bad = Some("Display differs from the text".into()); }
            if tpl.section_count() != secs.len() || info.len() != secs.len() { bad = Some("section_count disagrees with section info".into()); }
            if tpl.template_section_count() != nsec || tpl.get_template_sections().len() != nsec { bad = Some("template_section_count disagrees".into()); }
            let mut tp = 0;
            for (k, si) in info.iter().enumerate() {
                if si.overall_position != k { bad = Some(format!("overall_position {} at index {k}", si.overall_position)); }
                match si.section_type {
                    string_pipeline::SectionType::Template => { if si.template_position != Some(tp) || si.content.is_some() || si.operations.is_none() { bad = Some(format!("template section info wrong at {k}")); } tp += 1; }
                    string_pipeline::SectionType::Literal => { if si.template_position.is_some() || si.operations.is_some() || si.content.is_none() { bad = Some(format!("literal section info wrong at {k}")); } }
                }
            }
            for (k, (pos, _)) in tpl.get_template_sections().iter().enumerate() { if *pos != k { bad = Some("get_template_sections positions".into()); } }
            // literal contents + sections must re-assemble to the text when printed canonically is not required; but literals must occur verbatim in order
            let mut cursor = 0usize;
            for s in &secs { if let Section::Lit(l) = s { match text[cursor..].find(l.as_str()) { Some(p) => cursor += p + l.len(), None => { bad = Some(format!("literal {l:?} does not occur verbatim in order")); } } } }
            // reparse
            match real::parse(tpl.template_string()) { real::Parsed::Ok(t2) => if sections_from_real(&t2) != secs || t2.is_debug() != tpl.is_debug() { bad = Some("re-parsing template_string gives a different structure".into()); }, _ => bad = Some("template_string does not re-parse".into()) }
            // debug accessor
            let d = ctx.rng.chance(1, 2);
            let t3 = tpl.clone().with_debug(d); if t3.is_debug() != d { bad = Some("with_debug not reflected".into()); }
            // a clone has its own flag: setting it on the clone leaves the source as it was, and the other way round
            { let before = tpl.is_debug(); let c1 = tpl.clone().with_debug(!before); if tpl.is_debug() != before || c1.is_debug() == before { bad = Some("with_debug on a clone changed the source template".into()); }
              let mut src = tpl.clone(); let c2 = src.clone(); src.set_debug(!c2.is_debug()); if c2.is_debug() == src.is_debug() { bad = Some("set_debug on the source changed an earlier clone".into()); } }
            let mut t4 = tpl.clone(); t4.set_debug(!d); t4.set_debug(d); if t4.is_debug() != d { bad = Some("last set_debug does not win".into()); }
            // an in-place refresh copies everything, the flag included
            { let src = tpl.clone().with_debug(d); let mut slot = match real::parse("other {upper} text") { real::Parsed::Ok(o) => o.with_debug(!d), _ => tpl.clone().with_debug(!d) };
              slot.clone_from(&src);
              if slot.is_debug() != d || slot.template_string() != text || sections_from_real(&slot) != secs { bad = Some("clone_from does not copy the whole template (text, sections, debug flag)".into()); }
              let mut v = vec![tpl.clone().with_debug(!d)]; v.clone_from(&vec![src.clone()]); if v[0].is_debug() != d { bad = Some("Vec::clone_from does not copy the debug flag".into()); } }
            if sections_from_real(&t3) != secs || t3.template_string() != text { bad = Some("with_debug changed the structure".into()); }
            // both text accessors, in every debug state an object can be put into
            for dd in [true, false] { let mut t5 = tpl.clone(); t5.set_debug(dd); let t6 = tpl.clone().with_debug(dd);
                if t5.to_string() != text || t6.to_string() != text || format!("{t5}") != t5.template_string() { bad = Some(format!("Display differs from the text after the debug flag was set to {dd}")); } }
            if let Some(b) = bad {
                viol(ctx, "property", format!("C20: {text:?}: {b}"), vec![("template", text.clone()), ("observed", b), ("theorem", "C20_*".into())]);
                return;
            }
            // a call that fails after it has produced output, on this thread, right before the call under test
            if i % 4 == 2 { if let real::Parsed::Ok(f) = real::parse("items: {sort} / {upper}") { let _ = real::format(&f, "x"); let _ = real::format(&f.with_debug(true), "y"); } ctx.rep.bump("after_a_failed_format"); }
            // concat law
            let x = gens::text(&mut ctx.rng, 4);
            let whole = real::format(&tpl, &x);
            let mut expect = Some(String::new());
            for si in &info { match (&si.content, &si.operations) {
                (Some(l), _) => if let Some(e) = expect.as_mut() { e.push_str(l); },
                (None, Some(ops)) => { let o: Vec<Op> = ops.iter().map(op_from_real).collect(); if !ops_raw_ok(&o) { return; } match real::parse_format(&print_block(&o), &x) { Out::Ok(r) => if let Some(e) = expect.as_mut() { e.push_str(&r); }, _ => { expect = None; break; } } }
                _ => {}
            } }
            let expected = match expect { Some(e) => Out::Ok(e), None => Out::Err };
            if whole != expected {
                viol(ctx, "property", format!("C20: format({text:?}, {x:?}) = {} but the parts listed by get_section_info give {}", whole.show(), expected.show()), vec![("template", text.clone()), ("input", x), ("observed", whole.show()), ("expected", expected.show()), ("theorem", "C20_concat_law".into())]);
                return;
            }
            // the flag switches tracing only: the same object with the flag set either way formats to the same value
            for dd in [true, false] {
                let got = real::format(&tpl.clone().with_debug(dd), &x);
                if got != whole {
                    viol(ctx, "property", format!("C20: format({text:?}, {x:?}) = {} but after with_debug({dd}) it is {}", whole.show(), got.show()), vec![("template", text.clone()), ("input", x.clone()), ("debug", dd.to_string()), ("observed", got.show()), ("expected", whole.show()), ("theorem", "C20_debug_accessor / C10_debug_transparent".into())]);
                    return;
                }
            }
            ctx.rep.bump("accepted");
            if i < 3 { ctx.rep.sample(format!("{text:?} -> {} parts, {} sections", secs.len(), nsec)); }
        })
}

/// the same pipeline with the letter case of one argument toggled, or one replace flag added (None if nothing to change)
pub fn tweak_case_or_flag(ops: &[Op]) -> Option<Vec<Op>> {
    // ASCII and non-ASCII letters with a one-to-one case partner
    let flip = |c: char| -> char {
        if c.is_lowercase() { let mut u = c.to_uppercase(); match (u.next(), u.next()) { (Some(x), None) if x != c => x, _ => c } }
        else if c.is_uppercase() { let mut l = c.to_lowercase(); match (l.next(), l.next()) { (Some(x), None) if x != c => x, _ => c } }
        else { c }
    };
    let toggle = |s: &str| -> Option<String> { let t: String = s.chars().map(flip).collect(); if t != s { Some(t) } else { None } };
    let mut out = ops.to_vec();
    for o in out.iter_mut().rev() {
        match o {
            Op::Join(s) | Op::Append(s) | Op::Prepend(s) | Op::Surround(s) => if let Some(t) = toggle(s) { *s = t; return Some(out); },
            Op::Replace(_, _, f) => { if !f.contains('g') { f.push('g'); } else { *f = f.replace('g', ""); } return Some(out); }
            Op::Filter(p) | Op::FilterNot(p) | Op::RegexExtract(p, _) => if let Some(t) = toggle(p) { *p = t; return Some(out); },
            Op::Trim(s, _) | Op::Split(s, _) => if let Some(t) = toggle(s) { *s = t; return Some(out); },
            Op::Pad(_, c, _) => { let d = flip(*c); if d != *c { *c = d; return Some(out); } }
            Op::Map(body) => if let Some(b2) = tweak_case_or_flag(body) { *body = b2; return Some(out); },
            _ => {}
        }
    }
    None
}

/// two sections that differ in one letter case / one flag, in ONE template on one input: each must mean what it says.
/// Returns Some((template, whole, parts)) when the two disagree.
pub fn near_duplicate_sections_disagree(ops: &[Op], x: &str) -> Option<(String, Out, Out)> {
    let ops2 = tweak_case_or_flag(ops)?;
    let (a, b) = (print_block(ops), print_block(&ops2));
    let text = format!("{a} / {b} / {a}");
    let whole = real::parse_format(&text, x);
    let parts = match (real::parse_format(&a, x), real::parse_format(&b, x)) { (Out::Ok(p), Out::Ok(q)) => Out::Ok(format!("{p} / {q} / {p}")), (Out::Panic, _) | (_, Out::Panic) => Out::Panic, _ => Out::Err };
    if whole != parts { Some((text, whole, parts)) } else { None }
}

/* ---------- C05 ------------------------------------------------------------------- */
pub const COLLIDE_A: &str = "1178befda43a735d";
pub const COLLIDE_B: &str = "fbad33e4b9886569";

fn big_input(rng: &mut Rng) -> String {
    // sizes straddling 10 000 bytes / 1 000 parts
    match rng.below(6) {
        0 => "a,".repeat(4999) + "b",             // 9 999 bytes, 5 000 parts
        1 => "ab,".repeat(3333) + "c",            // 10 000 bytes
        2 => "ab,".repeat(3333) + "cd",           // 10 001 bytes
        3 => (0..999).map(|k| k.to_string()).collect::<Vec<_>>().join(","),   // 999 parts
        4 => (0..1000).map(|k| k.to_string()).collect::<Vec<_>>().join(","),  // 1 000 parts
        _ => (0..1001).map(|k| k.to_string()).collect::<Vec<_>>().join(","),  // 1 001 parts
    }
}

pub fn c05(opts: &Opts) -> Report {
    // histories run single-threaded (they own the process-wide caches): one worker
    let mut o2 = Opts { prop: opts.prop.clone(), tier: opts.tier.clone(), seed: opts.seed, driver: opts.driver.clone(), out: opts.out.clone(), replay: opts.replay.clone(), threads: 1, corpus: opts.corpus.clone(), cli_bin: opts.cli_bin.clone() };
    o2.threads = 1;
    let mut rep = run_parallel(&o2, "C05",
        "call histories of 2-120 parse/format calls in one process over a pool built to collide on all but one component of each cache key (same text / different separator, same pattern / different flags, same length / different content, two inputs with the same 64-bit DefaultHasher value) with inputs straddling 10 000 bytes / 1 000 parts and failing calls; each warm result is compared with the same call after clear_caches() and with the model (cache-free Spec and run_st over the model's caches); a history is non-trivial when the hook counters show at least one split-cache hit and one admission bypass or regex hit",
        opts.cases(150, 2_000), &|ctx, i| {
            let n = 2 + ctx.rng.below(if i % 10 == 0 { 119 } else { 30 });
            // pool for this history
            let mut inputs: Vec<String> = vec![COLLIDE_A.into(), COLLIDE_B.into(), "a,b,c".into(), "a,b,d".into(), "a;b;c".into(), "hello world".into(), "HELLO world".into(), "how o w\nHow".into(), String::new(), "k1,k2 k3".into(), "a;b c;d e".into(),
                // texts that END with the separator: the last part is empty, whatever was looked up before
                "p,q,".into(), "a,b,".into(), ",".into(), "x;".into(),
                "ITEM,item,stem".into(), "tango,mango".into(), "b\u{1f}x".into(), "x".into(), "b\u{0}x".into(),
                "  MiXed  ".into(), "\u{1b}]0;title\u{1b}".into(), "\u{1b}]8;;\u{1b}".into(), "\u{1b}Pq#0\u{1b}".into(), "\u{1b}[31mOK\u{1b}[0m DONE".into(), "x\u{1b}[".into(), "\u{1b}".into()];
            if i % 3 == 0 { inputs.push(big_input(&mut ctx.rng)); inputs.push(big_input(&mut ctx.rng)); }
            let templates: Vec<(String, Vec<Section>)> = {
                let mut v: Vec<Vec<Seg>> = vec![
                    vec![Seg::Sec(vec![Op::Split(",".into(), Range::Range(None, None, false)), Op::Join("-".into())])],
                    vec![Seg::Sec(vec![Op::Split(";".into(), Range::Range(None, None, false)), Op::Join("-".into())])],
                    vec![Seg::Sec(vec![Op::Split(",".into(), Range::Index(1))])],
                    vec![Seg::Sec(vec![Op::Split(",".into(), Range::Range(Some(1), None, false))]), Seg::Lit(" / ".into()), Seg::Sec(vec![Op::Split(",".into(), Range::Range(None, Some(1), false))])],
                    vec![Seg::Sec(vec![Op::Replace("world".into(), "X".into(), "".into())])],
                    vec![Seg::Sec(vec![Op::Replace("world".into(), "X".into(), "i".into())])],
                    vec![Seg::Sec(vec![Op::Replace("o".into(), "0".into(), "g".into())])],
                    // same pattern text under different flag sets (also the undocumented but accepted x): the regex cache key must tell them apart
                    vec![Seg::Sec(vec![Op::Replace("o w".into(), "_".into(), "x".into())])],
                    vec![Seg::Sec(vec![Op::Replace("o w".into(), "_".into(), String::new())])],
                    vec![Seg::Sec(vec![Op::Replace("^h".into(), "J".into(), "m".into())])],
                    vec![Seg::Sec(vec![Op::Replace("^h".into(), "J".into(), "im".into())])],
                    vec![Seg::Sec(vec![Op::Split(" ".into(), Range::Range(None, None, false)), Op::Filter("o w".into())])],
                    vec![Seg::Sec(vec![Op::Split(",".into(), Range::Range(None, None, false)), Op::Filter("^[ab]$".into())])],
                    vec![Seg::Sec(vec![Op::Split(",".into(), Range::Range(None, None, false)), Op::Filter("(".into())])],   // failing call
                    vec![Seg::Sec(vec![Op::Upper]), Seg::Lit("-".into()), Seg::Sec(vec![Op::Upper])],
                    // near-duplicate sections in one template: they differ only in a flag / in the letter case of an argument
                    vec![Seg::Sec(vec![Op::Replace("o".into(), "0".into(), "".into())]), Seg::Lit(" / ".into()), Seg::Sec(vec![Op::Replace("o".into(), "0".into(), "g".into())])],
                    vec![Seg::Sec(vec![Op::Split(",".into(), Range::Range(None, None, false)), Op::Filter("A".into()), Op::Join(",".into())]), Seg::Lit("-".into()), Seg::Sec(vec![Op::Split(",".into(), Range::Range(None, None, false)), Op::Filter("a".into()), Op::Join(",".into())])],
                    vec![Seg::Sec(vec![Op::Surround("Q".into())]), Seg::Sec(vec![Op::Surround("q".into())])],
                    // output is produced, then a LATER section fails at run time
                    vec![Seg::Lit("id=".into()), Seg::Sec(vec![Op::Split(",".into(), Range::Index(0))]), Seg::Lit(" tag=".into()), Seg::Sec(vec![Op::Split(",".into(), Range::Range(None, None, false)), Op::Upper])],
                    // a flagged replace and an unflagged pattern whose text is the flag letters followed by that pattern
                    vec![Seg::Sec(vec![Op::Replace("tem".into(), "X".into(), "i".into())]), Seg::Lit(" / ".into()), Seg::Sec(vec![Op::Split(",".into(), Range::Range(None, None, false)), Op::Filter("item".into())])],
                    vec![Seg::Sec(vec![Op::Split(",".into(), Range::Range(None, None, false)), Op::Filter("mango".into())])],
                    vec![Seg::Sec(vec![Op::Replace("ango".into(), "X".into(), "m".into())])],
                    vec![Seg::Sec(vec![Op::Replace("tem".into(), "Y".into(), "s".into())]), Seg::Sec(vec![Op::RegexExtract("stem".into(), None)])],
                    // (separator, text) pairs that coincide when glued together with a control character
                    vec![Seg::Sec(vec![Op::Split("a".into(), Range::Range(None, None, false)), Op::Join("+".into())])],
                    vec![Seg::Sec(vec![Op::Split("a\u{1f}b".into(), Range::Range(None, None, false)), Op::Join("+".into())])],
                    vec![Seg::Sec(vec![Op::Split("a\u{0}b".into(), Range::Range(None, None, false)), Op::Join("+".into())])],
                    // producers of texts that later calls split again on the same separator
                    vec![Seg::Sec(vec![Op::Split(" ".into(), Range::Range(None, None, false)), Op::Join(",".into())])],
                    vec![Seg::Sec(vec![Op::Split(",".into(), Range::Range(None, None, false)), Op::Map(vec![Op::Upper]), Op::Join("-".into())])],
                    vec![Seg::Sec(vec![Op::Split(" ".into(), Range::Range(None, None, false)), Op::Join(";".into())])],
                    vec![Seg::Sec(vec![Op::Split(";".into(), Range::Index(1))])],
                    vec![Seg::Sec(vec![Op::Split(",".into(), Range::Index(0))])],
                    vec![Seg::Sec(vec![Op::Split(",".into(), Range::Index(-1))])],
                    vec![Seg::Sec(vec![Op::Split(",".into(), Range::Range(None, None, false))])],
                    vec![Seg::Sec(vec![Op::Split(",".into(), Range::Range(None, None, false)), Op::Join(";".into())])],
                    vec![Seg::Sec(vec![Op::Split(",".into(), Range::Range(None, None, false)), Op::Map(vec![Op::Split("".into(), Range::Range(None, None, false)), Op::Join(".".into())])])],
                    // one multi-byte fill character at narrow and wide widths, in whatever order the history brings them
                    vec![Seg::Sec(vec![Op::Pad(6, '█', PDir::Left)])], vec![Seg::Sec(vec![Op::Pad(12, '█', PDir::Left)])], vec![Seg::Sec(vec![Op::Pad(41, '█', PDir::Both)])],
                    vec![Seg::Sec(vec![Op::Pad(5, 'é', PDir::Right)])], vec![Seg::Sec(vec![Op::Pad(30, 'é', PDir::Right)])], vec![Seg::Sec(vec![Op::Pad(9, '😀', PDir::Left)])], vec![Seg::Sec(vec![Op::Pad(33, '😀', PDir::Both)])],
                    // two sections that begin with the same split; the later one ends in a list
                    vec![Seg::Sec(vec![Op::Split(",".into(), Range::Range(None, None, false)), Op::Sort(SDir::Asc)]), Seg::Lit(" / ".into()), Seg::Sec(vec![Op::Split(",".into(), Range::Range(None, None, false)), Op::Map(vec![Op::Upper])])],
                    vec![Seg::Sec(vec![Op::Split(";".into(), Range::Range(None, None, false)), Op::Join("+".into())]), Seg::Sec(vec![Op::Split(";".into(), Range::Range(None, None, false)), Op::Unique])],
                    // three and four general sections with literals in between (both entry points are used on one object below)
                    vec![Seg::Sec(vec![Op::Upper]), Seg::Lit(" ".into()), Seg::Sec(vec![Op::Lower]), Seg::Lit(" ".into()), Seg::Sec(vec![Op::Trim(String::new(), TDir::Both)])],
                    vec![Seg::Lit("a=".into()), Seg::Sec(vec![Op::Reverse]), Seg::Lit(" b=".into()), Seg::Sec(vec![Op::Upper]), Seg::Lit(" c=".into()), Seg::Sec(vec![Op::Append("!".into())]), Seg::Lit(" d=".into()), Seg::Sec(vec![Op::Lower])],
                    // a stateful-looking operation: control sequences that are cut off, next to complete ones
                    vec![Seg::Sec(vec![Op::StripAnsi])],
                    vec![Seg::Lit("[".into()), Seg::Sec(vec![Op::StripAnsi]), Seg::Lit("]".into())],
                ];
                for _ in 0..3 { v.push(segments(&mut ctx.rng, 4)); }
                v.iter().map(|s| assemble(s)).collect()
            };
            hooks::clear_caches(); hooks::reset_counters();
            ctx.drv.request("CLEAR");
            if i % 50 == 7 {
                // more distinct regex patterns than any plausible cache bound, then the first ones again
                let x = "k0,k1,k2,k77,k150"; let n = 200;
                let tp = |k: usize| vec![Section::Sec(vec![Op::Split(",".into(), Range::Range(None, None, false)), Op::Filter(format!("^k{k}$")), Op::Join(",".into())])];
                for round in 0..2 { for k in (0..n).chain(0..3) {
                    if round == 1 && k > 160 { continue; }
                    let secs = tp(k); let text = match &secs[0] { Section::Sec(o) => print_block(o), _ => String::new() };
                    let got = real::parse_format(&text, x);
                    let want = Out::Ok(if x.split(',').any(|w| w == format!("k{k}")) { format!("k{k}") } else { String::new() });
                    ctx.rep.bump("calls");
                    if got != want { viol(ctx, "property", format!("C05: after {} other patterns, format({text:?}, {x:?}) = {} but alone it is {}", round * n + k, got.show(), want.show()), vec![("template", text.clone()), ("input", x.into()), ("history_seed", format!("{}:{}", opts.seed, i)), ("observed", got.show()), ("expected", want.show()), ("theorem", "C05_format_history".into())]); return; }
                } }
                ctx.rep.bump("many_patterns_histories");
                // inputs of exactly 65535 / 65536 / 65537 bytes, split twice
                for len in [65_535usize, 65_536, 65_537] { for parts in [1usize, 3] {
                    let mut xin = "ab,".repeat(parts - 1); xin.push_str(&"z".repeat(len - xin.len()));
                    for rep in 0..3 {
                        let got = real::parse_format("{split:,:..|join:+}", &xin); let want = Out::Ok(xin.replace(',', "+"));
                        let g2 = real::parse_format("{split:,:-1}", &xin); let w2 = Out::Ok("z".repeat(len - 3 * (parts - 1)));
                        ctx.rep.bump("calls");
                        if got != want || g2 != w2 { viol(ctx, "property", format!("C05: call {rep} on a {len}-byte input with {parts} part(s): split|join {} / last part {}", trunc(&got.show()), trunc(&g2.show())), vec![("template", "{split:,:..|join:+}".into()), ("input_description", format!("'ab,' x {} + 'z' up to {len} bytes", parts - 1)), ("history_seed", format!("{}:{}", opts.seed, i)), ("theorem", "C05_format_history".into())]); return; }
                    }
                } }
            }
            if i % 10 == 7 {
                // scripted two- and three-step histories on cold caches: each later call meets what an earlier one left behind
                let scenarios: Vec<Vec<(&str, &str)>> = vec![
                    vec![("{split: :..|join:,}", "k1,k2 k3"), ("{split:,:..|map:{upper}|join:-}", "k1,k2,k3"), ("{split:,:1}", "k1,k2,k3")],
                    vec![("{split:,:1}", "p,q,"), ("{split:,:..}", "p,q,"), ("{split:,:-1}", "p,q,"), ("{split:,:..|join:;}", "p,q,")],
                    vec![("{split:;:0}", "x;"), ("{split:;:..|join:+}", "x;"), ("{split:;:-1}", "x;")],
                    vec![("{split:,:0}", COLLIDE_A), ("{split:,:0}", COLLIDE_B), ("{split:,:..|join:+}", COLLIDE_A), ("{split:,:..|join:+}", COLLIDE_B)],
                    vec![("{split:,:..|join:+}", COLLIDE_B), ("{split:,:..|join:+}", COLLIDE_A), ("{split:,:1}", COLLIDE_B), ("{split:,:1}", COLLIDE_A)],
                    vec![("{split:,:..|sort} / {split:,:..|map:{upper}}", "pear,apple,fig"), ("{split:,:..|map:{upper}} / {split:,:..|sort:desc}", "pear,apple,fig")],
                    vec![("{split:,:..|join: }", "a b,c"), ("{split: :..|join:,}", "a b c"), ("{split: :1}", "a b c")],
                    vec![("{replace:s/o/0/}", "foo boo"), ("{replace:s/o/0/g}", "foo boo"), ("{replace:s/O/0/i}", "foo boo"), ("{replace:s/o/0/}", "foo boo")],
                    // a plain-text pattern with $-references in the replacement, before and after another operation compiles the same text
                    vec![("{replace:s/USD/$$/}", "5 USD"), ("{split: :..|filter:USD|join: }", "5 USD"), ("{replace:s/USD/$$/}", "5 USD"), ("{replace:s/cat/<$0>/g}", "cat dog cat"), ("{regex_extract:cat}", "cat dog"), ("{replace:s/cat/<$0>/g}", "cat dog cat")],
                    // a text cut off inside a sequence, then texts that would complete it
                    vec![("{strip_ansi}", "abc\u{1b}[3"), ("{strip_ansi}", "1mhello"), ("{strip_ansi}", "a,b\u{1b}]0;title"), ("{strip_ansi}", "plain text"), ("{split:,:..|map:{strip_ansi}}", "0;1mX\u{1b}[3,0;1mX\u{1b}[3")],
                    // one pattern text with and without the x flag (white space in the pattern is then ignored), both orders, and as a filter
                    vec![("{replace:s/o w/_/}", "how o w ow"), ("{replace:s/o w/_/x}", "how o w ow"), ("{split:,:..|filter:o w}", "how o w,ow"), ("{replace:s/o w/_/}", "how o w ow")],
                    vec![("{replace:s/qz a b/X/x}", "qzab qz a b"), ("{replace:s/qz a b/X/}", "qzab qz a b"), ("{split:,:..|filter_not:qz a b}", "qzab,qz a b"), ("{replace:s/qz a b/X/xi}", "QZAB qz a b")],
                ];
                for (sn, sc) in scenarios.iter().enumerate() {
                    hooks::clear_caches(); ctx.drv.request("CLEAR");
                    for (step, (text, x)) in sc.iter().enumerate() {
                        let (got, secs) = match real::parse(text) { real::Parsed::Ok(t) => (real::format(&t, x), sections_from_real(&t)), _ => (Out::Err, vec![]) };
                        let (_, spec) = model_format(ctx, false, &secs, x);
                        ctx.rep.bump("calls"); ctx.rep.bump("scripted_history_calls");
                        if got != spec {
                            viol(ctx, "property", format!("C05: scripted history {sn}, call {step}: after {:?}, format({text:?}, {x:?}) = {} but alone it is {}", &sc[..step], got.show(), spec.show()),
                                 vec![("template", text.to_string()), ("input", x.to_string()), ("history", format!("{:?}", &sc[..=step])), ("observed", got.show()), ("expected", spec.show()), ("theorem", "C05_format_history".into())]);
                            return;
                        }
                    }
                }
                hooks::clear_caches(); ctx.drv.request("CLEAR");
            }
            if i % 10 == 3 {
                // one fill character after another, each at a narrow width first and at growing and shrinking widths afterwards
                for fill in ['█', 'é', '日', '😀', '*', 'ß'] { for (k, w) in [6usize, 12, 3, 24, 5, 48, 100, 7, 1030, 9, 2000, 17].iter().enumerate() {
                    let (d, dn) = [(0, "left"), (1, "right"), (2, "both")][(k + i as usize) % 3];
                    let x = ["ab", "", "日本語"][k % 3]; let have = x.chars().count(); let need = w.saturating_sub(have);
                    let (l, r) = match d { 0 => (need, 0), 1 => (0, need), _ => (need / 2, need - need / 2) };
                    let text = format!("{{pad:{w}:{fill}:{dn}}}");
                    let got = real::parse_format(&text, x);
                    let want = Out::Ok(format!("{}{}{}", fill.to_string().repeat(l), x, fill.to_string().repeat(r)));
                    ctx.rep.bump("calls"); ctx.rep.bump("pad_width_sequences");
                    if got != want {
                        viol(ctx, "property", format!("C05: after pads with {fill:?} at other widths, format({text:?}, {x:?}) has {} characters but alone it has {}", got.show().chars().count(), want.show().chars().count()),
                             vec![("template", text.clone()), ("input", x.to_string()), ("history_seed", format!("{}:{}", opts.seed, i)), ("observed", got.show()), ("expected", want.show()), ("theorem", "C05_format_history".into())]);
                        return;
                    }
                } }
            }
            if i % 5 == 1 {
                // template objects that come and go: parse, format a list of 100 items through a map, drop; then the same with
                // another map body of the same shape.  Nothing of a dropped template may be found again by the next one.
                let list100: String = (0..100).map(|k| format!("w{k}")).collect::<Vec<_>>().join(",");
                let bodies: Vec<Op> = vec![Op::Upper, Op::Append("!".into()), Op::Lower, Op::Prepend(">".into()), Op::Surround("'".into()), Op::Reverse, Op::Pad(4, '.', PDir::Left)];
                for k in 0..8 {
                    let b = bodies[(k + i as usize) % bodies.len()].clone();
                    let secs = vec![Section::Sec(vec![Op::Split(",".into(), Range::Range(None, None, false)), Op::Map(vec![b]), Op::Join(",".into())])];
                    let text = match &secs[0] { Section::Sec(o) => print_block(o), _ => String::new() };
                    let got = { let t = real::parse(&text); match t { real::Parsed::Ok(t) => real::format(&t, &list100), _ => Out::Err } };   // the template is dropped here
                    let (_, spec) = model_format(ctx, false, &secs, &list100);
                    ctx.rep.bump("calls"); ctx.rep.bump("short_lived_templates");
                    if got != spec {
                        viol(ctx, "property", format!("C05: short-lived template {k} of history {i}: format({text:?}, 100 items) = {} but alone it is {}", trunc(&got.show()), trunc(&spec.show())),
                             vec![("template", text.clone()), ("input", list100.clone()), ("history_seed", format!("{}:{}", opts.seed, i)), ("observed", got.show()), ("expected", spec.show()), ("theorem", "C05_format_history".into())]);
                        return;
                    }
                }
            }
            let mut parsed: Vec<Option<Template>> = templates.iter().map(|_| None).collect();
            ctx.rep.eval();
            for step in 0..n {
                let ti = ctx.rng.below(templates.len());
                let xi = ctx.rng.below(inputs.len());
                let (text, secs) = &templates[ti];
                let x = &inputs[xi].clone();
                // reuse the template object or parse again
                if parsed[ti].is_none() || ctx.rng.chance(1, 3) {
                    parsed[ti] = match real::parse(text) { real::Parsed::Ok(t) => Some(t), _ => None };
                }
                // every third call goes through the other entry point with the same text for every section (C18: equal to format)
                let nsecs = secs.iter().filter(|s| matches!(s, Section::Sec(_))).count();
                let warm = match &parsed[ti] { Some(t) => if step % 3 == 2 && nsecs > 0 { ctx.rep.bump("calls_through_format_with_inputs"); real::fwi(t, &vec![vec![x.clone()]; nsecs], &vec![" ".to_string(); nsecs]) } else { real::format(t, x) }, None => Out::Err };
                ctx.rep.bump("calls");
                // model: cache-free spec, and run_st against the model's persistent caches
                let (_, spec) = model_format(ctx, false, secs, x);
                let r = ctx.drv.request(&format!("FORMATST {} {}", wire_template(false, secs), hex(x)));
                let toks: Vec<&str> = r.iter().map(|s| s.as_str()).collect();
                let (mst, _) = parse_out(&toks);
                if warm != spec || mst != spec {
                    // confirm against a cold run of the real code
                    let counters = hooks::counters();
                    hooks::clear_caches();
                    let cold = real::parse_format(text, x);
                    viol(ctx, if warm != spec { "property" } else { "correspondence" },
                         format!("C05: call {step} of history {i}: format({text:?}, {:?}) warm = {} but alone it is {} (cold rerun {}; model run_st {})", trunc(x), warm.show(), spec.show(), cold.show(), mst.show()),
                         vec![("template", text.clone()), ("input", x.clone()), ("history_seed", format!("{}:{}", opts.seed, i)), ("step", step.to_string()), ("observed", warm.show()), ("expected", spec.show()), ("cold", cold.show()), ("counters", format!("{counters:?}")), ("theorem", "C05_format_history".into())]);
                    return;
                }
                // chaining: the output of this call becomes an input of later calls
                if let Out::Ok(o) = &warm { if o.len() < 200 && inputs.len() < 40 && !inputs.contains(o) { inputs.push(o.clone()); ctx.rep.bump("chained_inputs"); } }
                // every 7th call: compare with a genuinely cold execution, then continue warm
                if step % 7 == 6 {
                    let keep = hooks::counters();
                    hooks::clear_caches();
                    let cold = real::parse_format(text, x);
                    let _ = keep;
                    if cold != warm {
                        viol(ctx, "property", format!("C05: format({text:?}, {:?}) warm {} vs cold {}", trunc(x), warm.show(), cold.show()), vec![("template", text.clone()), ("input", x.clone()), ("observed", warm.show()), ("expected", cold.show()), ("theorem", "C05_call".into())]);
                        return;
                    }
                }
            }
            let c = hooks::counters();
            ctx.rep.add("split_hit", c[0]); ctx.rep.add("split_miss", c[1]); ctx.rep.add("split_bypass", c[2]);
            ctx.rep.add("regex_hit", c[3]); ctx.rep.add("regex_miss", c[4]); ctx.rep.add("memo_hit", c[5]); ctx.rep.add("memo_miss", c[6]); ctx.rep.add("fast_split", c[7]);
            if c[0] > 0 && (c[2] > 0 || c[3] > 0) { ctx.rep.nontrivial(&(opts.seed, i)); }
            if i < 2 { ctx.rep.sample(format!("history {i}: {n} calls over {} templates x {} inputs; counters [split hit/miss/bypass, regex hit/miss, memo hit/miss, fast split] = {c:?}", templates.len(), inputs.len())); }
        });
    rep.notes.push("histories run on one worker thread because they own the process-wide caches".into());
    rep
}
fn trunc(s: &str) -> String { if s.chars().count() > 60 { format!("{}...({} bytes)", s.chars().take(60).collect::<String>(), s.len()) } else { s.to_string() } }

/* ---------- C17 ------------------------------------------------------------------- */
pub fn c17(opts: &Opts) -> Report {
    let mut o2 = Opts { prop: opts.prop.clone(), tier: opts.tier.clone(), seed: opts.seed, driver: opts.driver.clone(), out: opts.out.clone(), replay: opts.replay.clone(), threads: 1, corpus: opts.corpus.clone(), cli_bin: opts.cli_bin.clone() };
    o2.threads = 1;
    let mut rep = run_parallel(&o2, "C17",
        "stress rounds: 2-16 threads format shared and per-thread template objects concurrently from cold caches (clear_caches() before every round); every shared template object is formatted with SEVERAL different inputs at the same time, and the workloads make threads miss, fill and hit the same split / regex cache entries together; one round per run first fills the split cache with 3000 entries and then mixes hits and fresh misses; every result is compared with the single-threaded model result (which, by C17_schedule_independent, every interleaving must produce); a watchdog flags a call that does not return; a round is non-trivial when the counters show cache hits, i.e. threads met on the same entries",
        opts.cases(150, 10_000), &|ctx, i| {
            if i % 25 == 1 {
                // regex-cache churn: many more distinct patterns than any plausible bound, compiled by 16 threads at once,
                // and fresh INVALID patterns that all threads meet at the same moment; the reference is the same calls
                // made afterwards by one thread
                hooks::clear_caches(); hooks::reset_counters();
                ctx.rep.eval();
                let nthreads = 16usize; let per = 400usize; let rounds = 12usize;
                let bar = std::sync::Barrier::new(nthreads);
                let tag = i;
                let call = |t: usize, j: usize| -> (String, String) {
                    // most patterns unique to (thread, j); every fifth shared by all threads
                    let owner = if j % 5 == 0 { 99 } else { t };
                    (format!("{{filter:^r{tag}t{owner}j{j}x$}}"), if j % 2 == 0 { format!("r{tag}t{owner}j{j}x") } else { "no".to_string() })
                };
                let results: Vec<Vec<Out>> = std::thread::scope(|s| {
                    let hs: Vec<_> = (0..nthreads).map(|t| { let bar = &bar; let call = &call; s.spawn(move || {
                        let mut out = Vec::new();
                        for r in 0..rounds {
                            bar.wait();
                            // the same never-seen invalid pattern, in three operations, by every thread at once
                            out.push(real::parse_format(&format!("{{filter:(r{tag}n{r}}}"), "abc"));
                            out.push(real::parse_format(&format!("{{replace:s/(q{tag}n{r}/b/}}"), "abc"));
                            out.push(real::parse_format(&format!("{{split:,:..|map:{{filter:[z{tag}n{r}}}}}"), "a,b"));
                        }
                        for j in 0..per { let (tpl, x) = call(t, j); out.push(real::parse_format(&tpl, &x)); }
                        // long inputs that no other thread has: between 1 KB and the cache admission limit, and beyond it;
                        // all threads make the first split of theirs at the same moment, then repeat it
                        for r in 0..6 {
                            let small = format!("t{t}r{r}_{},{}", "s".repeat(1500), (0..40).map(|k| format!("t{t}_{k:04}")).collect::<Vec<_>>().join(","));
                            let big = format!("t{t}r{r}_{},{}", "b".repeat(10_500), (0..40).map(|k| format!("u{t}_{k:04}")).collect::<Vec<_>>().join(","));
                            // the SAME never-seen text of 600+ bytes, first split by every thread at the same moment
                            let shared = format!("shared{tag}r{r}_{},{}", "y".repeat(600), (0..5).map(|k| format!("s{k:04}")).collect::<Vec<_>>().join(","));
                            bar.wait();
                            out.push(real::parse_format("{split:,:3}", &shared));
                            out.push(real::parse_format("{split:,:1..4|join:+}", &shared));
                            // a separator nobody has used yet, in a pipeline that ends in a list (rendered with that separator)
                            let usep = format!("q{t}r{r}q");
                            out.push(real::parse_format(&format!("{{split:{usep}:..|sort}}"), &format!("b{usep}a{usep}c")));
                            // the same pad character, another width per thread
                            out.push(real::parse_format(&format!("{{pad:{}:é:left}}", 3 + t * 7 + r), "ab"));
                            for x in [&small, &big] { for _ in 0..3 {
                                out.push(real::parse_format("{split:,:3}", x));
                                out.push(real::parse_format("{split:,:1..4|join:+}", x));
                            } }
                        }
                        // a pad character nobody has used yet, padded to a different width by every thread at the same moment
                        for r in 0..48usize {
                            let ch = char::from_u32(0x4E00 + ((tag as usize * 48 + r) % 20_000) as u32).unwrap_or('字');
                            bar.wait();
                            out.push(real::parse_format(&format!("{{pad:{}:{ch}:left}}", 3 + (t * 5 + r) % 60), "ab"));
                        }
                        out
                    }) }).collect();
                    hs.into_iter().map(|h| h.join().unwrap_or_default()).collect()
                });
                hooks::clear_caches();
                for (t, rs) in results.iter().enumerate() {
                    if rs.len() != rounds * 3 + per + 6 * 16 + 48 { viol(ctx, "property", format!("C17: thread {t} of regex-churn round {i} died"), vec![("round", format!("{}:{}", opts.seed, i)), ("theorem", "C17".into())]); return; }
                    // the long-input calls: the expected value is computed by hand
                    for (k, o) in rs.iter().enumerate().skip(rounds * 3 + per + 6 * 16) {
                        let r = k - (rounds * 3 + per + 6 * 16);
                        let ch = char::from_u32(0x4E00 + ((tag as usize * 48 + r) % 20_000) as u32).unwrap_or('字');
                        let w = 3 + (t * 5 + r) % 60;
                        let want = Out::Ok(format!("{}ab", ch.to_string().repeat(w - 2)));
                        ctx.rep.bump("concurrent_calls");
                        if *o != want {
                            viol(ctx, "property", format!("C17: 16 threads pad 'ab' with the fresh character {ch:?} to different widths at the same moment; thread {t} (width {w}) got {} but alone it is {}", trunc(&o.show()), trunc(&want.show())),
                                 vec![("template", format!("{{pad:{w}:{ch}:left}}")), ("input", "ab".into()), ("threads", "16".into()), ("round", format!("{}:{}", opts.seed, i)), ("observed", o.show()), ("expected", want.show()), ("theorem", "C17_concurrent_formats".into())]);
                            return;
                        }
                    }
                    for (k, o) in rs.iter().enumerate().skip(rounds * 3 + per).take(6 * 16) {
                        let j = k - (rounds * 3 + per); let r = j / 16; let jj = j % 16;
                        let want = match jj {
                            0 => Out::Ok("s0002".to_string()), 1 => Out::Ok("s0000+s0001+s0002".to_string()),
                            2 => { let usep = format!("q{t}r{r}q"); Out::Ok(format!("a{usep}b{usep}c")) }
                            3 => Out::Ok(format!("{}ab", "é".repeat(3 + t * 7 + r - 2))),
                            _ => { let q = jj - 4; let is_big = q >= 6; let second = q % 2 == 1; let pfx = if is_big { 'u' } else { 't' };
                                   if second { Out::Ok(format!("{pfx}{t}_0000+{pfx}{t}_0001+{pfx}{t}_0002")) } else { Out::Ok(format!("{pfx}{t}_0002")) } }
                        };
                        let is_big = jj >= 10; let second = jj % 2 == 1; let pfx = if is_big { 'u' } else { 't' };
                        ctx.rep.bump("concurrent_calls");
                        if *o != want {
                            viol(ctx, "property", format!("C17: thread {t}, long input ({}): got {} but alone it is {}", if is_big { "beyond the cache limit" } else { "1.5 KB" }, trunc(&o.show()), want.show()),
                                 vec![("template", if second { "{split:,:1..4|join:+}".into() } else { "{split:,:3}".to_string() }), ("input", format!("t{t}r*_<long>,{pfx}{t}_0000,...")), ("threads", "16".into()), ("round", format!("{}:{}", opts.seed, i)), ("observed", o.show()), ("expected", want.show()), ("theorem", "C17_concurrent_formats".into())]);
                            return;
                        }
                    }
                    for (k, o) in rs.iter().enumerate().take(rounds * 3 + per) {
                        ctx.rep.bump("concurrent_calls");
                        let (tpl, x) = if k < rounds * 3 { let r = k / 3; (match k % 3 { 0 => format!("{{filter:(r{tag}n{r}}}"), 1 => format!("{{replace:s/(q{tag}n{r}/b/}}"), _ => format!("{{split:,:..|map:{{filter:[z{tag}n{r}}}}}") }, if k % 3 == 2 { "a,b".to_string() } else { "abc".to_string() }) } else { call(t, k - rounds * 3) };
                        let alone = real::parse_format(&tpl, &x);
                        if *o != alone {
                            viol(ctx, "property", format!("C17: with 16 threads compiling {} distinct patterns, format({tpl:?}, {x:?}) = {} but alone it is {}", nthreads * per, o.show(), alone.show()),
                                 vec![("template", tpl), ("input", x), ("threads", "16".into()), ("round", format!("{}:{}", opts.seed, i)), ("observed", o.show()), ("expected", alone.show()), ("theorem", "C17_concurrent_formats".into())]);
                            return;
                        }
                    }
                }
                ctx.rep.bump("regex_churn_rounds"); ctx.rep.nontrivial(&(opts.seed, i));
                return;
            }
            if i % 25 == 13 {
                // many more threads than cores inside a map at the same moment (one shared template object), next to threads
                // that strip complete colour sequences while others feed strip_ansi texts that are cut off inside a sequence
                hooks::clear_caches();
                ctx.rep.eval();
                let nmap = 64usize; let nplain = 8usize; let nnoisy = 4usize;
                let items: Vec<String> = (0..3000).map(|k| format!("w{k}é")).collect();
                let list = items.join(","); let want_map = Out::Ok(items.iter().map(|w| format!("{:*>12}!", w.to_uppercase())).collect::<Vec<_>>().join(","));
                let tmap = match real::parse("{split:,:..|map:{upper|pad:12:*:left|append:!}|join:,}") { real::Parsed::Ok(t) => t, _ => return };
                let bar = std::sync::Barrier::new(nmap + nplain + nnoisy);
                let bad: Vec<String> = std::thread::scope(|sc| {
                    let mut hs = Vec::new();
                    for t in 0..nmap { let (bar, tmap, list, want_map) = (&bar, &tmap, &list, &want_map); hs.push(sc.spawn(move || { bar.wait(); for r in 0..40 { let o = real::format(tmap, list); if o != *want_map { return Some(format!("thread {t} of {nmap}, call {r}: the shared map template over 3000 items gives {}", trunc(&o.show()))); } } None })); }
                    for t in 0..nplain { let bar = &bar; hs.push(sc.spawn(move || { bar.wait(); for r in 0..400 { let o = real::parse_format("[{strip_ansi}]", "\u{1b}[32mOK\u{1b}[0m DONE"); if o != Out::Ok("[OK DONE]".into()) { return Some(format!("plain thread {t}, call {r}: [{{strip_ansi}}] on a coloured line gives {}", trunc(&o.show()))); } } None })); }
                    for _ in 0..nnoisy { let bar = &bar; hs.push(sc.spawn(move || { bar.wait(); for r in 0..400 { let x = ["\u{1b}]0;title\u{1b}", "\u{1b}]8;;\u{1b}", "\u{1b}Pq#0\u{1b}", "x\u{1b}[", "\u{1b}"][r % 5]; let _ = real::parse_format("{strip_ansi}", x); } None })); }
                    hs.into_iter().filter_map(|h| h.join().unwrap_or(Some("a thread died".to_string()))).collect()
                });
                ctx.rep.add("concurrent_calls", (nmap * 40 + (nplain + nnoisy) * 400) as u64); ctx.rep.bump("oversubscribed_rounds"); ctx.rep.nontrivial(&(opts.seed, i));
                if let Some(b) = bad.first() {
                    viol(ctx, "property", format!("C17: {b}; alone every one of these calls gives its documented result"), vec![("round", format!("{}:{}", opts.seed, i)), ("threads", format!("{}", nmap + nplain + nnoisy)), ("observed", b.clone()), ("theorem", "C17_concurrent_formats".into())]);
                }
                // sixteen threads take substrings of non-ASCII texts with negative and out-of-range bounds at the same moment
                {
                    let cases: Vec<(&str, &str, String)> = vec![("{substring:-5..}", "añb日cédef", "cédef".into()), ("{substring:-1}", "xyé", "é".into()), ("{substring:..-2}", "日本語ab", "日本語".into()), ("{substring:-9..-2}", "éé", "".into()), ("{substring:7}", "aé", "é".into()), ("{substring:-3..-1}", "añb日c", "b日".into())];
                    let bar2 = std::sync::Barrier::new(16);
                    let bad2: Vec<String> = std::thread::scope(|sc| {
                        let hs: Vec<_> = (0..16).map(|t| { let (bar2, cases) = (&bar2, &cases); sc.spawn(move || { bar2.wait(); for r in 0..300 { let (tp, x, want) = &cases[(t + r) % cases.len()]; let o = real::parse_format(tp, x); if o != Out::Ok(want.clone()) { return Some(format!("thread {t}, call {r}: format({tp:?}, {x:?}) = {} but alone it is {want:?}", o.show())); } } None }) }).collect();
                        hs.into_iter().filter_map(|h| h.join().unwrap_or(Some("a thread died".to_string()))).collect()
                    });
                    ctx.rep.add("concurrent_calls", 16 * 300); ctx.rep.bump("contended_substrings");
                    if let Some(b) = bad2.first() { viol(ctx, "property", format!("C17: {b}"), vec![("round", format!("{}:{}", opts.seed, i)), ("threads", "16".into()), ("observed", b.clone()), ("theorem", "C17_concurrent_formats".into())]); }
                }
                // one thread runs a traced call that dies in an excluded execution (unallocatable pad width) while others trace ordinary calls
                {
                    let bad3: Vec<String> = std::thread::scope(|sc| {
                        let mut hs = Vec::new();
                        hs.push(sc.spawn(move || { for _ in 0..3 { if let real::Parsed::Ok(t) = real::parse_with_debug("{pad:18446744073709551615:é}", Some(true)) { let _ = real::format(&t, "a"); } std::thread::sleep(std::time::Duration::from_millis(2)); } None }));
                        for t in 0..8 { hs.push(sc.spawn(move || { for r in 0..60 { let o = match real::parse_with_debug("{upper}", Some(true)) { real::Parsed::Ok(tp) => real::format(&tp, "hello"), _ => Out::Err }; if o != Out::Ok("HELLO".into()) { return Some(format!("thread {t}, traced call {r}: {{upper}} on \"hello\" gives {}", o.show())); } std::thread::sleep(std::time::Duration::from_micros(200)); } None })); }
                        hs.into_iter().filter_map(|h| h.join().unwrap_or(Some("a thread died".to_string()))).collect()
                    });
                    ctx.rep.bump("traced_calls_next_to_a_dying_one");
                    if let Some(b) = bad3.first() { viol(ctx, "property", format!("C17: {b}; alone it gives HELLO"), vec![("round", format!("{}:{}", opts.seed, i)), ("observed", b.clone()), ("theorem", "C17_concurrent_formats".into())]); }
                }
                // and afterwards, on this thread: a text cut off inside a sequence leaves nothing behind for the next call
                for x in ["\u{1b}]0;title\u{1b}", "\u{1b}]8;;\u{1b}", "\u{1b}Pq#0\u{1b}"] { let _ = real::parse_format("{strip_ansi}", x);
                    let o = real::parse_format("[{strip_ansi}]", "\u{1b}[32mOK\u{1b}[0m DONE");
                    if o != Out::Ok("[OK DONE]".into()) { viol(ctx, "property", format!("C17: after strip_ansi on the cut-off text {x:?}, the next call gives {} instead of [OK DONE]", o.show()), vec![("template", "[{strip_ansi}]".into()), ("round", format!("{}:{}", opts.seed, i)), ("theorem", "C17_concurrent_formats".into())]); } }
                return;
            }
            let nthreads = 2 + ctx.rng.below(15);
            // templates (parsed once, shared) and inputs: every template meets every input
            let mut templates: Vec<(String, Vec<Section>)> = Vec::new();
            let ntpl = 2 + ctx.rng.below(4);
            for _ in 0..ntpl {
                let segs = match ctx.rng.below(5) {
                    0 => vec![Seg::Sec(vec![Op::Split(",".into(), Range::Range(None, None, false)), Op::Filter("[a-c]".into()), Op::Join("-".into())])],
                    1 => vec![Seg::Sec(vec![Op::Split(",".into(), gens::range(&mut ctx.rng))]), Seg::Lit("|".into()), Seg::Sec(vec![Op::Replace("a".into(), "b".into(), gens::flags(&mut ctx.rng))])],
                    2 => vec![Seg::Sec(vec![Op::Upper]), Seg::Lit(" => ".into()), Seg::Sec(vec![Op::Split(",".into(), Range::Range(None, None, false)), Op::Map(vec![Op::Append("!".into())]), Op::Join("+".into())])],
                    _ => segments(&mut ctx.rng, 4),
                };
                templates.push(assemble(&segs));
            }
            // always present: one pattern with a capture group, extracted at the same time from inputs in which the group
            // sits at different byte offsets (nothing computed for one input may be read by another call)
            templates.push(assemble(&[Seg::Sec(vec![Op::RegexExtract("name=(\\w+)".into(), Some(1))]), Seg::Lit("|".into()), Seg::Sec(vec![Op::Split(",".into(), Range::Range(None, None, false)), Op::Map(vec![Op::RegexExtract("(\\d+)-(\\w+)".into(), Some(2))])])]));
            let mut inputs: Vec<String> = vec!["a,b,c,d".to_string(), COLLIDE_A.to_string(), COLLIDE_B.to_string()];
            for k in 0..6 { inputs.push(format!("{}name=user{k}x,{}7-v{k}", "p".repeat(k * 5), "q".repeat(11 - k))); }
            for k in 0..(2 + ctx.rng.below(5)) { inputs.push(format!("k{k},v{k}-a,v{k}-b,{}", gens::word(&mut ctx.rng))); }
            let big_round = i == 0;
            if big_round {
                // fill the process-wide split cache well beyond any plausible bound, sequentially
                hooks::clear_caches();
                for k in 0..3000 { let _ = real::parse_format("{split:,:1}", &format!("fill{k},x{k}")); }
            } else { hooks::clear_caches(); }
            hooks::reset_counters();
            let expected: Vec<Vec<Out>> = templates.iter().map(|(_, secs)| inputs.iter().map(|x| model_format(ctx, false, secs, x).1).collect()).collect();
            let shared: Vec<Option<Template>> = templates.iter().map(|(t, _)| match real::parse(t) { real::Parsed::Ok(t) => Some(t), _ => None }).collect();
            ctx.rep.eval();
            let reps = if big_round { 40 } else { 4 };
            let npairs = templates.len() * inputs.len();
            let results: Vec<Vec<(usize, usize, Out)>> = std::thread::scope(|s| {
                let hs: Vec<_> = (0..nthreads).map(|t| {
                    let templates = &templates; let shared = &shared; let inputs = &inputs;
                    s.spawn(move || {
                        let mut out = Vec::new();
                        for r in 0..reps {
                            for k in 0..npairs {
                                let p = (k * 7 + t * 3 + r) % npairs;
                                let (ti, xi) = (p % templates.len(), p / templates.len());
                                let x = if big_round && k % 3 == 0 { format!("fresh{t}-{r}-{k},y") } else { inputs[xi].clone() };
                                let o = if (t + r) % 3 != 0 { match &shared[ti] { Some(tp) => real::format(tp, &x), None => Out::Err } } else { real::parse_format(&templates[ti].0, &x) };
                                if !(big_round && k % 3 == 0) { out.push((ti, xi, o)); }
                            }
                        }
                        out
                    })
                }).collect();
                hs.into_iter().map(|h| h.join().unwrap_or_default()).collect()
            });
            for (t, rs) in results.iter().enumerate() {
                if rs.is_empty() && npairs > 0 && !big_round {
                    viol(ctx, "property", format!("C17: thread {t} of round {i} died"), vec![("round", format!("{}:{}", opts.seed, i)), ("theorem", "C17".into())]);
                    return;
                }
                for (ti, xi, o) in rs {
                    ctx.rep.bump("concurrent_calls");
                    if *o != expected[*ti][*xi] {
                        viol(ctx, "property", format!("C17: under {nthreads} threads format({:?}, {:?}) = {} but alone it is {}", templates[*ti].0, inputs[*xi], o.show(), expected[*ti][*xi].show()),
                             vec![("template", templates[*ti].0.clone()), ("input", inputs[*xi].clone()), ("threads", nthreads.to_string()), ("round", format!("{}:{}", opts.seed, i)), ("observed", o.show()), ("expected", expected[*ti][*xi].show()), ("theorem", "C17_concurrent_formats".into())]);
                        return;
                    }
                }
            }
            let c = hooks::counters();
            ctx.rep.add("split_hit", c[0]); ctx.rep.add("split_miss", c[1]); ctx.rep.add("regex_hit", c[3]); ctx.rep.add("regex_miss", c[4]);
            if c[0] + c[3] > 0 { ctx.rep.nontrivial(&(opts.seed, i)); }
            ctx.rep.bump(&format!("threads_{nthreads}"));
            if big_round { ctx.rep.bump("large_cache_rounds"); }
            if i < 2 { ctx.rep.sample(format!("round {i}: {nthreads} threads x {} calls over {} shared templates x {} inputs{}; counters {c:?}", reps * npairs, templates.len(), inputs.len(), if big_round { " (split cache pre-filled with 3000 entries)" } else { "" })); }
        });
    rep.notes.push("atomicity of DashMap get/insert/entry is assumed by the model; this run is validation of that model against the real threads, not a proof about them".into());
    rep
}

/* ---------- C19 ------------------------------------------------------------------- */
fn gen_seq(rng: &mut Rng) -> String {
    let params = |rng: &mut Rng| -> String { let n = rng.below(4); (0..n).map(|_| rng.below(300).to_string()).collect::<Vec<_>>().join(";") };
    match rng.below(9) {
        0 | 1 => format!("\x1b[{}m", params(rng)),
        2 => format!("\x1b[{}{}", params(rng), *rng.pick(&['A', 'H', 'J', 'K', 'f', 'r', 'h', 'l', '@', '~'])),
        3 => format!("\x1b[?{}{}", rng.below(3000), *rng.pick(&['h', 'l'])),
        4 => format!("\x1b[{} q", rng.below(7)),
        5 => format!("\x1b]{};{}\x07", rng.below(12), gens::text(rng, 3).replace(['\x07', '\x1b', '\x18', '\x1a'], "")),
        6 => format!("\x1b]8;;http://e.x/{}\x1b\\", rng.below(100)),
        7 => format!("\x1b{}", *rng.pick(&['7', '8', 'c', 'D', 'E', 'M', '=', '>'])),
        _ => format!("\x1b({}", *rng.pick(&['B', '0', 'A'])),
    }
}
fn clean_text(rng: &mut Rng) -> String {
    gens::unicode_text(rng, 6).chars().filter(|c| !(c.is_control() && !matches!(c, '\t' | '\n' | '\r')) || (*c as u32) >= 0x80).filter(|c| *c != '\x7f' && !((*c as u32) < 0x20 && !matches!(c, '\t' | '\n' | '\r'))).collect()
}
pub fn c19(opts: &Opts) -> Report {
    let corpus = opts.corpus.clone();
    let mut rep = run_parallel(opts, "C19",
        "texts built by inserting 0-6 well-formed escape sequences (CSI colour / cursor / private-mode / with intermediates, OSC titles and hyperlinks with BEL and ST, two- and three-character escapes) at character boundaries of control-free Unicode text, at top level and inside map; plus arbitrary strings with ESC and control characters compared with the model; checks: strip(decorate) == text, identity on control-free text, idempotence, model == crate; non-trivial when at least one sequence was inserted; distinct by decorated text",
        opts.cases(5_000, 300_000), &|ctx, i| {
            ctx.rep.eval();
            if i % 1000 == 500 {
                // large control-free text whose multi-byte characters straddle 64 KiB block boundaries: must come back unchanged
                let pad = 65_530 + ctx.rng.below(8);
                let c = *ctx.rng.pick(&['é', '日', '😀']);
                let mut s = "a".repeat(pad); for _ in 0..20 { s.push(c); } s.push_str(&"b".repeat(70_000)); for _ in 0..5 { s.push(c); }
                ctx.rep.bump("large_inputs");
                let got = real::parse_format("{strip_ansi}", &s);
                if got != Out::Ok(s.clone()) {
                    let pos = match &got { Out::Ok(g) => g.chars().zip(s.chars()).position(|(a, b)| a != b).unwrap_or(0), _ => 0 };
                    viol(ctx, "property", format!("C19: a {}-byte control-free text is changed by strip_ansi (first difference at character {pos})", s.len()), vec![("template", "{strip_ansi}".into()), ("input_description", format!("'a' x {pad} + '{c}' x 20 + 'b' x 70000 + '{c}' x 5")), ("theorem", "C19_clean_text_unchanged".into())]);
                }
                let dec = format!("\x1b[31m{s}\x1b[0m");
                if real::parse_format("{strip_ansi}", &dec) != Out::Ok(s.clone()) { viol(ctx, "property", format!("C19: a decorated {}-byte text is not restored", s.len()), vec![("template", "{strip_ansi}".into()), ("input_description", format!("ESC[31m + 'a' x {pad} + '{c}' x 20 + 'b' x 70000 + '{c}' x 5 + ESC[0m")), ("theorem", "C19_strip_decorate".into())]); }
                return;
            }
            if i % 50 == 21 {
                // many text runs in one string (63 ... 257 and more), every kind of sequence between them
                let n = *ctx.rng.pick(&[63usize, 64, 65, 66, 100, 128, 129, 257, 1025]);
                let seqs = ["\u{1b}[31m", "\u{1b}[0m", "\u{1b}]0;t\u{7}", "\u{1b}(B", "\u{1b}[2K", "\u{1b}]8;;http://x\u{1b}\\", "\u{1b}[?25l", "\u{1b}M"];
                let mut dec = String::new(); let mut plain = String::new();
                for k in 0..n { let w = format!("t{k}é"); dec.push_str(&w); plain.push_str(&w); dec.push_str(seqs[k % seqs.len()]); }
                ctx.rep.bump("many_text_runs");
                for (text, xin, want) in [("{strip_ansi}", dec.clone(), plain.clone()), ("{split:\\n:..|map:{strip_ansi}}", format!("{dec}\n{dec}"), format!("{plain}\n{plain}"))] {
                    let got = real::parse_format(text, &xin);
                    if got != Out::Ok(want.clone()) {
                        viol(ctx, "property", format!("C19: a text of {n} runs separated by escape sequences: strip_ansi returns {} bytes, the text alone has {}", got.show().len(), want.len()), vec![("template", text.to_string()), ("input_description", format!("t<k>é + one of 8 sequences, k < {n}")), ("input", xin), ("theorem", "C19_strip_decorate".into())]);
                        return;
                    }
                }
                return;
            }
            if i % 50 == 29 {
                // strip_ansi directly after an operation whose last argument is a pattern: it is the next operation, not part of the pattern
                let w = format!("w{}é", i % 97);
                let xin = format!("\u{1b}[31m{w}\u{1b}[0m,\u{1b}[1mzz\u{1b}[0m");
                for (text, want) in [("{regex_extract:.+|strip_ansi}".to_string(), format!("{w},zz")), ("{filter:.|strip_ansi}".to_string(), format!("{w},zz")),
                                     ("{filter_not:^$|strip_ansi|upper}".to_string(), format!("{},ZZ", w.to_uppercase())), ("{split:,:..|map:{regex_extract:.+|strip_ansi|upper}|join:,}".to_string(), format!("{},ZZ", w.to_uppercase()))] {
                    let got = real::parse_format(&text, &xin);
                    ctx.rep.bump("strip_after_a_pattern_argument");
                    if got != Out::Ok(want.clone()) { viol(ctx, "property", format!("C19: {text} on {xin:?} = {} but stripping the selected text gives {want:?}", got.show()), vec![("template", text.clone()), ("input", xin.clone()), ("observed", got.show()), ("expected", want), ("theorem", "C19_strip_decorate / C02_all_spellings".into())]); return; }
                }
                return;
            }
            if i % 50 == 13 {
                // tracing on: the text that is stripped is the input, not a printable rendering of it
                let w = gens::word(&mut ctx.rng);
                for xin in [format!("\u{1b}[31m{w}\u{1b}[0m"), format!("{w}\u{7}x\u{1b}]0;t\u{7}y"), format!("\u{1b}(B{w}\u{8}")] {
                    for text in ["{strip_ansi}", "<{strip_ansi|upper}>", "{split:,:..|map:{strip_ansi}}"] {
                        let run = |d: bool| match real::parse_with_debug(text, Some(d)) { real::Parsed::Ok(t) => real::format(&t, &xin), real::Parsed::Err(_) => Out::Err, real::Parsed::Panic => Out::Panic };
                        let (a, b) = (run(false), run(true));
                        ctx.rep.bump("traced_stripping");
                        if a != b { viol(ctx, "property", format!("C19: {text} on {xin:?}: with tracing on {} but off {}", b.show(), a.show()), vec![("template", text.to_string()), ("input", xin.clone()), ("observed", b.show()), ("expected", a.show()), ("theorem", "C19_strip_decorate / C10_transparent".into())]); return; }
                    }
                }
                return;
            }
            if i % 50 == 37 {
                // several inputs in ONE format_with_inputs call: every section strips ITS text
                let words = ["red", "green", "plain two", "é blue", ""];
                let deco = |w: &str, k: usize| match k % 4 { 0 => format!("\u{1b}[31m{w}\u{1b}[0m"), 1 => format!("\u{1b}]0;title\u{7}{w}"), 2 => w.to_string(), _ => format!("{w}\u{1b}[2K") };
                let k0 = ctx.rng.below(5);
                let ins: Vec<(String, String)> = (0..3).map(|j| { let w = words[(k0 + j) % 5]; (deco(w, k0 + j), w.to_string()) }).collect();
                if let real::Parsed::Ok(t) = real::parse("{strip_ansi} / {strip_ansi|upper} / {strip_ansi}") {
                    let got = real::fwi(&t, &[vec![ins[0].0.clone()], vec![ins[1].0.clone()], vec![ins[2].0.clone(), ins[0].0.clone()]], &[" ".to_string(), " ".to_string(), "+".to_string()]);
                    let want = Out::Ok(format!("{} / {} / {}+{}", ins[0].1, ins[1].1.to_uppercase(), ins[2].1, ins[0].1));
                    ctx.rep.bump("several_inputs_in_one_call");
                    if got != want {
                        viol(ctx, "property", format!("C19: format_with_inputs over three strip_ansi sections gives {} but every input stripped alone gives {}", got.show(), want.show()), vec![("template", "{strip_ansi} / {strip_ansi|upper} / {strip_ansi}".into()), ("inputs", format!("{ins:?}")), ("observed", got.show()), ("expected", want.show()), ("theorem", "C19_strip_decorate".into())]);
                    }
                }
                return;
            }
            if i % 4 == 3 {
                // arbitrary bytes around ESC: model vs crate, idempotence
                let n = ctx.rng.below(12);
                let s: String = (0..n).map(|_| match ctx.rng.below(6) { 0 => '\x1b', 1 => *ctx.rng.pick(&['[', ']', '(', 'P', 'N', '\\', '\x07', '\x18', ';', '?', ' ', 'm']), 2 => gens::any_char(&mut ctx.rng), 3 => char::from(ctx.rng.below(32) as u8), _ => *ctx.rng.pick(&['a', '1', 'é', '😀']) }).collect();
                let real_out = fast_strip_ansi::strip_ansi_string(&s).to_string();
                let m = unhex(&ctx.drv.request(&format!("STRIP {}", hex(&s)))[0]);
                ctx.rep.bump("arbitrary_strings");
                if m != real_out { viol(ctx, "correspondence", format!("C19: strip_ansi({s:?}) = {real_out:?} but the model gives {m:?}"), vec![("input", s.clone()), ("observed", real_out), ("impl_model", m), ("theorem", "Ansi model correspondence".into())]); return; }
                let twice = real::parse_format("{strip_ansi|strip_ansi}", &s); let once = real::parse_format("{strip_ansi}", &s);
                if twice != once { viol(ctx, "property", format!("C19: strip_ansi is not idempotent on {s:?}: {} vs {}", once.show(), twice.show()), vec![("template", "{strip_ansi|strip_ansi}".into()), ("input", s), ("observed", twice.show()), ("expected", once.show()), ("theorem", "C19_idempotent".into())]); }
                return;
            }
            if i % 10 == 6 {
                // inside map after a split whose separator interacts with the sequences: (a) a separator of two characters
                // with a sequence between them (only the stripped text contains the separator), (b) a separator that
                // occurs inside the parameters / payload of a sequence (items end in the middle of a sequence), (c) items
                // ending in a two-character escape.  The reference is the model: split first, strip each item on its own.
                let (sep, x): (String, String) = match ctx.rng.below(4) {
                    0 => { let s2 = ctx.rng.pick(&["ab", "::", "→→", "--"]).to_string(); let cs: Vec<char> = s2.chars().collect(); let q = gen_seq(&mut ctx.rng);
                           (s2.clone(), format!("x{}{}{}y{}z", cs[0], q, cs[1], s2)) }
                    1 => (";".into(), format!("\x1b[38;5;196mred\x1b[0m;2the docs;{}", clean_text(&mut ctx.rng).replace(';', ""))),
                    2 => (",".into(), format!("\x1b]8;;http://e.x/a,b\x1b\\link\x1b]8;;\x1b\\,ñandú,plain")),
                    _ => (",".into(), format!("a\x1b{},ñandú,b\x1b{},5", *ctx.rng.pick(&['N', 'O', 'P', ']', '[']), *ctx.rng.pick(&['N', 'O', '(']))),
                };
                let glue = ctx.rng.pick(&["+", "|", ""]).to_string();
                let ops = vec![Op::Split(sep.clone(), Range::Range(None, None, false)), Op::Map(vec![Op::StripAnsi]), Op::Join(glue)];
                let t = super::common::triple(ctx, &ops, &x, false);
                ctx.rep.bump("split_across_sequences"); ctx.rep.nontrivial(&(t.text.clone(), x.clone()));
                if t.real != t.spec || t.impl_model != t.real {
                    viol(ctx, if t.real != t.spec { "property" } else { "correspondence" }, format!("C19: format({:?}, {x:?}) = {} but stripping each item of the split on its own gives {} (Impl model {})", t.text, t.real.show(), t.spec.show(), t.impl_model.show()),
                         vec![("template", t.text.clone()), ("input", x.clone()), ("observed", t.real.show()), ("expected", t.spec.show()), ("theorem", "C19_operation_applies_it".into())]);
                }
                return;
            }
            let nparts = 1 + ctx.rng.below(6);
            let mut decorated = String::new(); let mut plain = String::new(); let mut nseq = 0;
            for _ in 0..nparts {
                if ctx.rng.chance(2, 3) { let q = gen_seq(&mut ctx.rng); decorated.push_str(&q); nseq += 1; }
                let t = clean_text(&mut ctx.rng); decorated.push_str(&t); plain.push_str(&t);
            }
            if nseq > 0 { ctx.rep.nontrivial(&decorated); }
            ctx.rep.bump(&format!("sequences_{}", nseq.min(6)));
            let got = real::parse_format("{strip_ansi}", &decorated);
            if got != Out::Ok(plain.clone()) {
                viol(ctx, "property", format!("C19: strip_ansi({decorated:?}) = {} but the text is {plain:?}", got.show()), vec![("template", "{strip_ansi}".into()), ("input", decorated.clone()), ("observed", got.show()), ("expected", format!("{plain:?}")), ("theorem", "C19_strip_decorate".into())]);
                return;
            }
            if real::parse_format("{strip_ansi}", &plain) != Out::Ok(plain.clone()) {
                viol(ctx, "property", format!("C19: control-free text {plain:?} is changed"), vec![("template", "{strip_ansi}".into()), ("input", plain.clone()), ("theorem", "C19_clean_text_unchanged".into())]); return;
            }
            // inside map (lines)
            if !decorated.contains('\n') && !plain.contains('\n') {
                let x = format!("{decorated}\n{decorated}");
                let g = real::parse_format("{split:\\n:..|map:{strip_ansi}|join:\\n}", &x);
                if g != Out::Ok(format!("{plain}\n{plain}")) { viol(ctx, "property", format!("C19: inside map: {x:?} -> {}", g.show()), vec![("template", "{split:\\n:..|map:{strip_ansi}|join:\\n}".into()), ("input", x), ("observed", g.show()), ("theorem", "C19_operation_applies_it".into())]); return; }
            }
            let m = unhex(&ctx.drv.request(&format!("STRIP {}", hex(&decorated)))[0]);
            if m != plain { viol(ctx, "correspondence", format!("C19: model strips {decorated:?} to {m:?}, text is {plain:?}"), vec![("input", decorated.clone()), ("impl_model", m), ("theorem", "C19_strip_decorate".into())]); return; }
            if i < 3 { ctx.rep.sample(format!("{decorated:?} -> {plain:?}")); }
        });
    // the regression corpus of (input bytes, output bytes) pairs confirmed against the crate
    if let Ok(txt) = std::fs::read_to_string(format!("{corpus}/ansi_pairs.txt")) {
        let mut n = 0u64;
        for line in txt.lines() {
            let mut it = line.split_whitespace();
            let (a, b) = match (it.next(), it.next()) { (Some(a), Some(b)) => (a, b), _ => continue };
            let dec = |h: &str| -> Option<String> { if h == "-" { return Some(String::new()); } let bytes: Option<Vec<u8>> = (0..h.len() / 2).map(|k| u8::from_str_radix(&h[2 * k..2 * k + 2], 16).ok()).collect(); String::from_utf8(bytes?).ok() };
            if let (Some(i), Some(o)) = (dec(a), dec(b)) {
                n += 1;
                let r = fast_strip_ansi::strip_ansi_string(&i).to_string();
                if r != o { rep.violation(format!("C19: corpus pair {a}: crate now gives {r:?}, recorded {o:?}"), vec![("kind".into(), "correspondence".into()), ("input".into(), i), ("observed".into(), r), ("expected".into(), o)]); break; }
            }
        }
        rep.add("corpus_pairs", n);
    }
    rep
}
