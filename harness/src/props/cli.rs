//! C13: the string-pipeline binary (built from the working tree) against the model
//! of main.rs and against the library called in-process.
use super::parsing::wf_pipeline;
use super::templates::{assemble, segments, Seg};
use crate::ast::*;
use crate::gens;
use crate::real;
use crate::report::Report;
use crate::rng::Rng;
use crate::{run_parallel, Ctx, Opts};
use std::io::Write;
use std::process::{Command, Stdio};

fn viol(ctx: &mut Ctx, kind: &str, what: String, kv: Vec<(&str, String)>) {
    let mut r: Vec<(String, String)> = vec![("kind".into(), kind.into())];
    r.extend(kv.into_iter().map(|(k, v)| (k.to_string(), v)));
    ctx.rep.violation(what, r);
}

fn arg_safe(s: &str) -> bool { !s.contains('\0') }

fn ws_tail(rng: &mut Rng) -> String {
    let n = rng.below(4);
    (0..n).map(|_| *rng.pick(&[' ', '\n', '\t', '\r', '\u{a0}', '\u{3000}', '\u{b}'])).collect()
}

static SLOW_DONE: std::sync::atomic::AtomicUsize = std::sync::atomic::AtomicUsize::new(0);
pub fn c13(opts: &Opts) -> Report {
    let bin = opts.cli_bin.clone();
    if bin.is_empty() { let mut r = Report::new("C13", "no CLI binary"); r.violation("C13: CLI binary not built".into(), vec![("kind".into(), "correspondence".into())]); return r; }
    let dir = std::env::temp_dir().join(format!("sp-verif-cli-{}-{}", std::process::id(), opts.seed));
    let _ = std::fs::create_dir_all(&dir);
    let dir_ref = &dir;
    let mut rep = run_parallel(opts, "C13",
        "generated configurations of the binary built from the working tree: template source (argument / file with surrounding whitespace / unreadable file / both) x input source (argument / stdin / file with trailing whitespace / both / missing) x --debug x --quiet x --validate, templates valid, invalid and failing at run time, inputs with trailing Unicode whitespace; stdout bytes, exit status and stderr class are compared with the model of main.rs and with Template::parse/format called in-process; distinct by configuration",
        opts.cases(600, 20_000), &|ctx, i| {
            // template text
            let tpl: String = if i % 40 == 19 {
                // literal text that begins with '!', a map over a list that a range has emptied, glue of one blank,
                // a text of several lines (meant for a template file, legal as an argument too)
                ctx.rep.bump("marker_like_and_multiline_templates");
                ["!important: {upper}", "!{upper}", "!", "<{split:,:5..|map:{upper}|join:-}>", "{!split:,:7..|map:{upper}}", "{upper} {lower}", "{!upper} {lower}",
                 "{upper}\n{nope}", "first {upper}\nsecond {lower}\nthird", "{upper}\n{lower", "{split:,:..|filter:^zz$|map:{pad:3}}"][(i / 40) as usize % 11].to_string()
            } else { match ctx.rng.below(8) {
                0 => { let ops = wf_pipeline(&mut ctx.rng, 4); let t = print_block(&ops); let cs: Vec<char> = t.chars().collect(); cs[..cs.len() - 1].iter().collect() } // unclosed
                1 => "{nope}".into(),
                2 => "{split:,:..|upper}".into(),            // fails at run time
                3 => assemble(&segments(&mut ctx.rng, 4)).0,
                4 => format!("{{!{}}}", print_ops(&wf_pipeline(&mut ctx.rng, 3))),
                _ => assemble(&[Seg::Sec(wf_pipeline(&mut ctx.rng, 4))]).0,
            } };
            let body = if i % 40 == 15 { ctx.rep.bump("bom_first"); format!("{}{}", '\u{feff}', gens::word(&mut ctx.rng)) } else if i % 40 == 11 {
                // a result with a line break and a long last line (beyond any line buffer)
                ctx.rep.bump("long_last_line"); format!("header\n{}", "b".repeat(1000 + ctx.rng.below(1500)))
            } else if i % 40 == 31 { "x".repeat(9000) + "\nend" } else { match ctx.rng.below(8) {
                0 => "a\r\nb\r\nc".to_string(),                 // interior CR LF must survive every input route
                1 => ctx.rng.pick(&["-", "--", "-x", "- "]).to_string(),   // looks like an option / the stdin placeholder
                2 => "line one\r\n\r\nline three\r".to_string(),
                _ => gens::text(&mut ctx.rng, 5),
            } };
            let input = if body.starts_with('-') && body.len() <= 2 && ctx.rng.chance(1, 2) { body.clone() } else { format!("{}{}", body, ws_tail(&mut ctx.rng)) };
            // a template the library rejects with a LONG message full of multi-byte characters (every alignment over the run)
            let tpl = if i % 40 == 27 { ctx.rep.bump("long_error_messages"); let k = 140 + (i / 40) as usize % 9; let shift = "a".repeat((i / 40) as usize % 4); match ctx.rng.below(3) { 0 => format!("{{nosuchop{shift}{}}}", "é".repeat(k)), 1 => format!("{{filter:[{shift}{}}}", "日本語".repeat(40 + k % 5)), _ => format!("{{upper|nosuch{shift}{}}}", "😀".repeat(70)) } } else { tpl };
            // every 20th configuration: the INPUT argument is exactly "-" (or "--"), template and input both given as
            // arguments, stdin a pipe with or without data: the argument is the input, verbatim
            let dash_case = i % 20 == 3;
            let (tpl, input) = if dash_case { (ctx.rng.pick(&["[{append:!}]", "{split:-:..|join:+}", "{upper}", "<{}>"]).to_string(), ctx.rng.pick(&["-", "-", "--"]).to_string()) } else { (tpl, input) };
            if dash_case { ctx.rep.bump("dash_input_argument"); }
            // twice per run: a producer on stdin that takes its time (the reader must wait for end of input)
            let slow_case = i == 9 || i == 29;
            let (tpl, input) = if slow_case { (ctx.rng.pick(&["{upper}", "<{split:,:..|join:-}>"]).to_string(), "hello,wörld\n".to_string()) } else { (tpl, input) };
            if !arg_safe(&tpl) || !arg_safe(&input) { return; }
            let special = i % 40 == 19;
            let debug = if special { ((i / 40) / 11) % 2 == 0 } else { ctx.rng.chance(1, 4) && !slow_case }; let quiet = ctx.rng.chance(1, 4) && !special; let validate = ctx.rng.chance(1, 6) && !dash_case && !slow_case && !special;
            let tmode = if dash_case || slow_case { 0 } else if special && tpl.contains('\n') { 6 } else { ctx.rng.below(10) };   // 0-5 arg, 6-7 file, 8 unreadable file, 9 both
            let imode = if dash_case { 0 } else if slow_case { 4 } else if i % 40 == 15 || i % 40 == 35 { ctx.rng.below(10); 7 } else { ctx.rng.below(10) };   // a byte-order mark first: through an input FILE   // 0-3 arg, 4-6 stdin, 7 file, 8 unreadable, 9 both
            let tfile = dir_ref.join(format!("t{}", i)); let ifile = dir_ref.join(format!("i{}", i));
            let tpad_l = ws_tail(&mut ctx.rng); let tpad_r = ws_tail(&mut ctx.rng);
            let mut cmd = Command::new(&bin);
            if debug { cmd.arg("--debug"); } if quiet { cmd.arg("--quiet"); } if validate { cmd.arg("--validate"); }
            // model configuration
            let (tsrc, tboth): (String, bool) = match tmode {
                0..=5 => (format!("a {}", hex(&tpl)), false),
                6 | 7 => { let content = format!("{tpad_l}{tpl}{tpad_r}"); std::fs::write(&tfile, &content).unwrap(); cmd.arg("-t").arg(&tfile); (format!("f {}", hex(&content)), false) }
                8 => { cmd.arg("-t").arg(dir_ref.join("does-not-exist")); ("x".into(), false) }
                _ => { std::fs::write(&tfile, &tpl).unwrap(); cmd.arg("-t").arg(&tfile); (format!("a {}", hex(&tpl)), true) }
            };
            let (isrc, iboth, stdin_data): (String, bool, String) = match imode {
                0..=3 => (format!("a {}", hex(&input)), false, if ctx.rng.chance(1, 2) { "STDIN-DATA\n".to_string() } else { String::new() }),
                4..=6 => ("n".into(), false, input.clone()),
                7 if i % 40 == 35 => { ctx.rep.bump("input_file_is_a_pipe"); cmd.arg("-f").arg("/dev/stdin"); (format!("f {}", hex(&input)), false, input.clone()) }
                7 => { std::fs::write(&ifile, &input).unwrap(); cmd.arg("-f").arg(&ifile); (format!("f {}", hex(&input)), false, String::new()) }
                8 => { cmd.arg("-f").arg(dir_ref.join("does-not-exist-either")); ("x".into(), false, String::new()) }
                _ => { std::fs::write(&ifile, &input).unwrap(); cmd.arg("-f").arg(&ifile); (format!("a {}", hex(&input)), true, String::new()) }
            };
            // positionals after `--`: TEMPLATE [INPUT]; with a template file the first positional would be read as TEMPLATE,
            // so an input argument can only be combined with a template argument
            let t_is_arg = matches!(tmode, 0..=5 | 9);
            let i_is_arg = matches!(imode, 0..=3 | 9);
            if i_is_arg && !t_is_arg { let _ = std::fs::remove_file(&tfile); let _ = std::fs::remove_file(&ifile); return; }
            cmd.arg("--");
            if t_is_arg { cmd.arg(&tpl); }
            if i_is_arg { cmd.arg(&input); }
            cmd.stdin(Stdio::piped()).stdout(Stdio::piped()).stderr(Stdio::piped());
            ctx.rep.eval();
            ctx.rep.nontrivial(&(tsrc.clone(), isrc.clone(), stdin_data.clone(), debug, quiet, validate));
            let mut child = match cmd.spawn() { Ok(c) => c, Err(e) => { viol(ctx, "correspondence", format!("C13: cannot spawn {bin}: {e}"), vec![]); return; } };
            { let mut si = child.stdin.take().unwrap();
              // once per run: a producer that takes its time (the reader must wait for end of input)
              if slow_case || (i >= 8 && matches!(imode, 4..=6) && !validate && !stdin_data.trim().is_empty() && matches!(tmode, 0..=5) && SLOW_DONE.fetch_add(1, std::sync::atomic::Ordering::SeqCst) < 2) { ctx.rep.bump("slow_stdin_producer"); std::thread::sleep(std::time::Duration::from_millis(2300)); }
              let _ = si.write_all(stdin_data.as_bytes()); }
            let out = child.wait_with_output().unwrap();
            let _ = std::fs::remove_file(&tfile); let _ = std::fs::remove_file(&ifile);
            let stdout = String::from_utf8_lossy(&out.stdout).to_string();
            let stderr = String::from_utf8_lossy(&out.stderr).to_string();
            let code = out.status.code().unwrap_or(-1);
            let class = if stderr.is_empty() { "e" } else if stderr.contains("DEBUG:") { "d" } else { "r" };
            // model
            let req = format!("CLI {tsrc} {} {isrc} {} {} {} {} {}", tboth as u8, iboth as u8, hex(&stdin_data), debug as u8, quiet as u8, validate as u8);
            let r = ctx.drv.request(&req);
            let (mcode, mclass, mout) = (r[0].parse::<i32>().unwrap_or(-2), r[1].clone(), unhex(&r[2]));
            ctx.rep.bump(&format!("exit_{code}")); ctx.rep.bump(&format!("tmode_{tmode}")); ctx.rep.bump(&format!("imode_{imode}"));
            ctx.rep.bump(&format!("flags_d{}q{}v{}", debug as u8, quiet as u8, validate as u8));
            let desc = format!("template {tpl:?} (mode {tmode}), input {input:?} (mode {imode}), debug={debug} quiet={quiet} validate={validate}");
            if code == 101 || code < 0 {
                viol(ctx, "property", format!("C13: the binary crashed (status {code}) on {desc}; stderr: {}", stderr.chars().take(200).collect::<String>()), vec![("config", req.clone()), ("template", tpl.clone()), ("input", input.clone()), ("theorem", "C13_never_crashes".into())]);
                return;
            }
            // stderr class: the model predicts "d" only when tracing actually runs; an error message plus debug lines is "d" as well
            // stderr is compared as a class: the model says "e" (must be empty), "r" (an error message: must be
            // non-empty) or "d" (tracing ran: must be non-empty); the wording of the lines is never compared
            let class_ok = match mclass.as_str() { "e" => stderr.is_empty(), _ => !stderr.is_empty() };
            if code != mcode || stdout != mout || !class_ok {
                // is it the property or the model?  ask the library in-process
                let lib = if !tboth && !iboth && tmode != 8 && imode != 8 {
                    let eff_t = if matches!(tmode, 6 | 7) { format!("{tpad_l}{tpl}{tpad_r}").trim().to_string() } else { tpl.clone() };
                    let eff_i = if i_is_arg { input.clone() } else { input.trim_end().to_string() };
                    Some(real::parse_format(&eff_t, &eff_i))
                } else { None };
                let kind = match &lib { Some(crate::driver::Out::Ok(s)) if !validate && (code != 0 || stdout != *s) => "property", Some(crate::driver::Out::Err) if !validate && (code != 1 || !stdout.is_empty()) => "property", _ => if !class_ok && code == mcode && stdout == mout { "property" } else { "correspondence" } };
                viol(ctx, kind, format!("C13: {desc}: binary gives exit {code}, stderr class {class}, stdout {stdout:?}; model of main.rs gives exit {mcode}, class {mclass}, stdout {mout:?}; library in-process: {}", lib.map(|l| l.show()).unwrap_or_else(|| "n/a".into())),
                     vec![("config", req), ("template", tpl.clone()), ("input", input.clone()), ("observed", format!("exit {code} class {class} stdout {stdout:?}")), ("expected", format!("exit {mcode} class {mclass} stdout {mout:?}")), ("theorem", "C13_ok / C13_err".into())]);
                return;
            }
            if quiet && class == "d" { viol(ctx, "property", format!("C13: --quiet but debug lines on stderr: {desc}"), vec![("config", req), ("theorem", "C13_quiet_no_debug".into())]); return; }
            if i < 3 { ctx.rep.sample(format!("{desc} -> exit {code}, stderr {class}, stdout {stdout:?}")); }
        });
    let _ = std::fs::remove_dir_all(&dir);
    rep
}
