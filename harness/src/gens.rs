//! Generators.  Structured and mostly valid by construction; every choice comes
//! from the one Rng handed in, so a case replays from (seed, index).
use crate::ast::*;
use crate::rng::Rng;

pub const ASCII_WORDS: &[&str] = &["a", "b", "c", "ab", "abc", "hello", "World", "foo", "BAR", "x1", "42", "7", "test", "left", "right", "both", "asc", "desc", "upper", "split", "o", "aa", "aaa", "A"];
pub const UNI_WORDS: &[&str] = &["é", "ß", "İ", "ǅ", "€", "日本", "😀", "e\u{301}", "ñandú", "Ünï", "ﬁ", "ΑΣ", "ς",
    // characters whose lower-case form has another byte length (shrinking: ẞ K Å, growing: İ Ⱥ Ⱦ), mixed so that totals can cancel
    "\u{1E9E}x\u{130}", "\u{212A}a\u{23A}", "\u{212B}\u{23E}b", "x\u{1E9E}\u{130}x"];
pub const SPECIALS: &[&str] = &[":", "|", "{", "}", "\\", "/", ",", ";", "-", "_", ".", " ", "\t", "\n", "\r", "$", "!", "..", "=", "'", "\"", "*", "+", "?", "^", "(", ")", "[", "]", "#"];
pub const WS_CHARS: &[char] = &[' ', '\t', '\n', '\u{b}', '\u{c}', '\r', '\u{85}', '\u{a0}', '\u{1680}', '\u{2000}', '\u{2003}', '\u{200a}', '\u{2028}', '\u{2029}', '\u{202f}', '\u{205f}', '\u{3000}'];
pub const NON_WS_LOOKALIKES: &[char] = &['\u{200b}', '\u{feff}', '\u{180e}', '\u{1c}', '\u{1f}', '\u{0}'];
pub const SEPS: &[&str] = &[",", " ", ";", "::", "aa", "", "é", "→", "\n", "|", ":", "ab", "-", "\t", ", ", "a", "{", "}", "\\", "日",
    // separators whose escaped spelling puts a special character right before something the grammar's look-aheads test for
    ":1", ":..", "|upper", "x:-2", "\\}", "\\:", "}|"];

pub fn word(rng: &mut Rng) -> String {
    match rng.below(10) {
        0..=5 => rng.pick(ASCII_WORDS).to_string(),
        6..=7 => rng.pick(UNI_WORDS).to_string(),
        8 => rng.pick(SPECIALS).to_string(),
        _ => String::new(),
    }
}

/// free text: mixture of ASCII, non-ASCII, specials, whitespace
pub fn text(rng: &mut Rng, max_parts: usize) -> String {
    let n = rng.below(max_parts + 1);
    let mut s = String::new();
    for _ in 0..n {
        match rng.below(12) {
            0..=4 => s.push_str(*rng.pick(ASCII_WORDS)),
            5..=6 => s.push_str(*rng.pick(UNI_WORDS)),
            7..=8 => s.push_str(*rng.pick(SPECIALS)),
            9 => s.push(*rng.pick(WS_CHARS)),
            10 => s.push(*rng.pick(NON_WS_LOOKALIKES)),
            _ => s.push(' '),
        }
    }
    s
}

/// any scalar value, biased to boundaries of the UTF-8 length classes
pub fn any_char(rng: &mut Rng) -> char {
    loop {
        let v = match rng.below(8) {
            0 => rng.range(0, 0x7f) as u32,
            1 => rng.range(0x80, 0x7ff) as u32,
            2 => rng.range(0x800, 0xffff) as u32,
            3 => rng.range(0x10000, 0x10ffff) as u32,
            4 => *rng.pick(&[0u32, 0x7f, 0x80, 0x7ff, 0x800, 0xd7ff, 0xe000, 0xffff, 0x10000, 0x10ffff]),
            5 => *rng.pick(WS_CHARS) as u32,
            _ => rng.range(0x20, 0x7e) as u32,
        };
        if let Some(c) = char::from_u32(v) { return c; }
    }
}

pub fn unicode_text(rng: &mut Rng, max_len: usize) -> String {
    let n = rng.below(max_len + 1);
    (0..n).map(|_| if rng.chance(1, 3) { rng.pick(SPECIALS).chars().next().unwrap() } else { any_char(rng) }).collect()
}

pub fn sep(rng: &mut Rng) -> String { rng.pick(SEPS).to_string() }

pub fn bound(rng: &mut Rng) -> i128 {
    match rng.below(20) {
        0 => i64::MAX as i128,
        1 => i64::MIN as i128,
        2 => (i64::MIN + 1) as i128,
        3 => rng.range(-1000, 1000) as i128,
        _ => rng.range(-7, 7) as i128,
    }
}

pub fn range(rng: &mut Rng) -> Range {
    match rng.below(8) {
        0..=1 => Range::Index(bound(rng)),
        2 => Range::Range(None, None, false),
        3 => Range::Range(Some(bound(rng)), None, false),
        4 => Range::Range(None, Some(bound(rng)), rng.chance(1, 2)),
        _ => Range::Range(Some(bound(rng)), Some(bound(rng)), rng.chance(1, 2)),
    }
}

/// regex patterns that can be written raw in the documented syntax
pub const REGEXES: &[&str] = &[
    "a", "o", "b$", "^a", "[a-z]+", "\\d+", "\\w+", "\\s+", ".", ".*", "a|b", "(a)(b)?", "(\\w)(\\w)", "(?P<x>\\w+)",
    "x{2}", "[0-9]{1,2}", "^$", "é", "[^,]+", "\\.txt$", "^[A-Z]", "l+", "(?i)hello", "\\bfoo\\b", "a.c", "^.+$", "(o)(o)?", "B",
    // word-boundary assertions next to a group: the match depends on the text AROUND it
    "\\b(\\.\\w+)", "\\B(\\d+)", "(\\w+)\\b", "\\b(o+)", "(l+)\\B", "\\B(\\w)\\b",
    // valid patterns whose compiled program is large (counted repetition of Unicode classes)
    "\\w{40}", "^\\pL{30,}$", "[\\w.+-]{1,64}@[\\w-]{1,63}\\.\\w{2,24}", "\\w{2,60}\\d",
    // an anchored branch in a top-level alternation (the anchor binds tighter than |); upper-case escapes and capitalised
    // group names (their meaning changes if the pattern text is case-folded); groups that exist but may not take part
    "^a|b", "^.*foo", "foo.*$", "^.*$", "^.*o.*$", "^\\s+|\\s+$", "^h|o|l$", "\\D", "\\W+", "\\S+", "\\Bo", "(?P<Name>\\w+)", "[A-z]", "(a)?b", "(\\d+)-|([a-z]+)", "(x)?(o)",
];
pub const BAD_REGEXES: &[&str] = &["(", "[a", "*a", "a**", "(?P<x"];

pub fn regex(rng: &mut Rng) -> String {
    if rng.chance(1, 25) { rng.pick(BAD_REGEXES).to_string() } else { rng.pick(REGEXES).to_string() }
}

pub const REPLACEMENTS: &[&str] = &["X", "", "$0", "[$1]", "${x}", "$1$2", "<$0>", "é", "-", "$$", "a b", "<${Name}>", "$1px", "$2_at_$1", "$1a$0_"];
pub fn flags(rng: &mut Rng) -> String {
    let mut f: Vec<char> = Vec::new();
    for c in ['g', 'i', 'm', 's'] { if rng.chance(1, 3) { f.push(c); } }
    // any order, occasional repetition
    for i in (1..f.len()).rev() { let j = rng.below(i + 1); f.swap(i, j); }
    if !f.is_empty() && rng.chance(1, 10) { let c = f[0]; f.push(c); }
    f.into_iter().collect()
}

pub fn simple_arg(rng: &mut Rng) -> String {
    match rng.below(6) {
        0 => rng.pick(SPECIALS).to_string(),
        1 => text(rng, 4),
        2 => unicode_text(rng, 4),
        _ => word(rng),
    }
}

pub fn tdir(rng: &mut Rng) -> TDir { *rng.pick(&[TDir::Both, TDir::Left, TDir::Right]) }
pub fn pdir(rng: &mut Rng) -> PDir { *rng.pick(&[PDir::Left, PDir::Right, PDir::Both]) }

pub fn pad_char(rng: &mut Rng) -> char {
    match rng.below(6) {
        0 => any_char(rng),
        1 => *rng.pick(&[':', '|', '{', '}', '\\', '\n', '\t']),
        _ => *rng.pick(&[' ', '0', '*', '-', 'é', '日', '😀', 'x']),
    }
}

pub fn string_op(rng: &mut Rng) -> Op {
    match rng.below(14) {
        0 => Op::Upper,
        1 => Op::Lower,
        2 => Op::Trim(if rng.chance(1, 2) { String::new() } else { simple_arg(rng) }, tdir(rng)),
        3 => Op::Substring(range(rng)),
        4 => Op::Append(simple_arg(rng)),
        5 => Op::Prepend(simple_arg(rng)),
        6 => Op::Surround(simple_arg(rng)),
        7 => Op::StripAnsi,
        8 => Op::Pad(rng.below(12) as u128, pad_char(rng), pdir(rng)),
        9 => Op::RegexExtract(regex(rng), if rng.chance(1, 2) { Some(rng.below(4) as u128) } else { None }),
        10 | 11 => {
            let p = regex(rng);
            Op::Replace(if p.is_empty() { "a".into() } else { p }, rng.pick(REPLACEMENTS).to_string(), flags(rng))
        }
        12 => Op::Reverse,
        _ => Op::Filter(regex(rng)),
    }
}

pub fn list_op(rng: &mut Rng, allow_map: bool) -> Op {
    match rng.below(if allow_map { 10 } else { 8 }) {
        0 => Op::Slice(range(rng)),
        1 => Op::Sort(if rng.chance(1, 2) { SDir::Asc } else { SDir::Desc }),
        2 => Op::Unique,
        3 => Op::Reverse,
        4 => Op::Filter(regex(rng)),
        5 => Op::FilterNot(regex(rng)),
        6 => Op::Join(sep(rng)),
        7 => Op::Split(sep(rng), range(rng)),
        _ => { let n = 1 + rng.below(3); Op::Map(pipeline_from(rng, false, n, false)) }
    }
}

#[derive(Clone, Copy, PartialEq)]
pub enum Kind { Str, List }

pub fn kind_after(op: &Op, k: Kind) -> Option<Kind> {
    match op {
        Op::Split(_, Range::Index(_)) => Some(Kind::Str),
        Op::Split(..) => Some(Kind::List),
        Op::Join(_) => Some(Kind::Str),
        Op::Filter(_) | Op::FilterNot(_) | Op::Reverse => Some(k),
        Op::Slice(_) | Op::Sort(_) | Op::Unique | Op::Map(_) => if k == Kind::List { Some(Kind::List) } else { None },
        _ => if k == Kind::Str { Some(Kind::Str) } else { None },
    }
}

/// a pipeline of `len` operations starting from a string; mostly well-typed
pub fn pipeline_from(rng: &mut Rng, allow_map: bool, len: usize, start_list: bool) -> Vec<Op> {
    let mut ops = Vec::new();
    let mut k = if start_list { Kind::List } else { Kind::Str };
    for _ in 0..len {
        let ill = rng.chance(1, 25);
        let op = match (k, ill) {
            (Kind::Str, false) => if rng.chance(1, 3) { Op::Split(sep(rng), range(rng)) } else if rng.chance(1, 12) { Op::Join(sep(rng)) } else { string_op(rng) },
            (Kind::List, false) => list_op(rng, allow_map),
            (Kind::Str, true) => list_op(rng, allow_map),
            (Kind::List, true) => string_op(rng),
        };
        k = kind_after(&op, k).unwrap_or(k);
        ops.push(op);
    }
    ops
}

pub fn pipeline(rng: &mut Rng, max_len: usize) -> Vec<Op> {
    let len = rng.below(max_len + 1);
    pipeline_from(rng, true, len, false)
}

/// an input that the given pipeline can do something with: items joined by the
/// first split separator that occurs in the pipeline
pub fn input_for(rng: &mut Rng, ops: &[Op]) -> String {
    let sep = ops.iter().find_map(|o| match o { Op::Split(s, _) => Some(s.clone()), _ => None }).unwrap_or_else(|| " ".to_string());
    let n = match rng.below(10) { 0 => 0, 1 => 1, 2..=7 => 2 + rng.below(5), _ => 8 + rng.below(20) };
    let items: Vec<String> = (0..n).map(|_| match rng.below(8) {
        0 => String::new(),
        1 => text(rng, 3),
        2 => format!(" {} ", word(rng)),
        _ => word(rng),
    }).collect();
    let mut s = items.join(&sep);
    if rng.chance(1, 10) { s.push_str(&sep); }
    if rng.chance(1, 15) { s = format!("\x1b[31m{}\x1b[0m", s); }
    s
}

/// is a raw regex/sed text writable as-is in the documented syntax?  (escape-aware
/// brace balance, no `:digit` / `:..`, no `|keyword`, does not end in `}` or `\`)
pub fn raw_ok(p: &str, in_sed: bool) -> bool {
    const KW: &[&str] = &["split", "upper", "lower", "trim", "append", "prepend", "surround", "quote", "join", "substring", "replace", "map", "filter", "filter_not", "slice", "sort", "reverse", "unique", "regex_extract", "strip_ansi", "pad"];
    let cs: Vec<char> = p.chars().collect();
    let mut depth = 0i32;
    let mut i = 0;
    while i < cs.len() {
        let c = cs[i];
        if c == '\\' { if i + 1 >= cs.len() { return false; } i += 2; continue; }
        if c == '{' { depth += 1; }
        if c == '}' { depth -= 1; if depth < 0 { return false; } }
        if in_sed && c == '/' { return false; }
        if !in_sed {
            if c == ':' && i + 1 < cs.len() && (cs[i + 1].is_ascii_digit() || cs[i + 1] == '-' || cs[i + 1] == '.') { return false; }
            if c == '|' { let rest: String = cs[i + 1..].iter().collect(); if KW.iter().any(|k| rest.starts_with(k)) { return false; } }
        }
        i += 1;
    }
    depth == 0 && !p.ends_with('}')
}

/// a character whose scalar value is congruent to `c` modulo 256 (a different character whenever one exists)
pub fn alias_mod256(rng: &mut Rng, c: char) -> char {
    let k = *rng.pick(&[1u32, 2, 3, 0x20, 0x1F6, 0x4E, 0x100]);
    char::from_u32(c as u32 + 256 * k).filter(|a| !a.is_whitespace() || c.is_whitespace()).unwrap_or(c)
}

/// sizes around the thresholds at which implementations like to switch algorithm (powers of two, +-1)
pub const SIZE_SWEEP: &[usize] = &[63, 64, 65, 127, 128, 129, 255, 256, 257, 511, 512, 513, 1023, 1024, 1025, 2047, 2048, 2049, 4095, 4096, 4097];
