
val negb : bool -> bool

type nat =
| O
| S of nat

val fst : ('a1 * 'a2) -> 'a1

val snd : ('a1 * 'a2) -> 'a2

val length : 'a1 list -> nat

val app : 'a1 list -> 'a1 list -> 'a1 list

type comparison =
| Eq
| Lt
| Gt

val compOpp : comparison -> comparison

val add : nat -> nat -> nat

val sub : nat -> nat -> nat

val eqb : bool -> bool -> bool

module Nat :
 sig
  val divmod : nat -> nat -> nat -> nat -> nat * nat

  val div : nat -> nat -> nat
 end

val hd : 'a1 -> 'a1 list -> 'a1

val nth : nat -> 'a1 list -> 'a1 -> 'a1

val nth_error : 'a1 list -> nat -> 'a1 option

val rev_append : 'a1 list -> 'a1 list -> 'a1 list

val concat : 'a1 list list -> 'a1 list

val map : ('a1 -> 'a2) -> 'a1 list -> 'a2 list

val flat_map : ('a1 -> 'a2 list) -> 'a1 list -> 'a2 list

val existsb : ('a1 -> bool) -> 'a1 list -> bool

val forallb : ('a1 -> bool) -> 'a1 list -> bool

val filter : ('a1 -> bool) -> 'a1 list -> 'a1 list

val firstn : nat -> 'a1 list -> 'a1 list

val skipn : nat -> 'a1 list -> 'a1 list

type positive =
| XI of positive
| XO of positive
| XH

type n =
| N0
| Npos of positive

type z =
| Z0
| Zpos of positive
| Zneg of positive

module Pos :
 sig
  type mask =
  | IsNul
  | IsPos of positive
  | IsNeg
 end

module Coq_Pos :
 sig
  val succ : positive -> positive

  val add : positive -> positive -> positive

  val add_carry : positive -> positive -> positive

  val pred_double : positive -> positive

  type mask = Pos.mask =
  | IsNul
  | IsPos of positive
  | IsNeg

  val succ_double_mask : mask -> mask

  val double_mask : mask -> mask

  val double_pred_mask : positive -> mask

  val sub_mask : positive -> positive -> mask

  val sub_mask_carry : positive -> positive -> mask

  val mul : positive -> positive -> positive

  val iter : ('a1 -> 'a1) -> 'a1 -> positive -> 'a1

  val compare_cont : comparison -> positive -> positive -> comparison

  val compare : positive -> positive -> comparison

  val eqb : positive -> positive -> bool

  val iter_op : ('a1 -> 'a1 -> 'a1) -> positive -> 'a1 -> 'a1

  val to_nat : positive -> nat

  val of_succ_nat : nat -> positive
 end

module N :
 sig
  val succ_double : n -> n

  val double : n -> n

  val add : n -> n -> n

  val sub : n -> n -> n

  val compare : n -> n -> comparison

  val eqb : n -> n -> bool

  val leb : n -> n -> bool

  val ltb : n -> n -> bool

  val pos_div_eucl : positive -> n -> n * n

  val div_eucl : n -> n -> n * n

  val div : n -> n -> n

  val modulo : n -> n -> n

  val to_nat : n -> nat

  val of_nat : nat -> n
 end

module Z :
 sig
  val double : z -> z

  val succ_double : z -> z

  val pred_double : z -> z

  val pos_sub : positive -> positive -> z

  val add : z -> z -> z

  val opp : z -> z

  val sub : z -> z -> z

  val mul : z -> z -> z

  val pow_pos : z -> positive -> z

  val pow : z -> z -> z

  val compare : z -> z -> comparison

  val leb : z -> z -> bool

  val ltb : z -> z -> bool

  val eqb : z -> z -> bool

  val max : z -> z -> z

  val min : z -> z -> z

  val to_nat : z -> nat

  val of_nat : nat -> z
 end

type str = n list

val frev : 'a1 list -> 'a1 list

val str_eqb : str -> str -> bool

val str_leb : str -> str -> bool

val valid_cp : n -> bool

val valid : str -> bool

val is_ascii_cp : n -> bool

val is_ascii : str -> bool

val utf8_len_cp : n -> n

val utf8_len : str -> n

val utf8_cp : n -> n list

val utf8 : str -> n list

val is_ws : n -> bool

val is_prefix : str -> str -> bool

val contains : str -> str -> bool

val mem_cp : n -> str -> bool

val drop_while : (n -> bool) -> str -> str

val drop_while_end : (n -> bool) -> str -> str

val repeat_cp : n -> nat -> str

type 'a outcome =
| Ok of 'a
| Err
| Panic

val bind : 'a1 outcome -> ('a1 -> 'a2 outcome) -> 'a2 outcome

val omap : ('a1 -> 'a2) -> 'a1 outcome -> 'a2 outcome

val mapM : ('a1 -> 'a2 outcome) -> 'a1 list -> 'a2 list outcome

type env = { re_valid : (str -> bool); re_is_match : (str -> str -> bool);
             re_find : (str -> str -> str option);
             re_group : (str -> str -> n -> str option);
             re_replace : (bool -> str -> str -> str -> str);
             to_upper : (str -> str); to_lower : (str -> str);
             strip_ansi : (str -> str) }

type range =
| Index of z
| Range of z option * z option * bool

val isize_min : z

val isize_max : z

val in_isize : z -> bool

val checked_add : z -> z -> z outcome

val resolve_index : z -> z -> z outcome

val slice_range : 'a1 list -> z -> z -> 'a1 list outcome

val apply_range : 'a1 list -> range -> 'a1 list outcome

val resolve_index_m : z -> z -> z

val apply_range_m : 'a1 list -> range -> 'a1 list

val norm : z -> z -> z

val range_start : z option -> z -> z

val range_end : z option -> bool -> z -> z

val select : range -> 'a1 list -> 'a1 list

val split_go : str -> str -> nat -> str -> str list

val split : str -> str -> str list

val split_char_go : n -> str -> str -> str list

val split_char : str -> n -> str list

val join : str -> str list -> str

val replace_go : str -> str -> str -> nat -> str

val replace_plain : str -> str -> str -> str

type tdir =
| TBoth
| TLeft
| TRight

type sdir =
| Asc
| Desc

type pdir =
| PLeft
| PRight
| PBoth

type op =
| Split of str * range
| Join of str
| Replace of str * str * str
| Upper
| Lower
| Trim of str * tdir
| Substring of range
| Append of str
| Prepend of str
| Surround of str
| StripAnsi
| Filter of str
| FilterNot of str
| Slice of range
| Map of op list
| Sort of sdir
| Reverse
| Unique
| Pad of n * n * pdir
| RegexExtract of str * n option

type value =
| VStr of str
| VList of str list

type kind =
| KStr
| KList

val insert_sorted : str -> str list -> str list

val sort_asc : str list -> str list

val unique_go : str list -> str list -> str list

val unique : str list -> str list

val trim_with : (n -> bool) -> tdir -> str -> str

val pad_str : n -> n -> pdir -> str -> str

val flag_letters : str

val inline_flags : str -> str

val flag_prefix : str -> str

val has_g : str -> bool

type split_key = str * str

type 'a prog =
| Ret of 'a
| SplitGet of split_key * (str list option -> 'a prog)
| SplitPut of split_key * str list * 'a prog
| RegexGet of str * (bool -> 'a prog)
| RegexPut of str * 'a prog

val pbind : 'a1 prog -> ('a1 -> 'a2 prog) -> 'a2 prog

val pmapM : ('a1 -> 'a2 prog) -> 'a1 list -> 'a2 list prog

val pmapM_o : ('a1 -> 'a2 outcome prog) -> 'a1 list -> 'a2 list outcome prog

type caches = { c_split : (split_key * str list) list; c_regex : str list }

val empty_caches : caches

val key_eqb : split_key -> split_key -> bool

val split_lookup : (split_key * str list) list -> split_key -> str list option

val regex_cached : str list -> str -> bool

val run_pure : 'a1 prog -> 'a1

val run_st : 'a1 prog -> caches -> 'a1 * caches

val split_cache_max_input : n

val split_cache_max_parts : n

val replace_meta : n list

val replace_flag_letters : n list

val replace_shortcut_blockers : n list

val debug_value_limit : n

val debug_value_take : n

val debug_value_by_chars : bool

val debug_ws_limit : n

val debug_literal_limit : n

val debug_literal_take : n

val debug_literal_by_chars : bool

val raw_split : str -> str -> str list

val get_cached_split : str -> str -> str list prog

val get_cached_regex : env -> str -> unit outcome prog

val ascii_reverse : str -> str option

val ascii_trim : str -> str option

val impl_replace : env -> str -> str -> str -> str -> str outcome prog

val ret_o : 'a1 outcome -> 'a1 outcome prog

val impl_single : env -> op -> value -> str -> (value * str) outcome prog

val byte_prefix : str -> n -> str outcome

val trace_preview : str -> str outcome

val trace_value : value -> unit outcome

val impl_finish : bool -> value -> str -> str outcome prog

val impl_step :
  env -> bool -> op -> value -> str -> (value * str) outcome prog

val impl_ops : env -> bool -> op list -> value -> str -> str outcome prog

val impl_run : env -> bool -> op list -> str -> str outcome prog

val str_only : value -> (str -> str) -> str -> (value * str) outcome

val list_only :
  value -> (str list -> str list) -> str -> (value * str) outcome

val trim_pred : str -> n -> bool

val spec_replace : env -> str -> str -> str -> str -> str outcome

val spec_extract : env -> str -> n option -> str -> str outcome

val spec_filter : env -> bool -> str -> value -> value outcome

val render : value -> str -> str

val default_sep : str

val spec_step : env -> op -> value -> str -> (value * str) outcome

val spec_steps : env -> op list -> value -> str -> str outcome

val spec_run : env -> op list -> str -> str outcome

val sep_after : op -> str -> str

val last_sep_from : str -> op list -> str

val last_sep : op list -> str

val kind_step : kind -> op -> kind option

val infer_from : kind -> op list -> kind option

val infer : op list -> kind option

val well_typed_op : op -> bool

val well_typed_from : kind -> op list -> bool

val well_typed : op list -> bool

type section =
| Lit of str
| Sec of op list

type template = { t_raw : str; t_sections : section list; t_debug : bool }

val optz_eqb : z option -> z option -> bool

val range_eqb : range -> range -> bool

val tdir_eqb : tdir -> tdir -> bool

val sdir_eqb : sdir -> sdir -> bool

val pdir_eqb : pdir -> pdir -> bool

val optn_eqb : n option -> n option -> bool

val op_eqb : op -> op -> bool

val ops_eqb : op list -> op list -> bool

type memo = ((str * op list) * str) list

val memo_lookup : memo -> str -> op list -> str option

val fast_single_split : str -> str -> range -> str prog

val apply_section :
  env -> bool -> str -> op list -> memo -> (str outcome * memo) prog

val literal_preview : str -> unit outcome

val format_loop_plain :
  env -> bool -> str -> section list -> str -> memo -> str outcome prog

val format_loop_debug :
  env -> str -> section list -> str -> memo -> str outcome prog

val impl_format : env -> template -> str -> str outcome prog

val fwi_inputs :
  env -> bool -> op list -> str list -> memo -> (str list outcome * memo) prog

val fwi_loop :
  env -> bool -> section list -> str list list -> str list -> nat -> str ->
  memo -> str outcome prog

val impl_format_with_inputs :
  env -> template -> str list list -> str list -> str outcome prog

val seg_out : env -> str -> section -> str outcome

val spec_format : env -> section list -> str -> str outcome

val spec_fwi :
  env -> section list -> str list list -> str list -> nat -> str list outcome

val spec_format_with_inputs :
  env -> section list -> str list list -> str list -> str outcome

val x_run_pure_impl : env -> bool -> op list -> str -> str outcome

val x_run_st_impl :
  env -> bool -> op list -> str -> caches -> str outcome * caches

val x_spec_run : env -> op list -> str -> str outcome

val x_apply_range_str : str list -> range -> str list outcome

val x_select_str : range -> str list -> str list

val x_infer : op list -> kind option

val x_well_typed : op list -> bool

val x_last_sep : op list -> str

val x_format_pure : env -> template -> str -> str outcome

val x_spec_format : env -> section list -> str -> str outcome

val x_fwi_pure : env -> template -> str list list -> str list -> str outcome

val x_spec_fwi :
  env -> section list -> str list list -> str list -> str outcome
