
(** val negb : bool -> bool **)

let negb = function
| true -> false
| false -> true

type nat =
| O
| S of nat

(** val fst : ('a1 * 'a2) -> 'a1 **)

let fst = function
| (x, _) -> x

(** val snd : ('a1 * 'a2) -> 'a2 **)

let snd = function
| (_, y) -> y

(** val length : 'a1 list -> nat **)

let rec length = function
| [] -> O
| _ :: l' -> S (length l')

(** val app : 'a1 list -> 'a1 list -> 'a1 list **)

let rec app l m =
  match l with
  | [] -> m
  | a :: l1 -> a :: (app l1 m)

type comparison =
| Eq
| Lt
| Gt

(** val compOpp : comparison -> comparison **)

let compOpp = function
| Eq -> Eq
| Lt -> Gt
| Gt -> Lt

module Coq__1 = struct
 (** val add : nat -> nat -> nat **)
 let rec add n0 m =
   match n0 with
   | O -> m
   | S p -> S (add p m)
end
include Coq__1

(** val sub : nat -> nat -> nat **)

let rec sub n0 m =
  match n0 with
  | O -> n0
  | S k -> (match m with
            | O -> n0
            | S l -> sub k l)

(** val eqb : bool -> bool -> bool **)

let eqb b1 b2 =
  if b1 then b2 else if b2 then false else true

module Nat =
 struct
  (** val divmod : nat -> nat -> nat -> nat -> nat * nat **)

  let rec divmod x y q u =
    match x with
    | O -> (q, u)
    | S x' ->
      (match u with
       | O -> divmod x' y (S q) y
       | S u' -> divmod x' y q u')

  (** val div : nat -> nat -> nat **)

  let div x y = match y with
  | O -> y
  | S y' -> fst (divmod x y' O y')
 end

(** val hd : 'a1 -> 'a1 list -> 'a1 **)

let hd default = function
| [] -> default
| x :: _ -> x

(** val nth : nat -> 'a1 list -> 'a1 -> 'a1 **)

let rec nth n0 l default =
  match n0 with
  | O -> (match l with
          | [] -> default
          | x :: _ -> x)
  | S m -> (match l with
            | [] -> default
            | _ :: t -> nth m t default)

(** val nth_error : 'a1 list -> nat -> 'a1 option **)

let rec nth_error l = function
| O -> (match l with
        | [] -> None
        | x :: _ -> Some x)
| S n1 -> (match l with
           | [] -> None
           | _ :: l0 -> nth_error l0 n1)

(** val rev_append : 'a1 list -> 'a1 list -> 'a1 list **)

let rec rev_append l l' =
  match l with
  | [] -> l'
  | a :: l0 -> rev_append l0 (a :: l')

(** val concat : 'a1 list list -> 'a1 list **)

let rec concat = function
| [] -> []
| x :: l0 -> app x (concat l0)

(** val map : ('a1 -> 'a2) -> 'a1 list -> 'a2 list **)

let rec map f = function
| [] -> []
| a :: t -> (f a) :: (map f t)

(** val flat_map : ('a1 -> 'a2 list) -> 'a1 list -> 'a2 list **)

let rec flat_map f = function
| [] -> []
| x :: t -> app (f x) (flat_map f t)

(** val existsb : ('a1 -> bool) -> 'a1 list -> bool **)

let rec existsb f = function
| [] -> false
| a :: l0 -> (||) (f a) (existsb f l0)

(** val forallb : ('a1 -> bool) -> 'a1 list -> bool **)

let rec forallb f = function
| [] -> true
| a :: l0 -> (&&) (f a) (forallb f l0)

(** val filter : ('a1 -> bool) -> 'a1 list -> 'a1 list **)

let rec filter f = function
| [] -> []
| x :: l0 -> if f x then x :: (filter f l0) else filter f l0

(** val firstn : nat -> 'a1 list -> 'a1 list **)

let rec firstn n0 l =
  match n0 with
  | O -> []
  | S n1 -> (match l with
             | [] -> []
             | a :: l0 -> a :: (firstn n1 l0))

(** val skipn : nat -> 'a1 list -> 'a1 list **)

let rec skipn n0 l =
  match n0 with
  | O -> l
  | S n1 -> (match l with
             | [] -> []
             | _ :: l0 -> skipn n1 l0)

type positive =
| XI of positive
| XO of positive
| XH

type n =
| N0
| Npos of positive

type z =
| Z0
| Zpos of positive
| Zneg of positive

module Pos =
 struct
  type mask =
  | IsNul
  | IsPos of positive
  | IsNeg
 end

module Coq_Pos =
 struct
  (** val succ : positive -> positive **)

  let rec succ = function
  | XI p -> XO (succ p)
  | XO p -> XI p
  | XH -> XO XH

  (** val add : positive -> positive -> positive **)

  let rec add x y =
    match x with
    | XI p ->
      (match y with
       | XI q -> XO (add_carry p q)
       | XO q -> XI (add p q)
       | XH -> XO (succ p))
    | XO p ->
      (match y with
       | XI q -> XI (add p q)
       | XO q -> XO (add p q)
       | XH -> XI p)
    | XH -> (match y with
             | XI q -> XO (succ q)
             | XO q -> XI q
             | XH -> XO XH)

  (** val add_carry : positive -> positive -> positive **)

  and add_carry x y =
    match x with
    | XI p ->
      (match y with
       | XI q -> XI (add_carry p q)
       | XO q -> XO (add_carry p q)
       | XH -> XI (succ p))
    | XO p ->
      (match y with
       | XI q -> XO (add_carry p q)
       | XO q -> XI (add p q)
       | XH -> XO (succ p))
    | XH ->
      (match y with
       | XI q -> XI (succ q)
       | XO q -> XO (succ q)
       | XH -> XI XH)

  (** val pred_double : positive -> positive **)

  let rec pred_double = function
  | XI p -> XI (XO p)
  | XO p -> XI (pred_double p)
  | XH -> XH

  type mask = Pos.mask =
  | IsNul
  | IsPos of positive
  | IsNeg

  (** val succ_double_mask : mask -> mask **)

  let succ_double_mask = function
  | IsNul -> IsPos XH
  | IsPos p -> IsPos (XI p)
  | IsNeg -> IsNeg

  (** val double_mask : mask -> mask **)

  let double_mask = function
  | IsPos p -> IsPos (XO p)
  | x0 -> x0

  (** val double_pred_mask : positive -> mask **)

  let double_pred_mask = function
  | XI p -> IsPos (XO (XO p))
  | XO p -> IsPos (XO (pred_double p))
  | XH -> IsNul

  (** val sub_mask : positive -> positive -> mask **)

  let rec sub_mask x y =
    match x with
    | XI p ->
      (match y with
       | XI q -> double_mask (sub_mask p q)
       | XO q -> succ_double_mask (sub_mask p q)
       | XH -> IsPos (XO p))
    | XO p ->
      (match y with
       | XI q -> succ_double_mask (sub_mask_carry p q)
       | XO q -> double_mask (sub_mask p q)
       | XH -> IsPos (pred_double p))
    | XH -> (match y with
             | XH -> IsNul
             | _ -> IsNeg)

  (** val sub_mask_carry : positive -> positive -> mask **)

  and sub_mask_carry x y =
    match x with
    | XI p ->
      (match y with
       | XI q -> succ_double_mask (sub_mask_carry p q)
       | XO q -> double_mask (sub_mask p q)
       | XH -> IsPos (pred_double p))
    | XO p ->
      (match y with
       | XI q -> double_mask (sub_mask_carry p q)
       | XO q -> succ_double_mask (sub_mask_carry p q)
       | XH -> double_pred_mask p)
    | XH -> IsNeg

  (** val mul : positive -> positive -> positive **)

  let rec mul x y =
    match x with
    | XI p -> add y (XO (mul p y))
    | XO p -> XO (mul p y)
    | XH -> y

  (** val iter : ('a1 -> 'a1) -> 'a1 -> positive -> 'a1 **)

  let rec iter f x = function
  | XI n' -> f (iter f (iter f x n') n')
  | XO n' -> iter f (iter f x n') n'
  | XH -> f x

  (** val compare_cont : comparison -> positive -> positive -> comparison **)

  let rec compare_cont r x y =
    match x with
    | XI p ->
      (match y with
       | XI q -> compare_cont r p q
       | XO q -> compare_cont Gt p q
       | XH -> Gt)
    | XO p ->
      (match y with
       | XI q -> compare_cont Lt p q
       | XO q -> compare_cont r p q
       | XH -> Gt)
    | XH -> (match y with
             | XH -> r
             | _ -> Lt)

  (** val compare : positive -> positive -> comparison **)

  let compare =
    compare_cont Eq

  (** val eqb : positive -> positive -> bool **)

  let rec eqb p q =
    match p with
    | XI p0 -> (match q with
                | XI q0 -> eqb p0 q0
                | _ -> false)
    | XO p0 -> (match q with
                | XO q0 -> eqb p0 q0
                | _ -> false)
    | XH -> (match q with
             | XH -> true
             | _ -> false)

  (** val iter_op : ('a1 -> 'a1 -> 'a1) -> positive -> 'a1 -> 'a1 **)

  let rec iter_op op0 p a =
    match p with
    | XI p0 -> op0 a (iter_op op0 p0 (op0 a a))
    | XO p0 -> iter_op op0 p0 (op0 a a)
    | XH -> a

  (** val to_nat : positive -> nat **)

  let to_nat x =
    iter_op Coq__1.add x (S O)

  (** val of_succ_nat : nat -> positive **)

  let rec of_succ_nat = function
  | O -> XH
  | S x -> succ (of_succ_nat x)
 end

module N =
 struct
  (** val succ_double : n -> n **)

  let succ_double = function
  | N0 -> Npos XH
  | Npos p -> Npos (XI p)

  (** val double : n -> n **)

  let double = function
  | N0 -> N0
  | Npos p -> Npos (XO p)

  (** val add : n -> n -> n **)

  let add n0 m =
    match n0 with
    | N0 -> m
    | Npos p -> (match m with
                 | N0 -> n0
                 | Npos q -> Npos (Coq_Pos.add p q))

  (** val sub : n -> n -> n **)

  let sub n0 m =
    match n0 with
    | N0 -> N0
    | Npos n' ->
      (match m with
       | N0 -> n0
       | Npos m' ->
         (match Coq_Pos.sub_mask n' m' with
          | Coq_Pos.IsPos p -> Npos p
          | _ -> N0))

  (** val compare : n -> n -> comparison **)

  let compare n0 m =
    match n0 with
    | N0 -> (match m with
             | N0 -> Eq
             | Npos _ -> Lt)
    | Npos n' -> (match m with
                  | N0 -> Gt
                  | Npos m' -> Coq_Pos.compare n' m')

  (** val eqb : n -> n -> bool **)

  let eqb n0 m =
    match n0 with
    | N0 -> (match m with
             | N0 -> true
             | Npos _ -> false)
    | Npos p -> (match m with
                 | N0 -> false
                 | Npos q -> Coq_Pos.eqb p q)

  (** val leb : n -> n -> bool **)

  let leb x y =
    match compare x y with
    | Gt -> false
    | _ -> true

  (** val ltb : n -> n -> bool **)

  let ltb x y =
    match compare x y with
    | Lt -> true
    | _ -> false

  (** val pos_div_eucl : positive -> n -> n * n **)

  let rec pos_div_eucl a b =
    match a with
    | XI a' ->
      let (q, r) = pos_div_eucl a' b in
      let r' = succ_double r in
      if leb b r' then ((succ_double q), (sub r' b)) else ((double q), r')
    | XO a' ->
      let (q, r) = pos_div_eucl a' b in
      let r' = double r in
      if leb b r' then ((succ_double q), (sub r' b)) else ((double q), r')
    | XH ->
      (match b with
       | N0 -> (N0, (Npos XH))
       | Npos p -> (match p with
                    | XH -> ((Npos XH), N0)
                    | _ -> (N0, (Npos XH))))

  (** val div_eucl : n -> n -> n * n **)

  let div_eucl a b =
    match a with
    | N0 -> (N0, N0)
    | Npos na -> (match b with
                  | N0 -> (N0, a)
                  | Npos _ -> pos_div_eucl na b)

  (** val div : n -> n -> n **)

  let div a b =
    fst (div_eucl a b)

  (** val modulo : n -> n -> n **)

  let modulo a b =
    snd (div_eucl a b)

  (** val to_nat : n -> nat **)

  let to_nat = function
  | N0 -> O
  | Npos p -> Coq_Pos.to_nat p

  (** val of_nat : nat -> n **)

  let of_nat = function
  | O -> N0
  | S n' -> Npos (Coq_Pos.of_succ_nat n')
 end

module Z =
 struct
  (** val double : z -> z **)

  let double = function
  | Z0 -> Z0
  | Zpos p -> Zpos (XO p)
  | Zneg p -> Zneg (XO p)

  (** val succ_double : z -> z **)

  let succ_double = function
  | Z0 -> Zpos XH
  | Zpos p -> Zpos (XI p)
  | Zneg p -> Zneg (Coq_Pos.pred_double p)

  (** val pred_double : z -> z **)

  let pred_double = function
  | Z0 -> Zneg XH
  | Zpos p -> Zpos (Coq_Pos.pred_double p)
  | Zneg p -> Zneg (XI p)

  (** val pos_sub : positive -> positive -> z **)

  let rec pos_sub x y =
    match x with
    | XI p ->
      (match y with
       | XI q -> double (pos_sub p q)
       | XO q -> succ_double (pos_sub p q)
       | XH -> Zpos (XO p))
    | XO p ->
      (match y with
       | XI q -> pred_double (pos_sub p q)
       | XO q -> double (pos_sub p q)
       | XH -> Zpos (Coq_Pos.pred_double p))
    | XH ->
      (match y with
       | XI q -> Zneg (XO q)
       | XO q -> Zneg (Coq_Pos.pred_double q)
       | XH -> Z0)

  (** val add : z -> z -> z **)

  let add x y =
    match x with
    | Z0 -> y
    | Zpos x' ->
      (match y with
       | Z0 -> x
       | Zpos y' -> Zpos (Coq_Pos.add x' y')
       | Zneg y' -> pos_sub x' y')
    | Zneg x' ->
      (match y with
       | Z0 -> x
       | Zpos y' -> pos_sub y' x'
       | Zneg y' -> Zneg (Coq_Pos.add x' y'))

  (** val opp : z -> z **)

  let opp = function
  | Z0 -> Z0
  | Zpos x0 -> Zneg x0
  | Zneg x0 -> Zpos x0

  (** val sub : z -> z -> z **)

  let sub m n0 =
    add m (opp n0)

  (** val mul : z -> z -> z **)

  let mul x y =
    match x with
    | Z0 -> Z0
    | Zpos x' ->
      (match y with
       | Z0 -> Z0
       | Zpos y' -> Zpos (Coq_Pos.mul x' y')
       | Zneg y' -> Zneg (Coq_Pos.mul x' y'))
    | Zneg x' ->
      (match y with
       | Z0 -> Z0
       | Zpos y' -> Zneg (Coq_Pos.mul x' y')
       | Zneg y' -> Zpos (Coq_Pos.mul x' y'))

  (** val pow_pos : z -> positive -> z **)

  let pow_pos z0 =
    Coq_Pos.iter (mul z0) (Zpos XH)

  (** val pow : z -> z -> z **)

  let pow x = function
  | Z0 -> Zpos XH
  | Zpos p -> pow_pos x p
  | Zneg _ -> Z0

  (** val compare : z -> z -> comparison **)

  let compare x y =
    match x with
    | Z0 -> (match y with
             | Z0 -> Eq
             | Zpos _ -> Lt
             | Zneg _ -> Gt)
    | Zpos x' -> (match y with
                  | Zpos y' -> Coq_Pos.compare x' y'
                  | _ -> Gt)
    | Zneg x' ->
      (match y with
       | Zneg y' -> compOpp (Coq_Pos.compare x' y')
       | _ -> Lt)

  (** val leb : z -> z -> bool **)

  let leb x y =
    match compare x y with
    | Gt -> false
    | _ -> true

  (** val ltb : z -> z -> bool **)

  let ltb x y =
    match compare x y with
    | Lt -> true
    | _ -> false

  (** val eqb : z -> z -> bool **)

  let eqb x y =
    match x with
    | Z0 -> (match y with
             | Z0 -> true
             | _ -> false)
    | Zpos p -> (match y with
                 | Zpos q -> Coq_Pos.eqb p q
                 | _ -> false)
    | Zneg p -> (match y with
                 | Zneg q -> Coq_Pos.eqb p q
                 | _ -> false)

  (** val max : z -> z -> z **)

  let max n0 m =
    match compare n0 m with
    | Lt -> m
    | _ -> n0

  (** val min : z -> z -> z **)

  let min n0 m =
    match compare n0 m with
    | Gt -> m
    | _ -> n0

  (** val to_nat : z -> nat **)

  let to_nat = function
  | Zpos p -> Coq_Pos.to_nat p
  | _ -> O

  (** val of_nat : nat -> z **)

  let of_nat = function
  | O -> Z0
  | S n1 -> Zpos (Coq_Pos.of_succ_nat n1)
 end

type str = n list

(** val frev : 'a1 list -> 'a1 list **)

let frev l =
  rev_append l []

(** val str_eqb : str -> str -> bool **)

let rec str_eqb a b =
  match a with
  | [] -> (match b with
           | [] -> true
           | _ :: _ -> false)
  | x :: a' ->
    (match b with
     | [] -> false
     | y :: b' -> (&&) (N.eqb x y) (str_eqb a' b'))

(** val str_leb : str -> str -> bool **)

let rec str_leb a b =
  match a with
  | [] -> true
  | x :: a' ->
    (match b with
     | [] -> false
     | y :: b' ->
       if N.ltb x y then true else if N.eqb x y then str_leb a' b' else false)

(** val valid_cp : n -> bool **)

let valid_cp c =
  (&&)
    (N.ltb c (Npos (XO (XO (XO (XO (XO (XO (XO (XO (XO (XO (XO (XO (XO (XO
      (XO (XO (XI (XO (XO (XO XH))))))))))))))))))))))
    (negb
      ((&&)
        (N.leb (Npos (XO (XO (XO (XO (XO (XO (XO (XO (XO (XO (XO (XI (XI (XO
          (XI XH)))))))))))))))) c)
        (N.leb c (Npos (XI (XI (XI (XI (XI (XI (XI (XI (XI (XI (XI (XI (XI
          (XO (XI XH)))))))))))))))))))

(** val valid : str -> bool **)

let valid s =
  forallb valid_cp s

(** val is_ascii_cp : n -> bool **)

let is_ascii_cp c =
  N.ltb c (Npos (XO (XO (XO (XO (XO (XO (XO XH))))))))

(** val is_ascii : str -> bool **)

let is_ascii s =
  forallb is_ascii_cp s

(** val utf8_len_cp : n -> n **)

let utf8_len_cp c =
  if N.ltb c (Npos (XO (XO (XO (XO (XO (XO (XO XH))))))))
  then Npos XH
  else if N.ltb c (Npos (XO (XO (XO (XO (XO (XO (XO (XO (XO (XO (XO
            XH))))))))))))
       then Npos (XO XH)
       else if N.ltb c (Npos (XO (XO (XO (XO (XO (XO (XO (XO (XO (XO (XO (XO
                 (XO (XO (XO (XO XH)))))))))))))))))
            then Npos (XI XH)
            else Npos (XO (XO XH))

(** val utf8_len : str -> n **)

let rec utf8_len = function
| [] -> N0
| c :: s' -> N.add (utf8_len_cp c) (utf8_len s')

(** val utf8_cp : n -> n list **)

let utf8_cp c =
  if N.ltb c (Npos (XO (XO (XO (XO (XO (XO (XO XH))))))))
  then c :: []
  else if N.ltb c (Npos (XO (XO (XO (XO (XO (XO (XO (XO (XO (XO (XO
            XH))))))))))))
       then (N.add (Npos (XO (XO (XO (XO (XO (XO (XI XH))))))))
              (N.div c (Npos (XO (XO (XO (XO (XO (XO XH))))))))) :: (
              (N.add (Npos (XO (XO (XO (XO (XO (XO (XO XH))))))))
                (N.modulo c (Npos (XO (XO (XO (XO (XO (XO XH))))))))) :: [])
       else if N.ltb c (Npos (XO (XO (XO (XO (XO (XO (XO (XO (XO (XO (XO (XO
                 (XO (XO (XO (XO XH)))))))))))))))))
            then (N.add (Npos (XO (XO (XO (XO (XO (XI (XI XH))))))))
                   (N.div c (Npos (XO (XO (XO (XO (XO (XO (XO (XO (XO (XO (XO
                     (XO XH))))))))))))))) :: ((N.add (Npos (XO (XO (XO (XO
                                                 (XO (XO (XO XH))))))))
                                                 (N.modulo
                                                   (N.div c (Npos (XO (XO (XO
                                                     (XO (XO (XO XH))))))))
                                                   (Npos (XO (XO (XO (XO (XO
                                                   (XO XH))))))))) :: (
                   (N.add (Npos (XO (XO (XO (XO (XO (XO (XO XH))))))))
                     (N.modulo c (Npos (XO (XO (XO (XO (XO (XO XH))))))))) :: []))
            else (N.add (Npos (XO (XO (XO (XO (XI (XI (XI XH))))))))
                   (N.div c (Npos (XO (XO (XO (XO (XO (XO (XO (XO (XO (XO (XO
                     (XO (XO (XO (XO (XO (XO (XO XH))))))))))))))))))))) :: (
                   (N.add (Npos (XO (XO (XO (XO (XO (XO (XO XH))))))))
                     (N.modulo
                       (N.div c (Npos (XO (XO (XO (XO (XO (XO (XO (XO (XO (XO
                         (XO (XO XH)))))))))))))) (Npos (XO (XO (XO (XO (XO
                       (XO XH))))))))) :: ((N.add (Npos (XO (XO (XO (XO (XO
                                             (XO (XO XH))))))))
                                             (N.modulo
                                               (N.div c (Npos (XO (XO (XO (XO
                                                 (XO (XO XH)))))))) (Npos (XO
                                               (XO (XO (XO (XO (XO XH))))))))) :: (
                   (N.add (Npos (XO (XO (XO (XO (XO (XO (XO XH))))))))
                     (N.modulo c (Npos (XO (XO (XO (XO (XO (XO XH))))))))) :: [])))

(** val utf8 : str -> n list **)

let utf8 s =
  flat_map utf8_cp s

(** val is_ws : n -> bool **)

let is_ws c =
  (||)
    ((||)
      ((||)
        ((||)
          ((||)
            ((||)
              ((||)
                ((||)
                  ((||)
                    ((||)
                      ((&&) (N.leb (Npos (XI (XO (XO XH)))) c)
                        (N.leb c (Npos (XI (XO (XI XH))))))
                      (N.eqb c (Npos (XO (XO (XO (XO (XO XH))))))))
                    (N.eqb c (Npos (XI (XO (XI (XO (XO (XO (XO XH))))))))))
                  (N.eqb c (Npos (XO (XO (XO (XO (XO (XI (XO XH))))))))))
                (N.eqb c (Npos (XO (XO (XO (XO (XO (XO (XO (XI (XO (XI (XI
                  (XO XH)))))))))))))))
              ((&&)
                (N.leb (Npos (XO (XO (XO (XO (XO (XO (XO (XO (XO (XO (XO (XO
                  (XO XH)))))))))))))) c)
                (N.leb c (Npos (XO (XI (XO (XI (XO (XO (XO (XO (XO (XO (XO
                  (XO (XO XH)))))))))))))))))
            (N.eqb c (Npos (XO (XO (XO (XI (XO (XI (XO (XO (XO (XO (XO (XO
              (XO XH))))))))))))))))
          (N.eqb c (Npos (XI (XO (XO (XI (XO (XI (XO (XO (XO (XO (XO (XO (XO
            XH))))))))))))))))
        (N.eqb c (Npos (XI (XI (XI (XI (XO (XI (XO (XO (XO (XO (XO (XO (XO
          XH))))))))))))))))
      (N.eqb c (Npos (XI (XI (XI (XI (XI (XO (XI (XO (XO (XO (XO (XO (XO
        XH))))))))))))))))
    (N.eqb c (Npos (XO (XO (XO (XO (XO (XO (XO (XO (XO (XO (XO (XO (XI
      XH)))))))))))))))

(** val is_prefix : str -> str -> bool **)

let rec is_prefix p s =
  match p with
  | [] -> true
  | c :: p' ->
    (match s with
     | [] -> false
     | d :: s' -> (&&) (N.eqb c d) (is_prefix p' s'))

(** val contains : str -> str -> bool **)

let rec contains s p =
  (||) (is_prefix p s) (match s with
                        | [] -> false
                        | _ :: s' -> contains s' p)

(** val mem_cp : n -> str -> bool **)

let mem_cp c set =
  existsb (N.eqb c) set

(** val drop_while : (n -> bool) -> str -> str **)

let rec drop_while f s = match s with
| [] -> []
| c :: s' -> if f c then drop_while f s' else s

(** val drop_while_end : (n -> bool) -> str -> str **)

let drop_while_end f s =
  frev (drop_while f (frev s))

(** val repeat_cp : n -> nat -> str **)

let rec repeat_cp c = function
| O -> []
| S k -> c :: (repeat_cp c k)

type 'a outcome =
| Ok of 'a
| Err
| Panic

(** val bind : 'a1 outcome -> ('a1 -> 'a2 outcome) -> 'a2 outcome **)

let bind m f =
  match m with
  | Ok a -> f a
  | Err -> Err
  | Panic -> Panic

(** val omap : ('a1 -> 'a2) -> 'a1 outcome -> 'a2 outcome **)

let omap f = function
| Ok a -> Ok (f a)
| Err -> Err
| Panic -> Panic

(** val mapM : ('a1 -> 'a2 outcome) -> 'a1 list -> 'a2 list outcome **)

let rec mapM f = function
| [] -> Ok []
| x :: l' -> bind (f x) (fun y -> bind (mapM f l') (fun ys -> Ok (y :: ys)))

type env = { re_valid : (str -> bool); re_is_match : (str -> str -> bool);
             re_find : (str -> str -> str option);
             re_group : (str -> str -> n -> str option);
             re_replace : (bool -> str -> str -> str -> str);
             to_upper : (str -> str); to_lower : (str -> str);
             strip_ansi : (str -> str) }

type range =
| Index of z
| Range of z option * z option * bool

(** val isize_min : z **)

let isize_min =
  Z.opp (Z.pow (Zpos (XO XH)) (Zpos (XI (XI (XI (XI (XI XH)))))))

(** val isize_max : z **)

let isize_max =
  Z.sub (Z.pow (Zpos (XO XH)) (Zpos (XI (XI (XI (XI (XI XH))))))) (Zpos XH)

(** val in_isize : z -> bool **)

let in_isize z0 =
  (&&) (Z.leb isize_min z0) (Z.leb z0 isize_max)

(** val checked_add : z -> z -> z outcome **)

let checked_add a b =
  let r = Z.add a b in if in_isize r then Ok r else Panic

(** val resolve_index : z -> z -> z outcome **)

let resolve_index idx len =
  bind (if Z.ltb idx Z0 then checked_add len idx else Ok idx)
    (fun resolved -> Ok (Z.max Z0 (Z.min resolved (Z.max len Z0))))

(** val slice_range : 'a1 list -> z -> z -> 'a1 list outcome **)

let slice_range items s e =
  if (&&) (Z.leb s e) (Z.leb e (Z.of_nat (length items)))
  then Ok (firstn (Z.to_nat (Z.sub e s)) (skipn (Z.to_nat s) items))
  else Panic

(** val apply_range : 'a1 list -> range -> 'a1 list outcome **)

let apply_range items r =
  let len = Z.of_nat (length items) in
  if Z.eqb len Z0
  then Ok []
  else (match r with
        | Index idx ->
          bind (resolve_index idx len) (fun i0 ->
            let i = Z.min i0 (Z.sub len (Zpos XH)) in
            (match nth_error items (Z.to_nat i) with
             | Some x -> Ok (x :: [])
             | None -> Ok []))
        | Range (a, b, inc) ->
          bind (match a with
                | Some s -> resolve_index s len
                | None -> Ok Z0) (fun s_idx ->
            if Z.leb len s_idx
            then Ok []
            else bind
                   (match b with
                    | Some e -> resolve_index e len
                    | None -> Ok len) (fun e0 ->
                   let e1 = if inc then Z.add e0 (Zpos XH) else e0 in
                   let e_idx = Z.min e1 len in
                   if Z.leb e_idx s_idx
                   then Ok []
                   else slice_range items s_idx e_idx)))

(** val resolve_index_m : z -> z -> z **)

let resolve_index_m idx len =
  let resolved = if Z.ltb idx Z0 then Z.add len idx else idx in
  Z.max Z0 (Z.min resolved (Z.max len Z0))

(** val apply_range_m : 'a1 list -> range -> 'a1 list **)

let apply_range_m items r =
  let len = Z.of_nat (length items) in
  if Z.eqb len Z0
  then []
  else (match r with
        | Index idx ->
          let i = Z.min (resolve_index_m idx len) (Z.sub len (Zpos XH)) in
          (match nth_error items (Z.to_nat i) with
           | Some x -> x :: []
           | None -> [])
        | Range (a, b, inc) ->
          let s_idx =
            match a with
            | Some s -> resolve_index_m s len
            | None -> Z0
          in
          if Z.leb len s_idx
          then []
          else let e0 =
                 match b with
                 | Some e -> resolve_index_m e len
                 | None -> len
               in
               let e1 = if inc then Z.add e0 (Zpos XH) else e0 in
               let e_idx = Z.min e1 len in
               if Z.leb e_idx s_idx
               then []
               else firstn (Z.to_nat (Z.sub e_idx s_idx))
                      (skipn (Z.to_nat s_idx) items))

(** val norm : z -> z -> z **)

let norm i len =
  let j = if Z.ltb i Z0 then Z.add len i else i in Z.max Z0 (Z.min j len)

(** val range_start : z option -> z -> z **)

let range_start a len =
  match a with
  | Some x -> norm x len
  | None -> Z0

(** val range_end : z option -> bool -> z -> z **)

let range_end b inc len =
  Z.min len
    (Z.add (match b with
            | Some x -> norm x len
            | None -> len) (if inc then Zpos XH else Z0))

(** val select : range -> 'a1 list -> 'a1 list **)

let select r l =
  let len = Z.of_nat (length l) in
  (match l with
   | [] -> []
   | _ :: _ ->
     (match r with
      | Index i ->
        let p = Z.min (norm i len) (Z.sub len (Zpos XH)) in
        firstn (S O) (skipn (Z.to_nat p) l)
      | Range (a, b, inc) ->
        let s = range_start a len in
        let e = range_end b inc len in
        if Z.ltb s e
        then firstn (Z.to_nat (Z.sub e s)) (skipn (Z.to_nat s) l)
        else []))

(** val split_go : str -> str -> nat -> str -> str list **)

let rec split_go sep s skip cur =
  match s with
  | [] -> (frev cur) :: []
  | c :: s' ->
    (match skip with
     | O ->
       if is_prefix sep s
       then (frev cur) :: (split_go sep s' (sub (length sep) (S O)) [])
       else split_go sep s' O (c :: cur)
     | S k -> split_go sep s' k cur)

(** val split : str -> str -> str list **)

let split s sep = match sep with
| [] -> [] :: (app (map (fun c -> c :: []) s) ([] :: []))
| _ :: _ -> split_go sep s O []

(** val split_char_go : n -> str -> str -> str list **)

let rec split_char_go c s cur =
  match s with
  | [] -> (frev cur) :: []
  | d :: s' ->
    if N.eqb c d
    then (frev cur) :: (split_char_go c s' [])
    else split_char_go c s' (d :: cur)

(** val split_char : str -> n -> str list **)

let split_char s c =
  split_char_go c s []

(** val join : str -> str list -> str **)

let rec join sep = function
| [] -> []
| x :: rest ->
  (match rest with
   | [] -> x
   | _ :: _ -> app x (app sep (join sep rest)))

(** val replace_go : str -> str -> str -> nat -> str **)

let rec replace_go from to0 s skip =
  match s with
  | [] -> []
  | c :: s' ->
    (match skip with
     | O ->
       if is_prefix from s
       then app to0 (replace_go from to0 s' (sub (length from) (S O)))
       else c :: (replace_go from to0 s' O)
     | S k -> replace_go from to0 s' k)

(** val replace_plain : str -> str -> str -> str **)

let replace_plain s from to0 =
  match from with
  | [] -> app to0 (flat_map (fun c -> c :: to0) s)
  | _ :: _ -> replace_go from to0 s O

type tdir =
| TBoth
| TLeft
| TRight

type sdir =
| Asc
| Desc

type pdir =
| PLeft
| PRight
| PBoth

type op =
| Split of str * range
| Join of str
| Replace of str * str * str
| Upper
| Lower
| Trim of str * tdir
| Substring of range
| Append of str
| Prepend of str
| Surround of str
| StripAnsi
| Filter of str
| FilterNot of str
| Slice of range
| Map of op list
| Sort of sdir
| Reverse
| Unique
| Pad of n * n * pdir
| RegexExtract of str * n option

type value =
| VStr of str
| VList of str list

type kind =
| KStr
| KList

(** val insert_sorted : str -> str list -> str list **)

let rec insert_sorted x l = match l with
| [] -> x :: []
| y :: l' -> if str_leb x y then x :: l else y :: (insert_sorted x l')

(** val sort_asc : str list -> str list **)

let rec sort_asc = function
| [] -> []
| x :: l' -> insert_sorted x (sort_asc l')

(** val unique_go : str list -> str list -> str list **)

let rec unique_go seen = function
| [] -> []
| x :: l' ->
  if existsb (str_eqb x) seen
  then unique_go seen l'
  else x :: (unique_go (x :: seen) l')

(** val unique : str list -> str list **)

let unique l =
  unique_go [] l

(** val trim_with : (n -> bool) -> tdir -> str -> str **)

let trim_with f d s =
  match d with
  | TBoth -> drop_while_end f (drop_while f s)
  | TLeft -> drop_while f s
  | TRight -> drop_while_end f s

(** val pad_str : n -> n -> pdir -> str -> str **)

let pad_str w c d s =
  let len = N.of_nat (length s) in
  if N.leb w len
  then s
  else let need = N.to_nat (N.sub w len) in
       (match d with
        | PLeft -> app (repeat_cp c need) s
        | PRight -> app s (repeat_cp c need)
        | PBoth ->
          let l = Nat.div need (S (S O)) in
          app (repeat_cp c l) (app s (repeat_cp c (sub need l))))

(** val flag_letters : str **)

let flag_letters =
  (Npos (XI (XO (XO (XI (XO (XI XH))))))) :: ((Npos (XI (XO (XI (XI (XO (XI
    XH))))))) :: ((Npos (XI (XI (XO (XO (XI (XI XH))))))) :: ((Npos (XO (XO
    (XO (XI (XI (XI XH))))))) :: [])))

(** val inline_flags : str -> str **)

let inline_flags flags =
  filter (fun c -> mem_cp c flags) flag_letters

(** val flag_prefix : str -> str **)

let flag_prefix flags =
  match inline_flags flags with
  | [] -> []
  | n0 :: l ->
    app ((Npos (XO (XO (XO (XI (XO XH)))))) :: ((Npos (XI (XI (XI (XI (XI
      XH)))))) :: []))
      (app (n0 :: l) ((Npos (XI (XO (XO (XI (XO XH)))))) :: []))

(** val has_g : str -> bool **)

let has_g flags =
  mem_cp (Npos (XI (XI (XI (XO (XO (XI XH))))))) flags

type split_key = str * str

type 'a prog =
| Ret of 'a
| SplitGet of split_key * (str list option -> 'a prog)
| SplitPut of split_key * str list * 'a prog
| RegexGet of str * (bool -> 'a prog)
| RegexPut of str * 'a prog

(** val pbind : 'a1 prog -> ('a1 -> 'a2 prog) -> 'a2 prog **)

let rec pbind m f =
  match m with
  | Ret a -> f a
  | SplitGet (k, c) -> SplitGet (k, (fun r -> pbind (c r) f))
  | SplitPut (k, v, c) -> SplitPut (k, v, (pbind c f))
  | RegexGet (p, c) -> RegexGet (p, (fun r -> pbind (c r) f))
  | RegexPut (p, c) -> RegexPut (p, (pbind c f))

(** val pmapM : ('a1 -> 'a2 prog) -> 'a1 list -> 'a2 list prog **)

let rec pmapM f = function
| [] -> Ret []
| x :: l' ->
  pbind (f x) (fun y -> pbind (pmapM f l') (fun ys -> Ret (y :: ys)))

(** val pmapM_o :
    ('a1 -> 'a2 outcome prog) -> 'a1 list -> 'a2 list outcome prog **)

let rec pmapM_o f = function
| [] -> Ret (Ok [])
| x :: l' ->
  pbind (f x) (fun r ->
    match r with
    | Ok y ->
      pbind (pmapM_o f l') (fun rs -> Ret (omap (fun x0 -> y :: x0) rs))
    | Err -> Ret Err
    | Panic -> Ret Panic)

type caches = { c_split : (split_key * str list) list; c_regex : str list }

(** val empty_caches : caches **)

let empty_caches =
  { c_split = []; c_regex = [] }

(** val key_eqb : split_key -> split_key -> bool **)

let key_eqb a b =
  (&&) (str_eqb (fst a) (fst b)) (str_eqb (snd a) (snd b))

(** val split_lookup :
    (split_key * str list) list -> split_key -> str list option **)

let rec split_lookup c k =
  match c with
  | [] -> None
  | p :: c' ->
    let (k', v) = p in if key_eqb k' k then Some v else split_lookup c' k

(** val regex_cached : str list -> str -> bool **)

let regex_cached c p =
  existsb (str_eqb p) c

(** val run_pure : 'a1 prog -> 'a1 **)

let rec run_pure = function
| Ret a -> a
| SplitGet (_, c) -> run_pure (c None)
| SplitPut (_, _, c) -> run_pure c
| RegexGet (_, c) -> run_pure (c false)
| RegexPut (_, c) -> run_pure c

(** val run_st : 'a1 prog -> caches -> 'a1 * caches **)

let rec run_st m c =
  match m with
  | Ret a -> (a, c)
  | SplitGet (k, cont) -> run_st (cont (split_lookup c.c_split k)) c
  | SplitPut (k, v, cont) ->
    run_st cont { c_split = ((k, v) :: c.c_split); c_regex = c.c_regex }
  | RegexGet (p, cont) -> run_st (cont (regex_cached c.c_regex p)) c
  | RegexPut (p, cont) ->
    run_st cont { c_split = c.c_split; c_regex =
      (if regex_cached c.c_regex p then c.c_regex else p :: c.c_regex) }

(** val split_cache_max_input : n **)

let split_cache_max_input =
  Npos (XO (XO (XO (XO (XI (XO (XO (XO (XI (XI (XI (XO (XO XH)))))))))))))

(** val split_cache_max_parts : n **)

let split_cache_max_parts =
  Npos (XO (XO (XO (XI (XO (XI (XI (XI (XI XH)))))))))

(** val replace_meta : n list **)

let replace_meta =
  (Npos (XO (XO (XI (XI (XI (XO XH))))))) :: ((Npos (XO (XI (XI (XI (XO
    XH)))))) :: ((Npos (XO (XI (XO (XI (XO XH)))))) :: ((Npos (XI (XI (XO (XI
    (XO XH)))))) :: ((Npos (XI (XI (XI (XI (XI XH)))))) :: ((Npos (XO (XI (XI
    (XI (XI (XO XH))))))) :: ((Npos (XO (XO (XI (XO (XO XH)))))) :: ((Npos
    (XO (XO (XI (XI (XI (XI XH))))))) :: ((Npos (XI (XI (XO (XI (XI (XO
    XH))))))) :: ((Npos (XI (XO (XI (XI (XI (XO XH))))))) :: ((Npos (XO (XO
    (XO (XI (XO XH)))))) :: ((Npos (XI (XO (XO (XI (XO XH)))))) :: ((Npos (XI
    (XI (XO (XI (XI (XI XH))))))) :: ((Npos (XI (XO (XI (XI (XI (XI
    XH))))))) :: [])))))))))))))

(** val replace_flag_letters : n list **)

let replace_flag_letters =
  (Npos (XI (XO (XO (XI (XO (XI XH))))))) :: ((Npos (XI (XO (XI (XI (XO (XI
    XH))))))) :: ((Npos (XI (XI (XO (XO (XI (XI XH))))))) :: ((Npos (XO (XO
    (XO (XI (XI (XI XH))))))) :: [])))

(** val replace_shortcut_blockers : n list **)

let replace_shortcut_blockers =
  (Npos (XI (XI (XI (XO (XO (XI XH))))))) :: ((Npos (XI (XO (XO (XI (XO (XI
    XH))))))) :: ((Npos (XO (XO (XO (XI (XI (XI XH))))))) :: []))

(** val debug_value_limit : n **)

let debug_value_limit =
  Npos (XO (XO (XO (XI (XO XH)))))

(** val debug_value_take : n **)

let debug_value_take =
  Npos (XO (XO (XO (XI (XO XH)))))

(** val debug_value_by_chars : bool **)

let debug_value_by_chars =
  true

(** val debug_ws_limit : n **)

let debug_ws_limit =
  Npos (XO XH)

(** val debug_literal_limit : n **)

let debug_literal_limit =
  Npos (XO (XO (XI (XO XH))))

(** val debug_literal_take : n **)

let debug_literal_take =
  Npos (XI (XI (XI XH)))

(** val debug_literal_by_chars : bool **)

let debug_literal_by_chars =
  true

(** val raw_split : str -> str -> str list **)

let raw_split input sep =
  if N.eqb (utf8_len sep) (Npos XH)
  then split_char input (hd N0 sep)
  else split input sep

(** val get_cached_split : str -> str -> str list prog **)

let get_cached_split input sep =
  SplitGet ((input, sep), (fun hit ->
    match hit with
    | Some v -> Ret v
    | None ->
      let parts = raw_split input sep in
      if (&&) (N.leb (utf8_len input) split_cache_max_input)
           (N.leb (N.of_nat (length parts)) split_cache_max_parts)
      then SplitPut ((input, sep), parts, (Ret parts))
      else Ret parts))

(** val get_cached_regex : env -> str -> unit outcome prog **)

let get_cached_regex e p =
  RegexGet (p, (fun hit ->
    if hit
    then Ret (Ok ())
    else if e.re_valid p then RegexPut (p, (Ret (Ok ()))) else Ret Err))

(** val ascii_reverse : str -> str option **)

let ascii_reverse s =
  if is_ascii s then Some (frev s) else None

(** val ascii_trim : str -> str option **)

let ascii_trim s =
  if is_ascii s then Some (trim_with is_ws TBoth s) else None

(** val impl_replace : env -> str -> str -> str -> str -> str outcome prog **)

let impl_replace e pat repl flags s =
  if (&&)
       ((&&)
         (negb (existsb (fun f -> mem_cp f flags) replace_shortcut_blockers))
         (negb (existsb (fun c -> mem_cp c replace_meta) pat)))
       (negb (contains s pat))
  then Ret (Ok s)
  else let pattern_to_use =
         match flags with
         | [] -> pat
         | _ :: _ ->
           (match filter (fun c -> mem_cp c flags) replace_flag_letters with
            | [] -> pat
            | n0 :: l ->
              app ((Npos (XO (XO (XO (XI (XO XH)))))) :: ((Npos (XI (XI (XI
                (XI (XI XH)))))) :: []))
                (app (n0 :: l)
                  (app ((Npos (XI (XO (XO (XI (XO XH)))))) :: []) pat)))
       in
       pbind (get_cached_regex e pattern_to_use) (fun r ->
         match r with
         | Ok _ ->
           Ret (Ok
             (e.re_replace
               (mem_cp (Npos (XI (XI (XI (XO (XO (XI XH))))))) flags)
               pattern_to_use s repl))
         | Err -> Ret Err
         | Panic -> Ret Panic)

(** val ret_o : 'a1 outcome -> 'a1 outcome prog **)

let ret_o a =
  Ret a

(** val impl_single :
    env -> op -> value -> str -> (value * str) outcome prog **)

let impl_single e o v sep =
  match o with
  | Split (sp, r) ->
    pbind
      (match v with
       | VStr s -> get_cached_split s sp
       | VList l ->
         pbind (pmapM (fun s -> get_cached_split s sp) l) (fun ps -> Ret
           (concat ps))) (fun parts ->
      ret_o
        (bind (Ok (apply_range_m parts r)) (fun result ->
          match r with
          | Index _ ->
            (match result with
             | [] -> Ok ((VStr []), sp)
             | x :: l ->
               (match l with
                | [] -> Ok ((VStr x), sp)
                | _ :: _ -> Ok ((VList result), sp)))
          | Range (_, _, _) -> Ok ((VList result), sp))))
  | Join sp ->
    ret_o (Ok ((match v with
                | VStr s -> VStr s
                | VList l -> VStr (join sp l)), sp))
  | Replace (pat, repl, flags) ->
    (match v with
     | VStr s ->
       pbind (impl_replace e pat repl flags s) (fun r ->
         ret_o (bind r (fun s' -> Ok ((VStr s'), sep))))
     | VList _ -> ret_o Err)
  | Upper ->
    ret_o
      (match v with
       | VStr s -> Ok ((VStr (e.to_upper s)), sep)
       | VList _ -> Err)
  | Lower ->
    ret_o
      (match v with
       | VStr s -> Ok ((VStr (e.to_lower s)), sep)
       | VList _ -> Err)
  | Trim (chars, d) ->
    ret_o
      (match v with
       | VStr s ->
         Ok ((VStr
           (if (||) (match chars with
                     | [] -> true
                     | _ :: _ -> false)
                 (match trim_with is_ws TBoth chars with
                  | [] -> true
                  | _ :: _ -> false)
            then (match d with
                  | TBoth ->
                    (match ascii_trim s with
                     | Some t -> t
                     | None -> trim_with is_ws TBoth s)
                  | x -> trim_with is_ws x s)
            else trim_with (fun c -> mem_cp c chars) d s)), sep)
       | VList _ -> Err)
  | Substring r ->
    ret_o
      (match v with
       | VStr s ->
         if is_ascii s
         then bind (Ok (apply_range_m (utf8 s) r)) (fun bytes -> Ok ((VStr
                bytes), sep))
         else bind (Ok (apply_range_m s r)) (fun cs -> Ok ((VStr cs), sep))
       | VList _ -> Err)
  | Append t ->
    ret_o (match v with
           | VStr s -> Ok ((VStr (app s t)), sep)
           | VList _ -> Err)
  | Prepend t ->
    ret_o (match v with
           | VStr s -> Ok ((VStr (app t s)), sep)
           | VList _ -> Err)
  | Surround t ->
    ret_o
      (match v with
       | VStr s -> Ok ((VStr (app t (app s t))), sep)
       | VList _ -> Err)
  | StripAnsi ->
    ret_o
      (match v with
       | VStr s -> Ok ((VStr (e.strip_ansi s)), sep)
       | VList _ -> Err)
  | Filter p ->
    pbind (get_cached_regex e p) (fun re ->
      ret_o
        (bind re (fun _ -> Ok
          ((match v with
            | VStr s -> VStr (if e.re_is_match p s then s else [])
            | VList l -> VList (filter (fun s -> e.re_is_match p s) l)),
          sep))))
  | FilterNot p ->
    pbind (get_cached_regex e p) (fun re ->
      ret_o
        (bind re (fun _ -> Ok
          ((match v with
            | VStr s -> VStr (if e.re_is_match p s then [] else s)
            | VList l -> VList (filter (fun s -> negb (e.re_is_match p s)) l)),
          sep))))
  | Slice r ->
    ret_o
      (match v with
       | VStr _ -> Err
       | VList l ->
         bind (Ok (apply_range_m l r)) (fun l' -> Ok ((VList l'), sep)))
  | Map _ -> ret_o Err
  | Sort d ->
    ret_o
      (match v with
       | VStr _ -> Err
       | VList l ->
         Ok ((VList
           (match d with
            | Asc -> sort_asc l
            | Desc -> frev (sort_asc l))), sep))
  | Reverse ->
    ret_o (Ok
      ((match v with
        | VStr s ->
          VStr (match ascii_reverse s with
                | Some r -> r
                | None -> frev s)
        | VList l -> VList (frev l)), sep))
  | Unique ->
    ret_o
      (match v with
       | VStr _ -> Err
       | VList l -> Ok ((VList (unique l)), sep))
  | Pad (w, c, d) ->
    ret_o
      (match v with
       | VStr s ->
         let current_len = N.of_nat (length s) in
         Ok ((VStr
         (if N.leb w current_len
          then s
          else let need = N.to_nat (N.sub w current_len) in
               (match d with
                | PLeft -> app (repeat_cp c need) s
                | PRight -> app s (repeat_cp c need)
                | PBoth ->
                  let left = Nat.div need (S (S O)) in
                  app (repeat_cp c left) (app s (repeat_cp c (sub need left)))))),
         sep)
       | VList _ -> Err)
  | RegexExtract (p, g) ->
    (match v with
     | VStr s ->
       pbind (get_cached_regex e p) (fun re ->
         ret_o
           (bind re (fun _ -> Ok ((VStr
             (match match g with
                    | Some i -> e.re_group p s i
                    | None -> e.re_find p s with
              | Some m -> m
              | None -> [])), sep))))
     | VList _ -> ret_o Err)

(** val byte_prefix : str -> n -> str outcome **)

let rec byte_prefix s n0 =
  if N.eqb n0 N0
  then Ok []
  else (match s with
        | [] -> Panic
        | c :: s' ->
          let w = utf8_len_cp c in
          if N.ltb n0 w
          then Panic
          else omap (fun x -> c :: x) (byte_prefix s' (N.sub n0 w)))

(** val trace_preview : str -> str outcome **)

let trace_preview s =
  if N.ltb debug_value_limit (utf8_len s)
  then if debug_value_by_chars
       then Ok (firstn (N.to_nat debug_value_take) s)
       else byte_prefix s debug_value_take
  else Ok s

(** val trace_value : value -> unit outcome **)

let trace_value = function
| VStr s -> bind (trace_preview s) (fun _ -> Ok ())
| VList _ -> Ok ()

(** val impl_finish : bool -> value -> str -> str outcome prog **)

let impl_finish dbg v sep =
  ret_o
    (bind (if dbg then trace_value v else Ok ()) (fun _ -> Ok
      (match v with
       | VStr s -> s
       | VList l -> (match l with
                     | [] -> []
                     | _ :: _ -> join sep l))))

(** val impl_step :
    env -> bool -> op -> value -> str -> (value * str) outcome prog **)

let rec impl_step e dbg o v sep =
  match o with
  | Map body ->
    (match v with
     | VStr _ -> ret_o Err
     | VList l ->
       pbind
         (pmapM_o (fun item ->
           let rec go b v0 sep0 =
             match b with
             | [] -> impl_finish dbg v0 sep0
             | o' :: b' ->
               pbind (if dbg then ret_o (trace_value v0) else ret_o (Ok ()))
                 (fun t ->
                 match t with
                 | Ok _ ->
                   pbind (impl_step e dbg o' v0 sep0) (fun r ->
                     match r with
                     | Ok a -> let (v', sep') = a in go b' v' sep'
                     | Err -> Ret Err
                     | Panic -> Ret Panic)
                 | Err -> Ret Err
                 | Panic -> Ret Panic)
           in go body (VStr item) ((Npos (XO (XO (XO (XO (XO XH)))))) :: []))
           l) (fun r -> ret_o (bind r (fun l' -> Ok ((VList l'), sep)))))
  | _ -> impl_single e o v sep

(** val impl_ops :
    env -> bool -> op list -> value -> str -> str outcome prog **)

let rec impl_ops e dbg ops v sep =
  match ops with
  | [] -> impl_finish dbg v sep
  | o :: ops' ->
    pbind (if dbg then ret_o (trace_value v) else ret_o (Ok ())) (fun t ->
      match t with
      | Ok _ ->
        pbind (impl_step e dbg o v sep) (fun r ->
          match r with
          | Ok a -> let (v', sep') = a in impl_ops e dbg ops' v' sep'
          | Err -> Ret Err
          | Panic -> Ret Panic)
      | Err -> Ret Err
      | Panic -> Ret Panic)

(** val impl_run : env -> bool -> op list -> str -> str outcome prog **)

let impl_run e dbg ops x =
  impl_ops e dbg ops (VStr x) ((Npos (XO (XO (XO (XO (XO XH)))))) :: [])

(** val str_only : value -> (str -> str) -> str -> (value * str) outcome **)

let str_only v f sep =
  match v with
  | VStr s -> Ok ((VStr (f s)), sep)
  | VList _ -> Err

(** val list_only :
    value -> (str list -> str list) -> str -> (value * str) outcome **)

let list_only v f sep =
  match v with
  | VStr _ -> Err
  | VList l -> Ok ((VList (f l)), sep)

(** val trim_pred : str -> n -> bool **)

let trim_pred chars =
  if forallb is_ws chars then is_ws else (fun c -> mem_cp c chars)

(** val spec_replace : env -> str -> str -> str -> str -> str outcome **)

let spec_replace e pat repl flags s =
  let p = app (flag_prefix flags) pat in
  if e.re_valid p then Ok (e.re_replace (has_g flags) p s repl) else Err

(** val spec_extract : env -> str -> n option -> str -> str outcome **)

let spec_extract e p g s =
  if e.re_valid p
  then Ok
         (match match g with
                | Some i -> e.re_group p s i
                | None -> e.re_find p s with
          | Some m -> m
          | None -> [])
  else Err

(** val spec_filter : env -> bool -> str -> value -> value outcome **)

let spec_filter e keep p v =
  if e.re_valid p
  then Ok
         (match v with
          | VStr s -> VStr (if eqb (e.re_is_match p s) keep then s else [])
          | VList l ->
            VList (filter (fun s -> eqb (e.re_is_match p s) keep) l))
  else Err

(** val render : value -> str -> str **)

let render v sep =
  match v with
  | VStr s -> s
  | VList l -> join sep l

(** val default_sep : str **)

let default_sep =
  (Npos (XO (XO (XO (XO (XO XH)))))) :: []

(** val spec_step : env -> op -> value -> str -> (value * str) outcome **)

let rec spec_step e o v sep =
  match o with
  | Split (sp, r) ->
    let parts =
      match v with
      | VStr s -> split s sp
      | VList l -> flat_map (fun s -> split s sp) l
    in
    let sel = select r parts in
    Ok
    ((match r with
      | Index _ -> VStr (match sel with
                         | [] -> []
                         | x :: _ -> x)
      | Range (_, _, _) -> VList sel), sp)
  | Join sp ->
    Ok ((match v with
         | VStr s -> VStr s
         | VList l -> VStr (join sp l)), sp)
  | Replace (pat, repl, flags) ->
    (match v with
     | VStr s ->
       omap (fun s' -> ((VStr s'), sep)) (spec_replace e pat repl flags s)
     | VList _ -> Err)
  | Upper -> str_only v e.to_upper sep
  | Lower -> str_only v e.to_lower sep
  | Trim (chars, d) -> str_only v (trim_with (trim_pred chars) d) sep
  | Substring r -> str_only v (select r) sep
  | Append t -> str_only v (fun s -> app s t) sep
  | Prepend t -> str_only v (fun s -> app t s) sep
  | Surround t -> str_only v (fun s -> app t (app s t)) sep
  | StripAnsi -> str_only v e.strip_ansi sep
  | Filter p -> omap (fun v' -> (v', sep)) (spec_filter e true p v)
  | FilterNot p -> omap (fun v' -> (v', sep)) (spec_filter e false p v)
  | Slice r -> list_only v (select r) sep
  | Map body ->
    (match v with
     | VStr _ -> Err
     | VList l ->
       omap (fun l' -> ((VList l'), sep))
         (mapM (fun item ->
           let rec go ops v0 sep0 =
             match ops with
             | [] -> Ok (render v0 sep0)
             | o' :: ops' ->
               bind (spec_step e o' v0 sep0) (fun r ->
                 go ops' (fst r) (snd r))
           in go body (VStr item) default_sep) l))
  | Sort d ->
    (match d with
     | Asc -> list_only v sort_asc sep
     | Desc -> list_only v (fun l -> frev (sort_asc l)) sep)
  | Reverse ->
    Ok ((match v with
         | VStr s -> VStr (frev s)
         | VList l -> VList (frev l)), sep)
  | Unique -> list_only v unique sep
  | Pad (w, c, d) -> str_only v (pad_str w c d) sep
  | RegexExtract (p, g) ->
    (match v with
     | VStr s -> omap (fun s' -> ((VStr s'), sep)) (spec_extract e p g s)
     | VList _ -> Err)

(** val spec_steps : env -> op list -> value -> str -> str outcome **)

let rec spec_steps e ops v sep =
  match ops with
  | [] -> Ok (render v sep)
  | o :: ops' ->
    bind (spec_step e o v sep) (fun r -> spec_steps e ops' (fst r) (snd r))

(** val spec_run : env -> op list -> str -> str outcome **)

let spec_run e ops x =
  spec_steps e ops (VStr x) default_sep

(** val sep_after : op -> str -> str **)

let sep_after o sep =
  match o with
  | Split (sp, _) -> sp
  | Join sp -> sp
  | _ -> sep

(** val last_sep_from : str -> op list -> str **)

let rec last_sep_from sep = function
| [] -> sep
| o :: ops' -> last_sep_from (sep_after o sep) ops'

(** val last_sep : op list -> str **)

let last_sep ops =
  last_sep_from default_sep ops

(** val kind_step : kind -> op -> kind option **)

let kind_step k = function
| Split (_, r) ->
  (match r with
   | Index _ -> Some KStr
   | Range (_, _, _) -> Some KList)
| Join _ -> Some KStr
| Filter _ -> Some k
| FilterNot _ -> Some k
| Slice _ -> (match k with
              | KStr -> None
              | KList -> Some KList)
| Map _ -> (match k with
            | KStr -> None
            | KList -> Some KList)
| Sort _ -> (match k with
             | KStr -> None
             | KList -> Some KList)
| Reverse -> Some k
| Unique -> (match k with
             | KStr -> None
             | KList -> Some KList)
| _ -> (match k with
        | KStr -> Some KStr
        | KList -> None)

(** val infer_from : kind -> op list -> kind option **)

let rec infer_from k = function
| [] -> Some k
| o :: ops' ->
  (match kind_step k o with
   | Some k' -> infer_from k' ops'
   | None -> None)

(** val infer : op list -> kind option **)

let infer ops =
  infer_from KStr ops

(** val well_typed_op : op -> bool **)

let rec well_typed_op = function
| Map body ->
  let rec go k = function
  | [] -> true
  | o' :: b' ->
    (&&) (well_typed_op o')
      (match kind_step k o' with
       | Some k' -> go k' b'
       | None -> false)
  in go KStr body
| _ -> true

(** val well_typed_from : kind -> op list -> bool **)

let rec well_typed_from k = function
| [] -> true
| o :: ops' ->
  (&&) (well_typed_op o)
    (match kind_step k o with
     | Some k' -> well_typed_from k' ops'
     | None -> false)

(** val well_typed : op list -> bool **)

let well_typed ops =
  well_typed_from KStr ops

type section =
| Lit of str
| Sec of op list

type template = { t_raw : str; t_sections : section list; t_debug : bool }

(** val optz_eqb : z option -> z option -> bool **)

let optz_eqb a b =
  match a with
  | Some x -> (match b with
               | Some y -> Z.eqb x y
               | None -> false)
  | None -> (match b with
             | Some _ -> false
             | None -> true)

(** val range_eqb : range -> range -> bool **)

let range_eqb a b =
  match a with
  | Index i -> (match b with
                | Index j -> Z.eqb i j
                | Range (_, _, _) -> false)
  | Range (a1, b1, i1) ->
    (match b with
     | Index _ -> false
     | Range (a2, b2, i2) ->
       (&&) ((&&) (optz_eqb a1 a2) (optz_eqb b1 b2)) (eqb i1 i2))

(** val tdir_eqb : tdir -> tdir -> bool **)

let tdir_eqb a b =
  match a with
  | TBoth -> (match b with
              | TBoth -> true
              | _ -> false)
  | TLeft -> (match b with
              | TLeft -> true
              | _ -> false)
  | TRight -> (match b with
               | TRight -> true
               | _ -> false)

(** val sdir_eqb : sdir -> sdir -> bool **)

let sdir_eqb a b =
  match a with
  | Asc -> (match b with
            | Asc -> true
            | Desc -> false)
  | Desc -> (match b with
             | Asc -> false
             | Desc -> true)

(** val pdir_eqb : pdir -> pdir -> bool **)

let pdir_eqb a b =
  match a with
  | PLeft -> (match b with
              | PLeft -> true
              | _ -> false)
  | PRight -> (match b with
               | PRight -> true
               | _ -> false)
  | PBoth -> (match b with
              | PBoth -> true
              | _ -> false)

(** val optn_eqb : n option -> n option -> bool **)

let optn_eqb a b =
  match a with
  | Some x -> (match b with
               | Some y -> N.eqb x y
               | None -> false)
  | None -> (match b with
             | Some _ -> false
             | None -> true)

(** val op_eqb : op -> op -> bool **)

let rec op_eqb a b =
  match a with
  | Split (s1, r1) ->
    (match b with
     | Split (s2, r2) -> (&&) (str_eqb s1 s2) (range_eqb r1 r2)
     | _ -> false)
  | Join s1 -> (match b with
                | Join s2 -> str_eqb s1 s2
                | _ -> false)
  | Replace (a1, b1, c1) ->
    (match b with
     | Replace (a2, b2, c2) ->
       (&&) ((&&) (str_eqb a1 a2) (str_eqb b1 b2)) (str_eqb c1 c2)
     | _ -> false)
  | Upper -> (match b with
              | Upper -> true
              | _ -> false)
  | Lower -> (match b with
              | Lower -> true
              | _ -> false)
  | Trim (c1, d1) ->
    (match b with
     | Trim (c2, d2) -> (&&) (str_eqb c1 c2) (tdir_eqb d1 d2)
     | _ -> false)
  | Substring r1 ->
    (match b with
     | Substring r2 -> range_eqb r1 r2
     | _ -> false)
  | Append s1 -> (match b with
                  | Append s2 -> str_eqb s1 s2
                  | _ -> false)
  | Prepend s1 -> (match b with
                   | Prepend s2 -> str_eqb s1 s2
                   | _ -> false)
  | Surround s1 -> (match b with
                    | Surround s2 -> str_eqb s1 s2
                    | _ -> false)
  | StripAnsi -> (match b with
                  | StripAnsi -> true
                  | _ -> false)
  | Filter p1 -> (match b with
                  | Filter p2 -> str_eqb p1 p2
                  | _ -> false)
  | FilterNot p1 -> (match b with
                     | FilterNot p2 -> str_eqb p1 p2
                     | _ -> false)
  | Slice r1 -> (match b with
                 | Slice r2 -> range_eqb r1 r2
                 | _ -> false)
  | Map b1 ->
    (match b with
     | Map b2 ->
       let rec go l1 l2 =
         match l1 with
         | [] -> (match l2 with
                  | [] -> true
                  | _ :: _ -> false)
         | x :: l1' ->
           (match l2 with
            | [] -> false
            | y :: l2' -> (&&) (op_eqb x y) (go l1' l2'))
       in go b1 b2
     | _ -> false)
  | Sort d1 -> (match b with
                | Sort d2 -> sdir_eqb d1 d2
                | _ -> false)
  | Reverse -> (match b with
                | Reverse -> true
                | _ -> false)
  | Unique -> (match b with
               | Unique -> true
               | _ -> false)
  | Pad (w1, c1, d1) ->
    (match b with
     | Pad (w2, c2, d2) ->
       (&&) ((&&) (N.eqb w1 w2) (N.eqb c1 c2)) (pdir_eqb d1 d2)
     | _ -> false)
  | RegexExtract (p1, g1) ->
    (match b with
     | RegexExtract (p2, g2) -> (&&) (str_eqb p1 p2) (optn_eqb g1 g2)
     | _ -> false)

(** val ops_eqb : op list -> op list -> bool **)

let rec ops_eqb l1 l2 =
  match l1 with
  | [] -> (match l2 with
           | [] -> true
           | _ :: _ -> false)
  | x :: l1' ->
    (match l2 with
     | [] -> false
     | y :: l2' -> (&&) (op_eqb x y) (ops_eqb l1' l2'))

type memo = ((str * op list) * str) list

(** val memo_lookup : memo -> str -> op list -> str option **)

let rec memo_lookup m i ops =
  match m with
  | [] -> None
  | p :: m' ->
    let (p0, out) = p in
    let (i', ops') = p0 in
    if (&&) (str_eqb i' i) (ops_eqb ops' ops)
    then Some out
    else memo_lookup m' i ops

(** val fast_single_split : str -> str -> range -> str prog **)

let fast_single_split input sep r =
  pbind (get_cached_split input sep) (fun parts ->
    let selected = apply_range_m parts r in
    Ret
    (match selected with
     | [] -> []
     | x :: l -> (match l with
                  | [] -> x
                  | _ :: _ -> join sep selected)))

(** val apply_section :
    env -> bool -> str -> op list -> memo -> (str outcome * memo) prog **)

let apply_section e dbg input ops m =
  match ops with
  | [] ->
    (match memo_lookup m input ops with
     | Some out -> Ret ((Ok out), m)
     | None ->
       pbind (impl_run e dbg ops input) (fun r ->
         match r with
         | Ok out -> Ret ((Ok out), (((input, ops), out) :: m))
         | Err -> Ret (Err, m)
         | Panic -> Ret (Panic, m)))
  | o :: l ->
    (match o with
     | Split (sep, r) ->
       (match l with
        | [] ->
          pbind (fast_single_split input sep r) (fun s -> Ret ((Ok s), m))
        | _ :: _ ->
          (match memo_lookup m input ops with
           | Some out -> Ret ((Ok out), m)
           | None ->
             pbind (impl_run e dbg ops input) (fun r0 ->
               match r0 with
               | Ok out -> Ret ((Ok out), (((input, ops), out) :: m))
               | Err -> Ret (Err, m)
               | Panic -> Ret (Panic, m))))
     | Join _ ->
       (match memo_lookup m input ops with
        | Some out -> Ret ((Ok out), m)
        | None ->
          pbind (impl_run e dbg ops input) (fun r ->
            match r with
            | Ok out -> Ret ((Ok out), (((input, ops), out) :: m))
            | Err -> Ret (Err, m)
            | Panic -> Ret (Panic, m)))
     | Replace (_, _, _) ->
       (match memo_lookup m input ops with
        | Some out -> Ret ((Ok out), m)
        | None ->
          pbind (impl_run e dbg ops input) (fun r ->
            match r with
            | Ok out -> Ret ((Ok out), (((input, ops), out) :: m))
            | Err -> Ret (Err, m)
            | Panic -> Ret (Panic, m)))
     | Upper ->
       (match memo_lookup m input ops with
        | Some out -> Ret ((Ok out), m)
        | None ->
          pbind (impl_run e dbg ops input) (fun r ->
            match r with
            | Ok out -> Ret ((Ok out), (((input, ops), out) :: m))
            | Err -> Ret (Err, m)
            | Panic -> Ret (Panic, m)))
     | Lower ->
       (match memo_lookup m input ops with
        | Some out -> Ret ((Ok out), m)
        | None ->
          pbind (impl_run e dbg ops input) (fun r ->
            match r with
            | Ok out -> Ret ((Ok out), (((input, ops), out) :: m))
            | Err -> Ret (Err, m)
            | Panic -> Ret (Panic, m)))
     | Trim (_, _) ->
       (match memo_lookup m input ops with
        | Some out -> Ret ((Ok out), m)
        | None ->
          pbind (impl_run e dbg ops input) (fun r ->
            match r with
            | Ok out -> Ret ((Ok out), (((input, ops), out) :: m))
            | Err -> Ret (Err, m)
            | Panic -> Ret (Panic, m)))
     | Substring _ ->
       (match memo_lookup m input ops with
        | Some out -> Ret ((Ok out), m)
        | None ->
          pbind (impl_run e dbg ops input) (fun r ->
            match r with
            | Ok out -> Ret ((Ok out), (((input, ops), out) :: m))
            | Err -> Ret (Err, m)
            | Panic -> Ret (Panic, m)))
     | Append _ ->
       (match memo_lookup m input ops with
        | Some out -> Ret ((Ok out), m)
        | None ->
          pbind (impl_run e dbg ops input) (fun r ->
            match r with
            | Ok out -> Ret ((Ok out), (((input, ops), out) :: m))
            | Err -> Ret (Err, m)
            | Panic -> Ret (Panic, m)))
     | Prepend _ ->
       (match memo_lookup m input ops with
        | Some out -> Ret ((Ok out), m)
        | None ->
          pbind (impl_run e dbg ops input) (fun r ->
            match r with
            | Ok out -> Ret ((Ok out), (((input, ops), out) :: m))
            | Err -> Ret (Err, m)
            | Panic -> Ret (Panic, m)))
     | Surround _ ->
       (match memo_lookup m input ops with
        | Some out -> Ret ((Ok out), m)
        | None ->
          pbind (impl_run e dbg ops input) (fun r ->
            match r with
            | Ok out -> Ret ((Ok out), (((input, ops), out) :: m))
            | Err -> Ret (Err, m)
            | Panic -> Ret (Panic, m)))
     | StripAnsi ->
       (match memo_lookup m input ops with
        | Some out -> Ret ((Ok out), m)
        | None ->
          pbind (impl_run e dbg ops input) (fun r ->
            match r with
            | Ok out -> Ret ((Ok out), (((input, ops), out) :: m))
            | Err -> Ret (Err, m)
            | Panic -> Ret (Panic, m)))
     | Filter _ ->
       (match memo_lookup m input ops with
        | Some out -> Ret ((Ok out), m)
        | None ->
          pbind (impl_run e dbg ops input) (fun r ->
            match r with
            | Ok out -> Ret ((Ok out), (((input, ops), out) :: m))
            | Err -> Ret (Err, m)
            | Panic -> Ret (Panic, m)))
     | FilterNot _ ->
       (match memo_lookup m input ops with
        | Some out -> Ret ((Ok out), m)
        | None ->
          pbind (impl_run e dbg ops input) (fun r ->
            match r with
            | Ok out -> Ret ((Ok out), (((input, ops), out) :: m))
            | Err -> Ret (Err, m)
            | Panic -> Ret (Panic, m)))
     | Slice _ ->
       (match memo_lookup m input ops with
        | Some out -> Ret ((Ok out), m)
        | None ->
          pbind (impl_run e dbg ops input) (fun r ->
            match r with
            | Ok out -> Ret ((Ok out), (((input, ops), out) :: m))
            | Err -> Ret (Err, m)
            | Panic -> Ret (Panic, m)))
     | Map _ ->
       (match memo_lookup m input ops with
        | Some out -> Ret ((Ok out), m)
        | None ->
          pbind (impl_run e dbg ops input) (fun r ->
            match r with
            | Ok out -> Ret ((Ok out), (((input, ops), out) :: m))
            | Err -> Ret (Err, m)
            | Panic -> Ret (Panic, m)))
     | Sort _ ->
       (match memo_lookup m input ops with
        | Some out -> Ret ((Ok out), m)
        | None ->
          pbind (impl_run e dbg ops input) (fun r ->
            match r with
            | Ok out -> Ret ((Ok out), (((input, ops), out) :: m))
            | Err -> Ret (Err, m)
            | Panic -> Ret (Panic, m)))
     | Reverse ->
       (match memo_lookup m input ops with
        | Some out -> Ret ((Ok out), m)
        | None ->
          pbind (impl_run e dbg ops input) (fun r ->
            match r with
            | Ok out -> Ret ((Ok out), (((input, ops), out) :: m))
            | Err -> Ret (Err, m)
            | Panic -> Ret (Panic, m)))
     | Unique ->
       (match memo_lookup m input ops with
        | Some out -> Ret ((Ok out), m)
        | None ->
          pbind (impl_run e dbg ops input) (fun r ->
            match r with
            | Ok out -> Ret ((Ok out), (((input, ops), out) :: m))
            | Err -> Ret (Err, m)
            | Panic -> Ret (Panic, m)))
     | Pad (_, _, _) ->
       (match memo_lookup m input ops with
        | Some out -> Ret ((Ok out), m)
        | None ->
          pbind (impl_run e dbg ops input) (fun r ->
            match r with
            | Ok out -> Ret ((Ok out), (((input, ops), out) :: m))
            | Err -> Ret (Err, m)
            | Panic -> Ret (Panic, m)))
     | RegexExtract (_, _) ->
       (match memo_lookup m input ops with
        | Some out -> Ret ((Ok out), m)
        | None ->
          pbind (impl_run e dbg ops input) (fun r ->
            match r with
            | Ok out -> Ret ((Ok out), (((input, ops), out) :: m))
            | Err -> Ret (Err, m)
            | Panic -> Ret (Panic, m))))

(** val literal_preview : str -> unit outcome **)

let literal_preview text =
  if (&&) (forallb is_ws text) (N.leb (utf8_len text) debug_ws_limit)
  then Ok ()
  else if N.leb (utf8_len text) debug_literal_limit
       then Ok ()
       else if debug_literal_by_chars
            then Ok ()
            else omap (fun _ -> ()) (byte_prefix text debug_literal_take)

(** val format_loop_plain :
    env -> bool -> str -> section list -> str -> memo -> str outcome prog **)

let rec format_loop_plain e dbg input secs acc m =
  match secs with
  | [] -> Ret (Ok acc)
  | s :: rest ->
    (match s with
     | Lit l -> format_loop_plain e dbg input rest (app acc l) m
     | Sec ops ->
       pbind (apply_section e dbg input ops m) (fun rm ->
         match fst rm with
         | Ok out -> format_loop_plain e dbg input rest (app acc out) (snd rm)
         | Err -> Ret Err
         | Panic -> Ret Panic))

(** val format_loop_debug :
    env -> str -> section list -> str -> memo -> str outcome prog **)

let rec format_loop_debug e input secs acc m =
  match secs with
  | [] -> Ret (Ok acc)
  | s :: rest ->
    (match s with
     | Lit l ->
       (match literal_preview l with
        | Ok _ -> format_loop_debug e input rest (app acc l) m
        | Err -> Ret Err
        | Panic -> Ret Panic)
     | Sec ops ->
       pbind (apply_section e true input ops m) (fun rm ->
         match fst rm with
         | Ok out -> format_loop_debug e input rest (app acc out) (snd rm)
         | Err -> Ret Err
         | Panic -> Ret Panic))

(** val impl_format : env -> template -> str -> str outcome prog **)

let impl_format e t x =
  if t.t_debug
  then format_loop_debug e x t.t_sections [] []
  else format_loop_plain e false x t.t_sections [] []

(** val fwi_inputs :
    env -> bool -> op list -> str list -> memo -> (str list outcome * memo)
    prog **)

let rec fwi_inputs e dbg ops inputs m =
  match inputs with
  | [] -> Ret ((Ok []), m)
  | i :: rest ->
    pbind (apply_section e dbg i ops m) (fun rm ->
      match fst rm with
      | Ok out ->
        pbind (fwi_inputs e dbg ops rest (snd rm)) (fun rm' -> Ret
          ((omap (fun x -> out :: x) (fst rm')), (snd rm')))
      | Err -> Ret (Err, (snd rm))
      | Panic -> Ret (Panic, (snd rm)))

(** val fwi_loop :
    env -> bool -> section list -> str list list -> str list -> nat -> str ->
    memo -> str outcome prog **)

let rec fwi_loop e dbg secs inputs seps idx acc m =
  match secs with
  | [] -> Ret (Ok acc)
  | s :: rest ->
    (match s with
     | Lit l -> fwi_loop e dbg rest inputs seps idx (app acc l) m
     | Sec ops ->
       let section_inputs = nth idx inputs [] in
       let separator = nth idx seps ((Npos (XO (XO (XO (XO (XO XH)))))) :: [])
       in
       (match section_inputs with
        | [] -> fwi_loop e dbg rest inputs seps (S idx) acc m
        | i :: l ->
          (match l with
           | [] ->
             pbind (apply_section e dbg i ops m) (fun rm ->
               match fst rm with
               | Ok out ->
                 fwi_loop e dbg rest inputs seps (S idx) (app acc out)
                   (snd rm)
               | Err -> Ret Err
               | Panic -> Ret Panic)
           | _ :: _ ->
             pbind (fwi_inputs e dbg ops section_inputs m) (fun rm ->
               match fst rm with
               | Ok outs ->
                 fwi_loop e dbg rest inputs seps (S idx)
                   (app acc (join separator outs)) (snd rm)
               | Err -> Ret Err
               | Panic -> Ret Panic))))

(** val impl_format_with_inputs :
    env -> template -> str list list -> str list -> str outcome prog **)

let impl_format_with_inputs e t inputs seps =
  fwi_loop e t.t_debug t.t_sections inputs seps O [] []

(** val seg_out : env -> str -> section -> str outcome **)

let seg_out e x = function
| Lit l -> Ok l
| Sec ops -> spec_run e ops x

(** val spec_format : env -> section list -> str -> str outcome **)

let spec_format e secs x =
  omap concat (mapM (seg_out e x) secs)

(** val spec_fwi :
    env -> section list -> str list list -> str list -> nat -> str list
    outcome **)

let rec spec_fwi e secs inputs seps idx =
  match secs with
  | [] -> Ok []
  | s :: rest ->
    (match s with
     | Lit l -> omap (fun x -> l :: x) (spec_fwi e rest inputs seps idx)
     | Sec ops ->
       bind (mapM (spec_run e ops) (nth idx inputs [])) (fun outs ->
         omap (fun x ->
           (join (nth idx seps ((Npos (XO (XO (XO (XO (XO XH)))))) :: []))
             outs) :: x) (spec_fwi e rest inputs seps (S idx))))

(** val spec_format_with_inputs :
    env -> section list -> str list list -> str list -> str outcome **)

let spec_format_with_inputs e secs inputs seps =
  omap concat (spec_fwi e secs inputs seps O)

(** val x_run_pure_impl : env -> bool -> op list -> str -> str outcome **)

let x_run_pure_impl e dbg ops x =
  run_pure (impl_run e dbg ops x)

(** val x_run_st_impl :
    env -> bool -> op list -> str -> caches -> str outcome * caches **)

let x_run_st_impl e dbg ops x c =
  run_st (impl_run e dbg ops x) c

(** val x_spec_run : env -> op list -> str -> str outcome **)

let x_spec_run =
  spec_run

(** val x_apply_range_str : str list -> range -> str list outcome **)

let x_apply_range_str =
  apply_range

(** val x_select_str : range -> str list -> str list **)

let x_select_str =
  select

(** val x_infer : op list -> kind option **)

let x_infer =
  infer

(** val x_well_typed : op list -> bool **)

let x_well_typed =
  well_typed

(** val x_last_sep : op list -> str **)

let x_last_sep =
  last_sep

(** val x_format_pure : env -> template -> str -> str outcome **)

let x_format_pure e t x =
  run_pure (impl_format e t x)

(** val x_spec_format : env -> section list -> str -> str outcome **)

let x_spec_format =
  spec_format

(** val x_fwi_pure :
    env -> template -> str list list -> str list -> str outcome **)

let x_fwi_pure e t inputs seps =
  run_pure (impl_format_with_inputs e t inputs seps)

(** val x_spec_fwi :
    env -> section list -> str list list -> str list -> str outcome **)

let x_spec_fwi =
  spec_format_with_inputs
