(* Line-protocol driver around the extracted model (driver/gen/model.ml).
   One request per line on stdin, one "R ..." result line on stdout.  Whenever
   the model calls a field of Env the driver prints "Q <field> <args>" and blocks
   on an "A ..." answer line: the harness answers with the real crates. *)
open Model

(* ---- conversions ------------------------------------------------------- *)
let rec pos_of_int i =
  if i = 1 then XH else if i land 1 = 0 then XO (pos_of_int (i lsr 1)) else XI (pos_of_int (i lsr 1))
let n_of_int i = if i = 0 then N0 else Npos (pos_of_int i)
let rec int_of_pos = function XH -> 1 | XO p -> 2 * int_of_pos p | XI p -> 2 * int_of_pos p + 1
let int_of_n = function N0 -> 0 | Npos p -> int_of_pos p

(* decimal strings of any size <-> Z / N, through the extracted arithmetic *)
let z_ten = Zpos (pos_of_int 10)
let z_of_dec (s : string) : z =
  let neg = String.length s > 0 && s.[0] = '-' in
  let start = if neg then 1 else 0 in
  let acc = ref Z0 in
  for i = start to String.length s - 1 do
    let d = Char.code s.[i] - 48 in
    if d < 0 || d > 9 then failwith ("bad number " ^ s);
    acc := Z.add (Z.mul !acc z_ten) (if d = 0 then Z0 else Zpos (pos_of_int d))
  done;
  if neg then Z.opp !acc else !acc
let n_of_dec (s : string) : n =
  match z_of_dec s with Z0 -> N0 | Zpos p -> Npos p | Zneg _ -> failwith "negative N"
(* arbitrary-size positive -> decimal string, by doubling a decimal digit string *)
let dbl_dec (d : string) (carry : int) : string =
  let n = String.length d in
  let b = Bytes.make (n + 1) '0' in
  let c = ref carry in
  for i = n - 1 downto 0 do
    let v = (Char.code d.[i] - 48) * 2 + !c in
    Bytes.set b (i + 1) (Char.chr (48 + v mod 10)); c := v / 10
  done;
  Bytes.set b 0 (Char.chr (48 + !c));
  let s = Bytes.to_string b in
  if s.[0] = '0' && String.length s > 1 then String.sub s 1 n else s
let rec dec_of_pos (p : positive) : string =
  match p with
  | XH -> "1"
  | XO q -> dbl_dec (dec_of_pos q) 0
  | XI q -> dbl_dec (dec_of_pos q) 1
let dec_of_z = function Z0 -> "0" | Zpos p -> dec_of_pos p | Zneg p -> "-" ^ dec_of_pos p
let dec_of_n = function N0 -> "0" | Npos p -> dec_of_pos p

let hex_of_str (s : str) : string =
  match s with
  | [] -> "_"
  | _ -> String.concat "." (List.map (fun c -> Printf.sprintf "%x" (int_of_n c)) s)
let str_of_hex (h : string) : str =
  if h = "_" then []
  else List.map (fun x -> n_of_int (int_of_string ("0x" ^ x))) (String.split_on_char '.' h)

(* ---- oracle ------------------------------------------------------------ *)
let ask (q : string) : string list =
  print_string "Q "; print_string q; print_newline ();
  let l = input_line stdin in
  match String.split_on_char ' ' l with
  | "A" :: rest -> rest
  | _ -> failwith ("driver: expected answer, got " ^ l)
let ask_bool q = match ask q with ["1"] -> true | ["0"] -> false | _ -> failwith "bool answer"
let ask_str q = match ask q with [h] -> str_of_hex h | _ -> failwith "str answer"
let ask_opt q = match ask q with ["none"] -> None | ["some"; h] -> Some (str_of_hex h) | _ -> failwith "opt answer"

let env : env = {
  re_valid = (fun p -> ask_bool ("valid " ^ hex_of_str p));
  re_is_match = (fun p t -> ask_bool ("match " ^ hex_of_str p ^ " " ^ hex_of_str t));
  re_find = (fun p t -> ask_opt ("find " ^ hex_of_str p ^ " " ^ hex_of_str t));
  re_group = (fun p t i -> ask_opt ("group " ^ hex_of_str p ^ " " ^ hex_of_str t ^ " " ^ string_of_int (int_of_n i)));
  re_replace = (fun all p t r ->
    ask_str ("replace " ^ (if all then "1" else "0") ^ " " ^ hex_of_str p ^ " " ^ hex_of_str t ^ " " ^ hex_of_str r));
  to_upper = (fun s -> ask_str ("upper " ^ hex_of_str s));
  to_lower = (fun s -> ask_str ("lower " ^ hex_of_str s));
  strip_ansi = (fun s -> ask_str ("strip " ^ hex_of_str s));
}

(* ---- request parsing --------------------------------------------------- *)
exception Parse of string
let toks : string list ref = ref []
let next () = match !toks with [] -> raise (Parse "eof") | t :: r -> toks := r; t
let p_str () = str_of_hex (next ())
let p_optz () = match next () with "n" -> None | s -> Some (z_of_dec s)
let p_range () =
  match next () with
  | "i" -> Index (z_of_dec (next ()))
  | "r" -> let a = p_optz () in let b = p_optz () in let inc = next () = "1" in Range (a, b, inc)
  | t -> raise (Parse ("range " ^ t))
let rec p_op () : op =
  match next () with
  | "split" -> let s = p_str () in let r = p_range () in Split (s, r)
  | "join" -> Join (p_str ())
  | "replace" -> let a = p_str () in let b = p_str () in let c = p_str () in Replace (a, b, c)
  | "upper" -> Upper
  | "lower" -> Lower
  | "trim" -> let c = p_str () in
      let d = (match next () with "b" -> TBoth | "l" -> TLeft | "r" -> TRight | t -> raise (Parse ("tdir " ^ t))) in
      Trim (c, d)
  | "substring" -> Substring (p_range ())
  | "append" -> Append (p_str ())
  | "prepend" -> Prepend (p_str ())
  | "surround" -> Surround (p_str ())
  | "strip_ansi" -> StripAnsi
  | "filter" -> Filter (p_str ())
  | "filter_not" -> FilterNot (p_str ())
  | "slice" -> Slice (p_range ())
  | "map" -> Map (p_ops ())
  | "sort" -> (match next () with "a" -> Sort Asc | "d" -> Sort Desc | t -> raise (Parse ("sdir " ^ t)))
  | "reverse" -> Reverse
  | "unique" -> Unique
  | "pad" -> let w = n_of_dec (next ()) in let c = n_of_int (int_of_string ("0x" ^ next ())) in
      let d = (match next () with "l" -> PLeft | "r" -> PRight | "b" -> PBoth | t -> raise (Parse ("pdir " ^ t))) in
      Pad (w, c, d)
  | "regex_extract" -> let p = p_str () in
      let g = (match next () with "n" -> None | s -> Some (n_of_dec s)) in
      RegexExtract (p, g)
  | t -> raise (Parse ("op " ^ t))
and p_ops () : op list =
  let n = int_of_string (next ()) in
  let rec go k = if k = 0 then [] else let o = p_op () in o :: go (k - 1) in
  go n

let p_strlist () : str list =
  let n = int_of_string (next ()) in
  let rec go k = if k = 0 then [] else let s = p_str () in s :: go (k - 1) in
  go n

(* ---- printing ---------------------------------------------------------- *)
let w_optz = function None -> "n" | Some z -> dec_of_z z
let w_range = function
  | Index i -> "i " ^ dec_of_z i
  | Range (a, b, inc) -> "r " ^ w_optz a ^ " " ^ w_optz b ^ " " ^ (if inc then "1" else "0")
let rec w_op (o : op) : string =
  match o with
  | Split (s, r) -> "split " ^ hex_of_str s ^ " " ^ w_range r
  | Join s -> "join " ^ hex_of_str s
  | Replace (a, b, c) -> "replace " ^ hex_of_str a ^ " " ^ hex_of_str b ^ " " ^ hex_of_str c
  | Upper -> "upper" | Lower -> "lower"
  | Trim (c, d) -> "trim " ^ hex_of_str c ^ " " ^ (match d with TBoth -> "b" | TLeft -> "l" | TRight -> "r")
  | Substring r -> "substring " ^ w_range r
  | Append s -> "append " ^ hex_of_str s
  | Prepend s -> "prepend " ^ hex_of_str s
  | Surround s -> "surround " ^ hex_of_str s
  | StripAnsi -> "strip_ansi"
  | Filter p -> "filter " ^ hex_of_str p
  | FilterNot p -> "filter_not " ^ hex_of_str p
  | Slice r -> "slice " ^ w_range r
  | Map b -> "map " ^ w_ops b
  | Sort d -> "sort " ^ (match d with Asc -> "a" | Desc -> "d")
  | Reverse -> "reverse" | Unique -> "unique"
  | Pad (w, c, d) -> "pad " ^ dec_of_n w ^ " " ^ Printf.sprintf "%x" (int_of_n c) ^ " " ^ (match d with PLeft -> "l" | PRight -> "r" | PBoth -> "b")
  | RegexExtract (p, g) -> "regex_extract " ^ hex_of_str p ^ " " ^ (match g with None -> "n" | Some n -> dec_of_n n)
and w_ops (l : op list) : string =
  string_of_int (List.length l) ^ String.concat "" (List.map (fun o -> " " ^ w_op o) l)
let w_section = function Lit l -> "L " ^ hex_of_str l | Sec ops -> "S " ^ w_ops ops
let w_template (t : template) : string =
  (if t.t_debug then "1" else "0") ^ " " ^ string_of_int (List.length t.t_sections)
  ^ String.concat "" (List.map (fun s -> " " ^ w_section s) t.t_sections)
let p_section () : section =
  match next () with
  | "L" -> Lit (p_str ())
  | "S" -> Sec (p_ops ())
  | t -> raise (Parse ("section " ^ t))
let p_template () : template =
  let dbg = next () = "1" in
  let n = int_of_string (next ()) in
  let rec go k = if k = 0 then [] else let s = p_section () in s :: go (k - 1) in
  let secs = go n in
  { t_raw = []; t_sections = secs; t_debug = dbg }

let show_outcome (f : 'a -> string) (o : 'a outcome) : string =
  match o with Ok a -> "ok " ^ f a | Err -> "err" | Panic -> "panic"
let show_strlist (l : str list) : string =
  string_of_int (List.length l) ^ (String.concat "" (List.map (fun s -> " " ^ hex_of_str s) l))

(* ---- state for history requests --------------------------------------- *)
let caches_state : caches ref = ref empty_caches

let handle (line : string) : string =
  toks := List.filter (fun t -> t <> "") (String.split_on_char ' ' line);
  match next () with
  | "RUN" ->
      (* RUN <dbg> <ops> <input>  ->  R <impl> | <spec> *)
      let dbg = next () = "1" in
      let ops = p_ops () in
      let x = p_str () in
      let i = x_run_pure_impl env dbg ops x in
      let s = x_spec_run env ops x in
      "R " ^ show_outcome hex_of_str i ^ " | " ^ show_outcome hex_of_str s
  | "RUNST" ->
      (* like RUN but through run_st against the driver's persistent model caches *)
      let dbg = next () = "1" in
      let ops = p_ops () in
      let x = p_str () in
      let (i, c') = x_run_st_impl env dbg ops x !caches_state in
      caches_state := c';
      "R " ^ show_outcome hex_of_str i
  | "CLEAR" -> caches_state := empty_caches; "R ok"
  | "RANGE" ->
      (* RANGE <range> <strlist> -> R <apply_range> | <select> *)
      let r = p_range () in
      let l = p_strlist () in
      "R " ^ show_outcome show_strlist (x_apply_range_str l r) ^ " | " ^ show_strlist (x_select_str r l)
  | "PARSE" ->
      (* PARSE <template> -> R ok <dbg> <n> sections.. | err | panic *)
      let t = p_str () in
      "R " ^ show_outcome w_template (x_template_parse t)
  | "PARSEDBG" ->
      let d = (match next () with "n" -> None | "1" -> Some true | _ -> Some false) in
      let t = p_str () in
      "R " ^ show_outcome w_template (x_template_parse_with_debug t d)
  | "FORMAT" ->
      (* FORMAT <template struct> <input> -> R <impl format> | <spec format> *)
      let t = p_template () in
      let x = p_str () in
      "R " ^ show_outcome hex_of_str (x_format_pure env t x) ^ " | " ^ show_outcome hex_of_str (x_spec_format env t.t_sections x)
  | "PARSEFORMAT" ->
      (* PARSEFORMAT <dbgopt> <template text> <input>: parse by the model, then format *)
      let d = (match next () with "n" -> None | "1" -> Some true | _ -> Some false) in
      let txt = p_str () in
      let x = p_str () in
      (match x_template_parse_with_debug txt d with
       | Ok t -> "R " ^ show_outcome hex_of_str (x_format_pure env t x) ^ " | " ^ show_outcome hex_of_str (x_spec_format env t.t_sections x)
       | Err -> "R err | err"
       | Panic -> "R panic | panic")
  | "FWI" ->
      (* FWI <template struct> <k> (<strlist>)*k <strlist seps> *)
      let t = p_template () in
      let k = int_of_string (next ()) in
      let rec go j = if j = 0 then [] else let l = p_strlist () in l :: go (j - 1) in
      let inputs = go k in
      let seps = p_strlist () in
      "R " ^ show_outcome hex_of_str (x_fwi_pure env t inputs seps) ^ " | " ^ show_outcome hex_of_str (x_spec_fwi env t.t_sections inputs seps)
  | "CLI" ->
      (* CLI <tsrc> <tboth> <isrc> <iboth> <stdin> <debug> <quiet> <validate>
         source: a <hex> | f <hex> | x (unreadable file) | n (absent)  ->  R <exit> <e|r|d> <stdout hex> *)
      let p_src () = (match next () with
        | "a" -> FromArg (p_str ()) | "f" -> FromFile (Some (p_str ())) | "x" -> FromFile None | "n" -> Absent
        | t -> raise (Parse ("source " ^ t))) in
      let ts = p_src () in let tb = next () = "1" in
      let is = p_src () in let ib = next () = "1" in
      let sin = p_str () in
      let d = next () = "1" in let q = next () = "1" in let v = next () = "1" in
      let r = x_cli_main env { cli_template = ts; cli_template_both = tb; cli_input = is; cli_input_both = ib;
                               cli_stdin = sin; cli_debug = d; cli_quiet = q; cli_validate = v } in
      "R " ^ string_of_int (int_of_n r.cli_exit) ^ " "
      ^ (match r.cli_stderr with StderrEmpty -> "e" | StderrError -> "r" | StderrDebug -> "d") ^ " " ^ hex_of_str r.cli_stdout
  | "STRIP" ->
      let x = p_str () in
      "R " ^ hex_of_str (x_strip_str x)
  | "FORMATST" ->
      (* FORMATST <template struct> <input>: format through run_st against the driver's persistent model caches *)
      let t = p_template () in
      let x = p_str () in
      let (r, c') = x_format_st env t x !caches_state in
      caches_state := c';
      "R " ^ show_outcome hex_of_str r ^ " " ^ string_of_int (List.length c'.c_split) ^ " " ^ string_of_int (List.length c'.c_regex)
  | "TYPE" ->
      (* TYPE <ops> -> R <infer: s|l|none> <well_typed 0|1> *)
      let ops = p_ops () in
      let k = (match x_infer ops with Some KStr -> "s" | Some KList -> "l" | None -> "none") in
      "R " ^ k ^ " " ^ (if x_well_typed ops then "1" else "0")
  | "LASTSEP" ->
      let ops = p_ops () in
      "R " ^ hex_of_str (x_last_sep ops)
  | "PRINT" ->
      (* PRINT <ops> -> R <printable 0|1> <canonical text of the block> *)
      let ops = p_ops () in
      "R " ^ (if x_printable ops then "1" else "0") ^ " " ^ hex_of_str (x_print_block ops)
  | "PING" -> "R pong"
  | t -> "R error unknown request " ^ t

let () =
  try
    while true do
      let line = input_line stdin in
      let out = (try handle line with
                 | Parse m -> "R error parse " ^ m
                 | Failure m -> "R error failure " ^ m
                 | Stack_overflow -> "R error stack_overflow") in
      print_string out; print_newline ()
    done
  with End_of_file -> ()
