(* Line-protocol driver around the extracted model (driver/gen/model.ml).
   One request per line on stdin, one "R ..." result line on stdout.  Whenever
   the model calls a field of Env the driver prints "Q <field> <args>" and blocks
   on an "A ..." answer line: the harness answers with the real crates. *)
open Model

(* ---- conversions ------------------------------------------------------- *)
let rec pos_of_int i =
  if i = 1 then XH else if i land 1 = 0 then XO (pos_of_int (i lsr 1)) else XI (pos_of_int (i lsr 1))
let n_of_int i = if i = 0 then N0 else Npos (pos_of_int i)
let rec int_of_pos = function XH -> 1 | XO p -> 2 * int_of_pos p | XI p -> 2 * int_of_pos p + 1
let int_of_n = function N0 -> 0 | Npos p -> int_of_pos p

(* decimal strings of any size <-> Z / N, through the extracted arithmetic *)
let z_ten = Zpos (pos_of_int 10)
let z_of_dec (s : string) : z =
  let neg = String.length s > 0 && s.[0] = '-' in
  let start = if neg then 1 else 0 in
  let acc = ref Z0 in
  for i = start to String.length s - 1 do
    let d = Char.code s.[i] - 48 in
    if d < 0 || d > 9 then failwith ("bad number " ^ s);
    acc := Z.add (Z.mul !acc z_ten) (if d = 0 then Z0 else Zpos (pos_of_int d))
  done;
  if neg then Z.opp !acc else !acc
let n_of_dec (s : string) : n =
  match z_of_dec s with Z0 -> N0 | Zpos p -> Npos p | Zneg _ -> failwith "negative N"
let rec dec_of_pos_acc (p : positive) : string =
  (* only used for small values in answers *)
  string_of_int (int_of_pos p)
let dec_of_z = function Z0 -> "0" | Zpos p -> dec_of_pos_acc p | Zneg p -> "-" ^ dec_of_pos_acc p

let hex_of_str (s : str) : string =
  match s with
  | [] -> "_"
  | _ -> String.concat "." (List.map (fun c -> Printf.sprintf "%x" (int_of_n c)) s)
let str_of_hex (h : string) : str =
  if h = "_" then []
  else List.map (fun x -> n_of_int (int_of_string ("0x" ^ x))) (String.split_on_char '.' h)

(* ---- oracle ------------------------------------------------------------ *)
let ask (q : string) : string list =
  print_string "Q "; print_string q; print_newline ();
  let l = input_line stdin in
  match String.split_on_char ' ' l with
  | "A" :: rest -> rest
  | _ -> failwith ("driver: expected answer, got " ^ l)
let ask_bool q = match ask q with ["1"] -> true | ["0"] -> false | _ -> failwith "bool answer"
let ask_str q = match ask q with [h] -> str_of_hex h | _ -> failwith "str answer"
let ask_opt q = match ask q with ["none"] -> None | ["some"; h] -> Some (str_of_hex h) | _ -> failwith "opt answer"

let env : env = {
  re_valid = (fun p -> ask_bool ("valid " ^ hex_of_str p));
  re_is_match = (fun p t -> ask_bool ("match " ^ hex_of_str p ^ " " ^ hex_of_str t));
  re_find = (fun p t -> ask_opt ("find " ^ hex_of_str p ^ " " ^ hex_of_str t));
  re_group = (fun p t i -> ask_opt ("group " ^ hex_of_str p ^ " " ^ hex_of_str t ^ " " ^ string_of_int (int_of_n i)));
  re_replace = (fun all p t r ->
    ask_str ("replace " ^ (if all then "1" else "0") ^ " " ^ hex_of_str p ^ " " ^ hex_of_str t ^ " " ^ hex_of_str r));
  to_upper = (fun s -> ask_str ("upper " ^ hex_of_str s));
  to_lower = (fun s -> ask_str ("lower " ^ hex_of_str s));
  strip_ansi = (fun s -> ask_str ("strip " ^ hex_of_str s));
}

(* ---- request parsing --------------------------------------------------- *)
exception Parse of string
let toks : string list ref = ref []
let next () = match !toks with [] -> raise (Parse "eof") | t :: r -> toks := r; t
let p_str () = str_of_hex (next ())
let p_optz () = match next () with "n" -> None | s -> Some (z_of_dec s)
let p_range () =
  match next () with
  | "i" -> Index (z_of_dec (next ()))
  | "r" -> let a = p_optz () in let b = p_optz () in let inc = next () = "1" in Range (a, b, inc)
  | t -> raise (Parse ("range " ^ t))
let rec p_op () : op =
  match next () with
  | "split" -> let s = p_str () in let r = p_range () in Split (s, r)
  | "join" -> Join (p_str ())
  | "replace" -> let a = p_str () in let b = p_str () in let c = p_str () in Replace (a, b, c)
  | "upper" -> Upper
  | "lower" -> Lower
  | "trim" -> let c = p_str () in
      let d = (match next () with "b" -> TBoth | "l" -> TLeft | "r" -> TRight | t -> raise (Parse ("tdir " ^ t))) in
      Trim (c, d)
  | "substring" -> Substring (p_range ())
  | "append" -> Append (p_str ())
  | "prepend" -> Prepend (p_str ())
  | "surround" -> Surround (p_str ())
  | "strip_ansi" -> StripAnsi
  | "filter" -> Filter (p_str ())
  | "filter_not" -> FilterNot (p_str ())
  | "slice" -> Slice (p_range ())
  | "map" -> Map (p_ops ())
  | "sort" -> (match next () with "a" -> Sort Asc | "d" -> Sort Desc | t -> raise (Parse ("sdir " ^ t)))
  | "reverse" -> Reverse
  | "unique" -> Unique
  | "pad" -> let w = n_of_dec (next ()) in let c = n_of_int (int_of_string ("0x" ^ next ())) in
      let d = (match next () with "l" -> PLeft | "r" -> PRight | "b" -> PBoth | t -> raise (Parse ("pdir " ^ t))) in
      Pad (w, c, d)
  | "regex_extract" -> let p = p_str () in
      let g = (match next () with "n" -> None | s -> Some (n_of_dec s)) in
      RegexExtract (p, g)
  | t -> raise (Parse ("op " ^ t))
and p_ops () : op list =
  let n = int_of_string (next ()) in
  let rec go k = if k = 0 then [] else let o = p_op () in o :: go (k - 1) in
  go n

let p_strlist () : str list =
  let n = int_of_string (next ()) in
  let rec go k = if k = 0 then [] else let s = p_str () in s :: go (k - 1) in
  go n

(* ---- printing ---------------------------------------------------------- *)
let show_outcome (f : 'a -> string) (o : 'a outcome) : string =
  match o with Ok a -> "ok " ^ f a | Err -> "err" | Panic -> "panic"
let show_strlist (l : str list) : string =
  string_of_int (List.length l) ^ (String.concat "" (List.map (fun s -> " " ^ hex_of_str s) l))

(* ---- state for history requests --------------------------------------- *)
let caches_state : caches ref = ref empty_caches

let handle (line : string) : string =
  toks := List.filter (fun t -> t <> "") (String.split_on_char ' ' line);
  match next () with
  | "RUN" ->
      (* RUN <dbg> <ops> <input>  ->  R <impl> | <spec> *)
      let dbg = next () = "1" in
      let ops = p_ops () in
      let x = p_str () in
      let i = x_run_pure_impl env dbg ops x in
      let s = x_spec_run env ops x in
      "R " ^ show_outcome hex_of_str i ^ " | " ^ show_outcome hex_of_str s
  | "RUNST" ->
      (* like RUN but through run_st against the driver's persistent model caches *)
      let dbg = next () = "1" in
      let ops = p_ops () in
      let x = p_str () in
      let (i, c') = x_run_st_impl env dbg ops x !caches_state in
      caches_state := c';
      "R " ^ show_outcome hex_of_str i
  | "CLEAR" -> caches_state := empty_caches; "R ok"
  | "RANGE" ->
      (* RANGE <range> <strlist> -> R <apply_range> | <select> *)
      let r = p_range () in
      let l = p_strlist () in
      "R " ^ show_outcome show_strlist (x_apply_range_str l r) ^ " | " ^ show_strlist (x_select_str r l)
  | "TYPE" ->
      (* TYPE <ops> -> R <infer: s|l|none> <well_typed 0|1> *)
      let ops = p_ops () in
      let k = (match x_infer ops with Some KStr -> "s" | Some KList -> "l" | None -> "none") in
      "R " ^ k ^ " " ^ (if x_well_typed ops then "1" else "0")
  | "LASTSEP" ->
      let ops = p_ops () in
      "R " ^ hex_of_str (x_last_sep ops)
  | "PING" -> "R pong"
  | t -> "R error unknown request " ^ t

let () =
  try
    while true do
      let line = input_line stdin in
      let out = (try handle line with
                 | Parse m -> "R error parse " ^ m
                 | Failure m -> "R error failure " ^ m
                 | Stack_overflow -> "R error stack_overflow") in
      print_string out; print_newline ()
    done
  with End_of_file -> ()
