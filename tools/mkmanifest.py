#!/usr/bin/env python3
"""Developer tool: (re)generate MANIFEST.json from the table below."""
import json, os
ROOT = os.path.abspath(os.path.join(os.path.dirname(__file__), '..'))
props = [json.loads(l) for l in open(os.path.join(ROOT, 'properties.jsonl'))]

COMMON_NOTE = ("Trusted: Coq 8.16.1 kernel (no axioms: Print Assumptions of every property theorem is closed); the hand-written Impl "
               "model of the Rust control flow (tied to the code by the correspondence run on every check, not verified from the Rust "
               "source); Env parameters (regex engine, case mapping, strip_ansi) answered by the real crates during the run; Rust "
               "strings = lists of scalar values; extraction (ExtrOcamlBasic only), OCaml driver, Rust harness; translators "
               "pest2coq.py / consts2coq.py. ")

T = {}
T['C01'] = dict(
 technique="Coq proof that the Impl model (fast paths, replace shortcut, caches, tracer, memo, fast split) refines the documented Spec semantics for all pipelines and inputs + three-way differential correspondence (real crate / extracted Impl / extracted Spec)",
 text="Theorems (Properties/C01.v): for every engine satisfying the literal law L1, every debug flag, every operation list (map bodies included) and every input, the cache-free meaning of the code's interpreter and of format() on single-block and mixed templates equals the documented left-to-right semantics, as an outcome (text or error, never panic); an operation fails exactly when it receives a kind it does not accept, uses an invalid regex, or (map) an item's sub-pipeline fails that way; a pipeline fails exactly when a reached operation fails. Tie to the code: random structured pipelines over all 21 operations x varied inputs, implementation vs extracted Impl vs extracted Spec with the real regex/case-mapping/strip_ansi crates answering the model's oracle calls.",
 note="L1 (metacharacter-free pattern with prefix from m,s is valid and replacing an absent literal is the identity) is a named hypothesis, validated against regex 1.11.1 by the C14 run. Parsing of the template text is covered by C02.")
T['C06'] = dict(
 technique="machine-checked proof in Coq 8.16.1 (apply_range refines the documented select rule, for all bounds and lengths) + exhaustive small-scope correspondence run of model vs. implementation",
 text="Theorems (Properties/C06.v, closed under the global context): the code's resolve_index/apply_range as modelled, including checked isize arithmetic and slice indexing, equals the documented selection rule for every range form, every bound in isize and every collection length; a single index picks exactly one item at the clamped position; a range is the contiguous clamped run, empty iff start >= end; empty in, empty out; never an error or panic; the rule is independent of the carrier. The hand model is tied to the Rust code by running both on every (form, bound, length, carrier) tuple of a small scope exhaustively plus random large cases through split, slice, substring (ASCII and non-ASCII) and the shorthand.",
 note="Rust collections have length <= isize::MAX (needed only for the no-overflow lemma).")
T['C07'] = dict(
 technique="Coq proof of kind soundness, progress and ill-typed-fails on the Spec semantics (which the Impl model refines) + exhaustive enumeration of operation-kind sequences against the real crate",
 text="Theorems (Properties/C07.v): every operation yields the documented kind; a pipeline that is well-typed (map bodies included) with valid regexes succeeds on every input; a pipeline whose top-level kind inference fails returns Err on every input; the code refines this semantics. Tie: every sequence of the 21 operations (3 map-body variants) up to length 3 (quick) / 4 (thorough) x 7 inputs making lists empty/singleton/long: Ok/Err of the real format() against the extracted infer / well_typed, plus full equality with the model.",
 note="")
T['C08'] = dict(
 technique="Coq proof that Map is mapM of the standalone sub-pipeline (length, i-th item, first error, fresh separator) + differential run: map vs n standalone runs through the public API vs model",
 text="Theorems (Properties/C08.v): spec_step (Map body) on a list is mapM (spec_run body) -- same length, i-th output is the standalone result on the i-th item (fresh ' ' separator, list results rendered with the body's own separator), empty list to empty list, first error fails the call, outer separator untouched; the code's per-item recursion refines it. Tie: random sub-pipelines over every map-allowed operation x lists with empty/duplicate/non-ASCII/failing items.",
 note="That the map_* grammar family parses like the top-level family is part of C02.")
T['C09'] = dict(
 technique="Coq proofs join(split s sep)=s and join j (split s sep)=replace for all s, sep (incl. empty and self-overlapping), memchr path = general path, implicit-join law by induction over pipelines + identities checked through the public API and against the model",
 text="Theorems (Properties/C09.v): join sep (split s sep) = s and join j (split s sep) = replace_plain s sep j for every text and separator; the 1-byte memchr path and the cached path equal plain splitting; a pipeline ending in a list renders as if join(last separator) were written (last separator computed from the pipeline alone); empty list renders empty; split on a list flattens; the single-split section fast path is faithful. Tie: three observe_at identities through the public API on inputs x separators (1 byte, multi-byte, non-ASCII, empty, aa-style) x list-preserving tails, sizes straddling 10 000 bytes / 1 000 parts.",
 note="")
T['C14'] = dict(
 technique="Coq proofs, for every engine E, that replace/regex_extract/filter/filter_not are E's operations under the documented flag mapping (all 16 subsets, any order/repetition) and that an invalid pattern is Err + differential run against regex 1.11.1 called directly",
 text="Theorems (Properties/C14.v), all quantified over the engine: replace is re_replace (first / all with g) on (?ims-prefix)pattern, invalid -> Err, shortcut invisible under L1; flag prefix depends only on the set of letters; table for all 16 subsets; regex_extract is find / group default empty; filter / filter_not on lists and strings; invalid pattern is Err for every regex operation; regex cache unobservable. Tie: regex pool x every order of every flag subset x replacements with $0/$1/${name} x inputs, expected value computed by calling the regex crate directly in the harness, plus model equality; L1 itself validated against the crate.",
 note="The engine's own behaviour (leftmost-first matching, expansion of $name) is the regex crate's, not proved.")
T['C15'] = dict(
 technique="Coq proofs of the list-operation laws (sort is the unique sorted permutation, unique = first occurrences, filter/filter_not partition, nothing invented) + metamorphic relations evaluated on the real crate",
 text="Theorems (Properties/C15.v): sort_asc is a permutation, strongly sorted under code-point order; that order is total and antisymmetric so the sorted permutation is unique (algorithm-independent); sort:desc is rev of sort; unique is duplicate-free, same set, order-preserving, keeps the first occurrence, idempotent; reverse twice is identity; filter + filter_not partition the list order-preservingly with every item on exactly one side; sort/unique/slice/filter invent nothing. Tie: lists with duplicates/empties/non-ASCII/prefixes, sorted and reverse sorted, length 0..2000, metamorphic relations through the public API and random compositions against the model.",
 note="Rust's String order is byte order of UTF-8 = code point order (assumed).")
T['C16'] = dict(
 technique="Coq proofs of pad/trim/reverse/substring laws on whole characters and of ASCII-fast-path = Unicode-path for every string + marker-variant differential run + complete whitespace-table check",
 text="Theorems (Properties/C16.v): pad reaches exactly max(width, len) characters with the text untouched inside and padding on the requested side(s) (left = floor(n/2) for both); trim removes only leading/trailing characters of the set from the requested side(s) and stops at the first other character; trim = left then right; blank set means all whitespace; reverse and substring commute with any relabelling of characters; validity preserved; the ASCII fast paths of reverse/substring/trim equal the general paths on every string. Tie: strings mixing 1-4-byte characters, all White_Space characters, controls x widths/pad chars/sets/directions, each also with a non-ASCII marker where the operation cannot reach it; the model's White_Space table is compared with char::is_whitespace for all 1 112 064 scalar values on every run.",
 note="upper/lower are Env parameters (std's case mapping), only their validity-preservation law L2 is named.")


T['C02'] = dict(
 technique="Coq proofs of the decoders' round trips (escapes, decimal numerals over the whole isize/usize range), of converter totality and child positions via a verified static analysis of the regenerated grammar + differential run of every documented spelling against the real parser and the model parser (PEG on Gen/Grammar.v + converter + scanners)",
 text="Theorems (Properties/C02.v): every isize / usize value printed in decimal is read back exactly; process_arg (esc s) = s for every string; parsing depends on the text only (re-parse gives the same object); the converter never panics and reads children at the positions a verified static analysis of the regenerated grammar establishes; kernel-evaluated Examples of the documented equivalences ({1..3} = {split: :1..3}, quote = surround, defaults, {trim:\\n}, operation inside/outside map). PARTIAL: the full statement `parse (print t) = Ok t for every well-formed AST and every spelling` is not proved as one theorem (it needs per-rule characterising lemmas of the PEG); it is covered by the correspondence run: random well-formed pipelines in canonical and randomly re-spelled form (shorthand, quote, omitted defaults, leading zeros, -0, redundant escapes) must parse to exactly the generating pipeline, and the model parser must agree with the real one.",
 note="pest executes the grammar as Model/Peg.v does (ordered choice, greedy repetition, atomic/silent rules): assumed, exercised by the model-vs-real parser comparison on every run.")
T['C03'] = dict(
 technique="Coq proof that Template::parse / parse_with_debug and format / format_with_inputs never panic, for ALL strings, templates and inputs: every unwrap() of parser.rs discharged by a verified static analysis (token counts / positions / rule ids) evaluated on the grammar regenerated from template.pest; tracer previews total; checked index arithmetic; + malformed-template and straddling-input correspondence run under catch_unwind and a watchdog",
 text="Theorems (Properties/C03.v): template_parse s <> Panic and template_parse_with_debug s d <> Panic for every string (numeric conversions return errors, scanners are total, every tree the grammar can produce has the children the converter unwraps -- all_rules chk r_template = true is recomputed on the regenerated grammar on every run); format and format_with_inputs never panic, with debug on or off, cache-free and through any cache state satisfying the invariant; checked isize arithmetic and slice indexing never overflow; tracer previews are total. Termination of the model is by construction (Coq fixpoints). PARTIAL: hangs or panics inside regex, pest, fast-strip-ansi, dashmap or std, stack exhaustion and allocation failure cannot be exhibited by the model; they are explored by the run: token-alphabet strings, double edits, 1-25-digit numerals, arbitrary Unicode through parse, and accepted templates formatted with tracing on/off over inputs whose multi-byte characters straddle byte offsets 15/20/40, every call under catch_unwind with a watchdog, overflow checks and debug assertions on.",
 note="Pad widths are not bounded in the model (the property excludes astronomically large widths); the generators keep widths small.")
T['C04'] = dict(
 technique="Coq proof that format() (both section loops, memo, fast split) equals literals-verbatim + per-section standalone results, with composition laws + differential run: whole template vs concatenation of its parts through the public API vs model, and scanner structure vs expected segments",
 text="Theorems (Properties/C04.v): format refines spec_format = concat (mapM seg_out) -- literals verbatim and in order, each section replaced by what it alone produces, first failing section fails the call; spec_format distributes over concatenation of templates; a single block equals the same block between literals; the per-call memo and the single-split fast path are unobservable. PARTIAL: `scan (assemble segs) = segs` for all well-formed segment lists is not proved as a theorem (scanner proofs cover totality only); it is covered by the run: random segment lists (literals with $, }, backslashes, ${...}, repeated and near-identical sections) are assembled, parsed by the real scanner and compared with the expected sections and with the model scanner; format(whole) is compared with the concatenation of format({S}) through the public API and with the model.",
 note="Injectivity of format!(\"{ops:?}\") used as memo key is assumed (the model compares operations structurally).")
T['C05'] = dict(
 technique="Coq proof, by induction over call histories, that any sequence of format calls against the process-wide caches returns the cache-free results (cache invariant + every program of the library well-formed) + warm-vs-cold history run with hook counters",
 text="Theorems (Properties/C05.v): CacheInv (every split entry holds the split its key names; every cached regex is valid) holds of the empty caches and is preserved by every atomic cache operation of a well-formed program; format and format_with_inputs (all loops, memo, fast split, every cache access of every operation, map included) are well-formed; hence one call against any cache state returns its cache-free result, and any history of calls returns, call by call, the documented semantics of (template, input) alone. Tie: histories of 2-120 calls over pools colliding on all but one component of each key (incl. two inputs with equal 64-bit DefaultHasher value), inputs straddling 10 000 bytes / 1 000 parts, failing calls, template objects reused or re-parsed; each warm result vs the model (cache-free and run_st over model caches) and vs a cold rerun after clear_caches(); hook counters show hits/misses/bypasses.",
 note="Regex::new is assumed pure (a compiled regex is a function of its pattern).")
T['C10'] = dict(
 technique="Coq proof that format() with debug on equals format() with debug off as outcomes (tracer total, both section loops refine the same Spec), that every enabling route only sets the debug field + differential run through every route incl. the CLI",
 text="Theorems (Properties/C10.v): run_pure (impl_format (with_debug t d1) x) = run_pure (impl_format (with_debug t d2) x) for all t, x; the interpreter's tracer calls and the literal previews never fail (previews cut at character boundaries: constants regenerated from debug.rs/template.rs); the debug argument at parse time and the setters change only the debug field. PARTIAL: what is written to stderr is not modelled beyond the operations that can fail. Tie: {!...}, parse_with_debug(Some(true)), with_debug, set_debug, CLI --debug, CLI {!...} x single-block and mixed templates (whitespace-only and long multi-byte literals, map) x inputs straddling the preview limits; result with tracing on == off, and == model.",
 note="")
T['C11'] = dict(
 technique="Coq proof that process_arg (esc s) = s for EVERY string and that esc s shows no raw special character (decoder constants regenerated from parser.rs) + differential run over the full Unicode range, 8 operations x 2 contexts",
 text="Theorems (Properties/C11.v): for every string s the decoder of parser.rs (regenerated escape table, per-character iteration) applied to the documented escaping of s returns s; the escaped text contains no unescaped : | { } and every backslash escapes the next character; plain text decodes to itself. the simple_arg rule of the regenerated grammar equals a direct scanner and reads exactly esc s; whole blocks {append|prepend|surround|quote|join:ESC(s)}, {split:ESC(s):..}, {trim:ESC(s):both}, {pad:3:ESC(c):left} parse to the operation carrying exactly s for every s (top level; five also inside map), proved by symbolic evaluation of the regenerated grammar; format({append:ESC(s)}, x) = x ++ s (also prepend, surround, quote) end to end. PARTIAL: the remaining map-context spellings and blocks embedded in mixed templates are covered by the run only: arguments over the full Unicode range biased to backslashes, unbalanced braces, colons, pipes, newlines, multi-byte characters through append, prepend, surround, quote, join, split, trim, pad at top level and inside map -- the parsed operation must carry exactly the argument, format must give x+s etc., and the model parser must agree.",
 note="")
T['C12'] = dict(
 technique="Coq proofs: accepted blocks are consumed to the end (grammar anchored at EOI, recomputed on the regenerated grammar), numeric arguments are exact and in range or rejected, no map inside map, tree shape facts + exhaustive token-alphabet sweep and edit corruptions against an independent AST-guided spelling matcher and the model parser",
 text="Theorems (Properties/C12.v): parse_template s = Ok _ implies the template rule consumed all of s (ends_eoi r_template = true is re-evaluated on the regenerated grammar); the consumed text of any PEG run is a prefix of the input; parse_isize / parse_usize return only in-range values equal to the value of the digits; a map body never yields a Map. PARTIAL: `accepted => a documented spelling` for all strings (unknown names, arity, empty segments) is not a theorem; it is decided on the run by an independent matcher: ALL strings over a 41-token alphabet up to 3 tokens (quick) / 4 (thorough), bare and wrapped in braces, plus single-edit corruptions of printed pipelines and numeric extremes: when the real parser accepts, an AST-guided matcher written from the documentation must account for every character (documented spellings + a short tolerated band: multi-character pad argument, unknown replace flags, map-split without range), and the model parser must agree on accept/reject and structure.",
 note="")
T['C13'] = dict(
 technique="Coq model of main.rs (after clap) with proofs: stdout = library result and exit 0 / nothing on stdout, error on stderr, exit 1; input routes equal; --validate iff parse; --quiet no debug; never exit 101 + spawn-based correspondence of the real binary vs the model and vs the library in-process",
 text="Theorems (Properties/C13.v): on library Ok r the CLI's stdout is exactly r with exit 0; on a parse or processing error stdout is empty, stderr non-empty, exit 1; the CLI never crashes; stdin = file = argument with trailing whitespace removed; a template file = its trimmed text as argument; --validate exits 0 exactly when the library accepts the template; --quiet never yields debug lines; --debug changes stderr only. PARTIAL: clap's argv parsing, process start-up and the OS pipe are not modelled; stderr is a class (empty / error / debug). Tie: the binary built from the working tree is spawned on generated configurations (template via argument / padded file / unreadable file / both; input via argument / stdin / file / both / missing; --debug, --quiet, --validate; valid, invalid and run-time-failing templates; inputs with trailing Unicode whitespace): stdout bytes, exit status and stderr class vs the model and vs the library in-process.",
 note="")
T['C17'] = dict(
 technique="Coq proof of schedule independence: for any number of threads and any interleaving of their atomic cache operations the cache invariant holds after every step and every finished call returns its cache-free result (both caches are write-determined memo tables; every library program is well-formed) + thread stress run from cold caches",
 text="Theorems (Properties/C17.v): for every list of well-formed programs, every initial cache state satisfying the invariant and every schedule (list of thread ids, no fairness), the invariant holds at the end (hence after every prefix) and every thread that has finished holds exactly run_pure of its program; for format() calls that is the documented semantics; no thread ever waits in the model; a Get only returns data determined by its own key. PARTIAL: atomicity of DashMap get / insert / entry().or_insert() is assumed; deadlock through shard guards, memory ordering and unsafe code cannot be exhibited by this model. Tie (validation, not proof): 2-16 threads over shared and per-thread templates from cold caches, workloads that make threads miss, fill and hit the same entries; every result vs the single-threaded model result; watchdog for calls that do not return.",
 note="")
T['C18'] = dict(
 technique="Coq proof that format_with_inputs (shared memo, 0/1/many-input branches) equals the per-section specification, with corollaries (same single input = format, missing inputs empty, missing separator space, surplus ignored) + differential run vs public-API composition and model",
 text="Theorems (Properties/C18.v): format_with_inputs refines spec_format_with_inputs: literals verbatim, section k contributes join (nth k seps \" \") (map (run section k) (nth k inputs [])), first error fails the call; the memo keyed by (input, operations) is unobservable across sections and inputs; when every section gets the same single input the result equals format; sections without inputs contribute nothing; missing separators are a space; surplus inputs and separators are ignored. Tie: templates x input-array shapes (fewer / equal / more, empty / single / multiple, repeated inputs across sections) x separator arrays vs literals + separator-join of format({S_k}, input) through the public API and vs the model.",
 note="")
T['C19'] = dict(
 technique="Coq model of the vt-push-parser 0.13.1 byte state machine as driven by fast-strip-ansi 0.13.1 (plus lossy UTF-8 decoding and the wrapper's shortcut) with proofs of strip(decorate items) = texts items, identity on control-free text, idempotence on every valid string + differential run of model vs crate and of the three laws on the crate",
 text="Theorems (Properties/C19.v): for every list of items whose texts are valid control-free Unicode and whose sequences are well-formed (CSI with any parameters/intermediates, OSC with BEL or ST, two- and three-character escapes, single shifts, DCS/SOS/PM/APC strings) strip_str (decorate items) = texts items; control-free text is unchanged; strip is idempotent on EVERY valid string (its output is always valid and control-free); the wrapper's borrowed-input shortcut and per-chunk lossy decoding are unobservable; UTF-8 decode(encode s) = s. The model is a transcription of a dependency, tied by the run: decorated texts at top level and inside map, arbitrary strings around ESC and controls (model == crate), a 1136-pair regression corpus.",
 note="A version bump of fast-strip-ansi / vt-push-parser that changes behaviour shows up as a correspondence failure.")
T['C20'] = dict(
 technique="Coq proofs about the constructors and accessors (template_string = text, counts, section info positions and contents, re-parse, debug setters, concat law via format refinement) + differential run of every public accessor vs the model",
 text="Theorems (Properties/C20.v): parse / parse_with_debug keep the text (template_string t = s); re-parsing it yields the same object; section_count / template_section_count / lengths of the info lists agree; section info lists the parts in order with consecutive overall positions, literal contents verbatim, operations as parsed, template positions counting sections only; the debug accessor reflects the last setting and setters change nothing else; formatting equals concatenating literal contents with each section's standalone result. Tie: templates with no sections, only sections, adjacent and empty sections, ${...}, braces and backslashes in literals, and corrupted strings: every accessor of the real object (incl. Display) vs the model scanner and vs format().",
 note="")

order = ['C01', 'C02', 'C03', 'C04', 'C05', 'C06', 'C07', 'C08', 'C09', 'C10', 'C11', 'C12', 'C13', 'C14', 'C15', 'C16', 'C17', 'C18', 'C19', 'C20']
extra = os.path.join(ROOT, 'tools', 'manifest_extra.json')
if os.path.exists(extra):
    for k, v in json.load(open(extra)).items():
        T[k] = v
        if k not in order: order.append(k)
order.sort()
checks = []
for pid in order:
    t = T[pid]
    checks.append({
        "property_id": pid,
        "quick_cmd": "tools/check %s --tier quick" % pid,
        "thorough_cmd": "tools/check %s --tier thorough" % pid,
        "evidence_file": "/verif/evidence/%s.json" % pid,
        "replay_cmd_template": "tools/check %s --replay {path}" % pid,
        "engine": "coq-model+correspondence",
        "technique": t['technique'],
        "level_claimed": {"category": "proof", "text": t['text'], "design_ref": "DESIGN.md section 7, " + pid},
        "level_note": COMMON_NOTE + t.get('note', ''),
    })
na = [{"property_id": p['id'], "reason": "check not built yet in this round (work in progress; the technique applies, see DESIGN.md section 7)"}
      for p in props if p['id'] not in order]
m = {
 "version": 1,
 "setup_cmd": "tools/setup",
 "hooks": {"guard": "cargo feature verif-hooks",
           "enable": "cargo build --features verif-hooks (the harness crate depends on string_pipeline with features=[\"verif-hooks\"])",
           "baseline_off_cmd": "cd /repo && (cargo nextest run --workspace --no-fail-fast --test-threads 8 --offline || cargo test --workspace --no-fail-fast --offline)",
           "source_commits": ["2008c52"], "add_only": True},
 "engines": [{"name": "coq-model+correspondence", "path": "/verif/theories, /verif/driver, /verif/harness, /verif/tools/check",
              "serves_properties": order,
              "kind_free_text": "Coq 8.16.1 development (model + theorems), extracted to OCaml and run against the real crate by a Rust differential harness"}],
 "checks": checks,
 "not_applicable": na,
 "notes": "Proof family: Coq. See DESIGN.md. known_findings.json lists the genuine defects found (all repaired by fix: commits in /repo).",
}
json.dump(m, open(os.path.join(ROOT, 'MANIFEST.json'), 'w'), indent=1)
print('claimed:', order)
