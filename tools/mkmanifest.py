#!/usr/bin/env python3
"""Developer tool: (re)generate MANIFEST.json from the table below."""
import json, os
ROOT = os.path.abspath(os.path.join(os.path.dirname(__file__), '..'))
props = [json.loads(l) for l in open(os.path.join(ROOT, 'properties.jsonl'))]

COMMON_NOTE = ("Trusted: Coq 8.16.1 kernel (no axioms: Print Assumptions of every property theorem is closed); the hand-written Impl "
               "model of the Rust control flow (tied to the code by the correspondence run on every check, not verified from the Rust "
               "source); Env parameters (regex engine, case mapping, strip_ansi) answered by the real crates during the run; Rust "
               "strings = lists of scalar values; extraction (ExtrOcamlBasic only), OCaml driver, Rust harness; translators "
               "pest2coq.py / consts2coq.py. ")

T = {}
T['C01'] = dict(
 technique="Coq proof that the Impl model (fast paths, replace shortcut, caches, tracer, memo, fast split) refines the documented Spec semantics for all pipelines and inputs + three-way differential correspondence (real crate / extracted Impl / extracted Spec)",
 text="Theorems (Properties/C01.v): for every engine satisfying the literal law L1, every debug flag, every operation list (map bodies included) and every input, the cache-free meaning of the code's interpreter and of format() on single-block and mixed templates equals the documented left-to-right semantics, as an outcome (text or error, never panic); an operation fails exactly when it receives a kind it does not accept, uses an invalid regex, or (map) an item's sub-pipeline fails that way; a pipeline fails exactly when a reached operation fails. Tie to the code: random structured pipelines over all 21 operations x varied inputs, implementation vs extracted Impl vs extracted Spec with the real regex/case-mapping/strip_ansi crates answering the model's oracle calls.",
 note="L1 (metacharacter-free pattern with prefix from m,s is valid and replacing an absent literal is the identity) is a named hypothesis, validated against regex 1.11.1 by the C14 run. Parsing of the template text is covered by C02.")
T['C06'] = dict(
 technique="machine-checked proof in Coq 8.16.1 (apply_range refines the documented select rule, for all bounds and lengths) + exhaustive small-scope correspondence run of model vs. implementation",
 text="Theorems (Properties/C06.v, closed under the global context): the code's resolve_index/apply_range as modelled, including checked isize arithmetic and slice indexing, equals the documented selection rule for every range form, every bound in isize and every collection length; a single index picks exactly one item at the clamped position; a range is the contiguous clamped run, empty iff start >= end; empty in, empty out; never an error or panic; the rule is independent of the carrier. The hand model is tied to the Rust code by running both on every (form, bound, length, carrier) tuple of a small scope exhaustively plus random large cases through split, slice, substring (ASCII and non-ASCII) and the shorthand.",
 note="Rust collections have length <= isize::MAX (needed only for the no-overflow lemma).")
T['C07'] = dict(
 technique="Coq proof of kind soundness, progress and ill-typed-fails on the Spec semantics (which the Impl model refines) + exhaustive enumeration of operation-kind sequences against the real crate",
 text="Theorems (Properties/C07.v): every operation yields the documented kind; a pipeline that is well-typed (map bodies included) with valid regexes succeeds on every input; a pipeline whose top-level kind inference fails returns Err on every input; the code refines this semantics. Tie: every sequence of the 21 operations (3 map-body variants) up to length 3 (quick) / 4 (thorough) x 7 inputs making lists empty/singleton/long: Ok/Err of the real format() against the extracted infer / well_typed, plus full equality with the model.",
 note="")
T['C08'] = dict(
 technique="Coq proof that Map is mapM of the standalone sub-pipeline (length, i-th item, first error, fresh separator) + differential run: map vs n standalone runs through the public API vs model",
 text="Theorems (Properties/C08.v): spec_step (Map body) on a list is mapM (spec_run body) -- same length, i-th output is the standalone result on the i-th item (fresh ' ' separator, list results rendered with the body's own separator), empty list to empty list, first error fails the call, outer separator untouched; the code's per-item recursion refines it. Tie: random sub-pipelines over every map-allowed operation x lists with empty/duplicate/non-ASCII/failing items.",
 note="That the map_* grammar family parses like the top-level family is part of C02.")
T['C09'] = dict(
 technique="Coq proofs join(split s sep)=s and join j (split s sep)=replace for all s, sep (incl. empty and self-overlapping), memchr path = general path, implicit-join law by induction over pipelines + identities checked through the public API and against the model",
 text="Theorems (Properties/C09.v): join sep (split s sep) = s and join j (split s sep) = replace_plain s sep j for every text and separator; the 1-byte memchr path and the cached path equal plain splitting; a pipeline ending in a list renders as if join(last separator) were written (last separator computed from the pipeline alone); empty list renders empty; split on a list flattens; the single-split section fast path is faithful. Tie: three observe_at identities through the public API on inputs x separators (1 byte, multi-byte, non-ASCII, empty, aa-style) x list-preserving tails, sizes straddling 10 000 bytes / 1 000 parts.",
 note="")
T['C14'] = dict(
 technique="Coq proofs, for every engine E, that replace/regex_extract/filter/filter_not are E's operations under the documented flag mapping (all 16 subsets, any order/repetition) and that an invalid pattern is Err + differential run against regex 1.11.1 called directly",
 text="Theorems (Properties/C14.v), all quantified over the engine: replace is re_replace (first / all with g) on (?ims-prefix)pattern, invalid -> Err, shortcut invisible under L1; flag prefix depends only on the set of letters; table for all 16 subsets; regex_extract is find / group default empty; filter / filter_not on lists and strings; invalid pattern is Err for every regex operation; regex cache unobservable. Tie: regex pool x every order of every flag subset x replacements with $0/$1/${name} x inputs, expected value computed by calling the regex crate directly in the harness, plus model equality; L1 itself validated against the crate.",
 note="The engine's own behaviour (leftmost-first matching, expansion of $name) is the regex crate's, not proved.")
T['C15'] = dict(
 technique="Coq proofs of the list-operation laws (sort is the unique sorted permutation, unique = first occurrences, filter/filter_not partition, nothing invented) + metamorphic relations evaluated on the real crate",
 text="Theorems (Properties/C15.v): sort_asc is a permutation, strongly sorted under code-point order; that order is total and antisymmetric so the sorted permutation is unique (algorithm-independent); sort:desc is rev of sort; unique is duplicate-free, same set, order-preserving, keeps the first occurrence, idempotent; reverse twice is identity; filter + filter_not partition the list order-preservingly with every item on exactly one side; sort/unique/slice/filter invent nothing. Tie: lists with duplicates/empties/non-ASCII/prefixes, sorted and reverse sorted, length 0..2000, metamorphic relations through the public API and random compositions against the model.",
 note="Rust's String order is byte order of UTF-8 = code point order (assumed).")
T['C16'] = dict(
 technique="Coq proofs of pad/trim/reverse/substring laws on whole characters and of ASCII-fast-path = Unicode-path for every string + marker-variant differential run + complete whitespace-table check",
 text="Theorems (Properties/C16.v): pad reaches exactly max(width, len) characters with the text untouched inside and padding on the requested side(s) (left = floor(n/2) for both); trim removes only leading/trailing characters of the set from the requested side(s) and stops at the first other character; trim = left then right; blank set means all whitespace; reverse and substring commute with any relabelling of characters; validity preserved; the ASCII fast paths of reverse/substring/trim equal the general paths on every string. Tie: strings mixing 1-4-byte characters, all White_Space characters, controls x widths/pad chars/sets/directions, each also with a non-ASCII marker where the operation cannot reach it; the model's White_Space table is compared with char::is_whitespace for all 1 112 064 scalar values on every run.",
 note="upper/lower are Env parameters (std's case mapping), only their validity-preservation law L2 is named.")

order = ['C01', 'C06', 'C07', 'C08', 'C09', 'C14', 'C15', 'C16']
extra = os.path.join(ROOT, 'tools', 'manifest_extra.json')
if os.path.exists(extra):
    for k, v in json.load(open(extra)).items():
        T[k] = v
        if k not in order: order.append(k)
order.sort()
checks = []
for pid in order:
    t = T[pid]
    checks.append({
        "property_id": pid,
        "quick_cmd": "tools/check %s --tier quick" % pid,
        "thorough_cmd": "tools/check %s --tier thorough" % pid,
        "evidence_file": "/verif/evidence/%s.json" % pid,
        "replay_cmd_template": "tools/check %s --replay {path}" % pid,
        "engine": "coq-model+correspondence",
        "technique": t['technique'],
        "level_claimed": {"category": "proof", "text": t['text'], "design_ref": "DESIGN.md section 7, " + pid},
        "level_note": COMMON_NOTE + t.get('note', ''),
    })
na = [{"property_id": p['id'], "reason": "check not built yet in this round (work in progress; the technique applies, see DESIGN.md section 7)"}
      for p in props if p['id'] not in order]
m = {
 "version": 1,
 "setup_cmd": "tools/setup",
 "hooks": {"guard": "cargo feature verif-hooks",
           "enable": "cargo build --features verif-hooks (the harness crate depends on string_pipeline with features=[\"verif-hooks\"])",
           "baseline_off_cmd": "cd /repo && (cargo nextest run --workspace --no-fail-fast --test-threads 8 --offline || cargo test --workspace --no-fail-fast --offline)",
           "source_commits": ["2008c52"], "add_only": True},
 "engines": [{"name": "coq-model+correspondence", "path": "/verif/theories, /verif/driver, /verif/harness, /verif/tools/check",
              "serves_properties": order,
              "kind_free_text": "Coq 8.16.1 development (model + theorems), extracted to OCaml and run against the real crate by a Rust differential harness"}],
 "checks": checks,
 "not_applicable": na,
 "notes": "Proof family: Coq. See DESIGN.md. known_findings.json lists the genuine defects found (all repaired by fix: commits in /repo).",
}
json.dump(m, open(os.path.join(ROOT, 'MANIFEST.json'), 'w'), indent=1)
print('claimed:', order)
