#!/usr/bin/env python3
"""Regenerate theories/Gen/Grammar.v from /repo/src/pipeline/template.pest.

Translates the pest grammar into a PEG syntax tree (one Definition per rule, in
topological order) in a NORMAL FORM: silent rules are inlined, sequences and choices
are flattened to the right, a negative look-ahead over a choice becomes the sequence
of the negative look-aheads over its members (all three are identities of PEG
semantics), so that grammars differing only in such grouping give the same output.  Fails (exit 3) on anything outside the translated subset:
recursion, WHITESPACE/COMMENT, PUSH/POP, case-insensitive strings, unknown
modifiers or built-ins."""
import re, sys, hashlib
src_path = sys.argv[1]
out_path = sys.argv[2]
src = open(src_path, encoding='utf-8').read()
src_sha = hashlib.sha256(src.encode()).hexdigest()
# strip comments
src = re.sub(r'//[^\n]*', '', src)
TOK = re.compile(r'\s*(?:(?P<id>[A-Za-z][A-Za-z_0-9]*|_[A-Za-z_0-9]+)|(?P<str>"(?:[^"\\]|\\.)*")|(?P<op>[=@_$!&~|*+?(){}]))')
def tokenize(s):
    i, out = 0, []
    while True:
        m = TOK.match(s, i)
        if not m:
            if s[i:].strip(): raise SystemExit("pest2coq: UNSUPPORTED: cannot tokenise at: %r" % s[i:i+30])
            return out
        i = m.end()
        for k in ('id', 'str', 'op'):
            if m.group(k) is not None: out.append((k, m.group(k)))
toks = tokenize(src)
pos = 0
def peek(): return toks[pos] if pos < len(toks) else (None, None)
def take(kind=None, val=None):
    global pos
    k, v = peek()
    if (kind and k != kind) or (val and v != val): raise SystemExit("pest2coq: UNSUPPORTED: expected %s %s got %s %s" % (kind, val, k, v))
    pos += 1; return v
def unescape(lit):
    body = lit[1:-1]; out = []; i = 0
    while i < len(body):
        c = body[i]
        if c == '\\':
            n = body[i+1]
            m = {'n': '\n', 't': '\t', 'r': '\r', '\\': '\\', '"': '"', "'": "'", '0': '\0'}
            if n not in m: raise SystemExit("pest2coq: UNSUPPORTED: unsupported escape \\%s" % n)
            out.append(m[n]); i += 2
        else: out.append(c); i += 1
    return ''.join(out)
def parse_expr():
    alts = [parse_seq()]
    while peek() == ('op', '|'): take(); alts.append(parse_seq())
    e = alts[-1]
    for a in reversed(alts[:-1]): e = ('alt', a, e)
    return e
def parse_seq():
    xs = [parse_prefix()]
    while peek() == ('op', '~'): take(); xs.append(parse_prefix())
    e = xs[-1]
    for a in reversed(xs[:-1]): e = ('seq', a, e)
    return e
def parse_prefix():
    if peek() == ('op', '!'): take(); return ('not', parse_prefix())
    if peek() == ('op', '&'): take(); return ('and', parse_prefix())
    return parse_postfix()
def parse_postfix():
    e = parse_atom()
    while peek()[0] == 'op' and peek()[1] in '*+?':
        o = take(); e = ({'*': 'star', '+': 'plus', '?': 'opt'}[o], e)
    return e
def parse_atom():
    k, v = peek()
    if k == 'str': take(); return ('str', unescape(v))
    if k == 'id': take(); return ('ref', v)
    if (k, v) == ('op', '('): take(); e = parse_expr(); take('op', ')'); return e
    raise SystemExit("pest2coq: UNSUPPORTED: unexpected token %s %s" % (k, v))
rules = {}; order = []
while pos < len(toks):
    name = take('id'); take('op', '=')
    kind = 'Normal'
    if peek()[0] == 'op' and peek()[1] in '@_$!':
        m = take(); kind = {'@': 'Atomic', '_': 'Silent'}.get(m)
        if kind is None: raise SystemExit("pest2coq: UNSUPPORTED: unsupported rule modifier %s on %s" % (m, name))
    take('op', '{'); e = parse_expr(); take('op', '}')
    if name in ('WHITESPACE', 'COMMENT'): raise SystemExit("pest2coq: UNSUPPORTED: implicit whitespace not supported")
    rules[name] = (kind, e); order.append(name)
# ---- normal form ---------------------------------------------------------------------------
# Silent rules (`_{ }`) produce no token and have no other effect, so they are inlined where
# they are used and do not appear in the output at all; sequences and choices are flattened to
# the right (both are associative in a PEG); a negative look-ahead over a choice is the
# sequence of the negative look-aheads over its members.  Two grammars that differ only in how
# they name and group such pieces therefore give the same Gen/Grammar.v.
def inline(e, seen=()):
    if e[0] == 'ref' and e[1] in rules and rules[e[1]][0] == 'Silent':
        if e[1] in seen: raise SystemExit("pest2coq: UNSUPPORTED: grammar is recursive through %s" % e[1])
        return inline(rules[e[1]][1], seen + (e[1],))
    if e[0] in ('ref', 'str'): return e
    return (e[0],) + tuple(inline(x, seen) for x in e[1:])
def flat(tag, e):
    return flat(tag, e[1]) + flat(tag, e[2]) if e[0] == tag else [e]
def build(tag, xs):
    e = xs[-1]
    for a in reversed(xs[:-1]): e = (tag, a, e)
    return e
def norm(e):
    if e[0] in ('ref', 'str'): return e
    if e[0] == 'seq':
        xs = []
        for x in flat('seq', e): xs.extend(flat('seq', norm(x)))
        return build('seq', xs)
    if e[0] == 'alt':
        xs = []
        for x in flat('alt', e): xs.extend(flat('alt', norm(x)))
        return build('alt', xs)
    if e[0] == 'not':
        b = norm(e[1])
        if b[0] == 'alt': return build('seq', [('not', x) for x in flat('alt', b)])
        return ('not', b)
    return (e[0], norm(e[1]))
silent = [n for n in order if rules[n][0] == 'Silent']
for n in list(rules):
    rules[n] = (rules[n][0], norm(inline(rules[n][1])))
for n in silent:
    del rules[n]
order = [n for n in order if n not in silent]
BUILTIN = {'ANY': 'PAny', 'EOI': 'PEoiTok', 'ASCII_DIGIT': '(PRange 48 57)', 'ASCII_ALPHA': '(PAlt (PRange 97 122) (PRange 65 90))'}
def refs(e):
    if e[0] == 'ref': return {e[1]} if e[1] not in BUILTIN else set()
    if e[0] == 'str': return set()
    return set().union(*[refs(x) for x in e[1:]])
# topological order, fail on cycle
done, out, stack = set(), [], []
def visit(n):
    if n in done: return
    if n in stack: raise SystemExit("pest2coq: UNSUPPORTED: grammar is recursive through %s" % ' -> '.join(stack + [n]))
    if n not in rules: raise SystemExit("pest2coq: UNSUPPORTED: undefined rule %s" % n)
    stack.append(n)
    for r in sorted(refs(rules[n][1])): visit(r)
    stack.pop(); done.add(n); out.append(n)
for n in order: visit(n)
def cstr(s): return '[' + '; '.join(str(ord(c)) for c in s) + ']%N'
def emit(e):
    t = e[0]
    if t == 'str': return '(PStr %s)' % cstr(e[1])
    if t == 'ref': return BUILTIN.get(e[1], 'r_' + e[1])
    if t in ('seq', 'alt'): return '(P%s %s %s)' % (t.capitalize(), emit(e[1]), emit(e[2]))
    return '(P%s %s)' % (t.capitalize(), emit(e[1]))
lines = []
lines.append("(* GENERATED by tools/pest2coq.py from src/pipeline/template.pest (sha256 %s) -- do not edit *)" % src_sha)
lines.append("From SP Require Import Model.Peg.")
lines.append("From Coq Require Import List NArith. Import ListNotations.")
lines.append("Inductive rule := " + ' | '.join('R_' + n for n in order) + '.')
lines.append("Definition rule_eqb (a b : rule) : bool := match a, b with " + ' | '.join('R_%s, R_%s => true' % (n, n) for n in order) + " | _, _ => false end.")
lines.append("Definition rule_name (r : rule) : list N := match r with " + ' | '.join('R_%s => %s' % (n, cstr(n)) for n in order) + " end.")
for n in out:
    kind, e = rules[n]
    lines.append("Definition r_%s : peg rule := PRule R_%s %s %s." % (n, n, kind, emit(e)))
lines.append("(* rules: %d *)" % len(out))
text = "\n".join(lines) + "\n"
try:
    old = open(out_path).read()
except OSError:
    old = None
if old != text:
    open(out_path, 'w').write(text)
