#!/usr/bin/env python3
"""Developer tool (not run by any check): expand theories/Properties/src/Cxx.props
into theories/Properties/Cxx.v.  Each '== name : proof_term' block becomes
Theorem name : <statement>. Proof. exact proof_term. Qed. + a Check pin of the
same statement + Print Assumptions.  '!!' blocks are copied verbatim."""
import sys, re, os
src = sys.argv[1]
out = os.path.join(os.path.dirname(os.path.dirname(os.path.abspath(src))), os.path.basename(src).replace('.props', '.v'))
text = open(src).read()
parts = re.split(r'^(==|!!)', text, flags=re.M)
res = [parts[0]]
i = 1
while i < len(parts):
    tag, body = parts[i], parts[i + 1]
    i += 2
    if tag == '!!':
        res.append(body.lstrip('\n'))
        continue
    head, _, stmt = body.partition('\n')
    m = re.match(r'\s*([A-Za-z0-9_\']+)\s*:\s*(.*)$', head)
    name, term = m.group(1), m.group(2).strip()
    # leading comment lines of the statement are kept above the theorem
    lines = stmt.rstrip().split('\n')
    comments = []
    while lines and lines[0].strip().startswith('(*'):
        c = lines.pop(0)
        comments.append(c)
        while '*)' not in c and lines:
            c = lines.pop(0); comments.append(c)
    st = '\n'.join(lines).strip()
    if st.endswith('.'):
        st = st[:-1]
    res.append('\n'.join(comments) + ('\n' if comments else ''))
    res.append('Theorem %s :\n  %s.\nProof. exact %s. Qed.\nCheck %s :\n  %s.\nPrint Assumptions %s.\n\n' % (name, st, term, name, st, name))
open(out, 'w').write(''.join(res))
print('wrote', out)
