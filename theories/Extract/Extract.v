(* Extraction of the executable model for the correspondence check.
   ExtrOcamlBasic only: bool, option, unit, list, prod, sumbool map to the OCaml
   natives; N, positive, Z, nat stay as extracted inductives; no Extract Constant. *)
From SP Require Import Model.Impl Model.Spec Model.Typing Model.Template Model.Scanner Model.Ansi Model.Cli Model.Syntax.
Require Extraction.
Require ExtrOcamlBasic.
Extraction Language OCaml.

Definition x_run_pure_impl (E : Env) (dbg : bool) (ops : list op) (x : str) : outcome str :=
  run_pure (impl_run E dbg ops x).
Definition x_run_st_impl (E : Env) (dbg : bool) (ops : list op) (x : str) (c : caches)
  : outcome str * caches := run_st (impl_run E dbg ops x) c.
Definition x_spec_run := spec_run.
Definition x_apply_range_str (l : list str) (r : range) := apply_range l r.
Definition x_select_str (r : range) (l : list str) := select r l.

Definition x_infer := infer.
Definition x_well_typed := well_typed.
Definition x_last_sep := last_sep.
Definition x_format_pure (E : Env) (t : template) (x : str) : outcome str := run_pure (impl_format E t x).
Definition x_spec_format := spec_format.
Definition x_fwi_pure (E : Env) (t : template) (inputs : list (list str)) (seps : list str) : outcome str :=
  run_pure (impl_format_with_inputs E t inputs seps).
Definition x_spec_fwi := spec_format_with_inputs.

Definition x_template_parse := template_parse.
Definition x_template_parse_with_debug := template_parse_with_debug.
Definition x_parse_template := parse_template.
Definition x_process_arg := process_arg.

Definition x_strip_str := strip_str.
Definition x_format_st (E : Env) (t : template) (x : str) (c : caches) : outcome str * caches :=
  run_st (impl_format E t x) c.

Definition x_cli_main := cli_main.
Definition x_print_block := print_block.
Definition x_printable (ops : list op) : bool := forallb printable ops.

Extraction "model.ml"
  x_print_block x_printable x_cli_main x_strip_str x_format_st
  x_template_parse x_template_parse_with_debug x_parse_template x_process_arg
  x_infer x_well_typed x_last_sep x_format_pure x_spec_format x_fwi_pure x_spec_fwi
  x_run_pure_impl x_run_st_impl x_spec_run x_apply_range_str x_select_str empty_caches
  split join replace_plain sort_asc unique utf8 utf8_len is_ws valid.
