(* Extraction of the executable model for the correspondence check.
   ExtrOcamlBasic only: bool, option, unit, list, prod, sumbool map to the OCaml
   natives; N, positive, Z, nat stay as extracted inductives; no Extract Constant. *)
From SP Require Import Model.Impl Model.Spec.
Require Extraction.
Require ExtrOcamlBasic.
Extraction Language OCaml.

Definition x_run_pure_impl (E : Env) (dbg : bool) (ops : list op) (x : str) : outcome str :=
  run_pure (impl_run E dbg ops x).
Definition x_run_st_impl (E : Env) (dbg : bool) (ops : list op) (x : str) (c : caches)
  : outcome str * caches := run_st (impl_run E dbg ops x) c.
Definition x_spec_run := spec_run.
Definition x_apply_range_str (l : list str) (r : range) := apply_range l r.
Definition x_select_str (r : range) (l : list str) := select r l.

Extraction "model.ml"
  x_run_pure_impl x_run_st_impl x_spec_run x_apply_range_str x_select_str empty_caches
  split join replace_plain sort_asc unique utf8 utf8_len is_ws valid.
