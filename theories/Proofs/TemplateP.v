(* The template object: memo and fast path are unobservable, format composes. *)
From SP Require Import Model.Template Proofs.ImplSpec Proofs.StrP Proofs.RangeP Proofs.SplitP.

(* ---- the memo key is sound ------------------------------------------------ *)
Lemma optz_eqb_eq a b : optz_eqb a b = true -> a = b.
Proof. destruct a, b; cbn; try discriminate; auto. intros H. apply Z.eqb_eq in H. now subst. Qed.
Lemma range_eqb_eq a b : range_eqb a b = true -> a = b.
Proof.
  destruct a, b; cbn; try discriminate.
  - intros H. apply Z.eqb_eq in H. now subst.
  - rewrite !andb_true_iff. intros [[H1 H2] H3].
    apply optz_eqb_eq in H1, H2. apply Bool.eqb_prop in H3. now subst.
Qed.
Lemma optn_eqb_eq a b : optn_eqb a b = true -> a = b.
Proof. destruct a, b; cbn; try discriminate; auto. intros H. apply N.eqb_eq in H. now subst. Qed.

Lemma op_eqb_eq a : forall b, op_eqb a b = true -> a = b.
Proof.
  induction a using op_ind'; intros b0 Heq; destruct b0; cbn [op_eqb] in Heq; try discriminate;
    repeat match goal with
           | H : (_ && _)%bool = true |- _ => apply andb_true_iff in H as [? ?]
           | H : str_eqb _ _ = true |- _ => apply str_eqb_eq in H; subst
           | H : range_eqb _ _ = true |- _ => apply range_eqb_eq in H; subst
           | H : N.eqb _ _ = true |- _ => apply N.eqb_eq in H; subst
           | H : optn_eqb _ _ = true |- _ => apply optn_eqb_eq in H; subst
           end; try reflexivity.
  - destruct d, d0; try discriminate; reflexivity.
  - (* Map *)
    f_equal. revert body0 Heq. induction body as [|x body IHb]; intros [|y body0] Heq; try discriminate; [reflexivity|].
    apply andb_true_iff in Heq as [H1 H2]. inversion H as [|? ? Hx Hb]; subst.
    f_equal; [apply Hx; exact H1 | apply IHb; assumption].
  - destruct d, d0; try discriminate; reflexivity.
  - destruct d, d0; try discriminate; reflexivity.
Qed.

Lemma ops_eqb_eq a : forall b, ops_eqb a b = true -> a = b.
Proof.
  induction a as [|x a IH]; intros [|y b] H; try discriminate; [reflexivity|].
  cbn [ops_eqb] in H. apply andb_true_iff in H as [H1 H2]. f_equal; [apply op_eqb_eq; exact H1 | apply IH; exact H2].
Qed.

Section TP.
Variable E : Env.
Hypothesis HL1 : L1 replace_meta E.

Definition MemoInv (m : memo) : Prop :=
  forall i ops out, memo_lookup m i ops = Some out -> spec_run E ops i = Ok out.

Lemma MemoInv_nil : MemoInv [].
Proof. intros i ops out H. discriminate. Qed.

Lemma MemoInv_cons m i ops out : MemoInv m -> spec_run E ops i = Ok out -> MemoInv (((i, ops), out) :: m).
Proof.
  intros Hm Hr i' ops' out' Hl. cbn [memo_lookup] in Hl.
  destruct (str_eqb i i' && ops_eqb ops ops')%bool eqn:Ek.
  - apply andb_true_iff in Ek as [H1 H2]. apply str_eqb_eq in H1. apply ops_eqb_eq in H2. subst.
    injection Hl as <-. exact Hr.
  - apply Hm. exact Hl.
Qed.

(* the single-split fast path re-implements split + range + final join *)
Lemma fast_single_split_refines x sep r :
  Ok (run_pure (fast_single_split x sep r)) = spec_run E [Split sep r] x.
Proof.
  unfold fast_single_split. rewrite run_pure_pbind, run_pure_get_cached_split. cbn [run_pure].
  rewrite apply_range_m_is_select. unfold spec_run. cbn [spec_steps spec_step bind fst snd].
  destruct r as [i|a b inc]; cbn [render].
  - destruct (select_index_le1 i (split x sep)) as [-> | [y ->]]; reflexivity.
  - destruct (select (Range a b inc) (split x sep)) as [|y [|z rest]]; reflexivity.
Qed.

Lemma apply_section_refines dbg x ops m :
  MemoInv m ->
  fst (run_pure (apply_section E dbg x ops m)) = spec_run E ops x
  /\ MemoInv (snd (run_pure (apply_section E dbg x ops m))).
Proof.
  intros Hm.
  assert (Hgen: fst (run_pure (match memo_lookup m x ops with
                     | Some out => Ret (Ok out, m)
                     | None => pbind (impl_run E dbg ops x) (fun r =>
                         match r with
                         | Ok out => Ret (Ok out, ((x, ops), out) :: m)
                         | Err => Ret (Err, m)
                         | Panic => Ret (Panic, m)
                         end)
                     end)) = spec_run E ops x
              /\ MemoInv (snd (run_pure (match memo_lookup m x ops with
                     | Some out => Ret (Ok out, m)
                     | None => pbind (impl_run E dbg ops x) (fun r =>
                         match r with
                         | Ok out => Ret (Ok out, ((x, ops), out) :: m)
                         | Err => Ret (Err, m)
                         | Panic => Ret (Panic, m)
                         end)
                     end)))).
  { destruct (memo_lookup m x ops) as [out|] eqn:El.
    - cbn [run_pure fst snd]. split; [symmetry; apply Hm; exact El | exact Hm].
    - rewrite run_pure_pbind, (impl_run_refines E HL1).
      destruct (spec_run E ops x) as [out| |] eqn:Er; cbn [run_pure fst snd]; split; auto.
      apply MemoInv_cons; assumption. }
  destruct ops as [|o rest]; [exact Hgen|].
  destruct o; try exact Hgen.
  destruct rest as [|o2 rest]; [|exact Hgen].
  unfold apply_section. rewrite run_pure_pbind. cbn [run_pure fst snd].
  split; [apply fast_single_split_refines | exact Hm].
Qed.

Lemma literal_preview_ok l : literal_preview l = Ok tt.
Proof.
  unfold literal_preview. destruct consts_trace_total as [_ ->].
  destruct (_ && _)%bool; [reflexivity|]. destruct (N.leb _ _); reflexivity.
Qed.

Lemma format_loop_plain_refines dbg x secs : forall acc m, MemoInv m ->
  run_pure (format_loop_plain E dbg x secs acc m)
  = omap (fun parts => acc ++ concat parts) (mapM (seg_out E x) secs).
Proof.
  induction secs as [|s secs IH]; intros acc m Hm; cbn [format_loop_plain mapM].
  - cbn. rewrite app_nil_r. reflexivity.
  - destruct s as [l|ops]; cbn [seg_out bind].
    + rewrite IH by exact Hm. destruct (mapM (seg_out E x) secs); cbn [bind omap concat]; try reflexivity.
      rewrite app_assoc. reflexivity.
    + rewrite run_pure_pbind. destruct (apply_section_refines dbg x ops m Hm) as [Hr Hm'].
      rewrite Hr. destruct (spec_run E ops x) as [out| |]; cbn [bind run_pure]; try reflexivity.
      rewrite IH by exact Hm'. destruct (mapM (seg_out E x) secs); cbn [bind omap concat]; try reflexivity.
      rewrite app_assoc. reflexivity.
Qed.

Lemma format_loop_debug_refines x secs : forall acc m, MemoInv m ->
  run_pure (format_loop_debug E x secs acc m)
  = omap (fun parts => acc ++ concat parts) (mapM (seg_out E x) secs).
Proof.
  induction secs as [|s secs IH]; intros acc m Hm; cbn [format_loop_debug mapM].
  - cbn. rewrite app_nil_r. reflexivity.
  - destruct s as [l|ops]; cbn [seg_out bind].
    + rewrite literal_preview_ok. rewrite IH by exact Hm.
      destruct (mapM (seg_out E x) secs); cbn [bind omap concat]; try reflexivity.
      rewrite app_assoc. reflexivity.
    + rewrite run_pure_pbind. destruct (apply_section_refines true x ops m Hm) as [Hr Hm'].
      rewrite Hr. destruct (spec_run E ops x) as [out| |]; cbn [bind run_pure]; try reflexivity.
      rewrite IH by exact Hm'. destruct (mapM (seg_out E x) secs); cbn [bind omap concat]; try reflexivity.
      rewrite app_assoc. reflexivity.
Qed.

Theorem format_refines t x : run_pure (impl_format E t x) = spec_format E (t_sections t) x.
Proof.
  unfold impl_format, spec_format. destruct (t_debug t).
  - rewrite format_loop_debug_refines by apply MemoInv_nil. destruct (mapM _ _); reflexivity.
  - rewrite format_loop_plain_refines by apply MemoInv_nil. destruct (mapM _ _); reflexivity.
Qed.

(* debug tracing is transparent at the level of the template object *)
Theorem format_debug_transparent t x d1 d2 :
  run_pure (impl_format E (with_debug t d1) x) = run_pure (impl_format E (with_debug t d2) x).
Proof. rewrite !format_refines. reflexivity. Qed.

(* ---- format_with_inputs ---------------------------------------------------- *)
Lemma fwi_inputs_refines dbg ops inputs : forall m, MemoInv m ->
  fst (run_pure (fwi_inputs E dbg ops inputs m)) = mapM (spec_run E ops) inputs
  /\ MemoInv (snd (run_pure (fwi_inputs E dbg ops inputs m))).
Proof.
  induction inputs as [|i rest IH]; intros m Hm; cbn [fwi_inputs mapM].
  - cbn. auto.
  - rewrite run_pure_pbind. destruct (apply_section_refines dbg i ops m Hm) as [Hr Hm'].
    rewrite Hr. destruct (spec_run E ops i) as [out| |]; cbn [bind run_pure fst snd]; auto.
    rewrite run_pure_pbind. cbn [run_pure fst snd].
    destruct (IH _ Hm') as [Hr2 Hm2]. rewrite Hr2. split; [|exact Hm2].
    destruct (mapM (spec_run E ops) rest); reflexivity.
Qed.

Lemma fwi_loop_refines dbg inputs seps secs : forall idx acc m, MemoInv m ->
  run_pure (fwi_loop E dbg secs inputs seps idx acc m)
  = omap (fun parts => acc ++ concat parts) (spec_fwi E secs inputs seps idx).
Proof.
  induction secs as [|s secs IH]; intros idx acc m Hm; cbn [fwi_loop spec_fwi].
  - cbn. rewrite app_nil_r. reflexivity.
  - destruct s as [l|ops].
    + rewrite IH by exact Hm. destruct (spec_fwi E secs inputs seps idx); cbn [omap concat]; try reflexivity.
      rewrite app_assoc. reflexivity.
    + destruct (nth idx inputs []) as [|i [|i2 rest]] eqn:En.
      * cbn [mapM bind join]. rewrite IH by exact Hm.
        destruct (spec_fwi E secs inputs seps (S idx)); cbn [omap concat app]; try reflexivity.
      * rewrite run_pure_pbind. destruct (apply_section_refines dbg i ops m Hm) as [Hr Hm'].
        rewrite Hr. cbn [mapM]. destruct (spec_run E ops i) as [out| |]; cbn [bind run_pure join]; try reflexivity.
        rewrite IH by exact Hm'. destruct (spec_fwi E secs inputs seps (S idx)); cbn [omap concat]; try reflexivity.
        rewrite app_assoc. reflexivity.
      * rewrite run_pure_pbind. destruct (fwi_inputs_refines dbg ops (i :: i2 :: rest) m Hm) as [Hr Hm'].
        rewrite Hr. destruct (mapM (spec_run E ops) (i :: i2 :: rest)) as [outs| |]; cbn [bind run_pure]; try reflexivity.
        rewrite IH by exact Hm'. destruct (spec_fwi E secs inputs seps (S idx)); cbn [omap concat]; try reflexivity.
        rewrite app_assoc. reflexivity.
Qed.

Theorem format_with_inputs_refines t inputs seps :
  run_pure (impl_format_with_inputs E t inputs seps) = spec_format_with_inputs E (t_sections t) inputs seps.
Proof.
  unfold impl_format_with_inputs, spec_format_with_inputs.
  rewrite fwi_loop_refines by apply MemoInv_nil. destruct (spec_fwi _ _ _ _ _); reflexivity.
Qed.

End TP.
