(* Pipelines: operation lists, map bodies and whole single-block templates written by
   the canonical printer are read back as exactly the operations printed. *)
From SP Require Import Model.Syntax Model.Scanner Proofs.PegP Proofs.SyntaxP Proofs.ArgP Proofs.NumP Proofs.RangeSynP Proofs.OpSynP.
Local Open Scope N_scope.

(* a pipeline as a list of (operation, its chosen spelling) *)
Notation item := (op * str)%type.
Definition texts (items : list item) : list str := map snd items.
Definition ops_of (items : list item) : list op := map fst items.

Lemma pipe_tail_stops ts tail : op_stops (pipe_tail_text ts ++ 125 :: tail).
Proof. destruct ts as [|t ts]; cbn; eexists; eexists; (split; [reflexivity|]); auto. Qed.

Lemma mapM_Ok (l : list op) : mapM (fun o => Ok o) l = Ok l.
Proof. induction l as [|o l IH]; [reflexivity|]. cbn [mapM bind]. rewrite IH. reflexivity. Qed.

Lemma run_star (a : peg rule) at_ inp : run (PStar a) at_ inp = star_loop (run a at_) (S (length inp)) inp.
Proof. reflexivity. Qed.

(* The generic pipeline lemma.  [R o txt rest]: the text txt, followed by rest, is read by
   the operation rule as o.  What may follow is part of the relation because some arguments
   (regular expressions) end only where a look-ahead of the grammar says so. *)
Definition conv_kid (conv : ptree -> outcome op) (t : ptree) : outcome op := bind (unwrap_first (t_kids t)) conv.

Section PipeGen.
  Variable r : peg rule.          (* the operation rule *)
  Variable wrap : rule.           (* its id *)
  Variable R : op -> str -> str -> Prop.
  Variable conv : ptree -> outcome op.
  Variable res : op -> outcome op. (* what the converter answers for the operation read *)
  Hypothesis Hop : forall o txt rest, R o txt rest ->
    exists k, run r false (txt ++ rest) = Some (txt, [Node (Some wrap) txt [k]], rest) /\ conv k = res o.

    (* every item is readable in front of what actually follows it *)
  Fixpoint chain_gen (items : list item) (tail : str) : Prop :=
    match items with
    | [] => True
    | it :: more => R (fst it) (snd it) (pipe_tail_text (texts more) ++ tail) /\ chain_gen more tail
    end.

  Lemma star_pipe_gen : forall items tail fuel, run (PSeq (PStr [124]) r) false tail = None -> chain_gen items tail ->
    Nat.lt (length (pipe_tail_text (texts items) ++ tail)) fuel ->
    exists kids, star_loop (run (PSeq (PStr [124]) r) false) fuel (pipe_tail_text (texts items) ++ tail)
                 = Some (pipe_tail_text (texts items), kids, tail)
                 /\ mapM (conv_kid conv) kids = mapM res (ops_of items).
  Proof.
    induction items as [|[o txt] items IH]; intros tail fuel Hend Hall Hlen.
    - destruct fuel as [|fuel]; [cbn in Hlen; lia|]. exists []. split; [|reflexivity].
      rewrite star_loop_S. cbn [texts map pipe_tail_text flat_map app]. rewrite Hend. reflexivity.
    - destruct Hall as [Ho Hos]. cbn [fst snd] in Ho.
      destruct fuel as [|fuel]; [lia|].
      destruct (Hop o txt (pipe_tail_text (texts items) ++ tail) Ho) as (k & Hk & Hck).
      assert (Hlen' : Nat.lt (length (pipe_tail_text (texts items) ++ tail)) fuel).
      { unfold texts, pipe_tail_text in *. cbn [map flat_map snd] in Hlen. rewrite <- app_assoc in Hlen. cbn [app length] in Hlen.
        rewrite app_length in Hlen. lia. }
      destruct (IH tail fuel Hend Hos Hlen') as (kids & Hs & Hm).
      exists (Node (Some wrap) txt [k] :: kids). split.
      + rewrite star_loop_S. rewrite run_seq.
        change (pipe_tail_text (texts ((o, txt) :: items)) ++ tail)
          with (([124] ++ txt ++ pipe_tail_text (texts items)) ++ tail).
        rewrite <- !app_assoc.
        rewrite run_str, seq_res_some, Hk. cbn beta iota.
        assert (Hlt : Nat.ltb (length (pipe_tail_text (texts items) ++ tail))
                              (length ([124] ++ txt ++ pipe_tail_text (texts items) ++ tail)) = true).
        { apply Nat.ltb_lt. cbn [app length]. rewrite (app_length txt). lia. }
        rewrite Hlt, Hs. cbn [app]. rewrite <- ?app_assoc. reflexivity.
      + cbn [ops_of map fst mapM]. unfold conv_kid at 1. cbn [t_kids unwrap_first bind]. rewrite Hck. fold (ops_of items). rewrite Hm. reflexivity.
  Qed.

  (* head operation followed by ("|" operation)* *)
  Lemma run_pipe_gen (listid : rule) it items tail : run (PSeq (PStr [124]) r) false tail = None -> chain_gen (it :: items) tail ->
    exists kids, run (PRule listid Normal (PSeq r (PStar (PSeq (PStr [124]) r)))) false (pipe_text (texts (it :: items)) ++ tail)
                 = Some (pipe_text (texts (it :: items)), [Node (Some listid) (pipe_text (texts (it :: items))) kids], tail)
                 /\ mapM (conv_kid conv) kids = mapM res (ops_of (it :: items)).
  Proof.
    intros Hend Hall. destruct it as [o txt]. destruct Hall as [Ho Hos]. cbn [fst snd] in Ho.
    cbn [texts map snd pipe_text]. fold (texts items). rewrite <- app_assoc.
    destruct (Hop o txt (pipe_tail_text (texts items) ++ tail) Ho) as (k & Hk & Hck).
    destruct (star_pipe_gen items tail (S (length (pipe_tail_text (texts items) ++ tail))) Hend Hos (Nat.lt_succ_diag_r _)) as (kids & Hs & Hm).
    exists (Node (Some wrap) txt [k] :: kids). split.
    - rewrite run_rule_normal, run_seq, Hk, seq_res_some, run_star, Hs. reflexivity.
    - cbn [ops_of map fst mapM]. unfold conv_kid at 1. cbn [t_kids unwrap_first bind]. rewrite Hck. fold (ops_of items). rewrite Hm. reflexivity.
  Qed.
End PipeGen.

(* the usual case: the list is followed by the closing brace *)
Section PipeCtx.
  Variable r : peg rule.
  Variable wrap : rule.
  Variable R : op -> str -> str -> Prop.
  Variable conv : ptree -> outcome op.
  Variable res : op -> outcome op.
  Hypothesis Hop : forall o txt rest, R o txt rest ->
    exists k, run r false (txt ++ rest) = Some (txt, [Node (Some wrap) txt [k]], rest) /\ conv k = res o.

  Definition chain (items : list item) (tail : str) : Prop := chain_gen R items (125 :: tail).

  Lemma chain_cons it more tail :
    chain (it :: more) tail <-> R (fst it) (snd it) (pipe_tail_text (texts more) ++ 125 :: tail) /\ chain more tail.
  Proof. reflexivity. Qed.

  Lemma run_pipe_ctx (listid : rule) it items tail : chain (it :: items) tail ->
    exists kids, run (PRule listid Normal (PSeq r (PStar (PSeq (PStr [124]) r)))) false (pipe_text (texts (it :: items)) ++ 125 :: tail)
                 = Some (pipe_text (texts (it :: items)), [Node (Some listid) (pipe_text (texts (it :: items))) kids], 125 :: tail)
                 /\ mapM (conv_kid conv) kids = mapM res (ops_of (it :: items)).
  Proof. intros H. exact (run_pipe_gen r wrap R conv res Hop listid it items (125 :: tail) eq_refl H). Qed.
End PipeCtx.

(* the instance for spellings that only need "|" or "}" after them *)
Section Pipe.
  Variable r : peg rule.
  Variable wrap : rule.
  Variable R : op -> str -> Prop.
  Variable conv : ptree -> outcome op.
  Hypothesis Hop : forall o txt rest, R o txt -> op_stops rest ->
    exists k, run r false (txt ++ rest) = Some (txt, [Node (Some wrap) txt [k]], rest) /\ conv k = Ok o.

  Definition all_spelled (items : list item) : Prop := Forall (fun it => R (fst it) (snd it)) items.

  Lemma all_spelled_chain items tail : all_spelled items -> chain (fun o t rest => R o t /\ op_stops rest) items tail.
  Proof.
    induction 1 as [|it items Hit _ IH]; [exact I|]. cbn [chain]. split; [|exact IH]. split; [exact Hit | apply pipe_tail_stops].
  Qed.

  Lemma run_pipe (listid : rule) it items tail : all_spelled (it :: items) ->
    exists kids, run (PRule listid Normal (PSeq r (PStar (PSeq (PStr [124]) r)))) false (pipe_text (texts (it :: items)) ++ 125 :: tail)
                 = Some (pipe_text (texts (it :: items)), [Node (Some listid) (pipe_text (texts (it :: items))) kids], 125 :: tail)
                 /\ mapM (conv_kid conv) kids = Ok (ops_of (it :: items)).
  Proof.
    intros Hall. rewrite <- (mapM_Ok (ops_of (it :: items))).
    apply (run_pipe_ctx r wrap (fun o t rest => R o t /\ op_stops rest) conv (fun o => Ok o)
             (fun o txt rest H => Hop o txt rest (proj1 H) (proj2 H)) listid it items tail).
    apply all_spelled_chain. exact Hall.
  Qed.
End Pipe.

(* ---- map:{...} ------------------------------------------------------------------------ *)
Definition inner_kid := conv_kid parse_map_inner_operation.

Lemma run_map_list it items tail : all_spelled spells_simple (it :: items) ->
  exists kids, run r_map_operation_list false (pipe_text (texts (it :: items)) ++ 125 :: tail)
               = Some (pipe_text (texts (it :: items)),
                       [Node (Some R_map_operation_list) (pipe_text (texts (it :: items))) kids], 125 :: tail)
               /\ mapM inner_kid kids = Ok (ops_of (it :: items)).
Proof.
  intros Hall.
  exact (run_pipe r_map_inner_operation R_map_inner_operation spells_simple parse_map_inner_operation
           (fun o txt rest H1 H2 => inner_reads_spelled o txt rest H1 H2) R_map_operation_list it items tail Hall).
Qed.

Definition map_text (items : list item) : str := kw_map ++ 58 :: 123 :: pipe_text (texts items) ++ [125].

Lemma run_map it items rest : all_spelled spells_simple (it :: items) ->
  exists k, run r_map false (map_text (it :: items) ++ rest) = Some (map_text (it :: items), [k], rest)
            /\ parse_operation k = Ok (Map (ops_of (it :: items))).
Proof.
  intros Hall. destruct (run_map_list it items rest Hall) as (kids & Hrun & Hm).
  set (body := pipe_text (texts (it :: items))) in *.
  eexists. split.
  - unfold map_text. fold body. unfold kw_map. unfold r_map. rewrite run_rule_normal, run_seq, <- app_assoc, run_str, seq_res_some, run_seq.
    rewrite <- !app_comm_cons.
    change (58 :: 123 :: (body ++ [125]) ++ rest) with ([58] ++ 123 :: (body ++ [125]) ++ rest).
    rewrite run_str, seq_res_some. unfold r_map_operation. rewrite run_rule_normal, run_seq.
    change (123 :: (body ++ [125]) ++ rest) with ([123] ++ (body ++ [125]) ++ rest).
    rewrite run_str, seq_res_some, run_seq, <- app_assoc.
    change ([125] ++ rest) with (125 :: rest). rewrite Hrun, seq_res_some.
    change (125 :: rest) with ([125] ++ rest). rewrite run_str.
    cbn [app]. rewrite ?app_nil_r. reflexivity.
  - unfold parse_operation. cbn [t_rule]. unfold parse_map_operation. cbn [t_kids unwrap_first bind].
    change (mapM (fun op_pair : ptree => bind (unwrap_first (t_kids op_pair)) parse_map_inner_operation) kids)
      with (mapM inner_kid kids).
    rewrite Hm. reflexivity.
Qed.

(* ---- every spelling of every operation at top level ------------------------------------- *)
Theorem operation_reads o txt rest : spells o txt -> op_stops rest ->
  exists k, run r_operation false (txt ++ rest) = Some (txt, [Node (Some R_operation) txt [k]], rest)
            /\ parse_operation k = Ok o.
Proof.
  intros Hsp Hst. destruct Hsp as [o txt Hs | r Hr | items Hne Hall].
  - exact (operation_reads_spelled o txt rest Hs Hst).
  - exact (shorthand_roundtrip r rest Hr Hst).
  - destruct items as [|it items]; [congruence|].
    destruct (run_map it items rest Hall) as (k & Hk & Hc). exists k. split; [|exact Hc].
    unfold r_operation. rewrite run_rule_normal. cbn [run].
    unfold map_text, kw_map, texts, ops_of in *. repeat (rewrite <- app_assoc || rewrite <- app_comm_cons). cbn [app].
    kill_alts.
    repeat (rewrite <- app_assoc in Hk || rewrite <- app_comm_cons in Hk). cbn [app] in Hk.
    rewrite Hk. reflexivity.
Qed.

(* the first character of a spelling is never '!' *)
Lemma range_head r : exists c t, print_range r = c :: t /\ N.eqb 33 c = false.
Proof.
  destruct r as [i | [a|] b inc]; cbn [print_range print_optz].
  - destruct (print_Z_head i) as (c & t & -> & [-> | Hd]); eexists; eexists; (split; [reflexivity|]); [reflexivity|].
    unfold is_digit in Hd. apply andb_true_iff in Hd as [H1 _]. apply N.leb_le in H1. apply N.eqb_neq. lia.
  - destruct (print_Z_head a) as (c & t & -> & [-> | Hd]); eexists; eexists; (split; [reflexivity|]); [reflexivity|].
    unfold is_digit in Hd. apply andb_true_iff in Hd as [H1 _]. apply N.leb_le in H1. apply N.eqb_neq. lia.
  - destruct inc; eexists; eexists; split; reflexivity.
Qed.
Lemma spells_simple_head o txt : spells_simple o txt -> exists c t, txt = c :: t /\ N.eqb 33 c = false.
Proof.
  intros H. destruct H as [o Hok | s | | s Hnd | | w Hw | w c Hw]; try (eexists; eexists; split; reflexivity).
  destruct o as [sep r|sep|? ? ?| | |chars d|r|s|s|s| |?|?|r|body|d| | |w c d|? ?]; try discriminate Hok;
    try (eexists; eexists; split; [reflexivity | reflexivity]).
  - destruct chars; eexists; eexists; split; reflexivity.
  - destruct d; eexists; eexists; split; reflexivity.
Qed.
Lemma spells_head o txt : spells o txt -> exists c t, txt = c :: t /\ N.eqb 33 c = false.
Proof.
  intros H. destruct H as [o txt Hs | r Hr | items Hne Hall].
  - exact (spells_simple_head o txt Hs).
  - apply range_head.
  - eexists; eexists; split; reflexivity.
Qed.

(* ---- a whole single-block template, every spelling ------------------------------------------ *)
Definition block_text (dbg : bool) (items : list item) : str :=
  123 :: (if dbg then [33] else []) ++ pipe_text (texts items) ++ [125].

Theorem spelled_block_roundtrip dbg items : all_spelled spells items ->
  parse_template (block_text dbg items) = Ok (ops_of items, dbg).
Proof.
  intros Hall. destruct items as [|it items]; [destruct dbg; reflexivity|].
  destruct (run_pipe r_operation R_operation spells parse_operation
              (fun o txt rest H1 H2 => operation_reads o txt rest H1 H2) R_operation_list it items [] Hall) as (kids & Hrun & Hm).
  fold r_operation_list in Hrun.
  assert (Hhead : exists c t, pipe_text (texts (it :: items)) ++ [125] = c :: t /\ N.eqb 33 c = false).
  { destruct it as [o txt]. inversion Hall as [|? ? Ho _]; subst. cbn [fst snd] in Ho.
    destruct (spells_head o txt Ho) as (c & t & -> & Hc). cbn [texts map snd pipe_text].
    exists c. eexists. split; [rewrite <- !app_assoc, <- app_comm_cons; reflexivity | exact Hc]. }
  destruct Hhead as (c & t & Eh & Hc).
  set (body := pipe_text (texts (it :: items))) in *.
  unfold parse_template, block_text, r_template. fold body.
  rewrite run_rule_normal, run_seq.
  destruct dbg.
  - change (123 :: [33] ++ body ++ [125]) with ([123] ++ [33] ++ body ++ [125]).
    rewrite run_str, seq_res_some, run_seq, run_opt.
    unfold r_debug_flag. rewrite run_rule_atomic, run_str.
    rewrite seq_res_some, run_seq, run_opt, Hrun, seq_res_some, run_seq.
    change [125] with ([125] ++ []) at 2. rewrite run_str, seq_res_some.
    cbn [run app bind unwrap_first]. unfold parse_template_tree. cbn [t_kids t_rule].
    change (mapM (fun op_pair : ptree => bind (unwrap_first (t_kids op_pair)) parse_operation) kids)
      with (mapM (conv_kid parse_operation) kids).
    rewrite Hm. reflexivity.
  - change (123 :: [] ++ body ++ [125]) with ([123] ++ body ++ [125]).
    rewrite run_str, seq_res_some, run_seq, run_opt.
    assert (Hdbg : run r_debug_flag false (body ++ [125]) = None).
    { rewrite Eh. unfold r_debug_flag. rewrite run_rule_atomic. rewrite (str_fail_head [] 33 true c _ Hc). reflexivity. }
    rewrite Hdbg, seq_res_some, run_seq, run_opt, Hrun, seq_res_some, run_seq.
    change [125] with ([125] ++ []) at 2. rewrite run_str, seq_res_some.
    cbn [run app bind unwrap_first]. unfold parse_template_tree. cbn [t_kids t_rule].
    change (mapM (fun op_pair : ptree => bind (unwrap_first (t_kids op_pair)) parse_operation) kids)
      with (mapM (conv_kid parse_operation) kids).
    rewrite Hm. reflexivity.
Qed.

(* the template rule around an operation list, for any converter outcome *)
Lemma template_around_list (dbg : bool) (body : str) (kids : list ptree) (out : outcome (list op)) :
  run r_operation_list false (body ++ [125]) = Some (body, [Node (Some R_operation_list) body kids], [125]) ->
  (exists c t, body ++ [125] = c :: t /\ N.eqb 33 c = false) ->
  mapM (conv_kid parse_operation) kids = out ->
  parse_template (123 :: (if dbg then [33] else []) ++ body ++ [125]) = bind out (fun ops => Ok (ops, dbg)).
Proof.
  intros Hrun (c & t & Eh & Hc) Hm.
  unfold parse_template, r_template. rewrite run_rule_normal, run_seq.
  destruct dbg.
  - change (123 :: [33] ++ body ++ [125]) with ([123] ++ [33] ++ body ++ [125]).
    rewrite run_str, seq_res_some, run_seq, run_opt.
    unfold r_debug_flag. rewrite run_rule_atomic, run_str.
    rewrite seq_res_some, run_seq, run_opt, Hrun, seq_res_some, run_seq.
    change [125] with ([125] ++ []) at 2. rewrite run_str, seq_res_some.
    cbn [run app bind unwrap_first]. unfold parse_template_tree. cbn [t_kids t_rule].
    change (mapM (fun op_pair : ptree => bind (unwrap_first (t_kids op_pair)) parse_operation) kids)
      with (mapM (conv_kid parse_operation) kids).
    rewrite Hm. destruct out; reflexivity.
  - change (123 :: [] ++ body ++ [125]) with ([123] ++ body ++ [125]).
    rewrite run_str, seq_res_some, run_seq, run_opt.
    assert (Hdbg : run r_debug_flag false (body ++ [125]) = None).
    { rewrite Eh. unfold r_debug_flag. rewrite run_rule_atomic. rewrite (str_fail_head [] 33 true c _ Hc). reflexivity. }
    rewrite Hdbg, seq_res_some, run_seq, run_opt, Hrun, seq_res_some, run_seq.
    change [125] with ([125] ++ []) at 2. rewrite run_str, seq_res_some.
    cbn [run app bind unwrap_first]. unfold parse_template_tree. cbn [t_kids t_rule].
    change (mapM (fun op_pair : ptree => bind (unwrap_first (t_kids op_pair)) parse_operation) kids)
      with (mapM (conv_kid parse_operation) kids).
    rewrite Hm. destruct out; reflexivity.
Qed.

(* ---- the canonical printer is one of the spellings ----------------------------------------------- *)
Definition canon_simple (o : op) : item := (o, print_simple o).
Definition canon (o : op) : item := (o, print_op o).

Lemma print_pipe_items (p : op -> str) ops : print_pipe p ops = pipe_text (texts (map (fun o => (o, p o)) ops)).
Proof.
  destruct ops as [|o os]; [reflexivity|]. revert o. induction os as [|o' os IH]; intros o.
  - cbn. rewrite app_nil_r. reflexivity.
  - change (print_pipe p (o :: o' :: os)) with (p o ++ 124 :: print_pipe p (o' :: os)). rewrite IH. reflexivity.
Qed.
Lemma ops_of_items (p : op -> str) ops : ops_of (map (fun o => (o, p o)) ops) = ops.
Proof. unfold ops_of. rewrite map_map. cbn [fst]. apply map_id. Qed.

Lemma canon_spells o : printable o = true -> spells o (print_op o).
Proof.
  intros Hok. destruct o; try (apply sp_simple, sp_canon; exact Hok); try discriminate Hok.
  cbn [printable] in Hok. apply andb_true_iff in Hok as [Hne Hall].
  cbn [print_op]. rewrite print_pipe_items. rewrite <- (ops_of_items print_simple body) at 1.
  apply sp_map.
  - destruct body; [discriminate | discriminate].
  - apply Forall_forall. intros it Hin. apply in_map_iff in Hin as (o & <- & Ho). cbn [fst snd].
    apply sp_canon. rewrite forallb_forall in Hall. apply Hall. exact Ho.
Qed.

Theorem block_roundtrip ops : forallb printable ops = true ->
  parse_template (print_block ops) = Ok (ops, false).
Proof.
  intros Hall. unfold print_block. rewrite print_pipe_items.
  change (parse_template (block_text false (map canon ops)) = Ok (ops, false)).
  rewrite spelled_block_roundtrip; [unfold canon; rewrite (ops_of_items print_op ops); reflexivity|].
  apply Forall_forall. intros it Hin. apply in_map_iff in Hin as (o & <- & Ho). cbn [fst snd].
  apply canon_spells. rewrite forallb_forall in Hall. apply Hall. exact Ho.
Qed.

Lemma print_pipe_cons (p : op -> str) o os : print_pipe p (o :: os) = p o ++ flat_map (fun o => 124 :: p o) os.
Proof.
  revert o. induction os as [|o' os IH]; intros o; [cbn; rewrite app_nil_r; reflexivity|].
  change (print_pipe p (o :: o' :: os)) with (p o ++ 124 :: print_pipe p (o' :: os)).
  rewrite IH. reflexivity.
Qed.

(* ---- up to the template object: the printed block takes the single-block path ------------ *)
Definition neutral (txt : str) : Prop := forall rest d, single_scan (txt ++ rest) d false = single_scan rest d false.
Definition plainb (c : N) : bool := (negb (N.eqb c 92) && negb (N.eqb c 123) && negb (N.eqb c 125))%bool.

Lemma neutral_nil : neutral [].
Proof. intros rest d. reflexivity. Qed.
Lemma neutral_app a b : neutral a -> neutral b -> neutral (a ++ b).
Proof. intros Ha Hb rest d. rewrite <- app_assoc, Ha, Hb. reflexivity. Qed.
Lemma neutral_cons c a : plainb c = true -> neutral a -> neutral (c :: a).
Proof.
  intros Hc Ha rest d. unfold plainb in Hc. apply andb_true_iff in Hc as [Hc H3]. apply andb_true_iff in Hc as [H1 H2].
  apply negb_true_iff in H1, H2, H3.
  cbn [app single_scan]. unfold c_bslash, c_lbrace, c_rbrace. rewrite H1, H2, H3. apply Ha.
Qed.
Lemma neutral_plain a : forallb plainb a = true -> neutral a.
Proof.
  induction a as [|c a IH]; intros H; [apply neutral_nil|]. cbn [forallb] in H. apply andb_true_iff in H as [Hc Ha].
  apply neutral_cons; [exact Hc | apply IH; exact Ha].
Qed.
Lemma neutral_esc s : neutral (esc s).
Proof. intros rest d. apply single_scan_esc. Qed.

Lemma digits_plain ds : forallb is_digit ds = true -> forallb plainb ds = true.
Proof.
  induction ds as [|c ds IH]; [reflexivity|]. cbn [forallb]. intros H. apply andb_true_iff in H as [Hc Hd].
  rewrite (IH Hd), andb_true_r. unfold is_digit in Hc. apply andb_true_iff in Hc as [H1 H2]. apply N.leb_le in H1, H2.
  unfold plainb. rewrite !andb_true_iff, !negb_true_iff, !N.eqb_neq. lia.
Qed.
Lemma neutral_print_N n : neutral (print_N n).
Proof. apply neutral_plain, digits_plain, print_N_digits. Qed.
Lemma neutral_print_Z z : neutral (print_Z z).
Proof. unfold print_Z. destruct (Z.ltb z 0); [apply neutral_cons; [reflexivity|]|]; apply neutral_print_N. Qed.
Lemma neutral_optz o : neutral (print_optz o).
Proof. destruct o; [apply neutral_print_Z | apply neutral_nil]. Qed.
Lemma neutral_range r : neutral (print_range r).
Proof.
  destruct r as [i|a b inc]; cbn [print_range]; [apply neutral_print_Z|].
  apply neutral_app; [apply neutral_optz|]. apply neutral_app; [|apply neutral_optz].
  destruct inc; apply neutral_plain; reflexivity.
Qed.

Ltac neutral_tac :=
  repeat first
    [ apply neutral_esc | apply neutral_range | apply neutral_print_N | apply neutral_nil
    | apply neutral_cons; [reflexivity|]
    | apply neutral_app
    | apply neutral_plain; reflexivity ].

Lemma neutral_simple o : neutral (print_simple o).
Proof.
  destruct o as [sep r|sep|? ? ?| | |chars d|r|s|s|s| |?|?|r|body|d| | |w c d|? ?]; cbn [print_simple];
    unfold kw_split, kw_join, kw_upper, kw_lower, kw_trim, kw_substring, kw_append, kw_prepend, kw_surround,
           kw_strip_ansi, kw_slice, kw_map, kw_sort, kw_reverse, kw_unique, kw_pad;
    try solve [neutral_tac].
  - destruct chars; destruct d; neutral_tac.
  - destruct d; neutral_tac.
  - destruct d; neutral_tac.
Qed.

Lemma neutral_pipe (p : op -> str) ops : (forall o, neutral (p o)) -> neutral (print_pipe p ops).
Proof.
  intros Hp. induction ops as [|o os IH]; [apply neutral_nil|]. rewrite print_pipe_cons.
  apply neutral_app; [apply Hp|]. clear IH. induction os as [|o' os IH]; [apply neutral_nil|].
  cbn [flat_map]. apply neutral_app; [|exact IH]. apply neutral_cons; [reflexivity | apply Hp].
Qed.

Lemma neutral_braced a : neutral a -> neutral (123 :: a ++ [125]).
Proof.
  intros Ha rest d. rewrite <- app_comm_cons, <- app_assoc.
  change (single_scan (123 :: a ++ [125] ++ rest) d false) with (single_scan (a ++ [125] ++ rest) (S d) false).
  rewrite Ha. reflexivity.
Qed.

Lemma neutral_op o : neutral (print_op o).
Proof.
  destruct o; try apply neutral_simple.
  cbn [print_op]. unfold kw_map. cbn [app].
  do 4 (apply neutral_cons; [reflexivity|]). apply neutral_braced. apply neutral_pipe. exact neutral_simple.
Qed.

Lemma print_block_single ops : is_single_block (print_block ops) = true.
Proof.
  unfold is_single_block, print_block. rewrite frev_rev, rev_app_distr. cbn [rev app].
  unfold c_lbrace, c_rbrace. rewrite !N.eqb_refl. cbn [andb]. rewrite frev_rev, rev_involutive.
  rewrite <- (app_nil_r (print_pipe print_op ops)), (neutral_pipe print_op ops neutral_op). reflexivity.
Qed.

(* C02 for the printable fragment: the template object built from the printed text has
   exactly one section holding exactly the printed operations *)
Theorem template_of_printed_block ops : forallb printable ops = true ->
  template_parse (print_block ops)
  = Ok {| t_raw := print_block ops; t_sections := [Sec ops]; t_debug := false |}.
Proof.
  intros Hall. unfold template_parse, try_single_block.
  rewrite print_block_single, (block_roundtrip ops Hall). reflexivity.
Qed.

(* ... and formatting it is running those operations: the meaning of the text *)
Section Meaning.
Variable E : Env.
Hypothesis HL1 : L1 replace_meta E.
Theorem printed_block_means_ops ops x : forallb printable ops = true ->
  bind (template_parse (print_block ops)) (fun t => run_pure (impl_format E t x)) = spec_run E ops x.
Proof.
  intros Hall. rewrite (template_of_printed_block ops Hall). cbn [bind].
  apply (format_of_single_section E HL1 _ ops x). reflexivity.
Qed.
End Meaning.

(* ---- the same, for every spelling ---------------------------------------------------------- *)
Lemma neutral_spells_simple o txt : spells_simple o txt -> neutral txt.
Proof.
  intros H. destruct H as [o Hok | s | | s Hnd | | w Hw | w c Hw];
    unfold kw_quote, kw_trim, kw_sort, kw_pad, s_asc; try solve [neutral_tac].
  apply neutral_simple.
Qed.

Lemma neutral_pipe_text ts : Forall neutral ts -> neutral (pipe_text ts).
Proof.
  intros H. destruct ts as [|t ts]; [apply neutral_nil|]. inversion H as [|? ? Ht Hts]; subst.
  cbn [pipe_text]. apply neutral_app; [exact Ht|]. clear H Ht. induction Hts as [|t' ts Ht' _ IH]; [apply neutral_nil|].
  cbn [pipe_tail_text flat_map]. apply neutral_app; [|exact IH]. apply neutral_cons; [reflexivity | exact Ht'].
Qed.

Lemma neutral_spells o txt : spells o txt -> neutral txt.
Proof.
  intros H. destruct H as [o txt Hs | r Hr | items Hne Hall].
  - exact (neutral_spells_simple o txt Hs).
  - apply neutral_range.
  - unfold kw_map. cbn [app]. do 4 (apply neutral_cons; [reflexivity|]). apply neutral_braced.
    apply neutral_pipe_text. apply Forall_forall. intros t Hin. apply in_map_iff in Hin as (it & <- & Hit).
    rewrite Forall_forall in Hall. exact (neutral_spells_simple _ _ (Hall it Hit)).
Qed.

Lemma block_text_single dbg items : all_spelled spells items -> is_single_block (block_text dbg items) = true.
Proof.
  intros Hall. unfold is_single_block, block_text. rewrite frev_rev, !app_assoc, rev_app_distr. cbn [rev app].
  unfold c_lbrace, c_rbrace. rewrite !N.eqb_refl. cbn [andb]. rewrite frev_rev, rev_involutive.
  assert (Hn : neutral ((if dbg then [33] else []) ++ pipe_text (texts items))).
  { apply neutral_app; [destruct dbg; [apply neutral_plain; reflexivity | apply neutral_nil]|].
    apply neutral_pipe_text. apply Forall_forall. intros t Hin. apply in_map_iff in Hin as (it & <- & Hit).
    unfold all_spelled in Hall. rewrite Forall_forall in Hall. exact (neutral_spells _ _ (Hall it Hit)). }
  rewrite <- (app_nil_r (_ ++ _)), Hn. reflexivity.
Qed.

(* C02, every documented spelling: the template object holds one section with exactly the
   operations spelled, and the debug flag exactly when '!' is written *)
Theorem template_of_spelled_block dbg items : all_spelled spells items ->
  template_parse (block_text dbg items)
  = Ok {| t_raw := block_text dbg items; t_sections := [Sec (ops_of items)]; t_debug := dbg |}.
Proof.
  intros Hall. unfold template_parse, try_single_block.
  rewrite (block_text_single dbg items Hall), (spelled_block_roundtrip dbg items Hall). reflexivity.
Qed.

(* two spellings of the same pipeline are the same template, up to the stored text *)
Theorem spellings_agree dbg items1 items2 : all_spelled spells items1 -> all_spelled spells items2 ->
  ops_of items1 = ops_of items2 ->
  omap t_sections (template_parse (block_text dbg items1)) = omap t_sections (template_parse (block_text dbg items2)).
Proof.
  intros H1 H2 E. rewrite (template_of_spelled_block dbg items1 H1), (template_of_spelled_block dbg items2 H2).
  cbn [omap t_sections]. rewrite E. reflexivity.
Qed.

(* non-vacuity: a pipeline mixing spellings, with map, shorthand, defaults omitted and written *)
Example spelled_example :
  let items : list item :=
    [ (Split space_sep (Range (Some 1%Z) (Some 3%Z) false), print_range (Range (Some 1%Z) (Some 3%Z) false));
      (Map [Surround [39]; Pad 5 32 PRight; Trim [] TBoth],
       kw_map ++ 58 :: 123 :: pipe_text [kw_quote ++ 58 :: esc [39]; kw_pad ++ 58 :: print_N 5; kw_trim] ++ [125]);
      (Sort Asc, kw_sort ++ 58 :: s_asc);
      (Join [124; 125], print_simple (Join [124; 125])) ] in
  all_spelled spells items /\ parse_template (block_text true items) = Ok (ops_of items, true).
Proof.
  cbv zeta. split; [|vm_compute; reflexivity].
  apply Forall_cons; [apply sp_shorthand; reflexivity|].
  apply Forall_cons.
  { refine (sp_map [(Surround [39], kw_quote ++ 58 :: esc [39]); (Pad 5 32 PRight, kw_pad ++ 58 :: print_N 5); (Trim [] TBoth, kw_trim)] _ _);
      [discriminate|].
    apply Forall_cons; [exact (sp_quote [39])|]. apply Forall_cons; [exact (sp_pad_width 5 eq_refl)|].
    apply Forall_cons; [exact sp_trim_bare | apply Forall_nil]. }
  apply Forall_cons; [apply sp_simple, sp_sort_asc|].
  apply Forall_cons; [apply sp_simple, (sp_canon (Join [124; 125])); reflexivity|].
  apply Forall_nil.
Qed.

