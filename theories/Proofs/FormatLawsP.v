(* C04: further laws of mixed templates: success characterised section by section,
   literal-only templates ignore the input, the result depends on the input only
   through what each section yields *)
From SP Require Import Model.Template Proofs.TemplateLaws Proofs.MapLawsP.

Section F.
Variable E : Env.

Definition lit_text (s : section) : str := match s with Lit l => l | Sec _ => [] end.

(* a template without sections yields its literals whatever the input *)
Theorem literals_only secs x :
  forallb (fun s => negb (is_sec s)) secs = true ->
  spec_format E secs x = Ok (concat (map lit_text secs)).
Proof.
  unfold spec_format. induction secs as [|s secs IH]; intros H; [reflexivity|].
  cbn [forallb] in H. apply andb_true_iff in H as [Hs Hr].
  destruct s as [l|ops]; [|discriminate]. cbn [mapM seg_out bind map lit_text concat].
  specialize (IH Hr). destruct (mapM (seg_out E x) secs) as [outs| |]; cbn [omap bind] in *; try discriminate.
  injection IH as IH. cbn [concat]. rewrite IH. reflexivity.
Qed.

(* the formatted text is the concatenation of pieces, one per part, each piece being
   exactly what that part yields alone *)
Theorem format_ok_iff secs x out :
  spec_format E secs x = Ok out <->
  exists pieces, Forall2 (fun s p => seg_out E x s = Ok p) secs pieces /\ out = concat pieces.
Proof.
  unfold spec_format. split.
  - destruct (mapM (seg_out E x) secs) as [pieces| |] eqn:Em; cbn [omap]; try discriminate.
    intros H; injection H as <-. exists pieces. split; [apply mapM_ok_iff; exact Em | reflexivity].
  - intros (pieces & HF & ->). apply mapM_ok_iff in HF. rewrite HF. reflexivity.
Qed.

(* two inputs on which every section yields the same thing format to the same text:
   nothing but the sections' own results reaches the output *)
Theorem format_depends_on_section_results secs x y :
  (forall ops, In (Sec ops) secs -> spec_run E ops x = spec_run E ops y) ->
  spec_format E secs x = spec_format E secs y.
Proof.
  intros H. unfold spec_format. f_equal. apply mapM_ext_in.
  intros s Hs. destruct s as [l|ops]; [reflexivity|]. cbn [seg_out]. apply H. exact Hs.
Qed.

End F.
