(* Parse fidelity for ALL twenty operations: pipelines that mix every documented spelling of
   the text/range operations with replace, filter, filter_not and regex_extract, at top level
   and inside map:{...}. *)
From SP Require Import Model.Syntax Model.Scanner Proofs.PegP Proofs.SyntaxP Proofs.ArgP Proofs.NumP
  Proofs.RangeSynP Proofs.OpSynP Proofs.RegexSynP Proofs.RawArgP Proofs.BlockSynP.
Local Open Scope N_scope.

(* ---- inside map:{...} -------------------------------------------------------------------- *)
Inductive reads_inner : op -> str -> str -> Prop :=
| ri_simple o t rest : spells_simple o t -> op_stops rest -> reads_inner o t rest
| ri_regex o t rest : spells_regex o t -> ctx_map o rest -> reads_inner o t rest
| ri_raw o t rest : spells_raw o t -> op_stops rest -> reads_inner o t rest.

Lemma reads_inner_sound o txt rest : reads_inner o txt rest ->
  exists k, run r_map_inner_operation false (txt ++ rest) = Some (txt, [Node (Some R_map_inner_operation) txt [k]], rest)
            /\ parse_map_inner_operation k = Ok o.
Proof.
  intros [o' t r' Hs Hst | o' t r' Hs Hc | o' t r' Hs Hst];
    [exact (inner_reads_spelled _ _ _ Hs Hst) | exact (inner_reads_regex _ _ _ Hs Hc) | exact (inner_reads_raw _ _ _ Hs Hst)].
Qed.

Lemma run_map_full it items rest : chain reads_inner (it :: items) rest ->
  exists k, run r_map false (map_text (it :: items) ++ rest) = Some (map_text (it :: items), [k], rest)
            /\ parse_operation k = Ok (Map (ops_of (it :: items))).
Proof.
  intros Hall.
  destruct (run_pipe_ctx r_map_inner_operation R_map_inner_operation reads_inner parse_map_inner_operation (fun o => Ok o)
              reads_inner_sound R_map_operation_list it items rest Hall) as (kids & Hrun & Hm).
  rewrite mapM_Ok in Hm.
  fold r_map_operation_list in Hrun.
  set (body := pipe_text (texts (it :: items))) in *.
  eexists. split.
  - unfold map_text. fold body. unfold kw_map. unfold r_map. rewrite run_rule_normal, run_seq, <- app_assoc, run_str, seq_res_some, run_seq.
    rewrite <- !app_comm_cons.
    change (58 :: 123 :: (body ++ [125]) ++ rest) with ([58] ++ 123 :: (body ++ [125]) ++ rest).
    rewrite run_str, seq_res_some. unfold r_map_operation. rewrite run_rule_normal, run_seq.
    change (123 :: (body ++ [125]) ++ rest) with ([123] ++ (body ++ [125]) ++ rest).
    rewrite run_str, seq_res_some, run_seq, <- app_assoc.
    change ([125] ++ rest) with (125 :: rest). rewrite Hrun, seq_res_some.
    change (125 :: rest) with ([125] ++ rest). rewrite run_str.
    cbn [app]. rewrite ?app_nil_r. reflexivity.
  - unfold parse_operation. cbn [t_rule]. unfold parse_map_operation. cbn [t_kids unwrap_first bind].
    change (mapM (fun op_pair : ptree => bind (unwrap_first (t_kids op_pair)) parse_map_inner_operation) kids)
      with (mapM (conv_kid parse_map_inner_operation) kids).
    rewrite Hm. reflexivity.
Qed.

(* ---- top level ------------------------------------------------------------------------------ *)
Inductive reads_top : op -> str -> str -> Prop :=
| rt_plain o t rest : spells o t -> op_stops rest -> reads_top o t rest
| rt_regex o t rest : spells_regex o t -> ctx_top o rest -> reads_top o t rest
| rt_raw o t rest : spells_raw o t -> op_stops rest -> reads_top o t rest
| rt_map items rest : items <> [] -> chain reads_inner items rest -> op_stops rest ->
    reads_top (Map (ops_of items)) (map_text items) rest.

Lemma reads_top_sound o txt rest : reads_top o txt rest ->
  exists k, run r_operation false (txt ++ rest) = Some (txt, [Node (Some R_operation) txt [k]], rest)
            /\ parse_operation k = Ok o.
Proof.
  intros [o' t r' Hs Hst | o' t r' Hs Hc | o' t r' Hs Hst | items r' Hne Hch Hst].
  - exact (operation_reads _ _ _ Hs Hst).
  - exact (operation_reads_regex _ _ _ Hs Hc).
  - exact (operation_reads_raw _ _ _ Hs Hst).
  - destruct items as [|it items]; [congruence|].
    destruct (run_map_full it items r' Hch) as (k & Hk & Hc). exists k. split; [|exact Hc].
    unfold r_operation. rewrite run_rule_normal. cbn [run].
    unfold map_text, kw_map, texts, ops_of in *. repeat (rewrite <- app_assoc || rewrite <- app_comm_cons). cbn [app].
    kill_alts.
    repeat (rewrite <- app_assoc in Hk || rewrite <- app_comm_cons in Hk). cbn [app] in Hk.
    rewrite Hk. reflexivity.
Qed.

Lemma reads_top_head o txt rest : reads_top o txt rest -> exists c t, txt = c :: t /\ N.eqb 33 c = false.
Proof.
  intros [o' t r' Hs Hst | o' t r' Hs Hc | o' t r' Hs Hst | items r' Hne Hch Hst].
  - exact (spells_head _ _ Hs).
  - destruct Hs; eexists; eexists; split; reflexivity.
  - destruct Hs as [kw mk a Hin Hu]. cbn [kw_raw_ops In] in Hin.
    destruct Hin as [E|[E|[E|[E|[E|[]]]]]]; injection E as <- <-; eexists; eexists; split; reflexivity.
  - eexists; eexists; split; reflexivity.
Qed.

(* THE THEOREM: all operations, all spellings *)
Theorem full_block_roundtrip dbg items : chain reads_top items [] ->
  parse_template (block_text dbg items) = Ok (ops_of items, dbg).
Proof.
  intros Hall. destruct items as [|it items]; [destruct dbg; reflexivity|].
  destruct (run_pipe_ctx r_operation R_operation reads_top parse_operation (fun o => Ok o) reads_top_sound R_operation_list it items [] Hall) as (kids & Hrun & Hm).
  rewrite mapM_Ok in Hm.
  fold r_operation_list in Hrun.
  assert (Hhead : exists c t, pipe_text (texts (it :: items)) ++ [125] = c :: t /\ N.eqb 33 c = false).
  { destruct it as [o txt]. destruct Hall as [Ho _]. cbn [fst snd] in Ho.
    destruct (reads_top_head o txt _ Ho) as (c & t & -> & Hc). cbn [texts map snd pipe_text].
    exists c. eexists. split; [rewrite <- !app_assoc, <- app_comm_cons; reflexivity | exact Hc]. }
  destruct Hhead as (c & t & Eh & Hc).
  set (body := pipe_text (texts (it :: items))) in *.
  unfold parse_template, block_text, r_template. fold body.
  rewrite run_rule_normal, run_seq.
  destruct dbg.
  - change (123 :: [33] ++ body ++ [125]) with ([123] ++ [33] ++ body ++ [125]).
    rewrite run_str, seq_res_some, run_seq, run_opt.
    unfold r_debug_flag. rewrite run_rule_atomic, run_str.
    rewrite seq_res_some, run_seq, run_opt, Hrun, seq_res_some, run_seq.
    change [125] with ([125] ++ []) at 2. rewrite run_str, seq_res_some.
    cbn [run app bind unwrap_first]. unfold parse_template_tree. cbn [t_kids t_rule].
    change (mapM (fun op_pair : ptree => bind (unwrap_first (t_kids op_pair)) parse_operation) kids)
      with (mapM (conv_kid parse_operation) kids).
    rewrite Hm. reflexivity.
  - change (123 :: [] ++ body ++ [125]) with ([123] ++ body ++ [125]).
    rewrite run_str, seq_res_some, run_seq, run_opt.
    assert (Hdbg : run r_debug_flag false (body ++ [125]) = None).
    { rewrite Eh. unfold r_debug_flag. rewrite run_rule_atomic. rewrite (str_fail_head [] 33 true c _ Hc). reflexivity. }
    rewrite Hdbg, seq_res_some, run_seq, run_opt, Hrun, seq_res_some, run_seq.
    change [125] with ([125] ++ []) at 2. rewrite run_str, seq_res_some.
    cbn [run app bind unwrap_first]. unfold parse_template_tree. cbn [t_kids t_rule].
    change (mapM (fun op_pair : ptree => bind (unwrap_first (t_kids op_pair)) parse_operation) kids)
      with (mapM (conv_kid parse_operation) kids).
    rewrite Hm. reflexivity.
Qed.

(* ---- the premise in the user's terms ------------------------------------------------------------
   A pipeline is a list of (operation, text) where each text is a documented way of writing the
   operation.  The only interaction between neighbours: a bare regex argument (filter,
   filter_not, regex_extract without group) ends at "|" only if an operation KEYWORD follows,
   so the next operation must not be written in the digit shorthand. *)
Inductive written_inner : op -> str -> Prop :=
| wi_simple o t : spells_simple o t -> written_inner o t
| wi_regex o t : spells_regex o t -> written_inner o t
| wi_raw o t : spells_raw o t -> written_inner o t.
Inductive written : op -> str -> Prop :=
| w_plain o t : spells o t -> written o t
| w_regex o t : spells_regex o t -> written o t
| w_raw o t : spells_raw o t -> written o t
| w_map items : items <> [] -> Forall (fun it => written_inner (fst it) (snd it)) items ->
    written (Map (ops_of items)) (map_text items).
Fixpoint followers_ok (items : list item) : Prop :=
  match items with
  | it :: more => match more with
                  | it2 :: _ => (needs_kw (fst it) = true -> kw_led (snd it2)) /\ followers_ok more
                  | [] => True
                  end
  | [] => True
  end.

Lemma spells_raw_kw o t : spells_raw o t -> kw_led t.
Proof.
  intros H r. destruct H as [kw mk a Hin Hu]. cbn [kw_raw_ops In] in Hin.
  destruct Hin as [E|[E|[E|[E|[E|[]]]]]]; injection E as <- <-; eexists; reflexivity.
Qed.
Lemma needs_kw_raw o t : spells_raw o t -> needs_kw o = false.
Proof.
  intros H. destruct H as [kw mk a Hin Hu]. cbn [kw_raw_ops In] in Hin.
  destruct Hin as [E|[E|[E|[E|[E|[]]]]]]; injection E as <- <-; reflexivity.
Qed.
Lemma written_inner_kw o t : written_inner o t -> kw_led t.
Proof. intros [o' t' H | o' t' H | o' t' H]; [exact (spells_simple_kw _ _ H) | exact (spells_regex_kw _ _ H) | exact (spells_raw_kw _ _ H)]. Qed.

Lemma tail_kw_stops (more : list item) tail : (forall it2 rest2, more = it2 :: rest2 -> kw_led (snd it2)) ->
  (more = [] -> tail = []) -> ktop_stops (pipe_tail_text (texts more) ++ 125 :: tail).
Proof.
  intros Hk Ht. destruct more as [|it2 more']; [left; rewrite (Ht eq_refl); reflexivity|].
  right. cbn [texts map pipe_tail_text flat_map]. rewrite <- app_assoc. cbn [app]. eexists. split; [reflexivity|].
  apply (Hk it2 more' eq_refl).
Qed.

Lemma inner_chain items : Forall (fun it => written_inner (fst it) (snd it)) items ->
  forall rest, op_stops rest -> chain reads_inner items rest.
Proof.
  induction 1 as [|it items Hit Hrest IH]; intros rest Hst; [exact I|]. cbn [chain]. split; [|apply IH; exact Hst].
  destruct it as [o0 t0]. cbn [fst snd] in *. destruct Hit as [o t Hs | o t Hs | o t Hs]; [apply ri_simple; [exact Hs | apply pipe_tail_stops] | | apply ri_raw; [exact Hs | apply pipe_tail_stops]].
  apply ri_regex; [exact Hs|]. unfold ctx_map. destruct (needs_kw o); [|apply pipe_tail_stops].
  destruct items as [|it2 more].
  - left. cbn. destruct Hst as (c & t' & -> & Hc). eexists. split; [reflexivity|]. right. eauto.
  - right. cbn [texts map pipe_tail_text flat_map]. rewrite <- app_assoc. cbn [app]. eexists. split; [reflexivity|].
    inversion Hrest as [|? ? H2 _]; subst. apply (written_inner_kw _ _ H2).
Qed.

Theorem written_chain items : Forall (fun it => written (fst it) (snd it)) items -> followers_ok items ->
  chain reads_top items [].
Proof.
  induction 1 as [|it items Hit Hrest IH]; intros Hf; [exact I|]. cbn [chain]. split.
  - destruct it as [o0 t0]. cbn [fst snd] in *. destruct Hit as [o t Hs | o t Hs | o t Hs | its Hne Hall]; [| | apply rt_raw; [exact Hs | apply pipe_tail_stops] |].
    + apply rt_plain; [exact Hs | apply pipe_tail_stops].
    + apply rt_regex; [exact Hs|]. unfold ctx_top. destruct (needs_kw o) eqn:En; [|apply pipe_tail_stops].
      destruct items as [|it2 more]; [left; reflexivity|].
      right. cbn [texts map pipe_tail_text flat_map]. rewrite <- app_assoc. cbn [app]. eexists. split; [reflexivity|].
      cbn [followers_ok fst] in Hf. destruct Hf as [Hk _]. apply (Hk En).
    + apply rt_map; [exact Hne | apply inner_chain; [exact Hall | apply pipe_tail_stops] | apply pipe_tail_stops].
  - apply IH. destruct items as [|it2 more]; [exact I|]. cbn [followers_ok] in Hf. destruct Hf as [_ Hf]. exact Hf.
Qed.

Theorem written_block_roundtrip dbg items :
  Forall (fun it => written (fst it) (snd it)) items -> followers_ok items ->
  parse_template (block_text dbg items) = Ok (ops_of items, dbg).
Proof. intros H1 H2. apply full_block_roundtrip, written_chain; assumption. Qed.

(* non-vacuity: {!split:,:..|filter:^a\d+$|map:{regex_extract:(\w)(\w):2|replace:s/a{2}/<$0>/gi|upper}|filter_not:x|1..3} *)
Example written_example :
  let re1 : str := [94; 97; 92; 100; 43; 36] in                      (* ^a\d+$ *)
  let re2 : str := [40; 92; 119; 41; 40; 92; 119; 41] in             (* (\w)(\w) *)
  let inner : list item :=
    [ (RegexExtract re2 (Some 2), kw_regex_extract ++ 58 :: re2 ++ 58 :: print_N 2);
      (Replace [97; 123; 50; 125] [60; 36; 48; 62] [103; 105], kw_replace ++ 58 :: 115 :: 47 :: [97; 123; 50; 125] ++ 47 :: [60; 36; 48; 62] ++ 47 :: [103; 105]);
      (Upper, print_simple Upper) ] in
  let items : list item :=
    [ (Split [44] (Range None None false), print_simple (Split [44] (Range None None false)));
      (Filter re1, kw_filter ++ 58 :: re1);
      (Map (ops_of inner), map_text inner);
      (FilterNot [120], kw_filter_not ++ 58 :: [120]);
      (Slice (Range (Some 1%Z) (Some 3%Z) false), print_simple (Slice (Range (Some 1%Z) (Some 3%Z) false))) ] in
  Forall (fun it => written (fst it) (snd it)) items /\ followers_ok items
  /\ parse_template (block_text true items) = Ok (ops_of items, true).
Proof.
  cbv zeta. split; [|split; [|vm_compute; reflexivity]].
  - apply Forall_cons; [apply w_plain, sp_simple, (sp_canon (Split [44] (Range None None false))); reflexivity|].
    apply Forall_cons; [apply w_regex, sp_filter; reflexivity|].
    apply Forall_cons.
    { refine (w_map [(RegexExtract _ (Some 2), _); (Replace _ _ _, _); (Upper, _)] _ _); [discriminate|].
      apply Forall_cons; [apply wi_regex, sp_extract_group; reflexivity|].
      apply Forall_cons; [apply wi_regex, sp_replace; (discriminate || reflexivity)|].
      apply Forall_cons; [apply wi_simple, (sp_canon Upper); reflexivity | apply Forall_nil]. }
    apply Forall_cons; [apply w_regex, sp_filter_not; reflexivity|].
    apply Forall_cons; [apply w_plain, sp_simple, (sp_canon (Slice _)); reflexivity | apply Forall_nil].
  - cbn [followers_ok fst snd needs_kw]. repeat split; try discriminate; intros _ r; eexists; reflexivity.
Qed.

(* ---- up to the template object ------------------------------------------------------------------- *)
Lemma neutral_units (okc : N -> bool) : (forall c, okc c = true -> plainb c = true) ->
  forall n s, (length s <= n)%nat -> units okc s = true -> neutral s.
Proof.
  intros Hok. induction n as [|n IH]; intros s Hn Hu.
  - destruct s; [apply neutral_nil | cbn in Hn; lia].
  - destruct s as [|c s]; [apply neutral_nil|]. cbn [units] in Hu. destruct (N.eqb c 92) eqn:Ec.
    + apply N.eqb_eq in Ec. subst c. destruct s as [|d s]; [discriminate|].
      intros rest dpt. cbn [app single_scan]. unfold c_bslash. rewrite N.eqb_refl.
      apply (IH s); [cbn [length] in Hn; lia | exact Hu].
    + apply andb_true_iff in Hu as [Hc Hs]. apply neutral_cons; [apply Hok; exact Hc|].
      apply (IH s); [cbn [length] in Hn; lia | exact Hs].
Qed.

Lemma neutral_regex_units p : regex_units p = true -> neutral p.
Proof.
  assert (Hok : forall c, negb (arg_special c) = true -> plainb c = true).
  { intros c H. apply negb_true_iff in H. unfold arg_special in H. repeat rewrite orb_false_iff in H.
    destruct H as [[[[_ _] H3] H4] H5]. unfold plainb. rewrite H3, H4, H5. reflexivity. }
  exact (neutral_units _ Hok (length p) p (le_n _)).
Qed.

(* sed parts may contain bare braces; for the single-block shortcut they must balance *)
Definition replace_balanced (o : op) : Prop :=
  match o with Replace p r _ => neutral p /\ neutral r | _ => True end.

Lemma letters_plain f : forallb is_letter f = true -> forallb plainb f = true.
Proof.
  induction f as [|c f IH]; [reflexivity|]. cbn [forallb]. intros H. apply andb_true_iff in H as [Hc Hf].
  rewrite (IH Hf), andb_true_r. unfold is_letter in Hc. unfold plainb. rewrite !andb_true_iff, !negb_true_iff, !N.eqb_neq.
  apply orb_true_iff in Hc as [Hc|Hc]; apply andb_true_iff in Hc as [H1 H2]; apply N.leb_le in H1, H2; lia.
Qed.

Lemma neutral_spells_regex o t : spells_regex o t -> replace_balanced o -> neutral t.
Proof.
  intros H Hb. destruct H as [p r f Hne Hp Hr Hf | p Hu | p Hu | p Hu | p g Hu Hg];
    unfold kw_replace, kw_filter, kw_filter_not, kw_regex_extract; cbn [app].
  - destruct Hb as [Hnp Hnr].
    repeat (apply neutral_cons; [reflexivity|]). apply neutral_app; [exact Hnp|]. apply neutral_cons; [reflexivity|].
    apply neutral_app; [exact Hnr|]. apply neutral_cons; [reflexivity|]. apply neutral_plain, letters_plain. exact Hf.
  - repeat (apply neutral_cons; [reflexivity|]). apply neutral_regex_units. exact Hu.
  - repeat (apply neutral_cons; [reflexivity|]). apply neutral_regex_units. exact Hu.
  - repeat (apply neutral_cons; [reflexivity|]). apply neutral_regex_units. exact Hu.
  - repeat (apply neutral_cons; [reflexivity|]). apply neutral_app; [apply neutral_regex_units; exact Hu|].
    apply neutral_cons; [reflexivity|]. apply neutral_print_N.
Qed.

Lemma neutral_spells_raw o t : spells_raw o t -> neutral t.
Proof.
  intros H. destruct H as [kw mk a Hin Hu]. cbn [kw_raw_ops In] in Hin.
  destruct Hin as [E|[E|[E|[E|[E|[]]]]]]; injection E as <- <-;
    unfold kw_append, kw_prepend, kw_surround, kw_quote, kw_join; cbn [app];
    repeat (apply neutral_cons; [reflexivity|]); apply neutral_regex_units; exact Hu.
Qed.
Lemma neutral_written_inner o t : written_inner o t -> replace_balanced o -> neutral t.
Proof. intros [o' t' H | o' t' H | o' t' H] Hb; [exact (neutral_spells_simple _ _ H) | exact (neutral_spells_regex _ _ H Hb) | exact (neutral_spells_raw _ _ H)]. Qed.

Definition balanced_item (it : item) : Prop :=
  match fst it with
  | Map body => Forall replace_balanced body
  | o => replace_balanced o
  end.

Lemma neutral_written o t : written o t -> balanced_item (o, t) -> neutral t.
Proof.
  intros H Hb. destruct H as [o t Hs | o t Hs | o t Hs | items Hne Hall].
  - exact (neutral_spells _ _ Hs).
  - apply (neutral_spells_regex _ _ Hs). destruct Hs; exact Hb || exact I.
  - exact (neutral_spells_raw _ _ Hs).
  - unfold balanced_item in Hb. cbn [fst] in Hb. unfold map_text, kw_map. cbn [app].
    do 4 (apply neutral_cons; [reflexivity|]). apply neutral_braced. apply neutral_pipe_text.
    apply Forall_forall. intros tx Hin. apply in_map_iff in Hin as (it & <- & Hit).
    rewrite Forall_forall in Hall. apply (neutral_written_inner (fst it) (snd it) (Hall it Hit)).
    rewrite Forall_forall in Hb. apply Hb. unfold ops_of. apply in_map. exact Hit.
Qed.

Theorem template_of_written_block dbg items :
  Forall (fun it => written (fst it) (snd it)) items -> followers_ok items -> Forall balanced_item items ->
  template_parse (block_text dbg items)
  = Ok {| t_raw := block_text dbg items; t_sections := [Sec (ops_of items)]; t_debug := dbg |}.
Proof.
  intros Hw Hf Hb. unfold template_parse, try_single_block.
  assert (Hs : is_single_block (block_text dbg items) = true).
  { unfold is_single_block, block_text. rewrite frev_rev, !app_assoc, rev_app_distr. cbn [rev app].
    unfold c_lbrace, c_rbrace. rewrite !N.eqb_refl. cbn [andb]. rewrite frev_rev, rev_involutive.
    assert (Hn : neutral ((if dbg then [33] else []) ++ pipe_text (texts items))).
    { apply neutral_app; [destruct dbg; [apply neutral_plain; reflexivity | apply neutral_nil]|].
      apply neutral_pipe_text. apply Forall_forall. intros t Hin. apply in_map_iff in Hin as (it & <- & Hit).
      rewrite Forall_forall in Hw, Hb. destruct it as [o t]. apply (neutral_written o t (Hw _ Hit) (Hb _ Hit)). }
    rewrite <- (app_nil_r (_ ++ _)), Hn. reflexivity. }
  rewrite Hs, (written_block_roundtrip dbg items Hw Hf). reflexivity.
Qed.
