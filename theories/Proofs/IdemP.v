(* Idempotence laws of the character-level operations (C16) *)
From SP Require Import Model.Impl Model.Spec.
From SP Require Import Proofs.CharOps.

Lemma drop_while_fixed f s :
  match s with [] => True | c :: _ => f c = false end -> drop_while f s = s.
Proof. destruct s as [|c s]; [reflexivity|]. intros H. cbn [drop_while]. rewrite H. reflexivity. Qed.

Lemma drop_while_idem f s : drop_while f (drop_while f s) = drop_while f s.
Proof.
  apply drop_while_fixed. destruct (drop_while_split f s) as (p & _ & _ & Hh). exact Hh.
Qed.

Lemma drop_while_end_idem f s : drop_while_end f (drop_while_end f s) = drop_while_end f s.
Proof.
  unfold drop_while_end. rewrite !frev_rev, rev_involutive, drop_while_idem. reflexivity.
Qed.

(* trimming what is already trimmed changes nothing, for every set and side *)
Theorem trim_idempotent f d s : trim_with f d (trim_with f d s) = trim_with f d s.
Proof.
  destruct d.
  - destruct (trim_shape f TBoth s) as (p & q & _ & _ & _ & _ & _ & Hh & _).
    specialize (Hh ltac:(discriminate)).
    change (trim_with f TBoth (trim_with f TBoth s))
      with (drop_while_end f (drop_while f (trim_with f TBoth s))).
    rewrite (drop_while_fixed f _ Hh). cbn [trim_with]. apply drop_while_end_idem.
  - cbn [trim_with]. apply drop_while_idem.
  - cbn [trim_with]. apply drop_while_end_idem.
Qed.

(* padding what already has the width changes nothing *)
Theorem pad_idempotent w c d s : pad_str w c d (pad_str w c d s) = pad_str w c d s.
Proof.
  pose proof (pad_length w c d s) as HL.
  set (t := pad_str w c d s) in *. unfold pad_str at 1.
  destruct (N.leb_spec w (N.of_nat (length t))) as [_|Hlt]; [reflexivity|]. lia.
Qed.

(* a text at least as wide as requested is returned as it is *)
Theorem pad_wide_enough w c d s : (w <= N.of_nat (length s))%N -> pad_str w c d s = s.
Proof. intros H. unfold pad_str. destruct (N.leb_spec w (N.of_nat (length s))); [reflexivity|lia]. Qed.

(* trimming never touches a text whose ends are outside the set *)
Theorem trim_fixed f d s :
  match s with [] => True | c :: _ => f c = false end ->
  match rev s with [] => True | c :: _ => f c = false end ->
  trim_with f d s = s.
Proof.
  intros Hh Hl.
  assert (He : drop_while_end f s = s).
  { unfold drop_while_end. rewrite !frev_rev, (drop_while_fixed f _ Hl). apply rev_involutive. }
  destruct d; cbn [trim_with]; rewrite ?(drop_while_fixed f _ Hh); auto.
Qed.
