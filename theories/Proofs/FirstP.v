(* What a PEG expression can begin with, computed from the expression, and the
   text carried by every node of every produced tree.  Generic in the grammar:
   the analysis is a function of the regenerated rules, so a rewrite of the
   grammar that keeps the beginnings keeps these proofs. *)
From SP Require Import Model.Peg Proofs.PegP.
From Coq Require Import List NArith Bool Lia. Import ListNotations.

Section F.
Context {rule : Type}.
Notation peg := (peg rule).
Notation tree := (tree rule).

Inductive starter := SLit (s : str) | SRng (lo hi : N) | SAny.

Definition starts (st : starter) (t : str) : Prop :=
  match st with
  | SLit s => exists r, t = s ++ r
  | SRng lo hi => exists c r, t = c :: r /\ (lo <= c)%N /\ (c <= hi)%N
  | SAny => t <> []
  end.

Lemma starts_app st t u : t <> [] -> starts st t -> starts st (t ++ u).
Proof.
  intros Hne. destruct st as [s|lo hi|]; cbn.
  - intros [r ->]. exists (r ++ u). now rewrite app_assoc.
  - intros (c & r & -> & H). exists c, (r ++ u). split; [reflexivity | exact H].
  - intros _ H. apply app_eq_nil in H. tauto.
Qed.

(* may succeed without consuming anything (an over-approximation) *)
Fixpoint nullable (e : peg) : bool :=
  match e with
  | PStr s => match s with [] => true | _ => false end
  | PAny | PRange _ _ => false
  | PEoiTok => true
  | PSeq a b => nullable a && nullable b
  | PAlt a b => nullable a || nullable b
  | PStar _ | POpt _ | PNot _ | PAnd _ => true
  | PPlus a => nullable a
  | PRule _ _ b => nullable b
  end.

(* how a non-empty match of e can begin *)
Fixpoint starters (e : peg) : list starter :=
  match e with
  | PStr s => match s with [] => [] | _ => [SLit s] end
  | PAny => [SAny]
  | PEoiTok => []
  | PRange lo hi => [SRng lo hi]
  | PSeq a b => if nullable a then starters a ++ starters b else starters a
  | PAlt a b => starters a ++ starters b
  | PStar a | PPlus a | POpt a => starters a
  | PNot _ | PAnd _ => []
  | PRule _ _ b => starters b
  end.

Lemma star_nullable_text (f : str -> res rule) (l : list starter) :
  (forall inp t k r, f inp = Some (t, k, r) -> t = [] \/ Exists (fun st => starts st t) l) ->
  forall fuel inp t k r, star_loop f fuel inp = Some (t, k, r) -> t = [] \/ Exists (fun st => starts st t) l.
Proof.
  intros Hf fuel. induction fuel as [|n IH]; intros inp t k r H.
  - rewrite star_loop_0 in H. injection H as <- <- <-. left; reflexivity.
  - rewrite star_loop_S in H. destruct (f inp) as [[[t1 k1] r1]|] eqn:E1.
    + destruct (Nat.ltb (length r1) (length inp)).
      * destruct (star_loop f n r1) as [[[t2 k2] r2]|] eqn:E2; [|discriminate]. injection H as <- <- <-.
        destruct (Hf _ _ _ _ E1) as [->|Hs].
        -- cbn [app]. exact (IH _ _ _ _ E2).
        -- destruct t1 as [|c t1]; [cbn [app]; exact (IH _ _ _ _ E2)|]. right.
           eapply Exists_impl; [|exact Hs]. intros st Hst. apply starts_app; [discriminate | exact Hst].
      * injection H as <- <- <-. left; reflexivity.
    + injection H as <- <- <-. left; reflexivity.
Qed.

Theorem nullable_sound (e : peg) : forall a inp k r, run e a inp = Some ([], k, r) -> nullable e = true.
Proof.
  induction e as [s| | |lo hi|e1 IH1 e2 IH2|e1 IH1 e2 IH2|e IH|e IH|e IH|e IH|e IH|id kd body IH];
    intros a inp k r H; cbn [run] in H; cbn [nullable]; try reflexivity.
  - destruct (strip_prefix s inp); [|discriminate]. injection H as -> _ _. reflexivity.
  - destruct inp; discriminate.
  - destruct inp; [discriminate|]. destruct (_ && _)%bool; discriminate.
  - unfold seq_res in H. destruct (run e1 a inp) as [[[t1 k1] r1]|] eqn:E1; [|discriminate].
    destruct (run e2 a r1) as [[[t2 k2] r2]|] eqn:E2; [|discriminate]. injection H as Ht _ _.
    apply app_eq_nil in Ht. destruct Ht as [-> ->].
    rewrite (IH1 _ _ _ _ E1), (IH2 _ _ _ _ E2). reflexivity.
  - destruct (run e1 a inp) as [[[t1 k1] r1]|] eqn:E1.
    + injection H as -> _ _. rewrite (IH1 _ _ _ _ E1). reflexivity.
    + rewrite (IH2 _ _ _ _ H). apply orb_true_r.
  - unfold seq_res in H. destruct (run e a inp) as [[[t1 k1] r1]|] eqn:E1; [|discriminate].
    destruct (star_loop (run e a) (S (length r1)) r1) as [[[t2 k2] r2]|] eqn:E2; [|discriminate]. injection H as Ht _ _.
    apply app_eq_nil in Ht. destruct Ht as [-> ->]. exact (IH _ _ _ _ E1).
  - destruct kd.
    + destruct (run body a inp) as [[[t1 k1] r1]|] eqn:E1; [|discriminate]. injection H as -> _ _. exact (IH _ _ _ _ E1).
    + destruct (run body true inp) as [[[t1 k1] r1]|] eqn:E1; [|discriminate]. injection H as -> _ _. exact (IH _ _ _ _ E1).
    + exact (IH _ _ _ _ H).
Qed.

Theorem first_sound (e : peg) : forall a inp t k r, run e a inp = Some (t, k, r) ->
  t = [] \/ Exists (fun st => starts st t) (starters e).
Proof.
  induction e as [s| | |lo hi|e1 IH1 e2 IH2|e1 IH1 e2 IH2|e IH|e IH|e IH|e IH|e IH|id kd body IH];
    intros a inp t k r H; cbn [run] in H; cbn [starters].
  - destruct (strip_prefix s inp); [|discriminate]. injection H as <- <- <-.
    destruct s as [|c s]; [left; reflexivity|]. right. constructor. exists []. now rewrite app_nil_r.
  - destruct inp as [|c inp]; [discriminate|]. injection H as <- <- <-. right. constructor. cbn. discriminate.
  - destruct inp; [|discriminate]. injection H as <- <- <-. left; reflexivity.
  - destruct inp as [|c inp]; [discriminate|]. destruct (N.leb lo c && N.leb c hi)%bool eqn:Eb; [|discriminate].
    injection H as <- <- <-. right. constructor. apply andb_true_iff in Eb. destruct Eb as [E1 E2].
    apply N.leb_le in E1. apply N.leb_le in E2. exists c, []. auto.
  - unfold seq_res in H. destruct (run e1 a inp) as [[[t1 k1] r1]|] eqn:E1; [|discriminate].
    destruct (run e2 a r1) as [[[t2 k2] r2]|] eqn:E2; [|discriminate]. injection H as <- <- <-.
    destruct t1 as [|c t1].
    + cbn [app]. rewrite (nullable_sound _ _ _ _ _ E1).
      destruct (IH2 _ _ _ _ _ E2) as [->|Hs]; [left; reflexivity|]. right. apply Exists_app. right. exact Hs.
    + right. destruct (IH1 _ _ _ _ _ E1) as [Hn|Hs]; [discriminate|].
      assert (Hs' : Exists (fun st => starts st ((c :: t1) ++ t2)) (starters e1)).
      { eapply Exists_impl; [|exact Hs]. intros st Hst. apply starts_app; [discriminate | exact Hst]. }
      destruct (nullable e1); [apply Exists_app; left; exact Hs' | exact Hs'].
  - destruct (run e1 a inp) as [[[t1 k1] r1]|] eqn:E1.
    + injection H as <- <- <-. destruct (IH1 _ _ _ _ _ E1) as [->|Hs]; [left; reflexivity|]. right. apply Exists_app. left. exact Hs.
    + destruct (IH2 _ _ _ _ _ H) as [->|Hs]; [left; reflexivity|]. right. apply Exists_app. right. exact Hs.
  - eapply star_nullable_text; [|exact H]. intros. eapply IH. eassumption.
  - unfold seq_res in H. destruct (run e a inp) as [[[t1 k1] r1]|] eqn:E1; [|discriminate].
    destruct (star_loop (run e a) (S (length r1)) r1) as [[[t2 k2] r2]|] eqn:E2; [|discriminate]. injection H as <- <- <-.
    destruct t1 as [|c t1].
    + cbn [app]. eapply star_nullable_text; [|exact E2]. intros. eapply IH. eassumption.
    + right. destruct (IH _ _ _ _ _ E1) as [Hn|Hs]; [discriminate|].
      eapply Exists_impl; [|exact Hs]. intros st Hst. apply starts_app; [discriminate | exact Hst].
  - destruct (run e a inp) as [[[t1 k1] r1]|] eqn:E1.
    + injection H as <- <- <-. exact (IH _ _ _ _ _ E1).
    + injection H as <- <- <-. left; reflexivity.
  - destruct (run e true inp); [discriminate|]. injection H as <- <- <-. left; reflexivity.
  - destruct (run e true inp); [|discriminate]. injection H as <- <- <-. left; reflexivity.
  - destruct kd.
    + destruct (run body a inp) as [[[t1 k1] r1]|] eqn:E1; [|discriminate]. injection H as <- <- <-. exact (IH _ _ _ _ _ E1).
    + destruct (run body true inp) as [[[t1 k1] r1]|] eqn:E1; [|discriminate]. injection H as <- <- <-. exact (IH _ _ _ _ _ E1).
    + exact (IH _ _ _ _ _ H).
Qed.

(* a match of a non-nullable expression consumes something, and begins as computed *)
Corollary first_sound_strict (e : peg) a inp t k r :
  nullable e = false -> run e a inp = Some (t, k, r) -> Exists (fun st => starts st t) (starters e).
Proof.
  intros Hn H. destruct (first_sound e _ _ _ _ _ H) as [->|Hs]; [|exact Hs].
  rewrite (nullable_sound _ _ _ _ _ H) in Hn. discriminate.
Qed.

(* ---- the text of every node is a text its rule matched ---- *)
Section Deep.
Variable root : peg.

Inductive tx_tree : tree -> Prop :=
| tx_eoi : tx_tree (Node None [] [])
| tx_node id kd body txt kids a inp k' r :
    sub root (PRule id kd body) -> run body a inp = Some (txt, k', r) ->
    Forall tx_tree kids -> tx_tree (Node (Some id) txt kids).

Lemma star_tx (a : peg) fuel : forall inp t k r,
  (forall inp t k r, run a false inp = Some (t, k, r) -> Forall tx_tree k) ->
  star_loop (run a false) fuel inp = Some (t, k, r) -> Forall tx_tree k.
Proof.
  intros inp t k r Ha H.
  eapply (star_loop_prop (run a false) (fun _ k _ => Forall tx_tree k)); [constructor | | exact H].
  intros i t1 k1 r1 k2 r2 Hf IH. apply Forall_app. split; [eapply Ha; exact Hf | exact IH].
Qed.

Theorem run_tx (e : peg) : sub root e ->
  forall inp t k r, run e false inp = Some (t, k, r) -> Forall tx_tree k.
Proof.
  induction e as [s| | |lo hi|e1 IH1 e2 IH2|e1 IH1 e2 IH2|e IH|e IH|e IH|e IH|e IH|id kd body IH];
    intros Hsub inp t k r H; cbn [run] in H.
  - destruct (strip_prefix s inp); [|discriminate]. injection H as <- <- <-. constructor.
  - destruct inp; [discriminate|]. injection H as <- <- <-. constructor.
  - destruct inp; [|discriminate]. injection H as <- <- <-. repeat constructor.
  - destruct inp; [discriminate|]. destruct (_ && _)%bool; [|discriminate]. injection H as <- <- <-. constructor.
  - unfold seq_res in H. destruct (run e1 false inp) as [[[t1 k1] r1]|] eqn:E1; [|discriminate].
    destruct (run e2 false r1) as [[[t2 k2] r2]|] eqn:E2; [|discriminate]. injection H as <- <- <-.
    apply Forall_app. split; [eapply IH1; [eapply sub_seq1; exact Hsub | exact E1] | eapply IH2; [eapply sub_seq2; exact Hsub | exact E2]].
  - destruct (run e1 false inp) as [x|] eqn:E1.
    + injection H as ->. eapply IH1; [eapply sub_alt1; exact Hsub | exact E1].
    + eapply IH2; [eapply sub_alt2; exact Hsub | exact H].
  - eapply star_tx; [|exact H]. intros. eapply IH; [eapply sub_star; exact Hsub | eassumption].
  - unfold seq_res in H. destruct (run e false inp) as [[[t1 k1] r1]|] eqn:E1; [|discriminate].
    destruct (star_loop (run e false) (S (length r1)) r1) as [[[t2 k2] r2]|] eqn:E2; [|discriminate]. injection H as <- <- <-.
    apply Forall_app. split; [eapply IH; [eapply sub_plus; exact Hsub | exact E1]|].
    eapply star_tx; [|exact E2]. intros. eapply IH; [eapply sub_plus; exact Hsub | eassumption].
  - destruct (run e false inp) as [x|] eqn:E1.
    + injection H as ->. eapply IH; [eapply sub_opt; exact Hsub | exact E1].
    + injection H as <- <- <-. constructor.
  - destruct (run e true inp); [discriminate|]. injection H as <- <- <-. constructor.
  - destruct (run e true inp); [|discriminate]. injection H as <- <- <-. constructor.
  - destruct kd.
    + destruct (run body false inp) as [[[t1 k1] r1]|] eqn:E1; [|discriminate]. injection H as <- <- <-.
      constructor; [|constructor]. eapply tx_node; [exact Hsub | exact E1 |].
      eapply IH; [eapply sub_rule; exact Hsub | exact E1].
    + destruct (run body true inp) as [[[t1 k1] r1]|] eqn:E1; [|discriminate]. injection H as <- <- <-.
      constructor; [|constructor]. eapply tx_node; [exact Hsub | exact E1 | constructor].
    + eapply IH; [eapply sub_rule; exact Hsub | exact H].
Qed.

(* a property of (rule, text) that holds of every node, at any depth *)
Inductive every_node (P : rule -> str -> Prop) : tree -> Prop :=
| en_eoi txt kids : every_node P (Node None txt kids)
| en_node id txt kids : P id txt -> Forall (every_node P) kids -> every_node P (Node (Some id) txt kids).

(* per-occurrence check, as in PegP: begin : rule -> option (documented beginnings) *)
Variable begin : rule -> option (list starter).
Variable starter_eqb : starter -> starter -> bool.
Hypothesis starter_eqb_eq : forall a b, starter_eqb a b = true -> a = b.

Definition chk_begin (id : rule) (kd : rkind) (body : peg) : bool :=
  match begin id with
  | Some l => negb (nullable body) && forallb (fun st => existsb (starter_eqb st) l) (starters body)
  | None => true
  end.

Definition begins_right (id : rule) (txt : str) : Prop :=
  forall l, begin id = Some l -> Exists (fun st => starts st txt) l.

Lemma tx_every (t : tree) : all_rules chk_begin root = true -> tx_tree t -> every_node begins_right t.
Proof.
  intros Hall. revert t.
  fix IH 2. intros t Ht. destruct Ht as [|id kd body txt kids a inp k' r Hsub Hrun Hkids].
  - constructor.
  - constructor.
    + intros l Hl. pose proof (chk_of_sub root chk_begin id kd body Hall Hsub) as Hc.
      unfold chk_begin in Hc. rewrite Hl in Hc. apply andb_true_iff in Hc. destruct Hc as [Hn Hf].
      apply negb_true_iff in Hn.
      pose proof (first_sound_strict body a inp txt k' r Hn Hrun) as Hs.
      apply Exists_exists in Hs. destruct Hs as (st & Hin & Hst).
      rewrite forallb_forall in Hf. specialize (Hf st Hin). apply existsb_exists in Hf.
      destruct Hf as (st' & Hin' & He). apply starter_eqb_eq in He. subst st'.
      apply Exists_exists. exists st. split; assumption.
    + induction Hkids as [|x xs Hx Hxs IHk]; constructor; [apply IH; exact Hx | exact IHk].
Qed.

Theorem every_node_begins_right inp t k r :
  all_rules chk_begin root = true ->
  run root false inp = Some (t, k, r) -> Forall (every_node begins_right) k.
Proof.
  intros Hall H. pose proof (run_tx root (sub_refl root) _ _ _ _ H) as Htx.
  clear H. induction Htx as [|x xs Hx Hxs IH]; [apply Forall_nil | apply Forall_cons; [apply tx_every; assumption | exact IH]].
Qed.

(* ---- a rule that is a name followed by its arguments ---- *)
(* after id = Some (name, mandatory, l): the documented form of rule id is the literal name, then
   (mandatory: always / otherwise: possibly) something that begins as l says *)
Variable after : rule -> option (str * bool * list starter).
Variable str_eqb' : str -> str -> bool.
Hypothesis str_eqb'_eq : forall a b, str_eqb' a b = true -> a = b.

Definition chk_after (id : rule) (kd : rkind) (body : peg) : bool :=
  match after id with
  | Some (name, mandatory, l) =>
      match body with
      | PStr s => str_eqb' s name && negb mandatory
      | PSeq (PStr s) rest =>
          str_eqb' s name && (negb mandatory || negb (nullable rest))
          && forallb (fun st => existsb (starter_eqb st) l) (starters rest)
      | _ => false
      end
  | None => true
  end.

Definition after_right (id : rule) (txt : str) : Prop :=
  forall name mandatory l, after id = Some (name, mandatory, l) ->
    exists u, txt = name ++ u /\ ((u = [] /\ mandatory = false) \/ Exists (fun st => starts st u) l).

Lemma tx_every_after (t : tree) : all_rules chk_after root = true -> tx_tree t -> every_node after_right t.
Proof.
  intros Hall. revert t.
  fix IH 2. intros t Ht. destruct Ht as [|id kd body txt kids a inp k' r Hsub Hrun Hkids].
  - constructor.
  - constructor.
    + intros name mandatory l Hl. pose proof (chk_of_sub root chk_after id kd body Hall Hsub) as Hc.
      unfold chk_after in Hc. rewrite Hl in Hc.
      destruct body as [s| | | |e1 e2| | | | | | |]; try discriminate Hc.
      * apply andb_true_iff in Hc. destruct Hc as [Hs Hm]. apply str_eqb'_eq in Hs. subst s.
        apply negb_true_iff in Hm. cbn [run] in Hrun. destruct (strip_prefix name inp); [|discriminate].
        injection Hrun as <- _ _. exists []. split; [now rewrite app_nil_r | left; split; [reflexivity | exact Hm]].
      * destruct e1 as [s| | | | | | | | | | |]; try discriminate Hc.
        apply andb_true_iff in Hc. destruct Hc as [Hc Hf]. apply andb_true_iff in Hc. destruct Hc as [Hs Hm].
        apply str_eqb'_eq in Hs. subst s. cbn [run] in Hrun. unfold seq_res in Hrun.
        destruct (strip_prefix name inp) as [r1|]; [|discriminate].
        destruct (run e2 a r1) as [[[t2 k2] r2]|] eqn:E2; [|discriminate]. injection Hrun as <- _ _.
        exists t2. split; [reflexivity|].
        destruct (first_sound e2 _ _ _ _ _ E2) as [->|Hst].
        -- left. split; [reflexivity|]. apply orb_true_iff in Hm. destruct Hm as [Hm|Hm].
           ++ now apply negb_true_iff in Hm.
           ++ apply negb_true_iff in Hm. rewrite (nullable_sound _ _ _ _ _ E2) in Hm. discriminate.
        -- right. apply Exists_exists in Hst. destruct Hst as (st & Hin & Hst).
           rewrite forallb_forall in Hf. specialize (Hf st Hin). apply existsb_exists in Hf.
           destruct Hf as (st' & Hin' & He). apply starter_eqb_eq in He. subst st'.
           apply Exists_exists. exists st. split; assumption.
    + induction Hkids as [|x xs Hx Hxs IHk]; constructor; [apply IH; exact Hx | exact IHk].
Qed.

Theorem every_node_after_right inp t k r :
  all_rules chk_after root = true ->
  run root false inp = Some (t, k, r) -> Forall (every_node after_right) k.
Proof.
  intros Hall H. pose proof (run_tx root (sub_refl root) _ _ _ _ H) as Htx.
  clear H. induction Htx as [|x xs Hx Hxs IH]; [apply Forall_nil | apply Forall_cons; [apply tx_every_after; assumption | exact IH]].
Qed.

End Deep.
End F.
