(* C16: trimming the pad character off a padded text gives the text back, when the
   text does not itself begin or end with that character *)
From SP Require Import Model.Impl Model.Spec.
From SP Require Import Proofs.CharOps Proofs.IdemP.

Lemma drop_while_repeat f c n t : f c = true -> drop_while f (repeat_cp c n ++ t) = drop_while f t.
Proof. intros Hc. induction n as [|n IH]; [reflexivity|]. cbn [repeat_cp app drop_while]. rewrite Hc. exact IH. Qed.

Lemma rev_repeat_cp c n : rev (repeat_cp c n) = repeat_cp c n.
Proof.
  induction n as [|n IH]; [reflexivity|]. cbn [repeat_cp rev]. rewrite IH.
  clear IH. induction n as [|n IH]; [reflexivity|]. cbn [repeat_cp app]. f_equal. exact IH.
Qed.

Lemma drop_while_end_repeat f c n t : f c = true -> drop_while_end f (t ++ repeat_cp c n) = drop_while_end f t.
Proof.
  intros Hc. unfold drop_while_end. rewrite !frev_rev, rev_app_distr, rev_repeat_cp, drop_while_repeat by exact Hc.
  reflexivity.
Qed.

Theorem trim_undoes_pad (f : N -> bool) (w c : N) (d : pdir) (s : str) :
  f c = true ->
  match s with [] => True | x :: _ => f x = false end ->
  match rev s with [] => True | x :: _ => f x = false end ->
  trim_with f TBoth (pad_str w c d s) = s.
Proof.
  intros Hc Hh Hl. destruct (pad_shape w c d s) as (l & r & -> & _ & _).
  cbn [trim_with]. rewrite drop_while_repeat by exact Hc.
  destruct s as [|x s].
  - cbn [app]. rewrite <- (app_nil_r (repeat_cp c r)), drop_while_repeat by exact Hc. reflexivity.
  - rewrite (drop_while_fixed f ((x :: s) ++ repeat_cp c r)) by exact Hh.
    rewrite drop_while_end_repeat by exact Hc.
    unfold drop_while_end. rewrite !frev_rev, (drop_while_fixed _ _ Hl). apply rev_involutive.
Qed.

(* the side condition is needed: a text that ends with the pad character loses it *)
Example trim_undoes_pad_needs_clean_ends :
  trim_with (N.eqb 42) TBoth (pad_str 5 42 PLeft [97; 42]%N) = [97]%N.
Proof. vm_compute. reflexivity. Qed.

(* the pad operation followed by the trim operation with the pad character as its set *)
Corollary trim_op_undoes_pad_op (w c : N) (d : pdir) (s : str) :
  is_ws c = false ->
  match s with [] => True | x :: _ => N.eqb x c = false end ->
  match rev s with [] => True | x :: _ => N.eqb x c = false end ->
  trim_with (trim_pred [c]) TBoth (pad_str w c d s) = s.
Proof.
  intros Hw Hh Hl.
  assert (Hp : forall x, trim_pred [c] x = N.eqb x c).
  { intros x. rewrite trim_custom_set by (cbn [forallb]; rewrite Hw; reflexivity).
    unfold mem_cp. cbn [existsb]. apply orb_false_r. }
  apply trim_undoes_pad.
  - rewrite Hp. apply N.eqb_refl.
  - destruct s as [|x s']; [exact I | rewrite Hp; exact Hh].
  - destruct (rev s) as [|x s']; [exact I | rewrite Hp; exact Hl].
Qed.
