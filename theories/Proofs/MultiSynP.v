(* Mixed templates: literal text, ${...} groups and blocks in ANY documented spelling.
   ScannerP.scan_assemble needs, for every section, that its text parses alone; FullSynP
   provides that for every written block (all twenty operations), so the premise disappears. *)
From SP Require Import Model.Syntax Model.Scanner Proofs.PegP Proofs.SyntaxP Proofs.ArgP Proofs.NumP
  Proofs.RangeSynP Proofs.OpSynP Proofs.RegexSynP Proofs.BlockSynP Proofs.FullSynP Proofs.ScannerP.
Local Open Scope N_scope.

Definition block_inner (dbg : bool) (items : list item) : str :=
  (if dbg then [33] else []) ++ pipe_text (texts items).
Definition spelled_seg (dbg : bool) (items : list item) : seg :=
  SSec (block_inner dbg items) (ops_of items) dbg.

Lemma block_text_inner dbg items : block_text dbg items = c_lbrace :: block_inner dbg items ++ [c_rbrace].
Proof. unfold block_text, block_inner, c_lbrace, c_rbrace. rewrite <- app_assoc. reflexivity. Qed.

(* a block as a user writes it: every operation in a documented spelling, a bare regex argument
   not followed by the digit shorthand, braces inside s/../../ parts balanced *)
Definition good_block (items : list item) : Prop :=
  Forall (fun it => written (fst it) (snd it)) items /\ followers_ok items /\ Forall balanced_item items.

Lemma block_inner_balanced dbg items : good_block items ->
  single_scan (block_inner dbg items) 0 false = Some (0%nat, false).
Proof.
  intros (Hw & _ & Hb).
  assert (Hn : neutral (block_inner dbg items)).
  { unfold block_inner. apply neutral_app; [destruct dbg; [apply neutral_plain; reflexivity | apply neutral_nil]|].
    apply neutral_pipe_text. apply Forall_forall. intros t Hin. apply in_map_iff in Hin as (it & <- & Hit).
    rewrite Forall_forall in Hw, Hb. destruct it as [o t]. apply (neutral_written o t (Hw _ Hit) (Hb _ Hit)). }
  rewrite <- (app_nil_r (block_inner dbg items)), Hn. reflexivity.
Qed.

Lemma spelled_seg_ok st dbg items : good_block items -> not_after_dollar st ->
  seg_ok st (spelled_seg dbg items).
Proof.
  intros Hall Hnd. cbn [spelled_seg seg_ok]. split; [exact Hnd|]. split; [apply block_inner_balanced; exact Hall|].
  rewrite <- block_text_inner. destruct Hall as (Hw & Hf & _). apply written_block_roundtrip; assumption.
Qed.

(* segments: literal text without '{', ${...} groups, spelled blocks *)
Inductive pseg :=
| PLit (l : str)
| PShell (body : str)
| PBlock (dbg : bool) (items : list item).
Definition to_seg (p : pseg) : seg :=
  match p with PLit l => SLit l | PShell b => SShell b | PBlock d items => spelled_seg d items end.
Definition pseg_ok (st : sstate) (p : pseg) : Prop :=
  match p with
  | PLit l => existsb (N.eqb c_lbrace) l = false
  | PShell b => (exists l, st_lit_rev st = c_dollar :: l) /\ shell_scan b 0 = Some 0%nat
  | PBlock d items => not_after_dollar st /\ good_block items
  end.
Fixpoint psegs_ok (st : sstate) (ps : list pseg) : Prop :=
  match ps with [] => True | p :: rest => pseg_ok st p /\ psegs_ok (seg_next st (to_seg p)) rest end.

Lemma psegs_segs_ok ps : forall st, psegs_ok st ps -> segs_ok st (map to_seg ps).
Proof.
  induction ps as [|p ps IH]; intros st H; [exact I|]. destruct H as [Hp Hrest]. cbn [map segs_ok]. split; [|apply IH; exact Hrest].
  destruct p as [l|b|d items]; cbn [to_seg pseg_ok] in *; [exact Hp | exact Hp |].
  destruct Hp as [Hnd Hall]. apply spelled_seg_ok; assumption.
Qed.

(* C02 + C04: the scanner and the grammar together, for whole mixed templates *)
Theorem multi_template_of_spelled_segments ps : psegs_ok scan_init ps ->
  parse_multi_template (assemble (map to_seg ps))
  = let st := fold_left seg_next (map to_seg ps) scan_init in Ok (frev (flush_literal st), st_dbg st).
Proof. intros H. apply scan_assemble. apply psegs_segs_ok. exact H. Qed.

(* the common shape  lit0 {block1} lit1 {block2} ... : literal text free of braces and '$' *)
Definition plain_lit (l : str) : bool := negb (existsb (fun c => (N.eqb c c_lbrace || N.eqb c c_dollar)%bool) l).
Inductive piece := Text (l : str) | Block (dbg : bool) (items : list item).
Definition piece_seg (p : piece) : pseg := match p with Text l => PLit l | Block d items => PBlock d items end.
Definition piece_ok (p : piece) : Prop :=
  match p with Text l => plain_lit l = true | Block _ items => good_block items end.

Lemma plain_lit_no_lbrace l : plain_lit l = true -> existsb (N.eqb c_lbrace) l = false.
Proof.
  unfold plain_lit. rewrite negb_true_iff. induction l as [|c l IH]; [reflexivity|]. cbn [existsb].
  rewrite !orb_false_iff. intros [[H1 H2] H3]. split; [rewrite N.eqb_sym; exact H1 | apply IH; exact H3].
Qed.

Definition no_dollar_end (st : sstate) : Prop := Forall (fun c => N.eqb c c_dollar = false) (st_lit_rev st).

Lemma pieces_ok ps : Forall piece_ok ps -> forall st, no_dollar_end st -> psegs_ok st (map piece_seg ps).
Proof.
  induction 1 as [|p ps Hp _ IH]; intros st Hst; [exact I|]. cbn [map psegs_ok]. split.
  - destruct p as [l|d items]; cbn [piece_seg pseg_ok piece_ok] in *; [apply plain_lit_no_lbrace; exact Hp|].
    split; [|exact Hp]. unfold not_after_dollar. unfold no_dollar_end in Hst. destruct (st_lit_rev st) as [|c r]; [exact I|].
    inversion Hst; assumption.
  - apply IH. destruct p as [l|d items]; cbn [piece_seg to_seg seg_next spelled_seg].
    + unfold no_dollar_end, with_lit in *. cbn [st_lit_rev]. apply Forall_app. split; [|exact Hst].
      apply Forall_forall. intros c Hc. apply in_rev in Hc. cbn [piece_ok] in Hp. unfold plain_lit in Hp. rewrite negb_true_iff in Hp.
      destruct (N.eqb c c_dollar) eqn:E; [|reflexivity]. exfalso.
      assert (Hex : existsb (fun c => (N.eqb c c_lbrace || N.eqb c c_dollar)%bool) l = true).
      { apply existsb_exists. exists c. split; [exact Hc | rewrite E; apply orb_true_r]. }
      congruence.
    + unfold no_dollar_end, after_section. cbn [st_lit_rev]. constructor.
Qed.

Theorem template_of_pieces ps : Forall piece_ok ps ->
  parse_multi_template (assemble (map to_seg (map piece_seg ps)))
  = let st := fold_left seg_next (map to_seg (map piece_seg ps)) scan_init in Ok (frev (flush_literal st), st_dbg st).
Proof.
  intros H. apply multi_template_of_spelled_segments. apply pieces_ok; [exact H | constructor].
Qed.

(* non-vacuity and what the right-hand side is: "id={1..3|upper} / {!quote:'}." *)
Example template_of_pieces_example :
  let b1 : list item := [(Split space_sep (Range (Some 1%Z) (Some 3%Z) false), print_range (Range (Some 1%Z) (Some 3%Z) false)); (Upper, print_simple Upper)] in
  let b2 : list item := [(Surround [39], kw_quote ++ 58 :: esc [39])] in
  let ps := [Text [105; 100; 61]; Block false b1; Text [32; 47; 32]; Block true b2; Text [46]] in
  parse_multi_template (assemble (map to_seg (map piece_seg ps)))
  = Ok ([Lit [105; 100; 61]; Sec [Split space_sep (Range (Some 1%Z) (Some 3%Z) false); Upper]; Lit [32; 47; 32]; Sec [Surround [39]]; Lit [46]], true).
Proof. vm_compute. reflexivity. Qed.
