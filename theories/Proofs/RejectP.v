(* C12, universally: a block written by the canonical printer is accepted EXACTLY when every
   number in it is inside the machine range -- for any pipeline, any arguments, any numbers,
   however large; and pipelines with an empty segment are refused. *)
From SP Require Import Model.Syntax Model.Scanner Proofs.PegP Proofs.SyntaxP Proofs.ArgP Proofs.NumP
  Proofs.RangeSynP Proofs.OpSynP Proofs.BlockSynP.
Local Open Scope N_scope.

Lemma mapM_conv_simple l : mapM conv_simple l = if forallb simple_ok l then Ok l else Err.
Proof.
  induction l as [|o l IH]; [reflexivity|]. cbn [mapM forallb]. unfold conv_simple at 1.
  destruct (simple_ok o); cbn [bind andb]; [|reflexivity]. rewrite IH. destruct (forallb simple_ok l); reflexivity.
Qed.

(* ---- map bodies ------------------------------------------------------------------------------- *)
Definition shaped_inner (o : op) (txt rest : str) : Prop := shape_ok o = true /\ txt = print_simple o /\ op_stops rest.

Lemma shaped_inner_sound o txt rest : shaped_inner o txt rest ->
  exists k, run r_map_inner_operation false (txt ++ rest) = Some (txt, [Node (Some R_map_inner_operation) txt [k]], rest)
            /\ parse_map_inner_operation k = conv_simple o.
Proof. intros (Hs & -> & Hst). exact (inner_reads_shape o rest Hs Hst). Qed.

Lemma shaped_chain body rest : forallb shape_ok body = true -> op_stops rest ->
  chain shaped_inner (map canon_simple body) rest.
Proof.
  intros Hall Hst. induction body as [|o body IH]; [exact I|]. cbn [forallb] in Hall. apply andb_true_iff in Hall as [Ho Hb].
  cbn [map chain]. split; [|apply IH; exact Hb]. unfold canon_simple at 1. cbn [fst snd]. split; [exact Ho|]. split; [reflexivity|]. apply pipe_tail_stops.
Qed.

Definition conv_map (body : list op) : outcome op := if forallb simple_ok body then Ok (Map body) else Err.

Lemma run_map_shape o body rest : forallb shape_ok (o :: body) = true -> op_stops rest ->
  exists k, run r_map false (print_op (Map (o :: body)) ++ rest) = Some (print_op (Map (o :: body)), [k], rest)
            /\ parse_operation k = conv_map (o :: body).
Proof.
  intros Hall Hst.
  destruct (run_pipe_ctx r_map_inner_operation R_map_inner_operation shaped_inner parse_map_inner_operation conv_simple
              shaped_inner_sound R_map_operation_list (canon_simple o) (map canon_simple body) rest
              (shaped_chain (o :: body) rest Hall Hst)) as (kids & Hrun & Hm).
  fold r_map_operation_list in Hrun.
  change (canon_simple o :: map canon_simple body) with (map canon_simple (o :: body)) in *.
  unfold canon_simple in Hrun, Hm. rewrite <- (print_pipe_items print_simple (o :: body)) in Hrun.
  rewrite (ops_of_items print_simple (o :: body)), mapM_conv_simple in Hm.
  set (btxt := print_pipe print_simple (o :: body)) in *.
  eexists. split.
  - cbn [print_op]. fold btxt. unfold kw_map. unfold r_map. rewrite run_rule_normal, run_seq, <- app_assoc, run_str, seq_res_some, run_seq.
    rewrite <- !app_comm_cons.
    change (58 :: 123 :: (btxt ++ [125]) ++ rest) with ([58] ++ 123 :: (btxt ++ [125]) ++ rest).
    rewrite run_str, seq_res_some. unfold r_map_operation. rewrite run_rule_normal, run_seq.
    change (123 :: (btxt ++ [125]) ++ rest) with ([123] ++ (btxt ++ [125]) ++ rest).
    rewrite run_str, seq_res_some, run_seq, <- app_assoc.
    change ([125] ++ rest) with (125 :: rest). rewrite Hrun, seq_res_some.
    change (125 :: rest) with ([125] ++ rest). rewrite run_str.
    cbn [app]. rewrite ?app_nil_r. reflexivity.
  - unfold parse_operation. cbn [t_rule]. unfold parse_map_operation. cbn [t_kids unwrap_first bind].
    change (mapM (fun op_pair : ptree => bind (unwrap_first (t_kids op_pair)) parse_map_inner_operation) kids)
      with (mapM (conv_kid parse_map_inner_operation) kids).
    rewrite Hm. unfold conv_map. destruct (forallb simple_ok (o :: body)); reflexivity.
Qed.

(* ---- top level ---------------------------------------------------------------------------------- *)
Definition shape_top (o : op) : bool :=
  match o with
  | Map body => (match body with [] => false | _ => true end && forallb shape_ok body)%bool
  | _ => shape_ok o
  end.
Definition conv_top (o : op) : outcome op := if printable o then Ok o else Err.
Definition shaped_top (o : op) (txt rest : str) : Prop := shape_top o = true /\ txt = print_op o /\ op_stops rest.

Lemma shaped_top_sound o txt rest : shaped_top o txt rest ->
  exists k, run r_operation false (txt ++ rest) = Some (txt, [Node (Some R_operation) txt [k]], rest)
            /\ parse_operation k = conv_top o.
Proof.
  intros (Hs & -> & Hst). destruct o;
    try (exact (operation_reads_shape _ rest Hs Hst)); try discriminate Hs.
  cbn [shape_top] in Hs. destruct body as [|o body]; [discriminate|]. cbn [andb] in Hs.
  destruct (run_map_shape o body rest Hs Hst) as (k & Hk & Hc). exists k. split.
  - unfold r_operation. rewrite run_rule_normal. cbn [run].
    cbn [print_op] in *. unfold kw_map in *. repeat (rewrite <- app_assoc || rewrite <- app_comm_cons). cbn [app].
    kill_alts.
    repeat (rewrite <- app_assoc in Hk || rewrite <- app_comm_cons in Hk). cbn [app] in Hk.
    rewrite Hk. reflexivity.
  - rewrite Hc. unfold conv_map, conv_top. cbn [printable andb]. reflexivity.
Qed.

Lemma mapM_conv_top l : mapM conv_top l = if forallb printable l then Ok l else Err.
Proof.
  induction l as [|o l IH]; [reflexivity|]. cbn [mapM forallb]. unfold conv_top at 1.
  destruct (printable o); cbn [bind andb]; [|reflexivity]. rewrite IH. destruct (forallb printable l); reflexivity.
Qed.

Lemma shaped_top_chain ops : forallb shape_top ops = true -> chain shaped_top (map canon ops) [].
Proof.
  intros Hall. induction ops as [|o ops IH]; [exact I|]. cbn [forallb] in Hall. apply andb_true_iff in Hall as [Ho Hb].
  cbn [map chain]. split; [|apply IH; exact Hb]. unfold canon at 1. cbn [fst snd]. split; [exact Ho|]. split; [reflexivity|]. apply pipe_tail_stops.
Qed.

Lemma shape_top_head o : shape_top o = true -> exists c t, print_op o = c :: t /\ N.eqb 33 c = false.
Proof.
  destruct o as [sep r|sep|? ? ?| | |chars d|r|s|s|s| |?|?|r|body|d| | |w c d|? ?]; intros H; try discriminate H;
    try (eexists; eexists; split; [reflexivity | reflexivity]).
  - destruct chars; eexists; eexists; split; reflexivity.
  - destruct d; eexists; eexists; split; reflexivity.
Qed.

(* THE THEOREM *)
Theorem printed_block_accepted_iff_in_range (dbg : bool) (ops : list op) : forallb shape_top ops = true ->
  parse_template (123 :: (if dbg then [33] else []) ++ print_pipe print_op ops ++ [125])
  = if forallb printable ops then Ok (ops, dbg) else Err.
Proof.
  intros Hall. destruct ops as [|o ops]; [destruct dbg; reflexivity|].
  destruct (run_pipe_ctx r_operation R_operation shaped_top parse_operation conv_top shaped_top_sound R_operation_list
              (canon o) (map canon ops) [] (shaped_top_chain (o :: ops) Hall)) as (kids & Hrun & Hm).
  fold r_operation_list in Hrun.
  change (canon o :: map canon ops) with (map canon (o :: ops)) in *.
  unfold canon in Hrun, Hm. rewrite <- (print_pipe_items print_op (o :: ops)) in Hrun.
  rewrite (ops_of_items print_op (o :: ops)), mapM_conv_top in Hm.
  rewrite (template_around_list dbg _ kids (if forallb printable (o :: ops) then Ok (o :: ops) else Err) Hrun); [destruct (forallb printable (o :: ops)); reflexivity| |exact Hm].
  - cbn [forallb] in Hall. apply andb_true_iff in Hall as [Ho _]. destruct (shape_top_head o Ho) as (c & t & E & Hc).
    rewrite print_pipe_cons, E. exists c. eexists. split; [rewrite <- !app_assoc, <- app_comm_cons; reflexivity | exact Hc].
Qed.
