(* C12, universally: a block written by the canonical printer is accepted EXACTLY when every
   number in it is inside the machine range -- for any pipeline, any arguments, any numbers,
   however large; and pipelines with an empty segment are refused. *)
From SP Require Import Model.Syntax Model.Scanner Proofs.PegP Proofs.SyntaxP Proofs.ArgP Proofs.NumP
  Proofs.RangeSynP Proofs.OpSynP Proofs.BlockSynP Proofs.ScannerP.
Local Open Scope N_scope.

Lemma mapM_conv_simple l : mapM conv_simple l = if forallb simple_ok l then Ok l else Err.
Proof.
  induction l as [|o l IH]; [reflexivity|]. cbn [mapM forallb]. unfold conv_simple at 1.
  destruct (simple_ok o); cbn [bind andb]; [|reflexivity]. rewrite IH. destruct (forallb simple_ok l); reflexivity.
Qed.

(* ---- map bodies ------------------------------------------------------------------------------- *)
Definition shaped_inner (o : op) (txt rest : str) : Prop := shape_ok o = true /\ txt = print_simple o /\ op_stops rest.

Lemma shaped_inner_sound o txt rest : shaped_inner o txt rest ->
  exists k, run r_map_inner_operation false (txt ++ rest) = Some (txt, [Node (Some R_map_inner_operation) txt [k]], rest)
            /\ parse_map_inner_operation k = conv_simple o.
Proof. intros (Hs & -> & Hst). exact (inner_reads_shape o rest Hs Hst). Qed.

Lemma shaped_chain body rest : forallb shape_ok body = true -> op_stops rest ->
  chain shaped_inner (map canon_simple body) rest.
Proof.
  intros Hall Hst. induction body as [|o body IH]; [exact I|]. cbn [forallb] in Hall. apply andb_true_iff in Hall as [Ho Hb].
  cbn [map chain]. split; [|apply IH; exact Hb]. unfold canon_simple at 1. cbn [fst snd]. split; [exact Ho|]. split; [reflexivity|]. apply pipe_tail_stops.
Qed.

Definition conv_map (body : list op) : outcome op := if forallb simple_ok body then Ok (Map body) else Err.

Lemma run_map_shape o body rest : forallb shape_ok (o :: body) = true -> op_stops rest ->
  exists k, run r_map false (print_op (Map (o :: body)) ++ rest) = Some (print_op (Map (o :: body)), [k], rest)
            /\ parse_operation k = conv_map (o :: body).
Proof.
  intros Hall Hst.
  destruct (run_pipe_ctx r_map_inner_operation R_map_inner_operation shaped_inner parse_map_inner_operation conv_simple
              shaped_inner_sound R_map_operation_list (canon_simple o) (map canon_simple body) rest
              (shaped_chain (o :: body) rest Hall Hst)) as (kids & Hrun & Hm).
  fold r_map_operation_list in Hrun.
  change (canon_simple o :: map canon_simple body) with (map canon_simple (o :: body)) in *.
  unfold canon_simple in Hrun, Hm. rewrite <- (print_pipe_items print_simple (o :: body)) in Hrun.
  rewrite (ops_of_items print_simple (o :: body)), mapM_conv_simple in Hm.
  set (btxt := print_pipe print_simple (o :: body)) in *.
  eexists. split.
  - cbn [print_op]. fold btxt. unfold kw_map. unfold r_map. rewrite run_rule_normal, run_seq, <- app_assoc, run_str, seq_res_some, run_seq.
    rewrite <- !app_comm_cons.
    change (58 :: 123 :: (btxt ++ [125]) ++ rest) with ([58] ++ 123 :: (btxt ++ [125]) ++ rest).
    rewrite run_str, seq_res_some. unfold r_map_operation. rewrite run_rule_normal, run_seq.
    change (123 :: (btxt ++ [125]) ++ rest) with ([123] ++ (btxt ++ [125]) ++ rest).
    rewrite run_str, seq_res_some, run_seq, <- app_assoc.
    change ([125] ++ rest) with (125 :: rest). rewrite Hrun, seq_res_some.
    change (125 :: rest) with ([125] ++ rest). rewrite run_str.
    cbn [app]. rewrite ?app_nil_r. reflexivity.
  - unfold parse_operation. cbn [t_rule]. unfold parse_map_operation. cbn [t_kids unwrap_first bind].
    change (mapM (fun op_pair : ptree => bind (unwrap_first (t_kids op_pair)) parse_map_inner_operation) kids)
      with (mapM (conv_kid parse_map_inner_operation) kids).
    rewrite Hm. unfold conv_map. destruct (forallb simple_ok (o :: body)); reflexivity.
Qed.

(* ---- top level ---------------------------------------------------------------------------------- *)
Definition shape_top (o : op) : bool :=
  match o with
  | Map body => (match body with [] => false | _ => true end && forallb shape_ok body)%bool
  | _ => shape_ok o
  end.
Definition conv_top (o : op) : outcome op := if printable o then Ok o else Err.
Definition shaped_top (o : op) (txt rest : str) : Prop := shape_top o = true /\ txt = print_op o /\ op_stops rest.

Lemma shaped_top_sound o txt rest : shaped_top o txt rest ->
  exists k, run r_operation false (txt ++ rest) = Some (txt, [Node (Some R_operation) txt [k]], rest)
            /\ parse_operation k = conv_top o.
Proof.
  intros (Hs & -> & Hst). destruct o;
    try (exact (operation_reads_shape _ rest Hs Hst)); try discriminate Hs.
  cbn [shape_top] in Hs. destruct body as [|o body]; [discriminate|]. cbn [andb] in Hs.
  destruct (run_map_shape o body rest Hs Hst) as (k & Hk & Hc). exists k. split.
  - unfold r_operation. rewrite run_rule_normal. cbn [run].
    cbn [print_op] in *. unfold kw_map in *. repeat (rewrite <- app_assoc || rewrite <- app_comm_cons). cbn [app].
    kill_alts.
    repeat (rewrite <- app_assoc in Hk || rewrite <- app_comm_cons in Hk). cbn [app] in Hk.
    rewrite Hk. reflexivity.
  - rewrite Hc. unfold conv_map, conv_top. cbn [printable andb]. reflexivity.
Qed.

Lemma mapM_conv_top l : mapM conv_top l = if forallb printable l then Ok l else Err.
Proof.
  induction l as [|o l IH]; [reflexivity|]. cbn [mapM forallb]. unfold conv_top at 1.
  destruct (printable o); cbn [bind andb]; [|reflexivity]. rewrite IH. destruct (forallb printable l); reflexivity.
Qed.

Lemma shaped_top_chain ops : forallb shape_top ops = true -> chain shaped_top (map canon ops) [].
Proof.
  intros Hall. induction ops as [|o ops IH]; [exact I|]. cbn [forallb] in Hall. apply andb_true_iff in Hall as [Ho Hb].
  cbn [map chain]. split; [|apply IH; exact Hb]. unfold canon at 1. cbn [fst snd]. split; [exact Ho|]. split; [reflexivity|]. apply pipe_tail_stops.
Qed.

Lemma shape_top_head o : shape_top o = true -> exists c t, print_op o = c :: t /\ N.eqb 33 c = false.
Proof.
  destruct o as [sep r|sep|? ? ?| | |chars d|r|s|s|s| |?|?|r|body|d| | |w c d|? ?]; intros H; try discriminate H;
    try (eexists; eexists; split; [reflexivity | reflexivity]).
  - destruct chars; eexists; eexists; split; reflexivity.
  - destruct d; eexists; eexists; split; reflexivity.
Qed.

(* THE THEOREM *)
Theorem printed_block_accepted_iff_in_range (dbg : bool) (ops : list op) : forallb shape_top ops = true ->
  parse_template (123 :: (if dbg then [33] else []) ++ print_pipe print_op ops ++ [125])
  = if forallb printable ops then Ok (ops, dbg) else Err.
Proof.
  intros Hall. destruct ops as [|o ops]; [destruct dbg; reflexivity|].
  destruct (run_pipe_ctx r_operation R_operation shaped_top parse_operation conv_top shaped_top_sound R_operation_list
              (canon o) (map canon ops) [] (shaped_top_chain (o :: ops) Hall)) as (kids & Hrun & Hm).
  fold r_operation_list in Hrun.
  change (canon o :: map canon ops) with (map canon (o :: ops)) in *.
  unfold canon in Hrun, Hm. rewrite <- (print_pipe_items print_op (o :: ops)) in Hrun.
  rewrite (ops_of_items print_op (o :: ops)), mapM_conv_top in Hm.
  rewrite (template_around_list dbg _ kids (if forallb printable (o :: ops) then Ok (o :: ops) else Err) Hrun); [destruct (forallb printable (o :: ops)); reflexivity| |exact Hm].
  - cbn [forallb] in Hall. apply andb_true_iff in Hall as [Ho _]. destruct (shape_top_head o Ho) as (c & t & E & Hc).
    rewrite print_pipe_cons, E. exists c. eexists. split; [rewrite <- !app_assoc, <- app_comm_cons; reflexivity | exact Hc].
Qed.

(* ---- empty pipeline segments ------------------------------------------------------------------- *)
Lemma operation_fails_on_pipe w : run r_operation false (124 :: w) = None.
Proof. reflexivity. Qed.
Lemma operation_fails_on_close w : run r_operation false (125 :: w) = None.
Proof. reflexivity. Qed.

(* "{|...": nothing before the first "|" *)
Theorem leading_pipe_rejected (dbg : bool) (w : str) :
  parse_template (123 :: (if dbg then [33] else []) ++ 124 :: w) = Err.
Proof. destruct dbg; reflexivity. Qed.

(* after any pipeline in any regex-free spelling, a "|" that is not followed by an operation:
   "a|b|}" (nothing after the last "|"), "a||b" (nothing between two "|"), "a|#..." *)
Theorem dangling_pipe_rejected (dbg : bool) (items : list item) (T : str) :
  items <> [] -> all_spelled spells items -> run r_operation false T = None ->
  parse_template (123 :: (if dbg then [33] else []) ++ pipe_text (texts items) ++ 124 :: T) = Err.
Proof.
  intros Hne Hall HT. destruct items as [|it items]; [congruence|].
  assert (Hend : run (PSeq (PStr [124]) r_operation) false (124 :: T) = None).
  { rewrite run_seq. change (124 :: T) with ([124] ++ T). rewrite run_str, seq_res_some, HT. reflexivity. }
  assert (Hchain : chain_gen (fun o t rest => spells o t /\ op_stops rest) (it :: items) (124 :: T)).
  { clear Hne Hend. induction Hall as [|x l Hx _ IH]; [exact I|]. cbn [chain_gen]. split; [|exact IH]. split; [exact Hx|].
    destruct l as [|y l']; cbn; eexists; eexists; (split; [reflexivity|]); auto. }
  destruct (run_pipe_gen r_operation R_operation (fun o t rest => spells o t /\ op_stops rest) parse_operation (fun o => Ok o)
              (fun o txt rest H => operation_reads o txt rest (proj1 H) (proj2 H)) R_operation_list it items (124 :: T) Hend Hchain) as (kids & Hrun & _).
  fold r_operation_list in Hrun.
  assert (Hhead : exists c t, pipe_text (texts (it :: items)) ++ 124 :: T = c :: t /\ N.eqb 33 c = false).
  { destruct it as [o txt]. inversion Hall as [|? ? Ho _]; subst. cbn [fst snd] in Ho.
    destruct (spells_head o txt Ho) as (c & t & -> & Hc). cbn [texts map snd pipe_text].
    exists c. eexists. split; [rewrite <- !app_assoc, <- app_comm_cons; reflexivity | exact Hc]. }
  destruct Hhead as (c & t & Eh & Hc).
  set (body := pipe_text (texts (it :: items))) in *.
  unfold parse_template, r_template. rewrite run_rule_normal, run_seq.
  destruct dbg.
  - change (123 :: [33] ++ body ++ 124 :: T) with ([123] ++ [33] ++ body ++ 124 :: T).
    rewrite run_str, seq_res_some, run_seq, run_opt.
    unfold r_debug_flag. rewrite run_rule_atomic, run_str.
    rewrite seq_res_some, run_seq, run_opt, Hrun, seq_res_some, run_seq.
    rewrite (str_fail_head [] 125 false 124 T eq_refl). reflexivity.
  - change (123 :: [] ++ body ++ 124 :: T) with ([123] ++ body ++ 124 :: T).
    rewrite run_str, seq_res_some, run_seq, run_opt.
    assert (Hdbg : run r_debug_flag false (body ++ 124 :: T) = None).
    { rewrite Eh. unfold r_debug_flag. rewrite run_rule_atomic. rewrite (str_fail_head [] 33 true c _ Hc). reflexivity. }
    rewrite Hdbg, seq_res_some, run_seq, run_opt, Hrun, seq_res_some, run_seq.
    rewrite (str_fail_head [] 125 false 124 T eq_refl). reflexivity.
Qed.

Corollary trailing_pipe_rejected (dbg : bool) (items : list item) : items <> [] -> all_spelled spells items ->
  parse_template (123 :: (if dbg then [33] else []) ++ pipe_text (texts items) ++ [124; 125]) = Err.
Proof. intros H1 H2. exact (dangling_pipe_rejected dbg items [125] H1 H2 (operation_fails_on_close [])). Qed.

Corollary double_pipe_rejected (dbg : bool) (items : list item) (w : str) : items <> [] -> all_spelled spells items ->
  parse_template (123 :: (if dbg then [33] else []) ++ pipe_text (texts items) ++ 124 :: 124 :: w) = Err.
Proof. intros H1 H2. exact (dangling_pipe_rejected dbg items (124 :: w) H1 H2 (operation_fails_on_pipe w)). Qed.

(* ---- an unclosed block --------------------------------------------------------------------------- *)
Lemma single_scan_app a : forall b d e,
  single_scan (a ++ b) d e = match single_scan a d e with Some (d', e') => single_scan b d' e' | None => None end.
Proof.
  induction a as [|ch a IH]; intros b d e; [reflexivity|]. cbn [app single_scan].
  destruct e; [apply IH|]. destruct (N.eqb ch c_bslash); [apply IH|]. destruct (N.eqb ch c_lbrace); [apply IH|].
  destruct (N.eqb ch c_rbrace); [destruct d; [reflexivity | apply IH] | apply IH].
Qed.

(* text whose braces balance (in the escape-aware sense), with the closing brace missing *)
Theorem unclosed_block_rejected (w : str) : neutral w -> template_parse (123 :: w) = Err.
Proof.
  intros Hn. pose proof (Hn [] 0%nat) as H0. rewrite app_nil_r in H0. cbn [single_scan] in H0.
  assert (Hsingle : is_single_block (123 :: w) = false).
  { unfold is_single_block. rewrite frev_rev. destruct (rev w) as [|last inner_rev] eqn:Er; [reflexivity|].
    assert (Ew : w = rev inner_rev ++ [last]) by (rewrite <- (rev_involutive w), Er; reflexivity).
    unfold c_lbrace. rewrite N.eqb_refl. cbn [andb]. destruct (N.eqb last c_rbrace) eqn:El; [|reflexivity]. cbn [andb].
    rewrite frev_rev. apply N.eqb_eq in El. subst last.
    rewrite Ew, single_scan_app in H0. destruct (single_scan (rev inner_rev) 0 false) as [[d' e']|]; [|discriminate].
    cbn [single_scan] in H0. destruct e'; [destruct d'; [reflexivity | reflexivity]|].
    unfold c_rbrace, c_bslash, c_lbrace in H0. cbn [N.eqb Pos.eqb] in H0. destruct d' as [|[|k]]; [discriminate | reflexivity | reflexivity]. }
  unfold template_parse, try_single_block. rewrite Hsingle. cbn [bind]. unfold parse_multi_template. cbn [fold_left].
  assert (Hstep : scan_step scan_init 123 = in_sec scan_init [] 1 false) by reflexivity.
  rewrite Hstep, (scan_sec_body w scan_init [] 0 false 0 false H0). reflexivity.
Qed.

Corollary unclosed_spelled_block_rejected (dbg : bool) (items : list item) : all_spelled spells items ->
  template_parse (123 :: (if dbg then [33] else []) ++ pipe_text (texts items)) = Err.
Proof.
  intros Hall. apply unclosed_block_rejected.
  apply neutral_app; [destruct dbg; [apply neutral_plain; reflexivity | apply neutral_nil]|].
  apply neutral_pipe_text. apply Forall_forall. intros t Hin. apply in_map_iff in Hin as (it & <- & Hit).
  unfold all_spelled in Hall. rewrite Forall_forall in Hall. exact (neutral_spells _ _ (Hall it Hit)).
Qed.
