(* User-level corollaries that combine refinement, cache and totality results. *)
From SP Require Import Model.Template Proofs.ImplSpec Proofs.TemplateP Proofs.TemplateLaws Proofs.EffP Proofs.TypingP.

Section C.
Variable E : Env.
Hypothesis HL1 : L1 replace_meta E.

Theorem format_never_panics t x :
  run_pure (impl_format E t x) <> Panic
  /\ forall c, CacheInv E c -> fst (run_st (impl_format E t x) c) <> Panic.
Proof.
  assert (H: run_pure (impl_format E t x) <> Panic).
  { rewrite (format_refines E HL1). apply spec_format_no_panic. }
  split; [exact H|]. intros c Hc.
  destruct (run_st_pure E (impl_format E t x) c Hc (wf_impl_format E t x)) as [-> _]. exact H.
Qed.

Lemma spec_fwi_no_panic secs : forall inputs seps idx, spec_fwi E secs inputs seps idx <> Panic.
Proof.
  induction secs as [|s secs IH]; intros inputs seps idx; cbn [spec_fwi]; [discriminate|].
  destruct s as [l|ops].
  - pose proof (IH inputs seps idx). destruct (spec_fwi E secs inputs seps idx); cbn; congruence.
  - pose proof (mapM_no_panic (spec_run E ops) (nth idx inputs []) (fun x => spec_steps_no_panic E ops _ _)) as Hm.
    destruct (mapM (spec_run E ops) (nth idx inputs [])); cbn [bind]; try congruence.
    pose proof (IH inputs seps (S idx)). destruct (spec_fwi E secs inputs seps (S idx)); cbn; congruence.
Qed.

Theorem format_with_inputs_never_panics t inputs seps :
  run_pure (impl_format_with_inputs E t inputs seps) <> Panic.
Proof.
  rewrite (format_with_inputs_refines E HL1). unfold spec_format_with_inputs.
  pose proof (spec_fwi_no_panic (t_sections t) inputs seps 0). destruct (spec_fwi _ _ _ _ _); cbn; congruence.
Qed.

Theorem format_history_pure (calls : list (template * str)) :
  fst (run_history (map (fun tx => impl_format E (fst tx) (snd tx)) calls) empty_caches)
  = map (fun tx => spec_format E (t_sections (fst tx)) (snd tx)) calls.
Proof.
  destruct (history_pure E (map (fun tx => impl_format E (fst tx) (snd tx)) calls) empty_caches (CacheInv_empty E)) as [H _].
  { apply Forall_forall. intros m Hm. apply in_map_iff in Hm as (tx & <- & _). apply wf_impl_format. }
  rewrite H, map_map. apply map_ext. intros tx. apply (format_refines E HL1).
Qed.

Theorem concurrent_formats (calls : list (template * str)) (sched : list nat) :
  let st := run_sched sched (map (fun tx => impl_format E (fst tx) (snd tx)) calls, empty_caches) in
  forall i r, nth_error (fst st) i = Some (Ret r) ->
    exists tx, nth_error calls i = Some tx /\ r = spec_format E (t_sections (fst tx)) (snd tx).
Proof.
  intros st i r Hn.
  destruct (schedule_independent E (map (fun tx => impl_format E (fst tx) (snd tx)) calls) empty_caches sched (CacheInv_empty E)) as [_ H].
  { apply Forall_forall. intros m Hm. apply in_map_iff in Hm as (tx & <- & _). apply wf_impl_format. }
  destruct (H i r Hn) as (p0 & Hp0 & ->).
  rewrite nth_error_map in Hp0. destruct (nth_error calls i) as [tx|]; [|discriminate]. injection Hp0 as <-.
  exists tx. split; [reflexivity | apply (format_refines E HL1)].
Qed.

End C.
