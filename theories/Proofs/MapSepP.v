(* C08 (map) and the separator bookkeeping half of C09, on the Spec layer. *)
From SP Require Import Model.Spec Proofs.SplitP Proofs.ImplSpec.

Section M.
Variable E : Env.

(* map applies the sub-pipeline, as a standalone pipeline, to each item in order;
   first error wins; the outer separator is untouched *)
Theorem map_is_mapM body l sep :
  spec_step E (Map body) (VList l) sep =
    omap (fun l' => (VList l', sep)) (mapM (fun item => spec_run E body item) l).
Proof.
  cbn [spec_step].
  rewrite (mapM_ext _ (fun item => spec_run E body item) l); [reflexivity|].
  intros item. apply spec_map_body_is_steps.
Qed.

Lemma mapM_length {A B} (f : A -> outcome B) l l' : mapM f l = Ok l' -> length l' = length l.
Proof.
  revert l'; induction l as [|x l IH]; intros l' H; cbn [mapM] in H; [injection H as <-; reflexivity|].
  destruct (f x); cbn [bind] in H; try discriminate.
  destruct (mapM f l); cbn [bind] in H; try discriminate. injection H as <-. cbn [length]. f_equal. apply IH. reflexivity.
Qed.

Lemma mapM_nth {A B} (f : A -> outcome B) l l' : mapM f l = Ok l' ->
  forall i x, nth_error l i = Some x -> exists y, nth_error l' i = Some y /\ f x = Ok y.
Proof.
  revert l'; induction l as [|a l IH]; intros l' H i x Hn; [destruct i; discriminate|].
  cbn [mapM] in H. destruct (f a) as [b| |] eqn:Ea; cbn [bind] in H; try discriminate.
  destruct (mapM f l) as [bs| |] eqn:El; cbn [bind] in H; try discriminate. injection H as <-.
  destruct i as [|i]; cbn [nth_error] in *.
  - injection Hn as <-. exists b. split; [reflexivity | exact Ea].
  - eapply IH; eauto.
Qed.

Lemma mapM_first_error {A B} (f : A -> outcome B) l1 x l2 :
  (forall y, In y l1 -> exists b, f y = Ok b) -> f x = Err -> mapM f (l1 ++ x :: l2) = Err.
Proof.
  induction l1 as [|a l1 IH]; intros Hok Hx; cbn [app mapM].
  - rewrite Hx. reflexivity.
  - destruct (Hok a (or_introl eq_refl)) as [b ->]. cbn [bind].
    rewrite IH; [reflexivity | intros y Hy; apply Hok; right; exact Hy | exact Hx].
Qed.

Lemma mapM_all_ok {A B} (f : A -> outcome B) l l' : mapM f l = Ok l' -> forall x, In x l -> exists y, f x = Ok y.
Proof.
  revert l'; induction l as [|a l IH]; intros l' H x Hin; [destruct Hin|].
  cbn [mapM] in H. destruct (f a) as [b| |] eqn:Ea; cbn [bind] in H; try discriminate.
  destruct (mapM f l) as [bs| |] eqn:El; cbn [bind] in H; try discriminate.
  destruct Hin as [<-|Hin]; [exists b; exact Ea | eapply IH; eauto].
Qed.

Lemma mapM_map_ok {A B} (f : A -> outcome B) (g : A -> B) l :
  (forall x, In x l -> f x = Ok (g x)) -> mapM f l = Ok (map g l).
Proof.
  induction l as [|a l IH]; intros H; [reflexivity|]. cbn [mapM map].
  rewrite (H a (or_introl eq_refl)). cbn [bind]. rewrite IH; [reflexivity|]. intros x Hx. apply H. right; exact Hx.
Qed.

Corollary map_nil body sep : spec_step E (Map body) (VList []) sep = Ok (VList [], sep).
Proof. rewrite map_is_mapM. reflexivity. Qed.

Corollary map_on_string_fails body s sep : spec_step E (Map body) (VStr s) sep = Err.
Proof. reflexivity. Qed.

(* ---- separator bookkeeping -------------------------------------------- *)

Lemma step_sep o v sep v' sep' : spec_step E o v sep = Ok (v', sep') -> sep' = sep_after o sep.
Proof.
  destruct o; cbn [spec_step sep_after]; unfold str_only, list_only; intros H;
    repeat match type of H with
           | context [omap _ ?m] => destruct m; cbn [omap] in H
           | context [match ?x with _ => _ end] => destruct x
           end; try discriminate H; injection H as _ <-; reflexivity.
Qed.

(* a pipeline that ends in a list is rendered exactly as if a join with the most
   recent separator had been written explicitly (and nothing changes if it ends
   in a string) *)
Theorem implicit_join_from ops : forall v sep,
  spec_steps E (ops ++ [Join (last_sep_from sep ops)]) v sep = spec_steps E ops v sep.
Proof.
  induction ops as [|o ops IH]; intros v sep; cbn [app last_sep_from spec_steps].
  - cbn [spec_step bind fst snd render]. destruct v; reflexivity.
  - destruct (spec_step E o v sep) as [[v' sep']| |] eqn:Es; cbn [bind fst snd]; try reflexivity.
    rewrite <- (step_sep _ _ _ _ _ Es). apply IH.
Qed.

Theorem implicit_join ops x : spec_run E (ops ++ [Join (last_sep ops)]) x = spec_run E ops x.
Proof. apply implicit_join_from. Qed.

(* an empty list renders as empty text *)
Lemma render_empty_list sep : render (VList []) sep = [].
Proof. reflexivity. Qed.

(* splitting a list splits every item and flattens the pieces in order *)
Lemma split_list_flattens sp a b inc l sep :
  spec_step E (Split sp (Range a b inc)) (VList l) sep
  = Ok (VList (select (Range a b inc) (flat_map (fun s => split s sp) l)), sp).
Proof. reflexivity. Qed.

(* observe_at identities, on the documented semantics *)
Theorem split_all_roundtrip sp x : spec_run E [Split sp (Range None None false)] x = Ok x.
Proof.
  unfold spec_run. cbn [spec_steps spec_step bind fst snd render].
  rewrite Proofs.RangeP.select_full. rewrite join_split_id. reflexivity.
Qed.

Theorem split_join_is_replace sp j x :
  spec_run E [Split sp (Range None None false); Join j] x = Ok (replace_plain x sp j).
Proof.
  unfold spec_run. cbn [spec_steps spec_step bind fst snd render].
  rewrite Proofs.RangeP.select_full. rewrite join_split_is_replace. reflexivity.
Qed.

(* reverse / sort:desc in terms of the standard list reversal *)
Lemma reverse_spec v sep :
  spec_step E Reverse v sep = Ok (match v with VStr s => VStr (rev s) | VList l => VList (rev l) end, sep).
Proof. cbn [spec_step]. destruct v; rewrite frev_rev; reflexivity. Qed.

Lemma sort_desc_is_reverse_of_sort l sep :
  spec_step E (Sort Desc) (VList l) sep = Ok (VList (rev (sort_asc l)), sep)
  /\ spec_step E (Sort Asc) (VList l) sep = Ok (VList (sort_asc l), sep).
Proof. cbn [spec_step list_only]. rewrite frev_rev. split; reflexivity. Qed.

Lemma strip_ansi_step (f : str -> str) : (forall s, strip_ansi E s = f s) ->
  forall v sep, spec_step E StripAnsi v sep = match v with VStr s => Ok (VStr (f s), sep) | VList _ => Err end.
Proof. intros H v sep. cbn [spec_step]. unfold str_only. destruct v; [rewrite H|]; reflexivity. Qed.

End M.
