(* a concrete toy engine, used only by the non-vacuity Examples *)
From SP Require Import Model.Spec.
Definition toy_env : Env := {|
  re_valid := fun p => negb (str_eqb p [40%N]);
  re_is_match := fun p t => contains t p;
  re_find := fun p t => if contains t p then Some p else None;
  re_group := fun p t i => if N.eqb i 0 then (if contains t p then Some p else None) else None;
  re_replace := fun all p t r => if all then replace_plain t p r else t;
  to_upper := map (fun c => if (N.leb 97 c && N.leb c 122)%bool then (c - 32)%N else c);
  to_lower := fun s => s;
  strip_ansi := fun s => s;
|}.
