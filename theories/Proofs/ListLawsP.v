(* C15, further laws: sort depends only on the multiset of items; lengths; filter idempotent *)
From SP Require Import Model.Spec Proofs.ListOps.
From Coq Require Import Permutation Sorted.

Theorem sort_order_insensitive (l1 l2 : list str) :
  Permutation l1 l2 -> sort_asc l1 = sort_asc l2.
Proof.
  intros HP. apply sort_characterised; [apply sort_sorted|].
  rewrite sort_perm. exact HP.
Qed.

Corollary sort_after_reverse (l : list str) : sort_asc (rev l) = sort_asc l.
Proof. apply sort_order_insensitive. symmetry. apply Permutation_rev. Qed.

Theorem sort_length (l : list str) : length (sort_asc l) = length l.
Proof. apply Permutation_length, sort_perm. Qed.

Theorem sorted_is_fixed (l : list str) : StronglySorted sle l -> sort_asc l = l.
Proof. intros H. symmetry. apply sort_characterised; [exact H | reflexivity]. Qed.

Theorem filter_idempotent {A} (f : A -> bool) (l : list A) : filter f (filter f l) = filter f l.
Proof.
  induction l as [|x l IH]; [reflexivity|]. cbn [filter].
  destruct (f x) eqn:E; [cbn [filter]; rewrite E, IH; reflexivity | exact IH].
Qed.

Theorem filter_then_opposite_is_empty {A} (f : A -> bool) (l : list A) :
  filter (fun x => negb (f x)) (filter f l) = [].
Proof.
  induction l as [|x l IH]; [reflexivity|]. cbn [filter].
  destruct (f x) eqn:E; [cbn [filter]; rewrite E; exact IH | exact IH].
Qed.

Theorem filter_length_split {A} (f : A -> bool) (l : list A) :
  length (filter f l) + length (filter (fun x => negb (f x)) l) = length l.
Proof.
  induction l as [|x l IH]; [reflexivity|]. cbn [filter].
  destruct (f x); cbn [negb length]; lia.
Qed.

(* ---- unique and sort commute ------------------------------------------------ *)
Lemma subseq_in {A} (l1 l2 : list A) : subseq l1 l2 -> forall x, In x l1 -> In x l2.
Proof.
  induction 1 as [|y l1 l2 H IH|y l1 l2 H IH]; intros x Hx; [exact Hx | right; apply IH; exact Hx |].
  destruct Hx as [->|Hx]; [left; reflexivity | right; apply IH; exact Hx].
Qed.

Lemma subseq_sorted (l1 l2 : list str) : subseq l1 l2 -> StronglySorted sle l2 -> StronglySorted sle l1.
Proof.
  induction 1 as [|y l1 l2 H IH|y l1 l2 H IH]; intros Hs; [constructor| |].
  - apply IH. inversion Hs; assumption.
  - inversion Hs as [|a b Hb Hall]; subst. constructor; [apply IH; exact Hb|].
    apply Forall_forall. intros x Hx. rewrite Forall_forall in Hall. apply Hall.
    eapply subseq_in; eassumption.
Qed.

(* removing duplicates and sorting can be done in either order *)
Theorem unique_sort_commute (l : list str) : unique (sort_asc l) = sort_asc (unique l).
Proof.
  apply sort_characterised.
  - eapply subseq_sorted; [apply unique_subseq | apply sort_sorted].
  - apply NoDup_Permutation; [apply unique_nodup | apply unique_nodup|].
    intros x. rewrite !unique_same_set. split; intros H.
    + eapply Permutation_in; [apply sort_perm | exact H].
    + eapply Permutation_in; [symmetry; apply sort_perm | exact H].
Qed.
