(* C15, further laws: sort depends only on the multiset of items; lengths; filter idempotent *)
From SP Require Import Model.Spec Proofs.ListOps.
From Coq Require Import Permutation Sorted.

Theorem sort_order_insensitive (l1 l2 : list str) :
  Permutation l1 l2 -> sort_asc l1 = sort_asc l2.
Proof.
  intros HP. apply sort_characterised; [apply sort_sorted|].
  rewrite sort_perm. exact HP.
Qed.

Corollary sort_after_reverse (l : list str) : sort_asc (rev l) = sort_asc l.
Proof. apply sort_order_insensitive. symmetry. apply Permutation_rev. Qed.

Theorem sort_length (l : list str) : length (sort_asc l) = length l.
Proof. apply Permutation_length, sort_perm. Qed.

Theorem sorted_is_fixed (l : list str) : StronglySorted sle l -> sort_asc l = l.
Proof. intros H. symmetry. apply sort_characterised; [exact H | reflexivity]. Qed.

Theorem filter_idempotent {A} (f : A -> bool) (l : list A) : filter f (filter f l) = filter f l.
Proof.
  induction l as [|x l IH]; [reflexivity|]. cbn [filter].
  destruct (f x) eqn:E; [cbn [filter]; rewrite E, IH; reflexivity | exact IH].
Qed.

Theorem filter_then_opposite_is_empty {A} (f : A -> bool) (l : list A) :
  filter (fun x => negb (f x)) (filter f l) = [].
Proof.
  induction l as [|x l IH]; [reflexivity|]. cbn [filter].
  destruct (f x) eqn:E; [cbn [filter]; rewrite E; exact IH | exact IH].
Qed.

Theorem filter_length_split {A} (f : A -> bool) (l : list A) :
  length (filter f l) + length (filter (fun x => negb (f x)) l) = length l.
Proof.
  induction l as [|x l IH]; [reflexivity|]. cbn [filter].
  destruct (f x); cbn [negb length]; lia.
Qed.
