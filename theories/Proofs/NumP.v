(* Rule `number` of the regenerated grammar reads exactly a printed numeral. *)
From SP Require Import Model.Syntax Model.Scanner Proofs.PegP Proofs.SyntaxP Proofs.ArgP.
From Coq Require Import Decimal DecimalN.
Local Open Scope N_scope.

Definition is_digit (c : N) : bool := (N.leb 48 c && N.leb c 57)%bool.
Definition no_digit_head (rest : str) : Prop := match rest with [] => True | c :: _ => is_digit c = false end.

Lemma digit_step c r : is_digit c = true -> run (@PRange rule 48 57) true (c :: r) = Some ([c], [], r).
Proof. unfold is_digit. intros H. cbn [run]. rewrite H. reflexivity. Qed.
Lemma digit_stop c r : is_digit c = false -> run (@PRange rule 48 57) true (c :: r) = None.
Proof. unfold is_digit. intros H. cbn [run]. rewrite H. reflexivity. Qed.

Lemma star_digits ds : forallb is_digit ds = true -> forall fuel rest,
  (length (ds ++ rest) < fuel)%nat -> no_digit_head rest ->
  star_loop (run (@PRange rule 48 57) true) fuel (ds ++ rest) = Some (ds, [], rest).
Proof.
  induction ds as [|d ds IH]; intros Hall fuel rest Hlen Hnd.
  - destruct fuel; [cbn in Hlen; lia|]. rewrite star_loop_S. rewrite app_nil_l.
    destruct rest as [|c r]; [reflexivity|]. cbn in Hnd. rewrite (digit_stop c r Hnd). reflexivity.
  - cbn [forallb] in Hall. apply andb_true_iff in Hall as [Hd Hds].
    destruct fuel as [|fuel]; [lia|]. rewrite star_loop_S. rewrite <- app_comm_cons. rewrite (digit_step d _ Hd).
    assert (Hlt: Nat.ltb (length (ds ++ rest)) (length (d :: ds ++ rest)) = true) by (apply Nat.ltb_lt; cbn [length]; lia).
    rewrite Hlt, IH by (try assumption; rewrite <- app_comm_cons in Hlen; cbn [length] in Hlen; lia). reflexivity.
Qed.

Lemma run_plus (e : peg rule) at_ inp :
  run (PPlus e) at_ inp = seq_res rule (run e at_ inp) (fun r => star_loop (run e at_) (S (length r)) r).
Proof. reflexivity. Qed.

Lemma r_number_shape : r_number = PRule R_number Atomic (PSeq (POpt (PStr [45])) (PPlus (PRange 48 57))).
Proof. reflexivity. Qed.

Definition tok (a : bool) (id : rule) (t : str) : list ptree := if a then [] else [Node (Some id) t []].

Lemma run_rule_atomic_any (id : rule) (body : peg rule) (a : bool) inp :
  run (PRule id Atomic body) a inp =
    match run body true inp with Some (t, _, r) => Some (t, tok a id t, r) | None => None end.
Proof. destruct a; reflexivity. Qed.

(* digits, no sign *)
Lemma run_number_digits (a : bool) d ds rest : is_digit d = true -> forallb is_digit ds = true -> no_digit_head rest ->
  run r_number a (d :: ds ++ rest) = Some (d :: ds, tok a R_number (d :: ds), rest).
Proof.
  intros Hd Hds Hnd. rewrite r_number_shape, run_rule_atomic_any, run_seq.
  assert (Hopt: run (POpt (@PStr rule [45])) true (d :: ds ++ rest) = Some ([], [], d :: ds ++ rest)).
  { cbn [run strip_prefix]. unfold is_digit in Hd. destruct (N.eqb_spec 45 d) as [<-|Hne]; [discriminate Hd | reflexivity]. }
  rewrite Hopt, seq_res_some. rewrite run_plus, (digit_step d _ Hd), seq_res_some.
  rewrite star_digits by (try assumption; lia). reflexivity.
Qed.

(* with a sign *)
Lemma run_number_neg (a : bool) d ds rest : is_digit d = true -> forallb is_digit ds = true -> no_digit_head rest ->
  run r_number a (45 :: d :: ds ++ rest) = Some (45 :: d :: ds, tok a R_number (45 :: d :: ds), rest).
Proof.
  intros Hd Hds Hnd. rewrite r_number_shape, run_rule_atomic_any, run_seq.
  assert (Hopt: run (POpt (@PStr rule [45])) true (45 :: d :: ds ++ rest) = Some ([45], [], d :: ds ++ rest)) by reflexivity.
  rewrite Hopt, seq_res_some. rewrite run_plus, (digit_step d _ Hd), seq_res_some.
  rewrite star_digits by (try assumption; lia). reflexivity.
Qed.

(* a character that cannot start a number *)
Lemma run_number_fail (a : bool) c r : is_digit c = false -> c <> 45 -> run r_number a (c :: r) = None.
Proof.
  intros Hc Hm. rewrite r_number_shape, run_rule_atomic_any, run_seq.
  assert (Hopt: run (POpt (@PStr rule [45])) true (c :: r) = Some ([], [], c :: r)).
  { cbn [run strip_prefix]. destruct (N.eqb_spec 45 c) as [Heq|Hne]; [exfalso; apply Hm; symmetry; exact Heq | reflexivity]. }
  rewrite Hopt, seq_res_some. rewrite run_plus, (digit_stop c r Hc). reflexivity.
Qed.

(* printed numerals are digit strings *)
Lemma uint_cps_digits d : forallb is_digit (uint_cps d) = true.
Proof. induction d; cbn [uint_cps forallb]; try reflexivity; rewrite IHd; reflexivity. Qed.
Lemma print_N_digits n : forallb is_digit (print_N n) = true.
Proof. apply uint_cps_digits. Qed.

Lemma print_N_cons n : exists d ds, print_N n = d :: ds /\ is_digit d = true /\ forallb is_digit ds = true.
Proof.
  pose proof (print_N_digits n) as H. destruct (print_N_head n) as (c & s & Hs & Hc). rewrite Hs in H.
  cbn [forallb] in H. apply andb_true_iff in H as [H1 H2]. eauto.
Qed.

(* rule number reads exactly a printed isize value, whatever follows that is not a digit *)
Theorem run_number_print (a : bool) z rest : no_digit_head rest ->
  run r_number a (print_Z z ++ rest) = Some (print_Z z, tok a R_number (print_Z z), rest).
Proof.
  intros Hnd. unfold print_Z. destruct (Z.ltb z 0).
  - destruct (print_N_cons (Z.to_N (- z))) as (d & ds & -> & Hd & Hds). rewrite <- !app_comm_cons. apply run_number_neg; assumption.
  - destruct (print_N_cons (Z.to_N z)) as (d & ds & -> & Hd & Hds). rewrite <- !app_comm_cons. apply run_number_digits; assumption.
Qed.

(* the first character of a printed numeral is '-' or a digit *)
Lemma print_Z_head z : exists c t, print_Z z = c :: t /\ (c = 45 \/ is_digit c = true).
Proof.
  unfold print_Z. destruct (Z.ltb z 0).
  - eexists; eexists; split; [reflexivity | left; reflexivity].
  - destruct (print_N_cons (Z.to_N z)) as (d & ds & -> & Hd & _). eexists; eexists; split; [reflexivity | right; exact Hd].
Qed.
