(* Text arguments in ANY escaped spelling (redundant escapes included): rule simple_arg reads
   exactly the raw text and the converter decodes it with process_arg. *)
From SP Require Import Model.Syntax Model.Scanner Proofs.PegP Proofs.SyntaxP Proofs.ArgP Proofs.NumP Proofs.RangeSynP Proofs.OpSynP.
Local Open Scope N_scope.

Lemma arg_special_is_special c : arg_special c = is_special c.
Proof. unfold arg_special, is_special. destruct (N.eqb c 58), (N.eqb c 124), (N.eqb c 123), (N.eqb c 125), (N.eqb c 92); reflexivity. Qed.

Lemma scan_simple_units : forall n a, (length a <= n)%nat -> regex_units a = true ->
  forall rest, stops rest -> scan_simple (a ++ rest) = (a, rest).
Proof.
  induction n as [|n IH]; intros a Hn Hu rest Hst.
  - destruct a; [apply scan_simple_stop; exact Hst | cbn in Hn; lia].
  - destruct a as [|c a]; [apply scan_simple_stop; exact Hst|]. unfold regex_units in Hu. cbn [units] in Hu.
    cbn [app]. rewrite scan_simple_eq. destruct (N.eqb c 92) eqn:Ec.
    + apply N.eqb_eq in Ec. subst c. destruct a as [|d a]; [discriminate|]. cbn [app]. cbn zeta.
      rewrite (IH a); [reflexivity | cbn [length] in Hn; lia | exact Hu | exact Hst].
    + apply andb_true_iff in Hu as [Hc Ha]. apply negb_true_iff in Hc. rewrite arg_special_is_special in Hc. rewrite Hc. cbn zeta.
      rewrite (IH a); [reflexivity | cbn [length] in Hn; lia | exact Ha | exact Hst].
Qed.

Theorem simple_arg_reads_units (a rest : str) : regex_units a = true -> stops rest ->
  run r_simple_arg false (a ++ rest) = Some (a, [Node (Some R_simple_arg) a []], rest).
Proof.
  intros Hu Hst. rewrite simple_arg_is_scan, (scan_simple_units (length a) a (le_n _) Hu rest Hst). reflexivity.
Qed.

Lemma run_kw_raw (id : rule) (k : str) a rest : regex_units a = true -> stops rest ->
  run (PRule id Normal (PSeq (PStr k) (PSeq (PStr [58]) r_simple_arg))) false (k ++ 58 :: a ++ rest)
  = Some (k ++ 58 :: a, [Node (Some id) (k ++ 58 :: a) [Node (Some R_simple_arg) a []]], rest).
Proof.
  intros Hu Hst. rewrite run_rule_normal, run_seq, run_str, seq_res_some, run_seq.
  change (58 :: a ++ rest) with ([58] ++ a ++ rest).
  rewrite run_str, seq_res_some, (simple_arg_reads_units a rest Hu Hst). reflexivity.
Qed.

Ltac norm_raw :=
  unfold kw_append, kw_prepend, kw_surround, kw_quote, kw_join;
  repeat (rewrite <- app_assoc || rewrite <- app_comm_cons); cbn [app].
Ltac enter_top_raw := unfold r_operation; rewrite run_rule_normal; cbn [run]; norm_raw; kill_alts.
Ltac enter_map_raw := unfold r_map_inner_operation; rewrite run_rule_normal; cbn [run]; norm_raw; kill_alts.

Theorem operation_reads_raw o txt rest : spells_raw o txt -> op_stops rest ->
  exists k, run r_operation false (txt ++ rest) = Some (txt, [Node (Some R_operation) txt [k]], rest)
            /\ parse_operation k = Ok o.
Proof.
  intros Hsp Hst. pose proof (op_stops_stops rest Hst) as Hss. destruct Hsp as [kw mk a Hin Hu].
  cbn [kw_raw_ops In] in Hin.
  destruct Hin as [E|[E|[E|[E|[E|[]]]]]]; injection E as <- <-.
  - pose proof (run_kw_raw R_append kw_append a rest Hu Hss) as H. eexists; split; [enter_top_raw; use_run H; reflexivity | reflexivity].
  - pose proof (run_kw_raw R_prepend kw_prepend a rest Hu Hss) as H. eexists; split; [enter_top_raw; use_run H; reflexivity | reflexivity].
  - pose proof (run_kw_raw R_surround kw_surround a rest Hu Hss) as H. eexists; split; [enter_top_raw; use_run H; reflexivity | reflexivity].
  - pose proof (run_kw_raw R_quote kw_quote a rest Hu Hss) as H. eexists; split; [enter_top_raw; use_run H; reflexivity | reflexivity].
  - pose proof (run_kw_raw R_join kw_join a rest Hu Hss) as H. eexists; split; [enter_top_raw; use_run H; reflexivity | reflexivity].
Qed.

Theorem inner_reads_raw o txt rest : spells_raw o txt -> op_stops rest ->
  exists k, run r_map_inner_operation false (txt ++ rest) = Some (txt, [Node (Some R_map_inner_operation) txt [k]], rest)
            /\ parse_map_inner_operation k = Ok o.
Proof.
  intros Hsp Hst. pose proof (op_stops_stops rest Hst) as Hss. destruct Hsp as [kw mk a Hin Hu].
  cbn [kw_raw_ops In] in Hin.
  destruct Hin as [E|[E|[E|[E|[E|[]]]]]]; injection E as <- <-.
  - pose proof (run_kw_raw R_append kw_append a rest Hu Hss) as H. eexists; split; [enter_map_raw; use_run H; reflexivity | reflexivity].
  - pose proof (run_kw_raw R_prepend kw_prepend a rest Hu Hss) as H. eexists; split; [enter_map_raw; use_run H; reflexivity | reflexivity].
  - pose proof (run_kw_raw R_surround kw_surround a rest Hu Hss) as H. eexists; split; [enter_map_raw; use_run H; reflexivity | reflexivity].
  - pose proof (run_kw_raw R_quote kw_quote a rest Hu Hss) as H. eexists; split; [enter_map_raw; use_run H; reflexivity | reflexivity].
  - pose proof (run_kw_raw R_map_join kw_join a rest Hu Hss) as H. eexists; split; [enter_map_raw; use_run H; reflexivity | reflexivity].
Qed.

(* non-vacuity: {append:\a\:\b} is Append "a:b" -- a redundant escape on a and b *)
Example raw_example :
  spells_raw (Append [97; 58; 98]) (kw_append ++ 58 :: [92; 97; 92; 58; 92; 98]).
Proof. exact (sp_raw kw_append Append [92; 97; 92; 58; 92; 98] (or_introl eq_refl) eq_refl). Qed.
