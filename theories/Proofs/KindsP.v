(* C07: success of a pipeline whose regexes are valid and whose map bodies are
   well-typed is decided by the kind of the value it receives, not by the data *)
From SP Require Import Model.Typing Proofs.TypingP.

Definition is_some {A} (o : option A) : bool := match o with Some _ => true | None => false end.

Lemma well_typed_from_split ops : forall k,
  well_typed_from k ops = (forallb well_typed_op ops && is_some (infer_from k ops))%bool.
Proof.
  induction ops as [|o ops IH]; intros k; [reflexivity|].
  cbn [well_typed_from forallb infer_from].
  destruct (kind_step k o) as [k'|].
  - rewrite IH. rewrite andb_assoc. reflexivity.
  - cbn [is_some]. rewrite !andb_false_r. reflexivity.
Qed.

Theorem outcome_decided_by_kinds E (ops : list op) :
  regexes_valid E ops = true -> forallb well_typed_op ops = true ->
  forall v sep, is_ok (spec_steps E ops v sep) = is_some (infer_from (kind_of v) ops).
Proof.
  intros Hre Hwt v sep. destruct (infer_from (kind_of v) ops) as [k|] eqn:Ei; cbn [is_some].
  - destruct (progress E ops v sep) as [s Hs]; [|exact Hre|rewrite Hs; reflexivity].
    rewrite well_typed_from_split, Hwt, Ei. reflexivity.
  - rewrite (ill_typed_fails E ops v sep Ei). reflexivity.
Qed.

(* two values of the same kind: the pipeline succeeds on both or fails on both,
   whatever they contain and whatever the separators are *)
Corollary same_kind_same_success E (ops : list op) :
  regexes_valid E ops = true -> forallb well_typed_op ops = true ->
  forall v1 v2 sep1 sep2, kind_of v1 = kind_of v2 ->
    is_ok (spec_steps E ops v1 sep1) = is_ok (spec_steps E ops v2 sep2).
Proof.
  intros Hre Hwt v1 v2 sep1 sep2 Hk.
  rewrite !(outcome_decided_by_kinds E ops Hre Hwt), Hk. reflexivity.
Qed.

(* for whole pipelines (the input is a string): success does not depend on the input *)
Corollary success_is_input_independent E (ops : list op) :
  regexes_valid E ops = true -> forallb well_typed_op ops = true ->
  forall x y, is_ok (spec_run E ops x) = is_ok (spec_run E ops y).
Proof.
  intros Hre Hwt x y. unfold spec_run. apply same_kind_same_success; auto.
Qed.
