From SP Require Import Base.Str.
Local Open Scope N_scope.

Lemma str_eqb_eq a b : str_eqb a b = true <-> a = b.
Proof.
  revert b; induction a as [|x a IH]; intros [|y b]; cbn [str_eqb]; try (split; congruence).
  rewrite andb_true_iff, N.eqb_eq, IH. split; [intros [-> ->]; reflexivity | intros H; injection H; auto].
Qed.

Lemma str_eqb_refl a : str_eqb a a = true.
Proof. apply str_eqb_eq. reflexivity. Qed.

Lemma str_eqb_neq a b : str_eqb a b = false <-> a <> b.
Proof.
  split; intros H.
  - intros ->. rewrite str_eqb_refl in H. discriminate.
  - destruct (str_eqb a b) eqn:E; [apply str_eqb_eq in E; contradiction | reflexivity].
Qed.

Lemma utf8_len_cp_pos c : 1 <= utf8_len_cp c.
Proof. unfold utf8_len_cp. repeat destruct (_ <? _); lia. Qed.

Lemma utf8_len_one s : utf8_len s = 1 -> exists c, s = [c] /\ c < 128.
Proof.
  destruct s as [|c s]; cbn [utf8_len]; [lia|]. intros H.
  pose proof (utf8_len_cp_pos c).
  destruct s as [|d s]; cbn [utf8_len] in H.
  - exists c. split; [reflexivity|]. unfold utf8_len_cp in H.
    destruct (c <? 128) eqn:E; [apply N.ltb_lt in E; exact E|].
    repeat destruct (_ <? _); lia.
  - pose proof (utf8_len_cp_pos d). lia.
Qed.

Lemma utf8_ascii s : is_ascii s = true -> utf8 s = s.
Proof.
  induction s as [|c s IH]; [reflexivity|]. cbn [is_ascii forallb]. rewrite andb_true_iff. intros [Hc Hs].
  unfold utf8 in *. cbn [flat_map]. fold (is_ascii s) in Hs. rewrite (IH Hs).
  unfold utf8_cp. unfold is_ascii_cp in Hc. rewrite Hc. reflexivity.
Qed.

Lemma drop_while_nil_iff f s : drop_while f s = [] <-> forallb f s = true.
Proof.
  induction s as [|c s IH]; cbn [drop_while forallb]; [tauto|].
  destruct (f c); cbn [andb]; [exact IH | split; discriminate].
Qed.

Lemma forallb_rev {A} (f : A -> bool) l : forallb f (rev l) = forallb f l.
Proof.
  induction l as [|x l IH]; [reflexivity|]. cbn [rev]. rewrite forallb_app, IH. cbn. rewrite andb_true_r. apply andb_comm.
Qed.

Lemma drop_while_end_nil_iff f s : drop_while_end f s = [] <-> forallb f s = true.
Proof.
  unfold drop_while_end. rewrite !frev_rev. rewrite <- (forallb_rev f s), <- drop_while_nil_iff.
  split; intros H; [apply (f_equal (@rev N)) in H; rewrite rev_involutive in H; exact H | rewrite H; reflexivity].
Qed.

Lemma drop_while_not_all f s : forallb f s = false -> forallb f (drop_while f s) = false.
Proof.
  induction s as [|c s IH]; cbn [drop_while forallb]; [discriminate|].
  destruct (f c) eqn:E; cbn [andb]; [exact IH | intros _; cbn [forallb]; rewrite E; reflexivity].
Qed.

(* chars.is_empty() || chars.trim().is_empty()  <->  every char is whitespace *)
Lemma blank_iff_all_ws (f : N -> bool) s :
  (match s with [] => true | _ => false end
   || match drop_while_end f (drop_while f s) with [] => true | _ => false end)%bool = forallb f s.
Proof.
  destruct s as [|c s]; [reflexivity|]. cbn [orb].
  destruct (forallb f (c :: s)) eqn:E.
  - apply drop_while_nil_iff in E. rewrite E. reflexivity.
  - apply drop_while_not_all in E.
    destruct (drop_while_end f (drop_while f (c :: s))) eqn:D; [|reflexivity].
    apply drop_while_end_nil_iff in D. congruence.
Qed.

Lemma contains_nil_r s : contains s [] = true.
Proof. destruct s; reflexivity. Qed.

Lemma mem_cp_In c set : mem_cp c set = true <-> In c set.
Proof.
  unfold mem_cp. rewrite existsb_exists. split.
  - intros [x [Hx He]]. apply N.eqb_eq in He. subst. exact Hx.
  - intros H. exists c. split; [exact H | apply N.eqb_refl].
Qed.
