(* Laws of the template object on the Spec layer, and structural facts about the
   constructors and accessors (C04, C10, C18, C20). *)
From SP Require Import Model.Scanner Proofs.ImplSpec Proofs.TemplateP Proofs.TypingP Proofs.MapSepP.

Section L.
Variable E : Env.

Lemma seg_out_no_panic x s : seg_out E x s <> Panic.
Proof. destruct s; cbn; [discriminate | apply spec_steps_no_panic]. Qed.

Lemma mapM_no_panic {A B} (f : A -> outcome B) l : (forall x, f x <> Panic) -> mapM f l <> Panic.
Proof.
  intros H. induction l as [|a l IH]; cbn [mapM]; [discriminate|].
  pose proof (H a). destruct (f a); cbn [bind]; try congruence. destruct (mapM f l); cbn [bind]; congruence.
Qed.

Theorem spec_format_no_panic secs x : spec_format E secs x <> Panic.
Proof.
  unfold spec_format. pose proof (mapM_no_panic (seg_out E x) secs (seg_out_no_panic x)).
  destruct (mapM _ secs); cbn; congruence.
Qed.

(* composition: the text of a template is the concatenation of what its parts give *)
Theorem spec_format_app s1 s2 x :
  spec_format E (s1 ++ s2) x =
    bind (spec_format E s1 x) (fun a => omap (fun b => a ++ b) (spec_format E s2 x)).
Proof.
  unfold spec_format. induction s1 as [|s s1 IH]; cbn [app mapM].
  - cbn. destruct (mapM (seg_out E x) s2); reflexivity.
  - destruct (seg_out E x s) as [o| |]; cbn [bind omap]; try reflexivity.
    destruct (mapM (seg_out E x) s1) as [l1| |]; cbn [bind omap] in *; try reflexivity.
    + destruct (mapM (seg_out E x) (s1 ++ s2)) as [l12| |]; destruct (mapM (seg_out E x) s2) as [l2| |];
        cbn [bind omap concat] in *; try congruence; try discriminate.
      injection IH as IH. rewrite IH, app_assoc. reflexivity.
    + destruct (mapM (seg_out E x) (s1 ++ s2)); cbn in *; congruence.
    + destruct (mapM (seg_out E x) (s1 ++ s2)); cbn in *; congruence.
Qed.

Theorem spec_format_literal l x : spec_format E [Lit l] x = Ok l.
Proof. unfold spec_format. cbn. rewrite app_nil_r. reflexivity. Qed.

Theorem spec_format_section ops x : spec_format E [Sec ops] x = spec_run E ops x.
Proof. unfold spec_format. cbn [mapM seg_out]. destruct (spec_run E ops x); cbn; rewrite ?app_nil_r; reflexivity. Qed.

(* a single block behaves exactly like the same block embedded between literals *)
Theorem single_vs_embedded L R ops x :
  spec_format E [Lit L; Sec ops; Lit R] x = omap (fun r => L ++ r ++ R) (spec_format E [Sec ops] x).
Proof.
  rewrite spec_format_section. unfold spec_format. cbn [mapM seg_out bind].
  destruct (spec_run E ops x); cbn; rewrite ?app_nil_r; reflexivity.
Qed.

(* an error in any section fails the whole call *)
Theorem section_error_fails s1 ops s2 x :
  spec_run E ops x = Err -> (forall s, In s s1 -> exists o, seg_out E x s = Ok o) ->
  spec_format E (s1 ++ Sec ops :: s2) x = Err.
Proof.
  intros He Hok. unfold spec_format. rewrite (mapM_first_error (seg_out E x) s1 (Sec ops) s2 Hok He). reflexivity.
Qed.

(* ---- format_with_inputs ----------------------------------------------------- *)
Lemma mapM_single {A B} (f : A -> outcome B) a : mapM f [a] = omap (fun b => [b]) (f a).
Proof. cbn. destruct (f a); reflexivity. Qed.

Lemma bind_cons_omap {A} (y : A) (m : outcome (list A)) : bind m (fun ys => Ok (y :: ys)) = omap (cons y) m.
Proof. destruct m; reflexivity. Qed.
Lemma concat_cons_omap (l : str) (m : outcome (list str)) :
  omap (@concat N) (omap (cons l) m) = omap (fun r => l ++ r) (omap (@concat N) m).
Proof. destruct m; reflexivity. Qed.

(* when every section receives the same single input the result is plain formatting *)
Theorem fwi_same_single_input secs x seps : forall inputs idx,
  (forall k, (idx <= k < idx + length (filter is_sec secs))%nat -> nth k inputs [] = [x]) ->
  omap (@concat N) (spec_fwi E secs inputs seps idx) = spec_format E secs x.
Proof.
  unfold spec_format. induction secs as [|s secs IH]; intros inputs idx H; [reflexivity|].
  destruct s as [l|ops]; cbn [spec_fwi mapM seg_out bind filter is_sec length] in *.
  - rewrite bind_cons_omap, !concat_cons_omap, (IH inputs idx H). reflexivity.
  - rewrite (H idx) by lia. rewrite mapM_single.
    destruct (spec_run E ops x) as [o| |]; cbn [omap bind join]; try reflexivity.
    rewrite bind_cons_omap, !concat_cons_omap. rewrite (IH inputs (S idx)) by (intros k Hk; apply H; lia).
    reflexivity.
Qed.

(* a section with no inputs contributes nothing; missing inputs count as none and a
   missing separator is a space -- by definition of nth with default *)
Theorem fwi_missing_inputs_are_empty ops rest inputs seps idx :
  (length inputs <= idx)%nat ->
  spec_fwi E (Sec ops :: rest) inputs seps idx = omap (cons []) (spec_fwi E rest inputs seps (S idx)).
Proof. intros H. cbn [spec_fwi]. rewrite nth_overflow by exact H. reflexivity. Qed.

Theorem fwi_missing_separator_is_space ops rest inputs seps idx :
  (length seps <= idx)%nat ->
  spec_fwi E (Sec ops :: rest) inputs seps idx =
    bind (mapM (spec_run E ops) (nth idx inputs [])) (fun outs =>
      omap (cons (join [32%N] outs)) (spec_fwi E rest inputs seps (S idx))).
Proof. intros H. cbn [spec_fwi]. rewrite (nth_overflow seps) by exact H. reflexivity. Qed.

(* surplus inputs and separators are ignored *)
Theorem fwi_surplus_ignored secs : forall inputs seps idx extra_i extra_s,
  (idx + length (filter is_sec secs) <= length inputs)%nat ->
  (idx + length (filter is_sec secs) <= length seps)%nat ->
  spec_fwi E secs (inputs ++ extra_i) (seps ++ extra_s) idx = spec_fwi E secs inputs seps idx.
Proof.
  induction secs as [|s secs IH]; intros inputs seps idx ei es Hi Hs; [reflexivity|].
  destruct s as [l|ops]; cbn [spec_fwi filter is_sec length] in *.
  - rewrite IH by assumption. reflexivity.
  - rewrite !app_nth1 by lia. rewrite IH by lia. reflexivity.
Qed.

End L.

(* ---- constructors and accessors (C20, C10 routes) ------------------------------ *)
Theorem parse_keeps_text s t : template_parse s = Ok t -> template_string t = s.
Proof.
  unfold template_parse, try_single_block. destruct (is_single_block s).
  - destruct (parse_template s) as [[ops d]| |]; cbn [bind]; try discriminate. intros H; injection H as <-. reflexivity.
  - cbn [bind]. destruct (parse_multi_template s) as [[secs d]| |]; cbn [bind]; try discriminate. intros H; injection H as <-. reflexivity.
Qed.

Theorem parse_with_debug_keeps_text s d t : template_parse_with_debug s d = Ok t -> template_string t = s.
Proof.
  unfold template_parse_with_debug, try_single_block. destruct (is_single_block s).
  - destruct (parse_template s) as [[ops d0]| |]; cbn [bind]; try discriminate. intros H; injection H as <-. destruct d; reflexivity.
  - cbn [bind]. destruct (parse_multi_template s) as [[secs d0]| |]; cbn [bind]; try discriminate. intros H; injection H as <-. reflexivity.
Qed.

(* parsing the returned template string again yields the same structure *)
Theorem reparse s t : template_parse s = Ok t -> template_parse (template_string t) = Ok t.
Proof. intros H. rewrite (parse_keeps_text s t H). exact H. Qed.

(* the debug argument at parse time only ever changes the debug field *)
Theorem parse_debug_only_sets_flag s d1 d2 t1 :
  template_parse_with_debug s d1 = Ok t1 ->
  exists t2, template_parse_with_debug s d2 = Ok t2 /\ t_sections t2 = t_sections t1 /\ t_raw t2 = t_raw t1.
Proof.
  unfold template_parse_with_debug. destruct (try_single_block s) as [[t|]| |]; cbn [bind]; try discriminate.
  - intros H; injection H as <-. eexists. split; [reflexivity|]. destruct d1, d2; split; reflexivity.
  - destruct (parse_multi_template s) as [[secs d0]| |]; cbn [bind]; try discriminate.
    intros H; injection H as <-. eexists. split; [reflexivity|]. split; reflexivity.
Qed.

Theorem parse_and_parse_with_debug_agree s t :
  template_parse s = Ok t ->
  exists t2, template_parse_with_debug s None = Ok t2 /\ t_sections t2 = t_sections t /\ t_raw t2 = t_raw t.
Proof.
  unfold template_parse, template_parse_with_debug. destruct (try_single_block s) as [[t0|]| |]; cbn [bind]; try discriminate.
  - intros H; injection H as <-. eexists. split; [reflexivity|]. split; reflexivity.
  - destruct (parse_multi_template s) as [[secs d0]| |]; cbn [bind]; try discriminate.
    intros H; injection H as <-. eexists. split; [reflexivity|]. split; reflexivity.
Qed.

Theorem setters_only_set_flag t d : t_sections (with_debug t d) = t_sections t /\ t_raw (with_debug t d) = t_raw t /\ is_debug (with_debug t d) = d.
Proof. repeat split. Qed.
Theorem last_setting_wins t d1 d2 : with_debug (with_debug t d1) d2 = with_debug t d2.
Proof. reflexivity. Qed.

Lemma section_info_from_length secs : forall a b, length (section_info_from secs a b) = length secs.
Proof. induction secs as [|s l IH]; intros a b; [reflexivity|]. destruct s; cbn; f_equal; apply IH. Qed.
Lemma template_sections_from_length secs : forall a, length (template_sections_from secs a) = length (filter is_sec secs).
Proof. induction secs as [|s l IH]; intros a; [reflexivity|]. destruct s; cbn; [apply IH | f_equal; apply IH]. Qed.

Theorem section_counts t :
  section_count t = length (t_sections t)
  /\ template_section_count t = length (filter is_sec (t_sections t))
  /\ length (get_section_info t) = section_count t
  /\ length (get_template_sections t) = template_section_count t.
Proof.
  unfold section_count, template_section_count, get_section_info, get_template_sections. repeat split.
  - apply section_info_from_length.
  - apply template_sections_from_length.
Qed.

(* section info lists the parts in order, consecutive positions, literal contents verbatim,
   operations as parsed; template positions count sections only *)
Theorem section_info_nth secs : forall a b i s,
  nth_error secs i = Some s ->
  exists info, nth_error (section_info_from secs a b) i = Some info /\
    si_overall info = (a + i)%nat /\
    match s with
    | Lit l => si_is_template info = false /\ si_content info = Some l /\ si_ops info = None /\ si_template_pos info = None
    | Sec ops => si_is_template info = true /\ si_content info = None /\ si_ops info = Some ops
                 /\ si_template_pos info = Some (b + length (filter is_sec (firstn i secs)))%nat
    end.
Proof.
  induction secs as [|s0 secs IH]; intros a b i s Hn; [destruct i; discriminate|].
  destruct i as [|i]; cbn [nth_error] in Hn.
  - injection Hn as <-. destruct s0; cbn; eexists; (split; [reflexivity|]); rewrite ?Nat.add_0_r; repeat split.
  - destruct s0 as [l0|ops0]; cbn [section_info_from nth_error firstn filter is_sec length].
    + destruct (IH (S a) b i s Hn) as (info & H1 & H2 & H3). exists info. split; [exact H1|]. split; [lia|]. exact H3.
    + destruct (IH (S a) (S b) i s Hn) as (info & H1 & H2 & H3). exists info. split; [exact H1|]. split; [lia|].
      destruct s; [exact H3|]. destruct H3 as (A1 & A2 & A3 & A4). repeat split; auto. rewrite A4. f_equal. lia.
Qed.
