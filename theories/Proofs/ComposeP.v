(* C01, left to right: a pipeline is its prefix followed by its suffix; the value
   and the separator after the prefix are all the suffix sees *)
From SP Require Import Model.Spec.

(* the state (value, separator) after a pipeline, before rendering *)
Fixpoint spec_fold (E : Env) (ops : list op) (v : value) (sep : str) : outcome (value * str) :=
  match ops with
  | [] => Ok (v, sep)
  | o :: ops' => bind (spec_step E o v sep) (fun r => spec_fold E ops' (fst r) (snd r))
  end.

Theorem spec_steps_app E (a b : list op) : forall v sep,
  spec_steps E (a ++ b) v sep = bind (spec_fold E a v sep) (fun r => spec_steps E b (fst r) (snd r)).
Proof.
  induction a as [|o a IH]; intros v sep; cbn [app spec_steps spec_fold bind]; [reflexivity|].
  destruct (spec_step E o v sep) as [r| |]; cbn [bind]; [apply IH | reflexivity | reflexivity].
Qed.

Theorem spec_fold_app E (a b : list op) : forall v sep,
  spec_fold E (a ++ b) v sep = bind (spec_fold E a v sep) (fun r => spec_fold E b (fst r) (snd r)).
Proof.
  induction a as [|o a IH]; intros v sep; cbn [app spec_fold bind]; [reflexivity|].
  destruct (spec_step E o v sep) as [r| |]; cbn [bind]; [apply IH | reflexivity | reflexivity].
Qed.

(* the result is the rendering of the final state *)
Theorem spec_steps_is_render_of_fold E (ops : list op) : forall v sep,
  spec_steps E ops v sep = omap (fun r => render (fst r) (snd r)) (spec_fold E ops v sep).
Proof.
  induction ops as [|o ops IH]; intros v sep; cbn [spec_steps spec_fold omap]; [reflexivity|].
  destruct (spec_step E o v sep) as [r| |]; cbn [bind]; [apply IH | reflexivity | reflexivity].
Qed.

(* an error in a prefix fails the call whatever follows *)
Theorem prefix_error_fails E (a b : list op) v sep :
  spec_fold E a v sep = Err -> spec_steps E (a ++ b) v sep = Err.
Proof. intros H. rewrite spec_steps_app, H. reflexivity. Qed.

(* a prefix that hands on a string with the separator untouched can be run first, as
   a pipeline of its own, and the suffix run on its output *)
Theorem run_prefix_then_suffix E (a b : list op) (x y : str) :
  spec_fold E a (VStr x) default_sep = Ok (VStr y, default_sep) ->
  spec_run E a x = Ok y /\ spec_run E (a ++ b) x = spec_run E b y.
Proof.
  intros H. unfold spec_run. split.
  - rewrite spec_steps_is_render_of_fold, H. reflexivity.
  - rewrite spec_steps_app, H. reflexivity.
Qed.

(* one operation at a time: a pipeline is the fold of spec_step over its operations *)
Theorem spec_fold_snoc E (ops : list op) (o : op) v sep :
  spec_fold E (ops ++ [o]) v sep = bind (spec_fold E ops v sep) (fun r => spec_step E o (fst r) (snd r)).
Proof.
  rewrite spec_fold_app. destruct (spec_fold E ops v sep) as [r| |]; cbn [bind spec_fold]; try reflexivity.
  destruct (spec_step E o (fst r) (snd r)) as [[v' s']| |]; reflexivity.
Qed.
