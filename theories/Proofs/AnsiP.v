(* Proofs about the model of fast_strip_ansi::strip_ansi_string (Model/Ansi.v).
   Stdlib only, no axioms.

   Main results
     decode_utf8        : utf8_decode (utf8 s ++ r) = s ++ utf8_decode r      (valid s)
     strip_str_chunks   : strip_str s = strip_str_plain s                     (valid s)
     strip_clean_id     : valid s -> control_free s -> strip_str s = s
     strip_decorate     : items_ok items -> strip_str (decorate items) = texts items
     strip_output_ok    : valid s -> valid (strip_str s) /\ control_free (strip_str s)
     strip_idempotent   : valid s -> strip_str (strip_str s) = strip_str s *)
From SP Require Import Model.Ansi.
From Coq Require Import ZifyBool ZifyN.
Local Open Scope N_scope.
Local Ltac Zify.zify_post_hook ::= Z.div_mod_to_equations.

(* destruct every [if] of the goal, closing impossible branches by lia *)
Ltac bsplit :=
  repeat match goal with
  | |- context [if ?c then _ else _] =>
      let E := fresh "E" in destruct c eqn:E; try lia
  end.

Ltac splitb :=
  repeat match goal with
  | H : (_ && _)%bool = true |- _ =>
      let H1 := fresh H in let H2 := fresh H in
      apply andb_prop in H; destruct H as [H1 H2]
  end.

Ltac unfold_classes :=
  unfold ends_csi, ends_ground, is_c0, is_intermediate, is_final, is_digit,
         is_priv_no_q, is_can_sub, is_param, is_cont, snd_ok3, snd_ok4,
         b_BEL, b_CAN, b_SUB, b_ESC, b_DEL, b_BSLASH, REPL in *.

(* ------------------------------------------------------------------ *)
(** * UTF-8: decoding an encoding                                      *)

Lemma utf8_decode_cons b0 r0 :
  utf8_decode (b0 :: r0) =
  if b0 <? 128 then b0 :: utf8_decode r0
  else if (194 <=? b0) && (b0 <=? 223) then
    match r0 with
    | b1 :: r1 =>
        if is_cont b1 then ((b0 - 192) * 64 + (b1 - 128)) :: utf8_decode r1
        else REPL :: utf8_decode r0
    | [] => [REPL]
    end
  else if (224 <=? b0) && (b0 <=? 239) then
    match r0 with
    | b1 :: r1 =>
        if snd_ok3 b0 b1 then
          match r1 with
          | b2 :: r2 =>
              if is_cont b2
              then ((b0 - 224) * 4096 + (b1 - 128) * 64 + (b2 - 128)) :: utf8_decode r2
              else REPL :: utf8_decode r1
          | [] => [REPL]
          end
        else REPL :: utf8_decode r0
    | [] => [REPL]
    end
  else if (240 <=? b0) && (b0 <=? 244) then
    match r0 with
    | b1 :: r1 =>
        if snd_ok4 b0 b1 then
          match r1 with
          | b2 :: r2 =>
              if is_cont b2 then
                match r2 with
                | b3 :: r3 =>
                    if is_cont b3
                    then ((b0 - 240) * 262144 + (b1 - 128) * 4096
                          + (b2 - 128) * 64 + (b3 - 128)) :: utf8_decode r3
                    else REPL :: utf8_decode r2
                | [] => [REPL]
                end
              else REPL :: utf8_decode r1
          | [] => [REPL]
          end
        else REPL :: utf8_decode r0
    | [] => [REPL]
    end
  else REPL :: utf8_decode r0.
Proof. reflexivity. Qed.

Lemma decode_1 b r : b < 128 -> utf8_decode (b :: r) = b :: utf8_decode r.
Proof. intros Hb. rewrite utf8_decode_cons. bsplit. reflexivity. Qed.

Lemma decode_2 b0 b1 r :
  194 <= b0 <= 223 -> 128 <= b1 <= 191 ->
  utf8_decode (b0 :: b1 :: r) = ((b0 - 192) * 64 + (b1 - 128)) :: utf8_decode r.
Proof.
  intros H0 H1. rewrite utf8_decode_cons. unfold_classes. bsplit. reflexivity.
Qed.

Lemma decode_3 b0 b1 b2 r :
  224 <= b0 <= 239 -> snd_ok3 b0 b1 = true -> 128 <= b2 <= 191 ->
  utf8_decode (b0 :: b1 :: b2 :: r)
  = ((b0 - 224) * 4096 + (b1 - 128) * 64 + (b2 - 128)) :: utf8_decode r.
Proof.
  intros H0 H1 H2. rewrite utf8_decode_cons. rewrite H1. unfold_classes. bsplit. reflexivity.
Qed.

Lemma decode_4 b0 b1 b2 b3 r :
  240 <= b0 <= 244 -> snd_ok4 b0 b1 = true -> 128 <= b2 <= 191 -> 128 <= b3 <= 191 ->
  utf8_decode (b0 :: b1 :: b2 :: b3 :: r)
  = ((b0 - 240) * 262144 + (b1 - 128) * 4096 + (b2 - 128) * 64 + (b3 - 128)) :: utf8_decode r.
Proof.
  intros H0 H1 H2 H3. rewrite utf8_decode_cons. rewrite H1. unfold_classes. bsplit. reflexivity.
Qed.

Lemma decode_utf8_cp c r :
  valid_cp c = true -> utf8_decode (utf8_cp c ++ r) = c :: utf8_decode r.
Proof.
  intros V. unfold valid_cp in V. unfold utf8_cp.
  destruct (c <? 128) eqn:E1; [|destruct (c <? 2048) eqn:E2; [|destruct (c <? 65536) eqn:E3]];
    cbn [app].
  - apply decode_1. lia.
  - rewrite decode_2 by lia. f_equal. lia.
  - rewrite decode_3; [f_equal; lia | lia | | lia].
    unfold snd_ok3. bsplit.
  - rewrite decode_4; [f_equal; lia | lia | | lia | lia].
    unfold snd_ok4. bsplit.
Qed.

Lemma utf8_app a b : utf8 (a ++ b) = utf8 a ++ utf8 b.
Proof. apply flat_map_app. Qed.

Lemma utf8_cons c s : utf8 (c :: s) = utf8_cp c ++ utf8 s.
Proof. reflexivity. Qed.

Lemma utf8_cp_ascii c : c < 128 -> utf8_cp c = [c].
Proof. intros H. unfold utf8_cp. bsplit. reflexivity. Qed.

Lemma utf8_ascii s : forallb (fun c => c <? 128) s = true -> utf8 s = s.
Proof.
  induction s as [|c s IH]; cbn [forallb]; intros H; [reflexivity|].
  splitb. rewrite utf8_cons, utf8_cp_ascii by lia. cbn [app]. f_equal. auto.
Qed.

Theorem decode_utf8 s r :
  valid s = true -> utf8_decode (utf8 s ++ r) = s ++ utf8_decode r.
Proof.
  unfold valid. induction s as [|c s IH]; cbn [forallb]; intros V; [reflexivity|].
  splitb. rewrite utf8_cons, <- app_assoc, decode_utf8_cp by assumption.
  cbn [app]. f_equal. auto.
Qed.

Corollary decode_utf8_id s : valid s = true -> utf8_decode (utf8 s) = s.
Proof.
  intros V. rewrite <- (app_nil_r (utf8 s)), decode_utf8 by assumption.
  cbn [utf8_decode]. apply app_nil_r.
Qed.

(* bytes of one encoded code point: the code point itself, or all >= 128 *)
Lemma utf8_cp_forall (P : N -> Prop) c :
  (c < 128 -> P c) -> (forall b, 128 <= b -> P b) -> Forall P (utf8_cp c).
Proof.
  intros Hlo Hhi. unfold utf8_cp. bsplit; repeat constructor; try (apply Hhi; lia).
  apply Hlo. lia.
Qed.

(* ------------------------------------------------------------------ *)
(** * The machine                                                      *)

Definition text_byte (b : N) : bool := negb (ends_ground b).
Definition push_all (bs : list N) (R : list (list N)) : list (list N) := fold_right push R bs.
Definition D (R : list (list N)) : str := flat_map utf8_decode R.

Lemma run_ground_cons i b r :
  run Ground i (b :: r) =
  if ends_ground b
  then [] :: (if b =? b_ESC then run Escape ints_empty r else run Ground i r)
  else push b (run Ground i r).
Proof.
  cbn [run step]. destruct (b =? b_ESC) eqn:E.
  - apply N.eqb_eq in E. subst b. reflexivity.
  - reflexivity.
Qed.

Lemma run_ground_esc i r : run Ground i (b_ESC :: r) = [] :: run Escape ints_empty r.
Proof. reflexivity. Qed.

Lemma run_ns st i b r st' i' :
  st <> Ground -> step st i b = (st', i') -> run st i (b :: r) = run st' i' r.
Proof.
  intros NG Hs. cbn [run]. rewrite Hs. destruct st; try reflexivity. congruence.
Qed.

Lemma ground_ints bs : forall i j, run Ground i bs = run Ground j bs.
Proof.
  induction bs as [|b r IH]; intros i j; [reflexivity|].
  rewrite !run_ground_cons. rewrite (IH i j). reflexivity.
Qed.

Lemma run_ground_text bs : forall i r,
  forallb text_byte bs = true ->
  run Ground i (bs ++ r) = push_all bs (run Ground i r).
Proof.
  induction bs as [|b bs IH]; cbn [app forallb push_all fold_right]; intros i r H;
    [reflexivity|].
  apply andb_prop in H. destruct H as [Hb Hbs].
  rewrite run_ground_cons. unfold text_byte in Hb.
  destruct (ends_ground b); [discriminate|]. f_equal. apply IH. assumption.
Qed.

Lemma push_all_cons bs c cs : push_all bs (c :: cs) = (bs ++ c) :: cs.
Proof.
  induction bs as [|b bs IH]; [reflexivity|].
  cbn [push_all fold_right app]. fold (push_all bs (c :: cs)). rewrite IH. reflexivity.
Qed.

Lemma push_all_nil b bs : push_all (b :: bs) [] = [b :: bs].
Proof.
  revert b. induction bs as [|b' bs IH]; intros b; [reflexivity|].
  change (push_all (b :: b' :: bs) []) with (push b (push_all (b' :: bs) [])).
  rewrite IH. reflexivity.
Qed.

(* states in which a byte is skipped without any change *)
Definition stays (st : vt_state) (b : N) : Prop := forall i, step st i b = (st, i).

Lemma run_stay st l : st <> Ground -> Forall (stays st) l ->
  forall i r, run st i (l ++ r) = run st i r.
Proof.
  intros NG F. induction F as [|b l Hb F IH]; intros i r; [reflexivity|].
  cbn [app]. rewrite (run_ns st i b (l ++ r) st i NG (Hb i)). apply IH.
Qed.

Lemma stays_utf8 st (ok : N -> bool) :
  (forall c, ok c = true -> Forall (stays st) (utf8_cp c)) ->
  forall pl, forallb ok pl = true -> Forall (stays st) (utf8 pl).
Proof.
  intros Hc. induction pl as [|c pl IH]; cbn [forallb]; intros H; [constructor|].
  splitb. rewrite utf8_cons. apply Forall_app. split; auto.
Qed.

Lemma stays_csi b : ends_csi b = false -> stays CsiIgnore b.
Proof. intros H i. unfold step. unfold_classes. bsplit; reflexivity. Qed.

Lemma stays_osc b : b <> 7 -> b <> 24 -> b <> 26 -> b <> 27 -> stays OscString b.
Proof. intros H1 H2 H3 H4 i. unfold step. unfold_classes. bsplit; reflexivity. Qed.

Lemma stays_dcs b : b <> 24 -> b <> 26 -> b <> 27 -> stays DcsIgnore b.
Proof. intros H2 H3 H4 i. unfold step. unfold_classes. bsplit; reflexivity. Qed.

Lemma stays_spa b : b <> 24 -> b <> 26 -> b <> 27 -> stays SosPmApcString b.
Proof. intros H2 H3 H4 i. unfold step. unfold_classes. bsplit; reflexivity. Qed.

Lemma osc_payload pl i r :
  forallb osc_cp_ok pl = true -> run OscString i (utf8 pl ++ r) = run OscString i r.
Proof.
  intros H. apply run_stay; [discriminate|].
  apply (stays_utf8 OscString osc_cp_ok); [|assumption].
  intros c Hc. unfold osc_cp_ok in Hc. unfold_classes.
  apply utf8_cp_forall; intros; apply stays_osc; lia.
Qed.

Lemma dcs_payload pl i r :
  forallb cstr_cp_ok pl = true -> run DcsIgnore i (utf8 pl ++ r) = run DcsIgnore i r.
Proof.
  intros H. apply run_stay; [discriminate|].
  apply (stays_utf8 DcsIgnore cstr_cp_ok); [|assumption].
  intros c Hc. unfold cstr_cp_ok in Hc. unfold_classes.
  apply utf8_cp_forall; intros; apply stays_dcs; lia.
Qed.

Lemma spa_payload pl i r :
  forallb cstr_cp_ok pl = true ->
  run SosPmApcString i (utf8 pl ++ r) = run SosPmApcString i r.
Proof.
  intros H. apply run_stay; [discriminate|].
  apply (stays_utf8 SosPmApcString cstr_cp_ok); [|assumption].
  intros c Hc. unfold cstr_cp_ok in Hc. unfold_classes.
  apply utf8_cp_forall; intros; apply stays_spa; lia.
Qed.

Lemma forallb_weaken {A} (f g : A -> bool) l :
  (forall a, f a = true -> g a = true) -> forallb f l = true -> forallb g l = true.
Proof.
  intros Hfg. induction l as [|a l IH]; cbn [forallb]; intros H; [reflexivity|].
  splitb. rewrite (Hfg a), IH by assumption. reflexivity.
Qed.

Lemma forallb_Forall {A} (f : A -> bool) l :
  forallb f l = true -> Forall (fun a => f a = true) l.
Proof.
  induction l as [|a l IH]; cbn [forallb]; intros H; constructor; splitb; auto.
Qed.

Lemma csi_body l i r :
  forallb (fun b => negb (ends_csi b)) l = true ->
  run CsiIgnore i (l ++ r) = run CsiIgnore i r.
Proof.
  intros H. apply run_stay; [discriminate|].
  apply forallb_Forall in H. revert H. apply Forall_impl.
  intros b Hb. apply stays_csi. destruct (ends_csi b); [discriminate|reflexivity].
Qed.

(* one well-formed sequence takes Ground to Ground and closes the current chunk *)
Lemma run_seq q i r :
  seq_ok q = true ->
  run Ground i (utf8 (seq_bytes q) ++ r) = [] :: run Ground ints_empty r.
Proof.
  intros OK. destruct q as [p it f | pl st | f | it f | three c | k pl];
    cbn [seq_ok seq_bytes] in OK |- *.
  - (* Csi *)
    apply andb_prop in OK. destruct OK as [OK Hfin].
    apply andb_prop in OK. destruct OK as [Hps His].
    assert (Hp : forallb (fun c => c <? 128) p = true).
    { revert Hps. apply forallb_weaken. intros a Ha. unfold_classes. lia. }
    assert (Hi : forallb (fun c => c <? 128) it = true).
    { revert His. apply forallb_weaken. intros a Ha. unfold_classes. lia. }
    assert (Hf : f < 128) by (unfold_classes; lia).
    rewrite utf8_ascii.
    2:{ cbn [forallb]. rewrite !forallb_app, Hp, Hi. cbn [forallb].
        unfold b_ESC. destruct (f <? 128) eqn:E; [reflexivity|lia]. }
    cbn [app]. rewrite run_ground_esc.
    rewrite (run_ns Escape ints_empty 91 _ CsiIgnore ints_empty) by (discriminate || reflexivity).
    rewrite <- !app_assoc. rewrite csi_body.
    2:{ revert Hps. apply forallb_weaken. intros a Ha. unfold_classes. lia. }
    rewrite csi_body.
    2:{ revert His. apply forallb_weaken. intros a Ha. unfold_classes. lia. }
    cbn [app].
    rewrite (run_ns CsiIgnore ints_empty f r Ground ints_empty); [reflexivity|discriminate|].
    unfold step. unfold_classes. bsplit; reflexivity.
  - (* Osc *)
    rewrite !utf8_cons, utf8_app. rewrite (utf8_cp_ascii b_ESC) by (unfold b_ESC; lia).
    rewrite (utf8_cp_ascii 93) by lia. cbn [app].
    rewrite run_ground_esc.
    rewrite (run_ns Escape ints_empty 93 _ OscString ints_empty) by (discriminate || reflexivity).
    rewrite <- app_assoc. rewrite osc_payload by assumption.
    destruct st; cbn.
    + reflexivity.
    + reflexivity.
  - (* Esc2 *)
    unfold esc2_final_ok in OK.
    assert (Hf : f < 128) by lia.
    rewrite utf8_ascii.
    2:{ cbn [forallb]. unfold b_ESC. destruct (f <? 128) eqn:E; [reflexivity|lia]. }
    cbn [app]. rewrite run_ground_esc.
    rewrite (run_ns Escape ints_empty f r Ground ints_empty); [reflexivity|discriminate|].
    unfold step, ints_push, ints_empty. unfold_classes. bsplit; reflexivity.
  - (* Esc3 *)
    apply andb_prop in OK. destruct OK as [Hit Hfr].
    assert (Hi : it < 128) by (unfold_classes; lia).
    assert (Hf : f < 128) by lia.
    rewrite utf8_ascii.
    2:{ cbn [forallb]. unfold b_ESC.
        destruct (f <? 128) eqn:E; [|lia]. destruct (it <? 128) eqn:E'; [reflexivity|lia]. }
    cbn [app]. rewrite run_ground_esc.
    rewrite (run_ns Escape ints_empty it _ EscInt (it, 0)).
    2: discriminate.
    2:{ unfold step, ints_push, ints_empty. unfold_classes. bsplit; reflexivity. }
    rewrite (run_ns EscInt (it, 0) f r Ground (it, 0)).
    2: discriminate.
    2:{ unfold step, ints_push. unfold_classes. bsplit; reflexivity. }
    f_equal. apply ground_ints.
  - (* Ss *)
    apply andb_prop in OK. destruct OK as [Hc Hne].
    rewrite utf8_ascii.
    2:{ cbn [forallb]. rewrite Hc. destruct three; reflexivity. }
    cbn [app]. rewrite run_ground_esc.
    destruct three.
    + rewrite (run_ns Escape ints_empty 79 _ EscSs3 ints_empty) by (discriminate || reflexivity).
      rewrite (run_ns EscSs3 ints_empty c r Ground ints_empty); [reflexivity|discriminate|].
      unfold step. unfold_classes. bsplit; reflexivity.
    + rewrite (run_ns Escape ints_empty 78 _ EscSs2 ints_empty) by (discriminate || reflexivity).
      rewrite (run_ns EscSs2 ints_empty c r Ground ints_empty); [reflexivity|discriminate|].
      unfold step. unfold_classes. bsplit; reflexivity.
  - (* Cstr *)
    apply andb_prop in OK. destruct OK as [Hkk Hpl].
    assert (Hk : k = 80 \/ k = 88 \/ k = 94 \/ k = 95) by lia.
    rewrite !utf8_cons, utf8_app. rewrite (utf8_cp_ascii b_ESC) by (unfold b_ESC; lia).
    rewrite (utf8_cp_ascii k) by lia. cbn [app]. rewrite <- app_assoc.
    rewrite run_ground_esc.
    destruct Hk as [-> | [-> | [-> | ->]]].
    + rewrite (run_ns Escape ints_empty 80 _ DcsIgnore ints_empty) by (discriminate || reflexivity).
      rewrite dcs_payload by assumption. reflexivity.
    + rewrite (run_ns Escape ints_empty 88 _ SosPmApcString ints_empty) by (discriminate || reflexivity).
      rewrite spa_payload by assumption. reflexivity.
    + rewrite (run_ns Escape ints_empty 94 _ SosPmApcString ints_empty) by (discriminate || reflexivity).
      rewrite spa_payload by assumption. reflexivity.
    + rewrite (run_ns Escape ints_empty 95 _ SosPmApcString ints_empty) by (discriminate || reflexivity).
      rewrite spa_payload by assumption. reflexivity.
Qed.

(* ------------------------------------------------------------------ *)
(** * Lengths of chunks: justification of the wrapper's shortcut       *)

Lemma len_concat_push b R : length (concat (push b R)) = S (length (concat R)).
Proof. destruct R as [|c cs]; reflexivity. Qed.

Lemma run_len bs : forall st i, (length (concat (run st i bs)) <= length bs)%nat.
Proof.
  induction bs as [|b r IH]; intros st i; [apply Nat.le_refl|].
  cbn [run]. destruct (step st i b) as [st' i']. specialize (IH st' i').
  destruct st; cbn [length]; try lia.
  destruct (ends_ground b).
  - cbn [concat app]. lia.
  - rewrite len_concat_push. lia.
Qed.

Lemma run_len_strict bs : forall i,
  forallb text_byte bs = false -> (length (concat (run Ground i bs)) < length bs)%nat.
Proof.
  induction bs as [|b r IH]; cbn [forallb]; intros i H; [discriminate|].
  rewrite run_ground_cons. unfold text_byte in H at 1.
  destruct (ends_ground b); cbn [negb andb] in H.
  - cbn [concat app length].
    destruct (b =? b_ESC).
    + pose proof (run_len r Escape ints_empty). lia.
    + pose proof (run_len r Ground i). lia.
  - rewrite len_concat_push. cbn [length]. specialize (IH i H). lia.
Qed.

Lemma In_chunk_len (c : list N) R : In c R -> (length c <= length (concat R))%nat.
Proof.
  induction R as [|c' R IH]; cbn [In concat]; intros H; [contradiction|].
  rewrite app_length. destruct H as [-> | H]; [lia|]. specialize (IH H). lia.
Qed.

Lemma utf8_decode_nil : utf8_decode [] = [].
Proof. reflexivity. Qed.

Lemma D_filter R : D (filter nonempty R) = D R.
Proof.
  unfold D. induction R as [|c R IH]; [reflexivity|].
  cbn [filter flat_map]. destruct c as [|b c]; cbn [nonempty].
  - rewrite utf8_decode_nil. exact IH.
  - cbn [flat_map]. rewrite IH. reflexivity.
Qed.

Lemma D_push_all t R : valid t = true -> D (push_all (utf8 t) R) = t ++ D R.
Proof.
  intros V. destruct R as [|c cs].
  - pose proof (decode_utf8_id t V) as RT.
    destruct (utf8 t) as [|b bs] eqn:E.
    + cbn in RT. subst t. reflexivity.
    + rewrite push_all_nil. unfold D. cbn [flat_map]. rewrite RT. reflexivity.
  - rewrite push_all_cons. unfold D. cbn [flat_map].
    rewrite decode_utf8 by assumption. symmetry. apply app_assoc.
Qed.

Lemma strip_str_unfold s :
  strip_str s =
  match raw_chunks (utf8 s) with
  | [] => []
  | _ :: _ =>
      if forallb (fun c => Nat.eqb (length c) (length (utf8 s))) (raw_chunks (utf8 s)) then s
      else flat_map (fun c => if Nat.eqb (length c) (length (utf8 s)) then [] else utf8_decode c)
                    (raw_chunks (utf8 s))
  end.
Proof. reflexivity. Qed.

(* The shortcut and has_text are unobservable: strip_ansi_string is "decode
   every Raw chunk lossily and concatenate". *)
Theorem strip_str_chunks s : valid s = true -> strip_str s = strip_str_plain s.
Proof.
  intros V. rewrite strip_str_unfold. unfold strip_str_plain, raw_chunks.
  fold (D (run Ground ints_empty (utf8 s))).
  destruct (forallb text_byte (utf8 s)) eqn:TB.
  - (* one chunk: the whole input *)
    pose proof (run_ground_text (utf8 s) ints_empty [] TB) as HR.
    rewrite app_nil_r in HR. rewrite HR.
    pose proof (decode_utf8_id s V) as RT.
    destruct (utf8 s) as [|b bs] eqn:E.
    + reflexivity.
    + cbn [run]. rewrite push_all_nil. cbn [filter nonempty forallb].
      rewrite Nat.eqb_refl. cbn [andb]. unfold D. cbn [flat_map].
      rewrite RT. symmetry. apply app_nil_r.
  - (* something is dropped: every chunk is strictly shorter than the input *)
    pose proof (run_len_strict (utf8 s) ints_empty TB) as SL.
    rewrite <- (D_filter (run Ground ints_empty (utf8 s))).
    assert (Hshort : forall c, In c (filter nonempty (run Ground ints_empty (utf8 s))) ->
                     Nat.eqb (length c) (length (utf8 s)) = false).
    { intros c Hc. apply filter_In in Hc. destruct Hc as [Hc _].
      apply In_chunk_len in Hc. apply Nat.eqb_neq. lia. }
    revert Hshort.
    generalize (filter nonempty (run Ground ints_empty (utf8 s))) as cs.
    generalize (length (utf8 s)) as n.
    intros n cs Hshort. destruct cs as [|c0 cs]; [reflexivity|].
    cbn [forallb]. rewrite (Hshort c0 (or_introl eq_refl)). cbn [andb].
    unfold D. generalize (c0 :: cs) Hshort. clear.
    intros l. induction l as [|c l IH]; intros Hshort; [reflexivity|].
    cbn [flat_map]. rewrite (Hshort c (or_introl eq_refl)).
    f_equal. apply IH. intros c' Hc'. apply Hshort. right. exact Hc'.
Qed.

(* ------------------------------------------------------------------ *)
(** * Law 1: text without controls is returned unchanged               *)

Lemma cf_text_bytes t : control_free t = true -> forallb text_byte (utf8 t) = true.
Proof.
  unfold control_free. induction t as [|c t IH]; cbn [forallb]; intros H; [reflexivity|].
  apply andb_prop in H. destruct H as [Hc Ht].
  rewrite utf8_cons, forallb_app, (IH Ht), andb_true_r.
  unfold cf_cp in Hc. unfold utf8_cp, text_byte. unfold_classes.
  bsplit; cbn [forallb]; lia.
Qed.

Theorem strip_clean_id : forall s,
  valid s = true -> control_free s = true -> strip_str s = s.
Proof.
  intros s V CF. rewrite strip_str_chunks by assumption. unfold strip_str_plain.
  pose proof (run_ground_text (utf8 s) ints_empty [] (cf_text_bytes s CF)) as HR.
  rewrite app_nil_r in HR. rewrite HR. cbn [run].
  fold (D (push_all (utf8 s) [])). rewrite D_push_all by assumption. apply app_nil_r.
Qed.

(* ------------------------------------------------------------------ *)
(** * Law 2: stripping decorated text gives the text                   *)

Lemma seq_bytes_valid q : seq_ok q = true -> valid (seq_bytes q) = true.
Proof.
  unfold valid. intros OK.
  destruct q as [p it f | pl st | f | it f | three c | k pl]; cbn [seq_ok seq_bytes] in OK |- *.
  - apply andb_prop in OK. destruct OK as [OK Hfin].
    apply andb_prop in OK. destruct OK as [Hps His].
    cbn [forallb]. rewrite !forallb_app. cbn [forallb].
    rewrite (forallb_weaken is_param valid_cp p), (forallb_weaken is_intermediate valid_cp it);
      try assumption.
    + unfold valid_cp. unfold_classes. lia.
    + intros a Ha. unfold valid_cp. unfold_classes. lia.
    + intros a Ha. unfold valid_cp. unfold_classes. lia.
  - cbn [forallb]. rewrite forallb_app.
    rewrite (forallb_weaken osc_cp_ok valid_cp pl); try assumption.
    + destruct st; reflexivity.
    + intros a Ha. unfold osc_cp_ok in Ha. apply andb_prop in Ha. tauto.
  - unfold esc2_final_ok in OK. cbn [forallb]. unfold valid_cp. unfold_classes. lia.
  - cbn [forallb]. unfold valid_cp. unfold_classes. lia.
  - cbn [forallb]. unfold valid_cp. unfold_classes. destruct three; lia.
  - apply andb_prop in OK. destruct OK as [Hk Hpl].
    cbn [forallb]. rewrite forallb_app.
    rewrite (forallb_weaken cstr_cp_ok valid_cp pl); try assumption.
    + cbn [forallb]. unfold valid_cp. unfold_classes. lia.
    + intros a Ha. unfold cstr_cp_ok in Ha. apply andb_prop in Ha. tauto.
Qed.

Lemma decorate_valid items : items_ok items = true -> valid (decorate items) = true.
Proof.
  unfold items_ok, valid. induction items as [|it items IH]; cbn [forallb]; intros H;
    [reflexivity|].
  apply andb_prop in H. destruct H as [Hit Hrest].
  cbn [decorate flat_map]. rewrite forallb_app. fold (decorate items).
  rewrite (IH Hrest), andb_true_r.
  destruct it as [t | q]; cbn [item_ok] in Hit.
  - apply andb_prop in Hit. destruct Hit as [Hv _]. exact Hv.
  - apply seq_bytes_valid. exact Hit.
Qed.

Lemma run_decorate items : forall i,
  items_ok items = true ->
  D (run Ground i (utf8 (decorate items))) = texts items.
Proof.
  unfold items_ok. induction items as [|it items IH]; cbn [forallb]; intros i H;
    [reflexivity|].
  apply andb_prop in H. destruct H as [Hit Hrest].
  cbn [decorate texts flat_map]. fold (decorate items). fold (texts items).
  rewrite utf8_app.
  destruct it as [t | q]; cbn [item_ok] in Hit.
  - apply andb_prop in Hit. destruct Hit as [Hv Hcf].
    rewrite run_ground_text by (apply cf_text_bytes; assumption).
    rewrite D_push_all by assumption. f_equal. apply IH. assumption.
  - rewrite run_seq by assumption. unfold D. cbn [flat_map].
    rewrite utf8_decode_nil. cbn [app]. apply IH. assumption.
Qed.

Theorem strip_decorate : forall items,
  items_ok items = true -> strip_str (decorate items) = texts items.
Proof.
  intros items OK. rewrite strip_str_chunks by (apply decorate_valid; assumption).
  apply run_decorate. assumption.
Qed.

(* ------------------------------------------------------------------ *)
(** * Law 3: the output is valid, control free, and a fixed point      *)

Definition ok_cp (c : N) : bool := valid_cp c && cf_cp c.

Lemma chunks_text bs : forall st i,
  Forall (fun c => forallb text_byte c = true) (run st i bs).
Proof.
  induction bs as [|b r IH]; intros st i; [constructor|].
  cbn [run]. destruct (step st i b) as [st' i']. specialize (IH st' i').
  destruct st; try exact IH.
  destruct (ends_ground b) eqn:E.
  - constructor; [reflexivity | exact IH].
  - assert (Hb : text_byte b = true) by (unfold text_byte; rewrite E; reflexivity).
    destruct (run st' i' r) as [|c cs]; cbn [push].
    + constructor; [|constructor]. cbn [forallb]. rewrite Hb. reflexivity.
    + inversion IH as [|c0 cs0 Hc Hcs]; subst.
      constructor; [|assumption]. cbn [forallb]. rewrite Hb, Hc. reflexivity.
Qed.

Ltac ok_leaf IH :=
  cbn [forallb];
  repeat (apply andb_true_intro; split);
  first
    [ reflexivity
    | apply IH; [ cbn [length] in *; lia
                | cbn [forallb]; repeat (apply andb_true_intro; split); assumption ]
    | unfold ok_cp, valid_cp, cf_cp, text_byte in *; unfold_classes; lia ].

Lemma decode_ok : forall n bs,
  (length bs <= n)%nat -> forallb text_byte bs = true ->
  forallb ok_cp (utf8_decode bs) = true.
Proof.
  induction n as [|n IH]; intros bs L TB.
  - destruct bs; [reflexivity | cbn [length] in L; lia].
  - destruct bs as [|b0 r0]; [reflexivity|].
    rewrite utf8_decode_cons.
    cbn [forallb] in TB. apply andb_prop in TB. destruct TB as [T0 TB0].
    destruct (b0 <? 128) eqn:C1; [ok_leaf IH|].
    destruct ((194 <=? b0) && (b0 <=? 223)) eqn:C2.
    { destruct r0 as [|b1 r1]; [ok_leaf IH|].
      cbn [forallb] in TB0. apply andb_prop in TB0. destruct TB0 as [T1 TB1].
      destruct (is_cont b1) eqn:K1; ok_leaf IH. }
    destruct ((224 <=? b0) && (b0 <=? 239)) eqn:C3.
    { destruct r0 as [|b1 r1]; [ok_leaf IH|].
      cbn [forallb] in TB0. apply andb_prop in TB0. destruct TB0 as [T1 TB1].
      destruct (snd_ok3 b0 b1) eqn:S1; [|ok_leaf IH].
      destruct r1 as [|b2 r2]; [ok_leaf IH|].
      cbn [forallb] in TB1. apply andb_prop in TB1. destruct TB1 as [T2 TB2].
      destruct (is_cont b2) eqn:K2; [|ok_leaf IH].
      cbn [forallb]. apply andb_true_intro. split.
      - unfold ok_cp, valid_cp, cf_cp. unfold_classes.
        destruct (b0 =? 224) eqn:Q1; destruct (b0 =? 237) eqn:Q2; lia.
      - apply IH; [cbn [length] in L; lia | assumption]. }
    destruct ((240 <=? b0) && (b0 <=? 244)) eqn:C4.
    { destruct r0 as [|b1 r1]; [ok_leaf IH|].
      cbn [forallb] in TB0. apply andb_prop in TB0. destruct TB0 as [T1 TB1].
      destruct (snd_ok4 b0 b1) eqn:S1; [|ok_leaf IH].
      destruct r1 as [|b2 r2]; [ok_leaf IH|].
      cbn [forallb] in TB1. apply andb_prop in TB1. destruct TB1 as [T2 TB2].
      destruct (is_cont b2) eqn:K2; [|ok_leaf IH].
      destruct r2 as [|b3 r3]; [ok_leaf IH|].
      cbn [forallb] in TB2. apply andb_prop in TB2. destruct TB2 as [T3 TB3].
      destruct (is_cont b3) eqn:K3; [|ok_leaf IH].
      cbn [forallb]. apply andb_true_intro. split.
      - unfold ok_cp, valid_cp, cf_cp. unfold_classes.
        destruct (b0 =? 240) eqn:Q1; destruct (b0 =? 244) eqn:Q2; lia.
      - apply IH; [cbn [length] in L; lia | assumption]. }
    ok_leaf IH.
Qed.

Lemma D_ok R :
  Forall (fun c => forallb text_byte c = true) R -> forallb ok_cp (D R) = true.
Proof.
  unfold D. induction 1 as [|c R Hc HR IH]; [reflexivity|].
  cbn [flat_map]. rewrite forallb_app, IH, andb_true_r.
  apply (decode_ok (length c)); [apply Nat.le_refl | assumption].
Qed.

Lemma ok_split l : forallb ok_cp l = true -> valid l = true /\ control_free l = true.
Proof.
  unfold valid, control_free. induction l as [|c l IH]; cbn [forallb]; intros H; [split; reflexivity|].
  apply andb_prop in H. destruct H as [Hc Hl]. destruct (IH Hl) as [Hv Hcf].
  unfold ok_cp in Hc. apply andb_prop in Hc. destruct Hc as [Hc1 Hc2].
  rewrite Hc1, Hc2, Hv, Hcf. split; reflexivity.
Qed.

Theorem strip_output_ok : forall s,
  valid s = true -> valid (strip_str s) = true /\ control_free (strip_str s) = true.
Proof.
  intros s V. rewrite strip_str_chunks by assumption. unfold strip_str_plain.
  apply ok_split. apply (D_ok (run Ground ints_empty (utf8 s))). apply chunks_text.
Qed.

Theorem strip_idempotent : forall s,
  valid s = true -> strip_str (strip_str s) = strip_str s.
Proof.
  intros s V. destruct (strip_output_ok s V) as [Hv Hcf].
  apply strip_clean_id; assumption.
Qed.

(* ------------------------------------------------------------------ *)
(** * Per-chunk lossy decoding = lossy decoding of strip_ansi_bytes     *)

(* a chunk after which the decoder is back at a character boundary *)
Definition complete (c : list N) : Prop :=
  forall X, utf8_decode (c ++ X) = utf8_decode c ++ utf8_decode X.

Lemma complete_nil : complete [].
Proof. intros X. reflexivity. Qed.

Lemma complete_utf8_cp c h : valid_cp c = true -> complete h -> complete (utf8_cp c ++ h).
Proof.
  intros V Hh X. rewrite <- app_assoc, !decode_utf8_cp, Hh by assumption. reflexivity.
Qed.

Lemma complete_cont b h : 128 <= b <= 191 -> complete h -> complete (b :: h).
Proof.
  intros Hb Hh X. cbn [app]. rewrite !(utf8_decode_cons b).
  destruct (b <? 128) eqn:E1; [lia|].
  destruct ((194 <=? b) && (b <=? 223)) eqn:E2; [lia|].
  destruct ((224 <=? b) && (b <=? 239)) eqn:E3; [lia|].
  destruct ((240 <=? b) && (b <=? 244)) eqn:E4; [lia|].
  rewrite Hh. reflexivity.
Qed.

Lemma complete_conts l h :
  Forall (fun b => 128 <= b <= 191) l -> complete h -> complete (l ++ h).
Proof.
  intros F Hh. induction F as [|b l Hb F IH]; [exact Hh|].
  cbn [app]. apply complete_cont; assumption.
Qed.

Lemma D_concat R : Forall complete R -> utf8_decode (concat R) = D R.
Proof.
  unfold D. induction 1 as [|c R Hc HR IH]; [reflexivity|].
  cbn [concat flat_map]. rewrite Hc, IH. reflexivity.
Qed.

Lemma push_all_complete bs R :
  (forall h, complete h -> complete (bs ++ h)) ->
  Forall complete R -> Forall complete (push_all bs R).
Proof.
  intros Hbs HR. destruct R as [|c cs].
  - destruct bs as [|b bs]; [constructor|].
    rewrite push_all_nil. constructor; [|constructor].
    rewrite <- (app_nil_r (b :: bs)). apply Hbs. apply complete_nil.
  - rewrite push_all_cons. inversion HR as [|c0 cs0 Hc Hcs]; subst.
    constructor; [apply Hbs|]; assumption.
Qed.

Lemma utf8_cp_shape c :
  128 <= c -> valid_cp c = true ->
  exists b0 l, utf8_cp c = b0 :: l /\ 128 <= b0 /\ Forall (fun b => 128 <= b <= 191) l.
Proof.
  intros Hc V. unfold valid_cp in V. unfold utf8_cp.
  bsplit; eexists; eexists; (split; [reflexivity|]); (split; [lia|]); repeat constructor; lia.
Qed.

Lemma high_step st i b :
  st <> Ground -> 128 <= b ->
  exists st', step st i b = (st', i) /\
              (st' = Ground \/ (st' <> Ground /\ forall b', 128 <= b' -> stays st' b')).
Proof.
  intros NG Hb.
  destruct st; try congruence; unfold step; unfold_classes; bsplit;
    eexists; (split; [reflexivity|]);
    first [ left; reflexivity
          | right; split; [discriminate|];
            intros b' Hb' j; unfold step; unfold_classes; bsplit; reflexivity ].
Qed.

Lemma conts_text l :
  Forall (fun b => 128 <= b <= 191) l -> forallb text_byte l = true.
Proof.
  induction 1 as [|b l Hb F IH]; [reflexivity|].
  cbn [forallb]. rewrite IH, andb_true_r. unfold text_byte. unfold_classes. lia.
Qed.

Lemma vt_state_eq_dec_ground st : {st = Ground} + {st <> Ground}.
Proof. destruct st; (left; reflexivity) || (right; discriminate). Qed.

Lemma run_complete s : valid s = true -> forall st i, Forall complete (run st i (utf8 s)).
Proof.
  unfold valid. induction s as [|c s IH]; cbn [forallb]; intros V st i; [constructor|].
  apply andb_prop in V. destruct V as [Vc Vs]. specialize (IH Vs).
  rewrite utf8_cons. destruct (c <? 128) eqn:A.
  - assert (Hc : c < 128) by lia.
    rewrite utf8_cp_ascii by assumption. cbn [app run].
    destruct (step st i c) as [st' i']. specialize (IH st' i').
    destruct st; try exact IH.
    destruct (ends_ground c).
    + constructor; [apply complete_nil | exact IH].
    + change (push c (run st' i' (utf8 s))) with (push_all [c] (run st' i' (utf8 s))).
      apply push_all_complete; [|exact IH].
      intros h Hh. rewrite <- (utf8_cp_ascii c Hc). apply complete_utf8_cp; assumption.
  - assert (Hc : 128 <= c) by lia.
    assert (TBc : forallb text_byte (utf8_cp c) = true).
    { pose proof (cf_text_bytes [c]) as H. rewrite utf8_cons in H. cbn [utf8 flat_map] in H.
      rewrite app_nil_r in H. apply H. unfold control_free. cbn [forallb].
      unfold cf_cp. lia. }
    assert (Cc : forall h, complete h -> complete (utf8_cp c ++ h)).
    { intros h Hh. apply complete_utf8_cp; assumption. }
    destruct (vt_state_eq_dec_ground st) as [-> | NG].
    + rewrite run_ground_text by assumption. apply push_all_complete; [exact Cc | apply IH].
    + destruct (utf8_cp_shape c Hc Vc) as [b0 [l [Hshape [Hb0 Hl]]]].
      rewrite Hshape. cbn [app].
      destruct (high_step st i b0 NG Hb0) as [st' [Hstep Hst']].
      rewrite (run_ns st i b0 _ st' i NG Hstep).
      destruct Hst' as [-> | [NG' Hstay]].
      * rewrite run_ground_text by (apply conts_text; assumption).
        apply push_all_complete; [|apply IH].
        intros h Hh. apply complete_conts; assumption.
      * rewrite run_stay; [apply IH | assumption |].
        revert Hl. apply Forall_impl. intros b Hb. apply Hstay. lia.
Qed.

(* strip_ansi_string = from_utf8_lossy (strip_ansi_bytes), on valid input *)
Theorem strip_str_bytes : forall s,
  valid s = true -> strip_str s = utf8_decode (strip_bytes (utf8 s)).
Proof.
  intros s V. rewrite strip_str_chunks by assumption.
  unfold strip_str_plain, strip_bytes, raw_chunks.
  fold (D (run Ground ints_empty (utf8 s))).
  rewrite <- D_filter. symmetry. apply D_concat.
  apply Forall_forall. intros c Hc. apply filter_In in Hc. destruct Hc as [Hc _].
  revert c Hc. apply Forall_forall. apply run_complete. assumption.
Qed.
