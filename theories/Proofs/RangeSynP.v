(* Rule range_spec of the regenerated grammar and the converter's parse_range_spec
   read back every printed range: all seven forms, every bound in isize. *)
From SP Require Import Model.Syntax Model.Scanner Proofs.PegP Proofs.SyntaxP Proofs.ArgP Proofs.NumP.
Local Open Scope N_scope.

(* what follows a range inside a block: `|` or `}` *)
Definition op_stops (rest : str) : Prop := exists c t, rest = c :: t /\ (c = 124 \/ c = 125).

Lemma op_stops_no_digit rest : op_stops rest -> no_digit_head rest.
Proof. intros (c & t & -> & [-> | ->]); reflexivity. Qed.

Lemma run_alt (a b : peg rule) at_ inp :
  run (PAlt a b) at_ inp = match run a at_ inp with Some x => Some x | None => run b at_ inp end.
Proof. reflexivity. Qed.
Lemma run_opt (a : peg rule) at_ inp :
  run (POpt a) at_ inp = match run a at_ inp with Some x => Some x | None => Some ([], [], inp) end.
Proof. reflexivity. Qed.
Lemma seq_res_none (f : str -> res rule) : seq_res rule None f = None.
Proof. reflexivity. Qed.

Lemma str_fail_head (p : str) c0 at_ c t : N.eqb c0 c = false -> run (@PStr rule (c0 :: p)) at_ (c :: t) = None.
Proof. intros H. cbn [run strip_prefix]. rewrite H. reflexivity. Qed.
Lemma dde_fail at_ x t : N.eqb 61 x = false -> run (@PStr rule [46; 46; 61]) at_ (46 :: 46 :: x :: t) = None.
Proof. intros H. cbn [run strip_prefix]. rewrite !N.eqb_refl, H. reflexivity. Qed.

(* heads *)
Lemma num_head_not z : exists c t, print_Z z = c :: t /\ N.eqb 46 c = false /\ N.eqb 61 c = false.
Proof.
  destruct (print_Z_head z) as (c & t & E & [Hc | Hd]); exists c, t; (split; [exact E|]).
  - subst c. split; reflexivity.
  - unfold is_digit in Hd. apply andb_true_iff in Hd as [H1 H2]. apply N.leb_le in H1, H2.
    split; apply N.eqb_neq; lia.
Qed.
Lemma stop_head_not rest : op_stops rest -> exists c t, rest = c :: t /\ N.eqb 46 c = false /\ N.eqb 61 c = false /\ is_digit c = false /\ c <> 45.
Proof. intros (c & t & -> & [-> | ->]); eexists; eexists; (split; [reflexivity|]); repeat split; discriminate. Qed.

Lemma run_number_at_stop rest : op_stops rest -> run r_number false rest = None.
Proof. intros H. destruct (stop_head_not rest H) as (c & t & -> & _ & _ & Hd & Hm). apply run_number_fail; assumption. Qed.

Notation numtok z := (Node (Some R_number) (print_Z z) []).

Lemma str_fail_eq (p : str) c0 at_ inp c t : inp = c :: t -> N.eqb c0 c = false -> run (@PStr rule (c0 :: p)) at_ inp = None.
Proof. intros -> H. apply str_fail_head. exact H. Qed.

Lemma num_app_head z rest : exists c t, print_Z z ++ rest = c :: t /\ N.eqb 46 c = false /\ N.eqb 61 c = false.
Proof. destruct (num_head_not z) as (c & t & E & H1 & H2). exists c, (t ++ rest). rewrite E. auto. Qed.

(* an alternative that begins with ".." or "..=" fails on text that begins with a numeral *)
Lemma dots_alt_fails_on_num (id : rule) (p : str) (e : peg rule) z rest :
  run (PRule id Normal (PSeq (PStr (46 :: p)) e)) false (print_Z z ++ rest) = None.
Proof.
  destruct (num_app_head z rest) as (c & t & E & H1 & _).
  rewrite run_rule_normal, run_seq, (str_fail_eq _ 46 _ _ c t E H1). reflexivity.
Qed.

(* ---- Index i ------------------------------------------------------------------- *)
Lemma run_range_index i rest : op_stops rest ->
  run r_range_spec false (print_Z i ++ rest)
  = Some (print_Z i, [Node (Some R_range_spec) (print_Z i) [Node (Some R_index) (print_Z i) [numtok i]]], rest).
Proof.
  intros Hst. pose proof (op_stops_no_digit rest Hst) as Hnd.
  destruct (stop_head_not rest Hst) as (sc & stl & Erest & Hs46 & Hs61 & Hsd & Hsm).
  unfold r_range_spec. rewrite run_rule_normal. rewrite !run_alt.
  unfold r_range_to_inclusive. rewrite dots_alt_fails_on_num.
  unfold r_range_to. rewrite dots_alt_fails_on_num.
  unfold r_range_inclusive. rewrite run_rule_normal, run_seq, run_opt, (run_number_print false i rest Hnd), seq_res_some.
  rewrite run_seq, (str_fail_eq _ 46 _ rest sc stl Erest Hs46), seq_res_none.
  unfold r_range_exclusive. rewrite run_rule_normal, run_seq, run_opt, (run_number_print false i rest Hnd), seq_res_some.
  rewrite run_seq, (str_fail_eq _ 46 _ rest sc stl Erest Hs46), seq_res_none.
  unfold r_range_from. rewrite run_rule_normal, run_seq, (run_number_print false i rest Hnd), seq_res_some.
  rewrite (str_fail_eq _ 46 _ rest sc stl Erest Hs46).
  unfold r_range_full. rewrite run_rule_normal.
  destruct (num_app_head i rest) as (hc & ht & HE & Hh1 & _).
  rewrite (str_fail_eq _ 46 _ _ hc ht HE Hh1).
  unfold r_index. rewrite run_rule_normal, (run_number_print false i rest Hnd). reflexivity.
Qed.

(* ---- ranges with ".." --------------------------------------------------------- *)
Definition optk (o : option Z) : list ptree := match o with Some z => [numtok z] | None => [] end.

Lemma opt_num o rest : op_stops rest ->
  run (POpt r_number) false (print_optz o ++ rest) = Some (print_optz o, optk o, rest).
Proof.
  intros Hst. rewrite run_opt. destruct o as [z|]; cbn [print_optz optk].
  - rewrite (run_number_print false z rest (op_stops_no_digit rest Hst)). reflexivity.
  - cbn [app]. rewrite (run_number_at_stop rest Hst). reflexivity.
Qed.

Lemma optz_app_head o rest : op_stops rest ->
  exists c t, print_optz o ++ rest = c :: t /\ N.eqb 46 c = false /\ N.eqb 61 c = false.
Proof.
  intros Hst. destruct o as [z|]; cbn [print_optz].
  - apply num_app_head.
  - destruct (stop_head_not rest Hst) as (c & t & E & H1 & H2 & _). exists c, t. cbn [app]. auto.
Qed.

Lemma dde_fail_eq at_ X x t : X = x :: t -> N.eqb 61 x = false -> run (@PStr rule [46; 46; 61]) at_ (46 :: 46 :: X) = None.
Proof. intros -> H. apply dde_fail. exact H. Qed.
Lemma run_dd at_ X : run (@PStr rule [46; 46]) at_ (46 :: 46 :: X) = Some ([46; 46], [], X).
Proof. exact (run_str [46; 46] at_ X). Qed.
Lemma run_dde at_ X : run (@PStr rule [46; 46; 61]) at_ (46 :: 46 :: 61 :: X) = Some ([46; 46; 61], [], X).
Proof. exact (run_str [46; 46; 61] at_ X). Qed.
Lemma no_digit_dot t : no_digit_head (46 :: t).
Proof. reflexivity. Qed.
Lemma opt_num_dot t : run (POpt r_number) false (46 :: t) = Some ([], [], 46 :: t).
Proof. rewrite run_opt, run_number_fail; [reflexivity | reflexivity | discriminate]. Qed.
Lemma opt_num_stop rest : op_stops rest -> run (POpt r_number) false rest = Some ([], [], rest).
Proof. intros H. exact (opt_num None rest H). Qed.
Lemma num_fail_eq t : run r_number false (61 :: t) = None.
Proof. apply run_number_fail; [reflexivity | discriminate]. Qed.

(* the four leading alternatives shared by range_spec and shorthand_range *)
Definition range_alts (X : peg rule) : peg rule :=
  PAlt r_range_to_inclusive (PAlt r_range_to (PAlt r_range_inclusive (PAlt r_range_exclusive X))).
Definition range_rule (id : rule) (X : peg rule) : peg rule := PRule id Normal (range_alts X).
Definition spec_tail : peg rule := PAlt r_range_from (PAlt r_range_full r_index).
Definition short_tail : peg rule := PAlt r_range_from r_range_full.
Lemma r_range_spec_alts : r_range_spec = range_rule R_range_spec spec_tail.
Proof. reflexivity. Qed.
Lemma r_shorthand_range_alts : r_shorthand_range = range_rule R_shorthand_range short_tail.
Proof. reflexivity. Qed.

Definition rtree (id inner : rule) (txt : str) (kids : list ptree) : ptree :=
  Node (Some id) txt [Node (Some inner) txt kids].

(* A..  and  A..B *)
Lemma run_range_a_excl (id : rule) (X : peg rule) a ob rest : op_stops rest ->
  run (range_rule id X) false (print_Z a ++ 46 :: 46 :: print_optz ob ++ rest)
  = Some (print_Z a ++ 46 :: 46 :: print_optz ob,
          [rtree id R_range_exclusive (print_Z a ++ 46 :: 46 :: print_optz ob) (numtok a :: optk ob)], rest).
Proof.
  intros Hst. destruct (optz_app_head ob rest Hst) as (xc & xt & EX & _ & HX61).
  unfold range_rule, range_alts. rewrite run_rule_normal. rewrite !run_alt.
  unfold r_range_to_inclusive. rewrite dots_alt_fails_on_num.
  unfold r_range_to. rewrite dots_alt_fails_on_num.
  unfold r_range_inclusive. rewrite run_rule_normal, run_seq, run_opt, (run_number_print false a _ (no_digit_dot _)), seq_res_some.
  rewrite run_seq, (dde_fail_eq _ _ xc xt EX HX61), seq_res_none.
  unfold r_range_exclusive. rewrite run_rule_normal, run_seq, run_opt, (run_number_print false a _ (no_digit_dot _)), seq_res_some.
  rewrite run_seq, run_dd, seq_res_some, (opt_num ob rest Hst).
  reflexivity.
Qed.

(* A..=  and  A..=B *)
Lemma run_range_a_incl (id : rule) (X : peg rule) a ob rest : op_stops rest ->
  run (range_rule id X) false (print_Z a ++ 46 :: 46 :: 61 :: print_optz ob ++ rest)
  = Some (print_Z a ++ 46 :: 46 :: 61 :: print_optz ob,
          [rtree id R_range_inclusive (print_Z a ++ 46 :: 46 :: 61 :: print_optz ob) (numtok a :: optk ob)], rest).
Proof.
  intros Hst.
  unfold range_rule, range_alts. rewrite run_rule_normal. rewrite !run_alt.
  unfold r_range_to_inclusive. rewrite dots_alt_fails_on_num.
  unfold r_range_to. rewrite dots_alt_fails_on_num.
  unfold r_range_inclusive. rewrite run_rule_normal, run_seq, run_opt, (run_number_print false a _ (no_digit_dot _)), seq_res_some.
  rewrite run_seq, run_dde, seq_res_some, (opt_num ob rest Hst).
  reflexivity.
Qed.

(* ..B *)
Lemma run_range_to (id : rule) (X : peg rule) b rest : op_stops rest ->
  run (range_rule id X) false (46 :: 46 :: print_Z b ++ rest)
  = Some (46 :: 46 :: print_Z b, [rtree id R_range_to (46 :: 46 :: print_Z b) [numtok b]], rest).
Proof.
  intros Hst. destruct (num_app_head b rest) as (xc & xt & EX & _ & HX61).
  unfold range_rule, range_alts. rewrite run_rule_normal. rewrite !run_alt.
  unfold r_range_to_inclusive. rewrite run_rule_normal, run_seq, (dde_fail_eq _ _ xc xt EX HX61), seq_res_none.
  unfold r_range_to. rewrite run_rule_normal, run_seq, run_dd, seq_res_some, (run_number_print false b rest (op_stops_no_digit rest Hst)).
  reflexivity.
Qed.

(* ..=B *)
Lemma run_range_to_incl (id : rule) (X : peg rule) b rest : op_stops rest ->
  run (range_rule id X) false (46 :: 46 :: 61 :: print_Z b ++ rest)
  = Some (46 :: 46 :: 61 :: print_Z b, [rtree id R_range_to_inclusive (46 :: 46 :: 61 :: print_Z b) [numtok b]], rest).
Proof.
  intros Hst.
  unfold range_rule, range_alts. rewrite run_rule_normal. rewrite !run_alt.
  unfold r_range_to_inclusive. rewrite run_rule_normal, run_seq, run_dde, seq_res_some, (run_number_print false b rest (op_stops_no_digit rest Hst)).
  reflexivity.
Qed.

(* ..   (read as an exclusive range without bounds, not by rule range_full) *)
Lemma run_range_full (id : rule) (X : peg rule) rest : op_stops rest ->
  run (range_rule id X) false (46 :: 46 :: rest)
  = Some ([46; 46], [rtree id R_range_exclusive [46; 46] []], rest).
Proof.
  intros Hst. destruct (stop_head_not rest Hst) as (sc & stl & Erest & _ & Hs61 & _ & _).
  unfold range_rule, range_alts. rewrite run_rule_normal. rewrite !run_alt.
  unfold r_range_to_inclusive. rewrite run_rule_normal, run_seq, (dde_fail_eq _ _ sc stl Erest Hs61), seq_res_none.
  unfold r_range_to. rewrite run_rule_normal, run_seq, run_dd, seq_res_some, (run_number_at_stop rest Hst).
  unfold r_range_inclusive. rewrite run_rule_normal, run_seq, opt_num_dot, seq_res_some.
  rewrite run_seq, (dde_fail_eq _ _ sc stl Erest Hs61), seq_res_none.
  unfold r_range_exclusive. rewrite run_rule_normal, run_seq, opt_num_dot, seq_res_some.
  rewrite run_seq, run_dd, seq_res_some, (opt_num_stop rest Hst).
  reflexivity.
Qed.

(* ..= *)
Lemma run_range_full_incl (id : rule) (X : peg rule) rest : op_stops rest ->
  run (range_rule id X) false (46 :: 46 :: 61 :: rest)
  = Some ([46; 46; 61], [rtree id R_range_inclusive [46; 46; 61] []], rest).
Proof.
  intros Hst.
  unfold range_rule, range_alts. rewrite run_rule_normal. rewrite !run_alt.
  unfold r_range_to_inclusive. rewrite run_rule_normal, run_seq, run_dde, seq_res_some, (run_number_at_stop rest Hst).
  unfold r_range_to. rewrite run_rule_normal, run_seq, run_dd, seq_res_some, num_fail_eq.
  unfold r_range_inclusive. rewrite run_rule_normal, run_seq, opt_num_dot, seq_res_some.
  rewrite run_seq, run_dde, seq_res_some, (opt_num_stop rest Hst).
  reflexivity.
Qed.

(* ---- the converter on those trees ------------------------------------------------- *)

Lemma parse_bound_numtok z : in_isize z = true -> parse_bound (numtok z) = Ok z.
Proof. intros H. unfold parse_bound. cbn [t_text]. rewrite (parse_isize_print z H). reflexivity. Qed.

Lemma opt_bound_optk_hd o : optz_ok o = true -> opt_bound (nth_error (optk o) 0) = Ok o.
Proof. destruct o as [z|]; cbn [optk nth_error opt_bound optz_ok]; intros H; [rewrite (parse_bound_numtok z H)|]; reflexivity. Qed.

Lemma opt_bound_some z : in_isize z = true -> opt_bound (Some (numtok z)) = Ok (Some z).
Proof. intros H. unfold opt_bound. rewrite (parse_bound_numtok z H). reflexivity. Qed.

Theorem range_spec_roundtrip r rest : range_ok r = true -> op_stops rest ->
  exists k, run r_range_spec false (print_range r ++ rest) = Some (print_range r, [k], rest)
            /\ parse_range_spec k = Ok r.
Proof.
  intros Hok Hst. destruct r as [i | a b inc]; cbn [range_ok] in Hok.
  - eexists. split; [apply (run_range_index i rest Hst)|].
    unfold parse_range_spec. cbn [t_kids unwrap_first bind t_rule]. rewrite (parse_bound_numtok i Hok). reflexivity.
  - apply andb_true_iff in Hok as [Ha Hb].
    destruct a as [a|]; destruct inc; cbn [print_range print_optz dots]; rewrite <- ?app_assoc; cbn [app].
    + eexists. split; [rewrite r_range_spec_alts; apply (run_range_a_incl R_range_spec spec_tail a b rest Hst)|].
      cbn [optz_ok] in Ha. destruct b as [b|]; cbn [optz_ok] in Hb;
      unfold parse_range_spec, rtree, opt_bound, parse_bound;
      cbn [optk t_kids unwrap_first bind t_rule nth_error t_text omap];
      rewrite ?parse_isize_print by assumption; reflexivity.
    + eexists. split; [rewrite r_range_spec_alts; apply (run_range_a_excl R_range_spec spec_tail a b rest Hst)|].
      cbn [optz_ok] in Ha. destruct b as [b|]; cbn [optz_ok] in Hb;
      unfold parse_range_spec, rtree, opt_bound, parse_bound;
      cbn [optk t_kids unwrap_first bind t_rule nth_error t_text omap];
      rewrite ?parse_isize_print by assumption; reflexivity.
    + destruct b as [b|]; cbn [print_optz app].
      * eexists. split; [rewrite r_range_spec_alts; apply (run_range_to_incl R_range_spec spec_tail b rest Hst)|].
        unfold parse_range_spec, rtree. cbn [t_kids unwrap_first bind t_rule]. rewrite (parse_bound_numtok b Hb). reflexivity.
      * eexists. split; [rewrite r_range_spec_alts; apply (run_range_full_incl R_range_spec spec_tail rest Hst)|]. reflexivity.
    + destruct b as [b|]; cbn [print_optz app].
      * eexists. split; [rewrite r_range_spec_alts; apply (run_range_to R_range_spec spec_tail b rest Hst)|].
        unfold parse_range_spec, rtree. cbn [t_kids unwrap_first bind t_rule]. rewrite (parse_bound_numtok b Hb). reflexivity.
      * eexists. split; [rewrite r_range_spec_alts; apply (run_range_full R_range_spec spec_tail rest Hst)|]. reflexivity.
Qed.

(* the same without the range premise: the converter refuses exactly the out-of-range bounds *)
Definition conv_range (r : range) : outcome range := if range_ok r then Ok r else Err.

Ltac conv_bounds :=
  unfold parse_range_spec, rtree, opt_bound, parse_bound, conv_range;
  cbn [range_ok optz_ok optk t_kids unwrap_first bind t_rule nth_error t_text omap];
  rewrite ?parse_isize_print_gen;
  repeat match goal with |- context [in_isize ?z] => destruct (in_isize z) end; reflexivity.

Theorem range_spec_reads r rest : op_stops rest ->
  exists k, run r_range_spec false (print_range r ++ rest) = Some (print_range r, [k], rest)
            /\ parse_range_spec k = conv_range r.
Proof.
  intros Hst. destruct r as [i | a b inc].
  - eexists. split; [apply (run_range_index i rest Hst)|]. conv_bounds.
  - destruct a as [a|]; destruct inc; cbn [print_range print_optz dots]; rewrite <- ?app_assoc; cbn [app].
    + eexists. split; [rewrite r_range_spec_alts; apply (run_range_a_incl R_range_spec spec_tail a b rest Hst)|].
      destruct b as [b|]; conv_bounds.
    + eexists. split; [rewrite r_range_spec_alts; apply (run_range_a_excl R_range_spec spec_tail a b rest Hst)|].
      destruct b as [b|]; conv_bounds.
    + destruct b as [b|]; cbn [print_optz app].
      * eexists. split; [rewrite r_range_spec_alts; apply (run_range_to_incl R_range_spec spec_tail b rest Hst)|]. conv_bounds.
      * eexists. split; [rewrite r_range_spec_alts; apply (run_range_full_incl R_range_spec spec_tail rest Hst)|]. reflexivity.
    + destruct b as [b|]; cbn [print_optz app].
      * eexists. split; [rewrite r_range_spec_alts; apply (run_range_to R_range_spec spec_tail b rest Hst)|]. conv_bounds.
      * eexists. split; [rewrite r_range_spec_alts; apply (run_range_full R_range_spec spec_tail rest Hst)|]. reflexivity.
Qed.

(* ---- the shorthand spellings {N} and {A..B} at operation level -------------------------- *)
Lemma shorthand_range_fails_on_index i rest : op_stops rest ->
  run r_shorthand_range false (print_Z i ++ rest) = None.
Proof.
  intros Hst. pose proof (op_stops_no_digit rest Hst) as Hnd.
  destruct (stop_head_not rest Hst) as (sc & stl & Erest & Hs46 & Hs61 & Hsd & Hsm).
  unfold r_shorthand_range. rewrite run_rule_normal. rewrite !run_alt.
  unfold r_range_to_inclusive. rewrite dots_alt_fails_on_num.
  unfold r_range_to. rewrite dots_alt_fails_on_num.
  unfold r_range_inclusive. rewrite run_rule_normal, run_seq, run_opt, (run_number_print false i rest Hnd), seq_res_some.
  rewrite run_seq, (str_fail_eq _ 46 _ rest sc stl Erest Hs46), seq_res_none.
  unfold r_range_exclusive. rewrite run_rule_normal, run_seq, run_opt, (run_number_print false i rest Hnd), seq_res_some.
  rewrite run_seq, (str_fail_eq _ 46 _ rest sc stl Erest Hs46), seq_res_none.
  unfold r_range_from. rewrite run_rule_normal, run_seq, (run_number_print false i rest Hnd), seq_res_some.
  rewrite (str_fail_eq _ 46 _ rest sc stl Erest Hs46).
  unfold r_range_full. rewrite run_rule_normal.
  destruct (num_app_head i rest) as (hc & ht & HE & Hh1 & _).
  rewrite (str_fail_eq _ 46 _ _ hc ht HE Hh1). reflexivity.
Qed.

Theorem shorthand_roundtrip r rest : range_ok r = true -> op_stops rest ->
  exists k, run r_operation false (print_range r ++ rest)
            = Some (print_range r, [Node (Some R_operation) (print_range r) [k]], rest)
            /\ parse_operation k = Ok (Split space_sep r).
Proof.
  intros Hok Hst. unfold r_operation. rewrite run_rule_normal, run_alt.
  destruct r as [i | a b inc]; cbn [range_ok] in Hok.
  - cbn [print_range]. rewrite (shorthand_range_fails_on_index i rest Hst), run_alt.
    unfold r_shorthand_index. rewrite run_rule_normal, (run_number_print false i rest (op_stops_no_digit rest Hst)).
    eexists. split; [reflexivity|]. unfold parse_operation. cbn [t_rule t_text]. rewrite (parse_isize_print i Hok). reflexivity.
  - apply andb_true_iff in Hok as [Ha Hb]. rewrite r_shorthand_range_alts.
    destruct a as [a|]; destruct inc; cbn [print_range print_optz dots]; rewrite <- ?app_assoc; cbn [app].
    + rewrite (run_range_a_incl R_shorthand_range short_tail a b rest Hst). eexists. split; [reflexivity|].
      cbn [optz_ok] in Ha. destruct b as [b|]; cbn [optz_ok] in Hb;
      unfold parse_operation, parse_range_spec, rtree, opt_bound, parse_bound;
      cbn [optk t_kids unwrap_first bind t_rule nth_error t_text omap];
      rewrite ?parse_isize_print by assumption; reflexivity.
    + rewrite (run_range_a_excl R_shorthand_range short_tail a b rest Hst). eexists. split; [reflexivity|].
      cbn [optz_ok] in Ha. destruct b as [b|]; cbn [optz_ok] in Hb;
      unfold parse_operation, parse_range_spec, rtree, opt_bound, parse_bound;
      cbn [optk t_kids unwrap_first bind t_rule nth_error t_text omap];
      rewrite ?parse_isize_print by assumption; reflexivity.
    + destruct b as [b|]; cbn [print_optz app].
      * rewrite (run_range_to_incl R_shorthand_range short_tail b rest Hst). eexists. split; [reflexivity|].
        unfold parse_operation, parse_range_spec, rtree, parse_bound. cbn [t_kids unwrap_first bind t_rule t_text].
        rewrite (parse_isize_print b Hb). reflexivity.
      * rewrite (run_range_full_incl R_shorthand_range short_tail rest Hst). eexists. split; reflexivity.
    + destruct b as [b|]; cbn [print_optz app].
      * rewrite (run_range_to R_shorthand_range short_tail b rest Hst). eexists. split; [reflexivity|].
        unfold parse_operation, parse_range_spec, rtree, parse_bound. cbn [t_kids unwrap_first bind t_rule t_text].
        rewrite (parse_isize_print b Hb). reflexivity.
      * rewrite (run_range_full R_shorthand_range short_tail rest Hst). eexists. split; reflexivity.
Qed.
