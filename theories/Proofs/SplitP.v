From SP Require Import Model.Split.

Lemma is_prefix_spec p s : is_prefix p s = true <-> exists t, s = p ++ t.
Proof.
  revert s; induction p as [|c p IH]; intros s; cbn [is_prefix].
  - split; [intros _; exists s; reflexivity | reflexivity].
  - destruct s as [|d s]; [split; [discriminate | intros [t Ht]; discriminate]|].
    rewrite andb_true_iff, N.eqb_eq, IH. split.
    + intros [-> [t ->]]. exists t; reflexivity.
    + intros [t Ht]. cbn in Ht. injection Ht as -> ->. split; [reflexivity | exists t; reflexivity].
Qed.

Lemma split_go_nonempty sep s k cur : split_go sep s k cur <> [].
Proof.
  revert k cur; induction s as [|c s IH]; intros k cur; cbn [split_go]; [discriminate|].
  destruct k; [destruct (is_prefix sep (c :: s)); [discriminate | apply IH] | apply IH].
Qed.

Lemma join_cons sep x rest : rest <> [] -> join sep (x :: rest) = x ++ sep ++ join sep rest.
Proof. destruct rest; [congruence | reflexivity]. Qed.

Lemma join_split_go sep : sep <> [] ->
  forall s k cur, (k <= length s)%nat ->
    join sep (split_go sep s k cur) = rev cur ++ skipn k s.
Proof.
  intros Hsep s. induction s as [|c s IH]; intros k cur Hk; cbn [split_go length] in *; rewrite ?frev_rev.
  - assert (k = 0)%nat by lia; subst; cbn. now rewrite app_nil_r.
  - destruct k as [|k].
    + destruct (is_prefix sep (c :: s)) eqn:Hp.
      * apply is_prefix_spec in Hp as [t Ht].
        destruct sep as [|d sep']; [congruence|]. cbn in Ht. injection Ht as <- ->.
        rewrite join_cons by apply split_go_nonempty.
        rewrite IH by (cbn [length]; rewrite app_length; lia).
        cbn [length rev app]. replace (S (length sep') - 1)%nat with (length sep') by lia.
        rewrite skipn_app, skipn_all, Nat.sub_diag. cbn. reflexivity.
      * rewrite IH by lia. cbn. rewrite <- app_assoc. reflexivity.
    + rewrite IH by lia. reflexivity.
Qed.

Lemma join_singletons (sep s : str) :
  join sep (map (fun c => [c]) s ++ [[]]) = flat_map (fun c => c :: sep) s.
Proof.
  induction s as [|c s IH]; [reflexivity|].
  cbn [map app flat_map].
  rewrite join_cons by (destruct s; discriminate). rewrite IH. reflexivity.
Qed.

(* splitting and joining with the same separator restores the text, for every
   text and every separator (empty, multi-character, self-overlapping) *)
Theorem join_split_id (s sep : str) : join sep (split s sep) = s.
Proof.
  unfold split. destruct sep as [|d sep'] eqn:E.
  - rewrite join_cons by (destruct s; discriminate). cbn [app].
    rewrite join_singletons. induction s as [|c s IH]; [reflexivity|]. cbn. now rewrite IH.
  - rewrite join_split_go by (congruence || lia). reflexivity.
Qed.

Lemma join_split_go_replace sep j : forall s k cur,
  join j (split_go sep s k cur) = rev cur ++ replace_go sep j s k.
Proof.
  induction s as [|c s IH]; intros k cur; cbn [split_go replace_go]; rewrite ?frev_rev.
  - cbn. now rewrite app_nil_r.
  - destruct k as [|k]; [|apply IH].
    destruct (is_prefix sep (c :: s)).
    + rewrite join_cons by apply split_go_nonempty. rewrite IH. reflexivity.
    + rewrite IH. cbn [rev]. rewrite <- app_assoc. reflexivity.
Qed.

(* joining with a different separator is plain substring replacement *)
Theorem join_split_is_replace (s sep j : str) : join j (split s sep) = replace_plain s sep j.
Proof.
  unfold split, replace_plain. destruct sep as [|d sep'].
  - rewrite join_cons by (destruct s; discriminate). cbn [app]. rewrite join_singletons. reflexivity.
  - rewrite join_split_go_replace. reflexivity.
Qed.

(* the memchr path agrees with the general path *)
Lemma split_char_go_is_split_go c : forall s cur, split_char_go c s cur = split_go [c] s 0 cur.
Proof.
  induction s as [|d s IH]; intros cur; cbn [split_char_go split_go]; [reflexivity|].
  cbn [is_prefix length]. rewrite andb_true_r.
  destruct (N.eqb c d); [rewrite IH; reflexivity | apply IH].
Qed.

Theorem split_char_is_split (s : str) (c : N) : split_char s c = split s [c].
Proof. unfold split_char, split. apply split_char_go_is_split_go. Qed.

Lemma split_nonempty s sep : split s sep <> [].
Proof. unfold split. destruct sep; [discriminate | apply split_go_nonempty]. Qed.

(* no separator inside a piece (for non-empty separators every piece is free of it
   only in the leftmost-match sense; the useful corollary is the count) *)
Lemma join_nil sep : join sep [] = [].
Proof. reflexivity. Qed.

Lemma join_single sep x : join sep [x] = x.
Proof. reflexivity. Qed.

(* splitting a text that does not contain the (non-empty) separator gives the text *)
Lemma split_go_no_match sep : sep <> [] -> forall s cur,
  (forall t, is_prefix sep t = true -> forall p, s <> p ++ t) ->
  split_go sep s 0 cur = [rev cur ++ s].
Proof.
  intros Hsep. induction s as [|c s IH]; intros cur Hno; cbn [split_go]; rewrite ?frev_rev.
  - now rewrite app_nil_r.
  - destruct (is_prefix sep (c :: s)) eqn:Hp.
    + exfalso. apply (Hno (c :: s) Hp []). reflexivity.
    + rewrite IH.
      * cbn [rev]. rewrite <- app_assoc. reflexivity.
      * intros t Ht p Heq. apply (Hno t Ht (c :: p)). cbn. now rewrite Heq.
Qed.
