(* C04 / C20: the multi-template scanner finds exactly the segments a template was
   assembled from: literal text verbatim and in order, ${...} text kept literally,
   each {...} section parsed on its own. *)
From SP Require Import Model.Scanner Proofs.StrP.
Local Open Scope N_scope.

Definition st_ok (st : sstate) : Prop := st_fail st = None /\ st_mode st = MLit.

Definition with_lit (st : sstate) (l : str) : sstate :=
  {| st_secs_rev := st_secs_rev st; st_lit_rev := l; st_mode := MLit; st_dbg := st_dbg st; st_fail := None |}.

(* ---- literal text: every character that is not '{' is kept ------------------- *)
Lemma scan_literal l : forall st, st_ok st -> existsb (N.eqb c_lbrace) l = false ->
  fold_left scan_step l st = with_lit st (rev l ++ st_lit_rev st).
Proof.
  induction l as [|c l IH]; intros st [Hf Hm] Hno.
  - destruct st; cbn in *. subst. reflexivity.
  - cbn [existsb] in Hno. apply orb_false_iff in Hno as [Hc Hl]. cbn [fold_left].
    assert (Hstep: scan_step st c = with_lit st (c :: st_lit_rev st)).
    { unfold scan_step. rewrite Hf, Hm. rewrite N.eqb_sym in Hc. rewrite Hc. reflexivity. }
    rewrite Hstep. rewrite IH; [|split; reflexivity | exact Hl].
    unfold with_lit. cbn [st_lit_rev st_secs_rev st_dbg rev]. rewrite <- app_assoc. reflexivity.
Qed.

(* ---- ${...}: kept as literal text, braces counted (no escapes) ---------------- *)
(* depth after scanning b from depth d; None if the group closes before the end *)
Fixpoint shell_scan (b : str) (d : nat) : option nat :=
  match b with
  | [] => Some d
  | c :: b' =>
      if N.eqb c c_lbrace then shell_scan b' (S d)
      else if N.eqb c c_rbrace then match d with O => None | S k => shell_scan b' k end
      else shell_scan b' d
  end.

Definition in_shell (st : sstate) (l : str) (n : nat) : sstate :=
  {| st_secs_rev := st_secs_rev st; st_lit_rev := l; st_mode := MShell n; st_dbg := st_dbg st; st_fail := None |}.

Lemma scan_shell_body b : forall st l d d',
  shell_scan b d = Some d' ->
  fold_left scan_step b (in_shell st l (S d)) = in_shell st (rev b ++ l) (S d').
Proof.
  induction b as [|c b IH]; intros st l d d' H; cbn [shell_scan] in H.
  - injection H as <-. reflexivity.
  - cbn [fold_left]. unfold scan_step at 2. cbn [st_fail st_mode in_shell].
    destruct (N.eqb c c_lbrace) eqn:El.
    + change (fold_left scan_step b (in_shell st (c :: l) (S (S d))) = in_shell st (rev (c :: b) ++ l) (S d')).
      rewrite (IH st (c :: l) (S d) d' H). cbn [rev]. rewrite <- app_assoc. reflexivity.
    + destruct (N.eqb c c_rbrace) eqn:Er.
      * destruct d as [|k]; [discriminate|].
        change (fold_left scan_step b (in_shell st (c :: l) (S k)) = in_shell st (rev (c :: b) ++ l) (S d')).
        rewrite (IH st (c :: l) k d' H). cbn [rev]. rewrite <- app_assoc. reflexivity.
      * change (fold_left scan_step b (in_shell st (c :: l) (S d)) = in_shell st (rev (c :: b) ++ l) (S d')).
        rewrite (IH st (c :: l) d d' H). cbn [rev]. rewrite <- app_assoc. reflexivity.
Qed.

Theorem scan_shell st l b : st_ok st -> st_lit_rev st = c_dollar :: l -> shell_scan b 0 = Some 0%nat ->
  fold_left scan_step (c_lbrace :: b ++ [c_rbrace]) st
  = with_lit st (c_rbrace :: rev b ++ c_lbrace :: c_dollar :: l).
Proof.
  intros [Hf Hm] Hl Hb. cbn [fold_left].
  assert (Hstep: scan_step st c_lbrace = in_shell st (c_lbrace :: c_dollar :: l) 1).
  { unfold scan_step. rewrite Hf, Hm, Hl. rewrite !N.eqb_refl. reflexivity. }
  rewrite Hstep, fold_left_app, (scan_shell_body b st _ 0 0 Hb). cbn [fold_left].
  unfold scan_step. cbn [st_fail st_mode in_shell]. unfold c_lbrace, c_rbrace. cbn [N.eqb Pos.eqb]. reflexivity.
Qed.

(* ---- {...}: a section, parsed on its own -------------------------------------- *)
Definition in_sec (st : sstate) (c : str) (n : nat) (e : bool) : sstate :=
  {| st_secs_rev := st_secs_rev st; st_lit_rev := st_lit_rev st; st_mode := MSec c n e; st_dbg := st_dbg st; st_fail := None |}.

Lemma scan_sec_body w : forall st c d e d' e',
  single_scan w d e = Some (d', e') ->
  fold_left scan_step w (in_sec st c (S d) e) = in_sec st (rev w ++ c) (S d') e'.
Proof.
  induction w as [|ch w IH]; intros st c d e d' e' H; cbn [single_scan] in H.
  - injection H as <- <-. reflexivity.
  - cbn [fold_left]. unfold scan_step at 2. cbn [st_fail st_mode in_sec].
    destruct e.
    + change (fold_left scan_step w (in_sec st (ch :: c) (S d) false) = in_sec st (rev (ch :: w) ++ c) (S d') e').
      rewrite (IH _ _ _ _ _ _ H). cbn [rev]. rewrite <- app_assoc. reflexivity.
    + destruct (N.eqb ch c_bslash) eqn:Eb.
      * change (fold_left scan_step w (in_sec st (ch :: c) (S d) true) = in_sec st (rev (ch :: w) ++ c) (S d') e').
        rewrite (IH _ _ _ _ _ _ H). cbn [rev]. rewrite <- app_assoc. reflexivity.
      * destruct (N.eqb ch c_lbrace) eqn:El.
        -- change (fold_left scan_step w (in_sec st (ch :: c) (S (S d)) false) = in_sec st (rev (ch :: w) ++ c) (S d') e').
           rewrite (IH _ _ _ _ _ _ H). cbn [rev]. rewrite <- app_assoc. reflexivity.
        -- destruct (N.eqb ch c_rbrace) eqn:Er.
           ++ destruct d as [|k]; [discriminate|].
              change (fold_left scan_step w (in_sec st (ch :: c) (S k) false) = in_sec st (rev (ch :: w) ++ c) (S d') e').
              rewrite (IH _ _ _ _ _ _ H). cbn [rev]. rewrite <- app_assoc. reflexivity.
           ++ change (fold_left scan_step w (in_sec st (ch :: c) (S d) false) = in_sec st (rev (ch :: w) ++ c) (S d') e').
              rewrite (IH _ _ _ _ _ _ H). cbn [rev]. rewrite <- app_assoc. reflexivity.
Qed.

Definition after_section (st : sstate) (ops : list op) (d : bool) : sstate :=
  {| st_secs_rev := Sec ops :: flush_literal st; st_lit_rev := []; st_mode := MLit;
     st_dbg := (st_dbg st || d)%bool; st_fail := None |}.

Definition not_after_dollar (st : sstate) : Prop :=
  match st_lit_rev st with c :: _ => N.eqb c c_dollar = false | [] => True end.

Theorem scan_section st w ops d : st_ok st -> not_after_dollar st ->
  single_scan w 0 false = Some (0%nat, false) ->
  parse_template (c_lbrace :: w ++ [c_rbrace]) = Ok (ops, d) ->
  fold_left scan_step (c_lbrace :: w ++ [c_rbrace]) st = after_section st ops d.
Proof.
  intros [Hf Hm] Hnd Hw Hp. cbn [fold_left].
  assert (Hstep: scan_step st c_lbrace =
            in_sec {| st_secs_rev := flush_literal st; st_lit_rev := []; st_mode := MLit; st_dbg := st_dbg st; st_fail := None |} [] 1 false).
  { unfold scan_step. rewrite Hf, Hm. rewrite N.eqb_refl. unfold not_after_dollar in Hnd.
    destruct (st_lit_rev st) as [|c l]; [reflexivity|]. rewrite Hnd. reflexivity. }
  rewrite Hstep, fold_left_app, (scan_sec_body w _ [] 0 false 0 false Hw). cbn [fold_left].
  unfold scan_step. cbn [st_fail st_mode in_sec]. unfold c_bslash, c_lbrace, c_rbrace. cbn [N.eqb Pos.eqb].
  rewrite app_nil_r, frev_rev, rev_involutive. fold c_lbrace c_rbrace. rewrite Hp. reflexivity.
Qed.

(* ---- whole templates ------------------------------------------------------------- *)
Inductive seg :=
| SLit (l : str)
| SShell (body : str)
| SSec (w : str) (ops : list op) (d : bool).

Definition seg_text (s : seg) : str :=
  match s with
  | SLit l => l
  | SShell b => c_lbrace :: b ++ [c_rbrace]
  | SSec w _ _ => c_lbrace :: w ++ [c_rbrace]
  end.
Definition assemble (segs : list seg) : str := flat_map seg_text segs.

(* what the scanner's state must be after a segment, and when a segment is allowed *)
Definition seg_next (st : sstate) (s : seg) : sstate :=
  match s with
  | SLit l => with_lit st (rev l ++ st_lit_rev st)
  | SShell b => with_lit st (c_rbrace :: rev b ++ c_lbrace :: st_lit_rev st)
  | SSec _ ops d => after_section st ops d
  end.
Definition seg_ok (st : sstate) (s : seg) : Prop :=
  match s with
  | SLit l => existsb (N.eqb c_lbrace) l = false
  | SShell b => (exists l, st_lit_rev st = c_dollar :: l) /\ shell_scan b 0 = Some 0%nat
  | SSec w ops d => not_after_dollar st /\ single_scan w 0 false = Some (0%nat, false)
                    /\ parse_template (c_lbrace :: w ++ [c_rbrace]) = Ok (ops, d)
  end.
Fixpoint segs_ok (st : sstate) (segs : list seg) : Prop :=
  match segs with [] => True | s :: rest => seg_ok st s /\ segs_ok (seg_next st s) rest end.

Lemma seg_next_ok st s : st_ok (seg_next st s).
Proof. destruct s; split; reflexivity. Qed.

Lemma scan_segs segs : forall st, st_ok st -> segs_ok st segs ->
  fold_left scan_step (assemble segs) st = fold_left seg_next segs st.
Proof.
  induction segs as [|s segs IH]; intros st Hst Hok; [reflexivity|].
  destruct Hok as [Hs Hrest]. unfold assemble in *. cbn [flat_map fold_left]. rewrite fold_left_app.
  assert (Hseg: fold_left scan_step (seg_text s) st = seg_next st s).
  { destruct s as [l|b|w ops d]; cbn [seg_text seg_next seg_ok] in *.
    - apply scan_literal; assumption.
    - destruct Hs as [[l Hl] Hb]. rewrite (scan_shell st l b Hst Hl Hb). rewrite Hl. reflexivity.
    - destruct Hs as (Hnd & Hw & Hp). apply scan_section; assumption. }
  rewrite Hseg. apply IH; [apply seg_next_ok | exact Hrest].
Qed.

(* C04 scanner theorem: assembling segments and scanning them back gives the segments:
   literal and ${...} text verbatim and merged in order, each section as it parses alone,
   debug = some section carries the marker *)
Theorem scan_assemble segs : segs_ok scan_init segs ->
  parse_multi_template (assemble segs)
  = let st := fold_left seg_next segs scan_init in Ok (frev (flush_literal st), st_dbg st).
Proof.
  intros Hok. unfold parse_multi_template.
  rewrite (scan_segs segs scan_init (conj eq_refl eq_refl) Hok).
  assert (Hst: st_ok (fold_left seg_next segs scan_init)).
  { assert (G: forall l st, st_ok st -> st_ok (fold_left seg_next l st)).
    { induction l as [|s l IHl]; intros st H; cbn [fold_left]; [exact H | apply IHl, seg_next_ok]. }
    apply G. split; reflexivity. }
  destruct Hst as [Hf Hm]. cbn zeta. rewrite Hf, Hm. reflexivity.
Qed.

(* non-vacuity: "a${x} {upper}}{}" *)
Example scan_assemble_example :
  let segs := [SLit [97; 36]; SShell [120]; SLit [32]; SSec [117; 112; 112; 101; 114] [Upper] false; SLit [125]; SSec [] [] false] in
  segs_ok scan_init segs
  /\ parse_multi_template (assemble segs)
     = Ok ([Lit [97; 36; 123; 120; 125; 32]; Sec [Upper]; Lit [125]; Sec []], false).
Proof.
  cbn zeta. split.
  - cbn [segs_ok seg_ok seg_next]. repeat split; try reflexivity; try (eexists; reflexivity); vm_compute; reflexivity.
  - vm_compute. reflexivity.
Qed.
