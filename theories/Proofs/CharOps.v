(* C16: character-level operations of the Spec layer work on whole characters. *)
From SP Require Import Model.Spec Proofs.StrP Proofs.RangeP.
Local Open Scope N_scope.

Lemma repeat_cp_length c n : length (repeat_cp c n) = n.
Proof. induction n; cbn; auto. Qed.
Lemma repeat_cp_all c n x : In x (repeat_cp c n) -> x = c.
Proof. induction n; cbn; [tauto | intros [->|H]; auto]. Qed.

(* pad reaches exactly the requested width in characters, never truncates *)
Theorem pad_length w c d s : N.of_nat (length (pad_str w c d s)) = N.max w (N.of_nat (length s)).
Proof.
  unfold pad_str. destruct (N.leb_spec w (N.of_nat (length s))) as [H|H]; [lia|].
  set (need := N.to_nat (w - N.of_nat (length s))).
  assert (Hn: N.of_nat need = w - N.of_nat (length s)) by (subst need; lia).
  destruct d; rewrite ?app_length, ?repeat_cp_length.
  - lia.
  - lia.
  - assert ((need / 2 <= need)%nat) by (apply Nat.div_le_upper_bound; lia). lia.
Qed.

(* the original text sits untouched inside; padding goes on the requested side(s),
   left = floor(n/2) and right = ceil(n/2) for both *)
Theorem pad_shape w c d s :
  exists l r, pad_str w c d s = repeat_cp c l ++ s ++ repeat_cp c r /\
    N.of_nat (l + r) = N.max w (N.of_nat (length s)) - N.of_nat (length s) /\
    match d with PLeft => r = 0%nat | PRight => l = 0%nat | PBoth => l = ((l + r) / 2)%nat end.
Proof.
  unfold pad_str. destruct (N.leb_spec w (N.of_nat (length s))) as [H|H].
  - exists 0%nat, 0%nat. cbn [repeat_cp app]. rewrite app_nil_r. split; [reflexivity|]. split; [lia|]. destruct d; reflexivity.
  - set (need := N.to_nat (w - N.of_nat (length s))).
    assert (Hn: N.of_nat need = N.max w (N.of_nat (length s)) - N.of_nat (length s)) by (subst need; lia).
    destruct d.
    + exists need, 0%nat. cbn [repeat_cp]. rewrite app_nil_r, Nat.add_0_r. auto.
    + exists 0%nat, need. cbn [repeat_cp app plus]. auto.
    + assert ((need / 2 <= need)%nat) by (apply Nat.div_le_upper_bound; lia).
      exists (need / 2)%nat, (need - need / 2)%nat.
      replace (need / 2 + (need - need / 2))%nat with need by lia. auto.
Qed.

Theorem pad_no_truncate w c d s : (length s <= length (pad_str w c d s))%nat.
Proof. pose proof (pad_length w c d s). lia. Qed.

(* ---- trim --------------------------------------------------------------- *)
Lemma drop_while_split f s : exists p, s = p ++ drop_while f s /\ forallb f p = true /\
  match drop_while f s with [] => True | c :: _ => f c = false end.
Proof.
  induction s as [|c s IH]; [exists []; cbn; auto|]. cbn [drop_while].
  destruct (f c) eqn:E.
  - destruct IH as (p & Hs & Hp & Hh). exists (c :: p). cbn [app forallb]. rewrite E, Hp. split; [f_equal; exact Hs | auto].
  - exists []. cbn. rewrite E. auto.
Qed.

Lemma drop_while_end_split f s : exists q, s = drop_while_end f s ++ q /\ forallb f q = true /\
  match rev (drop_while_end f s) with [] => True | c :: _ => f c = false end.
Proof.
  unfold drop_while_end. rewrite !frev_rev. destruct (drop_while_split f (rev s)) as (p & Hs & Hp & Hh).
  exists (rev p). split.
  - rewrite <- rev_app_distr, <- Hs, rev_involutive. reflexivity.
  - rewrite forallb_rev, rev_involutive. auto.
Qed.

(* trim removes only leading / trailing characters of the set, from the requested
   side(s), and stops at the first character outside the set *)
Theorem trim_shape f d s :
  exists p q, s = p ++ trim_with f d s ++ q /\ forallb f p = true /\ forallb f q = true /\
    (d = TRight -> p = []) /\ (d = TLeft -> q = []) /\
    (d <> TRight -> match trim_with f d s with [] => True | c :: _ => f c = false end) /\
    (d <> TLeft -> match rev (trim_with f d s) with [] => True | c :: _ => f c = false end).
Proof.
  destruct d; cbn [trim_with].
  - destruct (drop_while_split f s) as (p & Hs & Hp & Hh).
    destruct (drop_while_end_split f (drop_while f s)) as (q & Ht & Hq & Hl).
    exists p, q. split; [rewrite <- Ht; exact Hs|]. repeat split; auto; try discriminate.
    intros _. rewrite Ht in Hh. destruct (drop_while_end f (drop_while f s)) as [|c t] eqn:Et; [exact I|].
    cbn [app] in Hh. exact Hh.
  - destruct (drop_while_split f s) as (p & Hs & Hp & Hh). exists p, []. rewrite app_nil_r.
    repeat split; auto; try discriminate; congruence.
  - destruct (drop_while_end_split f s) as (q & Hs & Hq & Hl). exists [], q. cbn [app].
    repeat split; auto; try discriminate; congruence.
Qed.

Theorem trim_both_is_left_then_right f s :
  trim_with f TBoth s = trim_with f TRight (trim_with f TLeft s).
Proof. reflexivity. Qed.

(* when the set is empty or blank, the set is "all whitespace" *)
Theorem trim_blank_set_is_whitespace chars : forallb is_ws chars = true -> trim_pred chars = is_ws.
Proof. unfold trim_pred. intros ->. reflexivity. Qed.
Theorem trim_custom_set chars c : forallb is_ws chars = false -> trim_pred chars c = mem_cp c chars.
Proof. unfold trim_pred. intros ->. reflexivity. Qed.

(* ---- validity is preserved --------------------------------------------- *)
Lemma valid_app a b : valid (a ++ b) = (valid a && valid b)%bool.
Proof. apply forallb_app. Qed.
Lemma valid_rev s : valid (rev s) = valid s.
Proof. apply forallb_rev. Qed.
Lemma valid_incl a b : incl a b -> valid b = true -> valid a = true.
Proof.
  intros Hi Hb. unfold valid in *. rewrite forallb_forall in *. intros x Hx. apply Hb, Hi, Hx.
Qed.
Lemma valid_select r s : valid s = true -> valid (select r s) = true.
Proof. apply valid_incl, select_incl. Qed.
Lemma valid_repeat c n : valid_cp c = true -> valid (repeat_cp c n) = true.
Proof. intros H. induction n; cbn; [reflexivity | rewrite H; exact IHn]. Qed.
Lemma valid_pad w c d s : valid_cp c = true -> valid s = true -> valid (pad_str w c d s) = true.
Proof.
  intros Hc Hs. destruct (pad_shape w c d s) as (l & r & -> & _).
  rewrite !valid_app, Hs, !valid_repeat by exact Hc. reflexivity.
Qed.
Lemma valid_trim f d s : valid s = true -> valid (trim_with f d s) = true.
Proof.
  intros Hs. destruct (trim_shape f d s) as (p & q & Heq & _).
  rewrite Heq in Hs. rewrite !valid_app in Hs. apply andb_true_iff in Hs as [_ Hs]. apply andb_true_iff in Hs as [Hs _]. exact Hs.
Qed.

(* reverse and substring act on whole characters: they commute with any
   relabelling of characters, e.g. swapping an ASCII character for a non-ASCII one *)
Theorem reverse_relabel (f : N -> N) s : rev (map f s) = map f (rev s).
Proof. symmetry. apply map_rev. Qed.
Theorem substring_relabel (f : N -> N) r s : select r (map f s) = map f (select r s).
Proof. apply select_map. Qed.
Theorem pad_relabel_length w c d s (f : N -> N) :
  length (pad_str w c d (map f s)) = length (pad_str w c d s).
Proof.
  pose proof (pad_length w c d s). pose proof (pad_length w c d (map f s)). rewrite map_length in *. lia.
Qed.
