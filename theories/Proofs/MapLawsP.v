(* C08, further laws of the per-item map: complete characterisation of success,
   independence of position and of neighbours, fusion of two maps *)
From SP Require Import Model.Spec Proofs.MapSepP.

(* map succeeds with l' exactly when l' is, item by item, what f yields *)
Theorem mapM_ok_iff {A B} (f : A -> outcome B) (l : list A) (l' : list B) :
  mapM f l = Ok l' <-> Forall2 (fun x y => f x = Ok y) l l'.
Proof.
  revert l'; induction l as [|x l IH]; intros l'; cbn [mapM].
  - split; [intros H; injection H as <-; constructor | intros H; inversion H; reflexivity].
  - split.
    + destruct (f x) as [y| |] eqn:Ex; cbn [bind]; try discriminate.
      destruct (mapM f l) as [ys| |] eqn:El; cbn [bind]; try discriminate.
      intros H; injection H as <-. constructor; [exact Ex | apply IH; reflexivity].
    + intros H. inversion H as [|x0 y l0 ys Hx Hl]; subst. rewrite Hx. cbn [bind].
      apply IH in Hl. rewrite Hl. reflexivity.
Qed.

(* the outcome for an item depends on the item alone: any function that agrees
   with f on the items gives the same result *)
Theorem mapM_ext_in {A B} (f g : A -> outcome B) (l : list A) :
  (forall x, In x l -> f x = g x) -> mapM f l = mapM g l.
Proof.
  induction l as [|x l IH]; intros H; [reflexivity|]. cbn [mapM].
  rewrite (H x (or_introl eq_refl)), IH; [reflexivity|]. intros y Hy. apply H. right; exact Hy.
Qed.

(* neighbours do not matter: mapping a concatenation is mapping the parts *)
Theorem mapM_app {A B} (f : A -> outcome B) (l1 l2 : list A) :
  mapM f (l1 ++ l2) = bind (mapM f l1) (fun a => bind (mapM f l2) (fun b => Ok (a ++ b))).
Proof.
  induction l1 as [|x l1 IH]; cbn [app mapM bind].
  - destruct (mapM f l2); reflexivity.
  - destruct (f x) as [y| |]; cbn [bind]; try reflexivity. rewrite IH.
    destruct (mapM f l1) as [a| |]; cbn [bind]; try reflexivity.
    destruct (mapM f l2) as [b| |]; cbn [bind]; reflexivity.
Qed.

(* position does not matter: a successful map commutes with reversal *)
Theorem mapM_rev_ok {A B} (f : A -> outcome B) (l : list A) (l' : list B) :
  mapM f l = Ok l' -> mapM f (rev l) = Ok (rev l').
Proof.
  rewrite !mapM_ok_iff. intros H. induction H as [|x y l l' Hx Hl IH]; [constructor|].
  cbn [rev]. apply Forall2_app; [exact IH | constructor; [exact Hx | constructor]].
Qed.

(* two maps in a row, the first of which succeeds, are one map of the composed function *)
Theorem mapM_fuse {A B C} (f : A -> outcome B) (g : B -> outcome C) (l : list A) (l' : list B) :
  mapM f l = Ok l' -> mapM g l' = mapM (fun x => bind (f x) g) l.
Proof.
  revert l'; induction l as [|x l IH]; intros l'; cbn [mapM].
  - intros H; injection H as <-. reflexivity.
  - destruct (f x) as [y| |] eqn:Ex; cbn [bind]; try discriminate.
    destruct (mapM f l) as [ys| |] eqn:El; cbn [bind]; try discriminate.
    intros H; injection H as <-. cbn [mapM]. rewrite (IH ys eq_refl). reflexivity.
Qed.

(* a map never panics when the function never panics on the items *)
Theorem mapM_no_panic {A B} (f : A -> outcome B) (l : list A) :
  (forall x, In x l -> f x <> Panic) -> mapM f l <> Panic.
Proof.
  induction l as [|x l IH]; intros H; cbn [mapM]; [discriminate|].
  pose proof (H x (or_introl eq_refl)) as Hx.
  destruct (f x) as [y| |]; cbn [bind]; [|discriminate|congruence].
  assert (Hl : mapM f l <> Panic) by (apply IH; intros z Hz; apply H; right; exact Hz).
  destruct (mapM f l); cbn [bind]; congruence.
Qed.
