(* C13: the CLI prints exactly the library result, with faithful exit codes. *)
From SP Require Import Model.Cli Proofs.ImplSpec Proofs.TemplateP Proofs.TemplateLaws Proofs.ParseP Proofs.Corollaries.

Section C.
Variable E : Env.
Hypothesis HL1 : L1 replace_meta E.

(* what the library returns for (template text, input): parse, then format *)
Definition lib_result (tpl input : str) : outcome str :=
  bind (template_parse_with_debug tpl None) (fun t => spec_format E (t_sections t) input).

Lemma format_with_debug_spec t d x : run_pure (impl_format E (with_debug t d) x) = spec_format E (t_sections t) x.
Proof. rewrite (format_refines E HL1). reflexivity. Qed.

(* success: stdout is exactly the library result, exit 0; the debug flags never change it *)
Theorem cli_ok cfg tpl input r :
  cli_validate cfg = false -> get_template cfg = Some tpl -> get_input cfg = Some input ->
  lib_result tpl input = Ok r ->
  cli_stdout (cli_main E cfg) = r /\ cli_exit (cli_main E cfg) = 0%N.
Proof.
  intros Hv Ht Hi Hr. unfold cli_main, lib_result in *. rewrite Ht, Hv, Hi.
  destruct (template_parse_with_debug tpl None) as [t0| |]; cbn [bind] in Hr; try discriminate.
  rewrite format_with_debug_spec, Hr. split; reflexivity.
Qed.

(* failure: nothing on stdout, something on stderr, exit 1 *)
Theorem cli_err cfg tpl input :
  cli_validate cfg = false -> get_template cfg = Some tpl -> get_input cfg = Some input ->
  lib_result tpl input = Err ->
  cli_stdout (cli_main E cfg) = [] /\ cli_stderr (cli_main E cfg) <> StderrEmpty /\ cli_exit (cli_main E cfg) = 1%N.
Proof.
  intros Hv Ht Hi Hr. unfold cli_main, lib_result in *. rewrite Ht, Hv, Hi.
  destruct (template_parse_with_debug tpl None) as [t0| |] eqn:Ep; cbn [bind] in Hr; try discriminate.
  - rewrite format_with_debug_spec, Hr. cbn. split; [reflexivity|]. split; [destruct (_ && _)%bool; discriminate | reflexivity].
  - cbn. repeat split. discriminate.
Qed.

(* the CLI never crashes on its own (exit 101 is unreachable) *)
Theorem cli_never_crashes cfg : cli_exit (cli_main E cfg) <> 101%N.
Proof.
  unfold cli_main. destruct (get_template cfg) as [tpl|]; [|cbn; discriminate].
  destruct (if cli_validate cfg then Some [] else get_input cfg) as [input|]; [|cbn; discriminate].
  pose proof (template_parse_with_debug_total tpl None) as Hp.
  destruct (template_parse_with_debug tpl None) as [t0| |]; [|cbn; discriminate | congruence].
  destruct (cli_validate cfg); [cbn; discriminate|].
  pose proof (proj1 (format_never_panics E HL1 (with_debug t0 ((is_debug t0 || cli_debug cfg) && negb (cli_quiet cfg))) input)) as Hf.
  destruct (run_pure _); cbn; try discriminate. congruence.
Qed.

(* stdin, a file, and an argument holding the same text with trailing whitespace removed agree *)
Theorem cli_input_routes cfg x :
  cli_input_both cfg = false ->
  let with_input i s := {| cli_template := cli_template cfg; cli_template_both := cli_template_both cfg;
                           cli_input := i; cli_input_both := false; cli_stdin := s;
                           cli_debug := cli_debug cfg; cli_quiet := cli_quiet cfg; cli_validate := cli_validate cfg |} in
  cli_main E (with_input Absent x) = cli_main E (with_input (FromFile (Some x)) (cli_stdin cfg))
  /\ cli_main E (with_input Absent x) = cli_main E (with_input (FromArg (trim_end_ws x)) (cli_stdin cfg)).
Proof. intros _ w. unfold cli_main, get_template, get_input. cbn. split; reflexivity. Qed.

(* a template file equals the same text, trimmed, as an argument *)
Theorem cli_template_file cfg content :
  cli_template_both cfg = false ->
  let with_tpl t := {| cli_template := t; cli_template_both := false;
                       cli_input := cli_input cfg; cli_input_both := cli_input_both cfg; cli_stdin := cli_stdin cfg;
                       cli_debug := cli_debug cfg; cli_quiet := cli_quiet cfg; cli_validate := cli_validate cfg |} in
  cli_main E (with_tpl (FromFile (Some content))) = cli_main E (with_tpl (FromArg (trim_ws content))).
Proof. intros _ w. reflexivity. Qed.

(* --validate succeeds exactly on the templates the library accepts *)
Theorem cli_validate_iff_parse cfg tpl :
  cli_validate cfg = true -> get_template cfg = Some tpl ->
  (cli_exit (cli_main E cfg) = 0%N <-> exists t, template_parse_with_debug tpl None = Ok t).
Proof.
  intros Hv Ht. unfold cli_main. rewrite Ht, Hv.
  pose proof (template_parse_with_debug_total tpl None) as Hp.
  destruct (template_parse_with_debug tpl None) as [t0| |]; cbn.
  - split; [eauto | reflexivity].
  - split; [discriminate | intros [t H]; discriminate].
  - congruence.
Qed.

(* --quiet keeps stderr free of debug lines *)
Theorem cli_quiet_no_debug cfg : cli_quiet cfg = true -> cli_stderr (cli_main E cfg) <> StderrDebug.
Proof.
  intros Hq. unfold cli_main. destruct (get_template cfg); [|cbn; discriminate].
  destruct (if cli_validate cfg then Some [] else get_input cfg); [|cbn; discriminate].
  destruct (template_parse_with_debug s None) as [t0| |]; try (cbn; discriminate).
  rewrite Hq, andb_false_r. destruct (cli_validate cfg); [cbn; discriminate|].
  destruct (run_pure _); cbn; discriminate.
Qed.

(* the debug flag and {!...} change stderr only *)
Theorem cli_debug_transparent cfg d :
  let cfg' := {| cli_template := cli_template cfg; cli_template_both := cli_template_both cfg;
                 cli_input := cli_input cfg; cli_input_both := cli_input_both cfg; cli_stdin := cli_stdin cfg;
                 cli_debug := d; cli_quiet := cli_quiet cfg; cli_validate := cli_validate cfg |} in
  cli_stdout (cli_main E cfg') = cli_stdout (cli_main E cfg) /\ cli_exit (cli_main E cfg') = cli_exit (cli_main E cfg).
Proof.
  intros cfg'. unfold cli_main. change (get_template cfg') with (get_template cfg).
  change (get_input cfg') with (get_input cfg). cbn [cli_validate cli_quiet cli_debug cfg'].
  destruct (get_template cfg) as [tpl|]; [|split; reflexivity].
  destruct (if cli_validate cfg then Some [] else get_input cfg) as [input|]; [|split; reflexivity].
  destruct (template_parse_with_debug tpl None) as [t0| |]; try (split; reflexivity).
  destruct (cli_validate cfg); [split; reflexivity|].
  rewrite !format_with_debug_spec. destruct (spec_format E (t_sections t0) input); split; reflexivity.
Qed.

End C.
