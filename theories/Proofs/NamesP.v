(* C12, for ALL strings: in an accepted block every operation -- at top level and
   inside map:{...}, at any depth -- begins with its own documented name (or, for
   the shorthand, with a numeral or a range), and a block whose text begins with
   none of the documented beginnings is refused.  The beginnings are COMPUTED from
   the regenerated grammar (FirstP.starters) and compared with the documented
   table below, so the result follows the grammar through rewrites that keep the
   names. *)
From SP Require Import Model.Syntax Model.Scanner Proofs.StrP Proofs.PegP Proofs.FirstP Proofs.ArgP Proofs.RangeSynP.
Local Open Scope N_scope.

Definition starter_eqb (a b : starter) : bool :=
  match a, b with
  | SLit s, SLit t => str_eqb s t
  | SRng l h, SRng l' h' => N.eqb l l' && N.eqb h h'
  | SAny, SAny => true
  | _, _ => false
  end.
Lemma starter_eqb_eq a b : starter_eqb a b = true -> a = b.
Proof.
  destruct a as [s|l h|], b as [t|l' h'|]; cbn; try discriminate; try reflexivity.
  - intros H. apply (proj1 (str_eqb_eq s t)) in H. now subst.
  - intros H. apply andb_true_iff in H. destruct H as [H1 H2]. apply N.eqb_eq in H1. apply N.eqb_eq in H2. now subst.
Qed.

(* the documented beginnings *)
Definition lit (s : str) : option (list starter) := Some [SLit s].
Definition num_starts : list starter := [SLit [45]; SRng 48 57].                  (* '-' or a digit *)
Definition range_starts : list starter := num_starts ++ [SLit [46; 46]; SLit [46; 46; 61]].   (* ... or '..', '..=' *)
Definition name_starts : list starter :=
  map SLit [kw_split; kw_join; kw_upper; kw_lower; kw_trim; kw_substring; kw_append; kw_prepend; kw_surround; kw_quote;
            kw_strip_ansi; kw_slice; kw_map; kw_sort; kw_reverse; kw_unique; kw_pad; kw_replace; kw_filter;
            kw_filter_not; kw_regex_extract].
Definition op_starts : list starter := name_starts ++ range_starts.

Definition op_begin (id : rule) : option (list starter) :=
  match id with
  | R_split | R_map_split => lit kw_split
  | R_join | R_map_join => lit kw_join
  | R_upper => lit kw_upper | R_lower => lit kw_lower | R_trim => lit kw_trim
  | R_substring => lit kw_substring | R_append => lit kw_append | R_prepend => lit kw_prepend
  | R_surround => lit kw_surround | R_quote => lit kw_quote | R_strip_ansi => lit kw_strip_ansi
  | R_slice | R_map_slice => lit kw_slice
  | R_map => lit kw_map
  | R_sort | R_map_sort => lit kw_sort
  | R_reverse => lit kw_reverse
  | R_unique | R_map_unique => lit kw_unique
  | R_pad => lit kw_pad | R_replace => lit kw_replace
  | R_filter | R_map_filter => lit kw_filter
  | R_filter_not | R_map_filter_not => lit kw_filter_not
  | R_regex_extract | R_map_regex_extract => lit kw_regex_extract
  | R_shorthand_index | R_number | R_index => Some num_starts
  | R_shorthand_range | R_range_spec => Some range_starts
  | R_operation | R_operation_list => Some op_starts
  | R_map_inner_operation | R_map_operation_list => Some name_starts            (* no shorthand inside map *)
  | R_debug_flag => lit [33]
  | R_template => lit [123]
  | R_map_operation => lit [123]
  | R_sed_string => lit [115; 47]
  | _ => None
  end.

(* evaluated on every rule occurrence of the regenerated grammar *)
Lemma grammar_names_checked : all_rules (chk_begin op_begin starter_eqb) r_template = true.
Proof. vm_compute. reflexivity. Qed.

Definition op_begins_right : rule -> str -> Prop := begins_right op_begin.

Theorem every_operation_begins_with_its_name (s t r : str) (k : list ptree) :
  run r_template false s = Some (t, k, r) -> Forall (every_node op_begins_right) k.
Proof.
  apply (every_node_begins_right r_template op_begin starter_eqb starter_eqb_eq).
  exact grammar_names_checked.
Qed.

(* ---- name, then arguments: ":" where the operation takes arguments, nothing where it takes none ---- *)
Definition colon : list starter := [SLit [58]].
Definition takes (name : str) : option (str * bool * list starter) := Some (name, true, colon).      (* name ":" ... *)
Definition may_take (name : str) : option (str * bool * list starter) := Some (name, false, colon).  (* name [":" ...] *)
Definition bare (name : str) : option (str * bool * list starter) := Some (name, false, []).         (* name *)
Definition op_after (id : rule) : option (str * bool * list starter) :=
  match id with
  | R_split | R_map_split => takes kw_split
  | R_join | R_map_join => takes kw_join
  | R_substring => takes kw_substring | R_append => takes kw_append | R_prepend => takes kw_prepend
  | R_surround => takes kw_surround | R_quote => takes kw_quote
  | R_slice | R_map_slice => takes kw_slice
  | R_map => takes kw_map | R_pad => takes kw_pad | R_replace => takes kw_replace
  | R_filter | R_map_filter => takes kw_filter
  | R_filter_not | R_map_filter_not => takes kw_filter_not
  | R_regex_extract | R_map_regex_extract => takes kw_regex_extract
  | R_trim => may_take kw_trim
  | R_sort | R_map_sort => may_take kw_sort
  | R_upper => bare kw_upper | R_lower => bare kw_lower | R_reverse => bare kw_reverse
  | R_unique | R_map_unique => bare kw_unique | R_strip_ansi => bare kw_strip_ansi
  | _ => None
  end.

Lemma grammar_arguments_checked : all_rules (chk_after starter_eqb op_after str_eqb) r_template = true.
Proof. vm_compute. reflexivity. Qed.

Definition op_after_right : rule -> str -> Prop := after_right op_after.

(* every operation node of an accepted block: its text is its name followed by ":" (argument-taking
   operations), by ":" or nothing (trim, sort), by nothing (upper, lower, reverse, unique, strip_ansi) *)
Theorem every_operation_is_name_then_arguments (s t r : str) (k : list ptree) :
  run r_template false s = Some (t, k, r) -> Forall (every_node op_after_right) k.
Proof.
  apply (every_node_after_right r_template starter_eqb starter_eqb_eq op_after str_eqb).
  - intros a b H. exact (proj1 (str_eqb_eq a b) H).
  - exact grammar_arguments_checked.
Qed.

Lemma op_begins_right_unfold (id : rule) (txt : str) :
  (op_begins_right id txt <-> (forall l, op_begin id = Some l -> Exists (fun st => starts st txt) l)) /\
  (op_after_right id txt <-> (forall name mandatory l, op_after id = Some (name, mandatory, l) ->
      exists u, txt = name ++ u /\ ((u = [] /\ mandatory = false) \/ Exists (fun st => starts st u) l))).
Proof. split; reflexivity. Qed.

(* ---- a block that begins with no documented beginning is refused ---- *)
Definition starts_b (st : starter) (t : str) : bool :=
  match st with
  | SLit s => match strip_prefix s t with Some _ => true | None => false end
  | SRng lo hi => match t with c :: _ => N.leb lo c && N.leb c hi | [] => false end
  | SAny => match t with [] => false | _ => true end
  end.
Lemma starts_b_complete st t : starts st t -> starts_b st t = true.
Proof.
  destruct st as [s|lo hi|]; cbn.
  - intros [r ->]. now rewrite strip_prefix_app.
  - intros (c & r & -> & H1 & H2). apply N.leb_le in H1. apply N.leb_le in H2. now rewrite H1, H2.
  - destruct t; [congruence | reflexivity].
Qed.

Definition begins_like_operation (t : str) : bool := existsb (fun st => starts_b st t) op_starts.

Lemma operation_list_needs_a_name (inp : str) :
  begins_like_operation inp = false -> run r_operation_list false inp = None.
Proof.
  intros Hb. destruct (run r_operation_list false inp) as [[[t k] r]|] eqn:E; [|reflexivity]. exfalso.
  assert (Hn : nullable r_operation_list = false) by (vm_compute; reflexivity).
  pose proof (first_sound_strict r_operation_list false inp t k r Hn E) as Hs.
  assert (Hsub : forallb (fun st => existsb (starter_eqb st) op_starts) (starters r_operation_list) = true) by (vm_compute; reflexivity).
  apply Exists_exists in Hs. destruct Hs as (st & Hin & Hst).
  rewrite forallb_forall in Hsub. specialize (Hsub st Hin). apply existsb_exists in Hsub.
  destruct Hsub as (st' & Hin' & He). apply starter_eqb_eq in He. subst st'.
  assert (Ht : t <> []).
  { intros ->. rewrite (nullable_sound _ _ _ _ _ E) in Hn. discriminate. }
  pose proof (run_text _ _ _ _ _ _ E) as ->.
  pose proof (starts_app st t r Ht Hst) as Hst'. apply starts_b_complete in Hst'.
  unfold begins_like_operation in Hb.
  assert (Hex : existsb (fun st => starts_b st (t ++ r)) op_starts = true) by (apply existsb_exists; exists st; split; assumption).
  congruence.
Qed.

(* "{" or "{!" followed by a text that is not empty, does not begin with "}" or "!", and where no
   operation list can be read: a parse error, whatever follows *)
Lemma block_without_operation_rejected (dbg : bool) (c : N) (w : str) :
  N.eqb 125 c = false -> N.eqb 33 c = false -> run r_operation_list false (c :: w) = None ->
  parse_template (123 :: (if dbg then [33] else []) ++ c :: w) = Err.
Proof.
  intros Hc1 Hc2 Hol.
  unfold parse_template, r_template. rewrite run_rule_normal, run_seq.
  destruct dbg.
  - change (123 :: [33] ++ c :: w) with ([123] ++ [33] ++ c :: w).
    rewrite run_str, seq_res_some, run_seq, run_opt.
    unfold r_debug_flag. rewrite run_rule_atomic, run_str.
    rewrite seq_res_some, run_seq, run_opt. fold r_operation_list. rewrite Hol, seq_res_some, run_seq.
    rewrite (str_fail_head [] 125 false c w Hc1). reflexivity.
  - change (123 :: [] ++ c :: w) with ([123] ++ c :: w).
    rewrite run_str, seq_res_some, run_seq, run_opt.
    assert (Hdbg : run r_debug_flag false (c :: w) = None).
    { unfold r_debug_flag. rewrite run_rule_atomic. rewrite (str_fail_head [] 33 true c w Hc2). reflexivity. }
    rewrite Hdbg, seq_res_some, run_seq, run_opt. fold r_operation_list. rewrite Hol, seq_res_some, run_seq.
    rewrite (str_fail_head [] 125 false c w Hc1). reflexivity.
Qed.

(* "{" or "{!" followed by a text that is neither empty, nor "}", nor the beginning of any
   operation: a parse error, whatever follows.  (The debug marker itself is part of the
   hypothesis: after "{" the text must not begin with "!" either.) *)
Theorem unknown_operation_rejected (dbg : bool) (c : N) (w : str) :
  N.eqb 125 c = false -> N.eqb 33 c = false -> begins_like_operation (c :: w) = false ->
  parse_template (123 :: (if dbg then [33] else []) ++ c :: w) = Err.
Proof.
  intros Hc1 Hc2 Hb. apply block_without_operation_rejected; [exact Hc1 | exact Hc2 |].
  exact (operation_list_needs_a_name (c :: w) Hb).
Qed.

(* the hypotheses are met by ordinary typos: {bogus}, {Upper}, { upper}, {!uper|lower}, {:x} *)
Example unknown_names_rejected :
  parse_template [123; 98; 111; 103; 117; 115; 125] = Err /\
  parse_template [123; 85; 112; 112; 101; 114; 125] = Err /\
  parse_template [123; 32; 117; 112; 112; 101; 114; 125] = Err /\
  parse_template ([123; 33] ++ [117; 112; 101; 114; 124; 108; 111; 119; 101; 114; 125]) = Err.
Proof.
  split; [|split; [|split]].
  - exact (unknown_operation_rejected false 98 [111; 103; 117; 115; 125] eq_refl eq_refl eq_refl).
  - exact (unknown_operation_rejected false 85 [112; 112; 101; 114; 125] eq_refl eq_refl eq_refl).
  - exact (unknown_operation_rejected false 32 [117; 112; 112; 101; 114; 125] eq_refl eq_refl eq_refl).
  - exact (unknown_operation_rejected true 117 [112; 101; 114; 124; 108; 111; 119; 101; 114; 125] eq_refl eq_refl eq_refl).
Qed.
