(* The Impl layer (fast paths, shortcut, caches, tracer) refines the Spec layer. *)
From SP Require Import Model.Impl Model.Spec Proofs.RangeP Proofs.SplitP Proofs.StrP.

(* ---- the effect interface under run_pure ------------------------------ *)

Lemma run_pure_pbind {A B} (m : prog A) (f : A -> prog B) :
  run_pure (pbind m f) = run_pure (f (run_pure m)).
Proof. induction m as [a|k c IH|k v c IH|p c IH|p c IH]; cbn [pbind run_pure]; auto. Qed.

Lemma run_pure_pmapM {A B} (f : A -> prog B) l :
  run_pure (pmapM f l) = map (fun x => run_pure (f x)) l.
Proof.
  induction l as [|x l IH]; [reflexivity|]. cbn [pmapM map].
  rewrite run_pure_pbind, run_pure_pbind. cbn [run_pure]. now rewrite IH.
Qed.

Lemma run_pure_pmapM_o {A B} (f : A -> prog (outcome B)) l :
  run_pure (pmapM_o f l) = mapM (fun x => run_pure (f x)) l.
Proof.
  induction l as [|x l IH]; [reflexivity|]. cbn [pmapM_o mapM].
  rewrite run_pure_pbind. destruct (run_pure (f x)) as [y| |]; cbn [bind run_pure]; try reflexivity.
  rewrite run_pure_pbind. cbn [run_pure]. rewrite IH.
  destruct (mapM _ l); reflexivity.
Qed.

(* ---- constants regenerated from the source agree with the documented ones -- *)

Lemma consts_flag_letters : replace_flag_letters = flag_letters /\ replace_flag_targets = flag_letters.
Proof. split; reflexivity. Qed.

(* the literal shortcut is never taken when g, i or x is set *)
Lemma consts_blockers :
  mem_cp 103%N replace_shortcut_blockers = true /\ mem_cp 105%N replace_shortcut_blockers = true
  /\ mem_cp 120%N replace_shortcut_blockers = true.
Proof. repeat split; reflexivity. Qed.

Lemma consts_trace_total : debug_value_by_chars = true /\ debug_literal_by_chars = true.
Proof. split; reflexivity. Qed.

Lemma mapM_ext {A B} (f g : A -> outcome B) l : (forall x, f x = g x) -> mapM f l = mapM g l.
Proof. intros H. induction l as [|x l IH]; [reflexivity|]. cbn [mapM]. rewrite H, IH. reflexivity. Qed.

Section Refine.
Variable E : Env.

Lemma raw_split_is_split s sep : raw_split s sep = split s sep.
Proof.
  unfold raw_split. destruct (N.eqb (utf8_len sep) 1) eqn:H; [|reflexivity].
  apply N.eqb_eq, utf8_len_one in H as [c [-> _]]. cbn [hd]. apply split_char_is_split.
Qed.

Lemma run_pure_get_cached_split s sep : run_pure (get_cached_split s sep) = split s sep.
Proof.
  unfold get_cached_split. cbn [run_pure]. rewrite raw_split_is_split.
  destruct (_ && _)%bool; reflexivity.
Qed.

Lemma run_pure_get_cached_regex p :
  run_pure (get_cached_regex E p) = if re_valid E p then Ok tt else Err.
Proof. unfold get_cached_regex. cbn [run_pure]. destruct (re_valid E p); reflexivity. Qed.

Lemma trace_value_ok v : trace_value v = Ok tt.
Proof.
  destruct v as [s|l]; [|reflexivity]. unfold trace_value, trace_preview.
  destruct consts_trace_total as [-> _].
  destruct (N.ltb _ _); reflexivity.
Qed.

Lemma select_index_le1 {T} i (l : list T) :
  select (Index i) l = [] \/ exists x, select (Index i) l = [x].
Proof.
  unfold select. destruct l as [|a l']; [left; reflexivity|].
  set (l := a :: l'). destruct (skipn _ l) as [|x r]; [left; reflexivity | right; exists x; reflexivity].
Qed.

Lemma inline_flags_subset flags c : In c (inline_flags flags) -> In c flag_letters /\ mem_cp c flags = true.
Proof. unfold inline_flags. rewrite filter_In. tauto. Qed.

Lemma shortcut_flags_ms flags :
  existsb (fun f => mem_cp f flags) replace_shortcut_blockers = false ->
  has_g flags = false /\
  (flag_prefix flags = [] \/
   exists fl, flag_prefix flags = [40; 63]%N ++ fl ++ [41]%N /\ forall c, In c fl -> c = 109%N \/ c = 115%N).
Proof.
  intros H.
  assert (Hb: forall c, mem_cp c replace_shortcut_blockers = true -> mem_cp c flags = false).
  { intros c Hc. destruct (mem_cp c flags) eqn:Ec; [|reflexivity].
    assert (existsb (fun f => mem_cp f flags) replace_shortcut_blockers = true).
    { apply existsb_exists. exists c. split; [apply mem_cp_In; exact Hc | exact Ec]. }
    congruence. }
  destruct consts_blockers as (Hg & Hi & Hx).
  split; [exact (Hb _ Hg)|].
  unfold flag_prefix. destruct (inline_flags flags) as [|a fl] eqn:Ef; [left; reflexivity|].
  right. exists (a :: fl). split; [reflexivity|]. intros c Hc. rewrite <- Ef in Hc.
  apply inline_flags_subset in Hc as [Hin Hm].
  unfold flag_letters in Hin. cbn [In] in Hin.
  destruct Hin as [<-|[<-|[<-|[<-|[]]]]]; auto.
  - rewrite (Hb _ Hi) in Hm. discriminate.
  - rewrite (Hb _ Hx) in Hm. discriminate.
Qed.

Lemma pattern_to_use_is_prefix flags pat :
  match flags with
  | [] => pat
  | _ => match filter (fun c => mem_cp c flags) replace_flag_letters with
         | [] => pat
         | fl => [40; 63]%N ++ fl ++ [41]%N ++ pat
         end
  end = flag_prefix flags ++ pat.
Proof.
  destruct consts_flag_letters as [-> _]. unfold flag_prefix, inline_flags.
  destruct flags as [|f flags]; [reflexivity|].
  destruct (filter _ flag_letters) as [|a fl]; [reflexivity|].
  cbn [app]. rewrite <- !app_assoc. reflexivity.
Qed.

Hypothesis HL1 : L1 replace_meta E.

Lemma impl_replace_refines pat repl flags s :
  run_pure (impl_replace E pat repl flags s) = spec_replace E pat repl flags s.
Proof.
  unfold impl_replace, spec_replace.
  destruct (replace_shortcut_present
            && negb (existsb (fun f => mem_cp f flags) replace_shortcut_blockers)
            && negb (existsb (fun c => mem_cp c replace_meta) pat)
            && negb (contains s pat))%bool eqn:Hsc.
  - apply andb_true_iff in Hsc as [Hsc Hc]. apply andb_true_iff in Hsc as [Hsc Hm]. apply andb_true_iff in Hsc as [_ Hb].
    apply negb_true_iff in Hb, Hm, Hc.
    destruct (shortcut_flags_ms flags Hb) as [Hg Hpfx].
    assert (Hmeta: forall c, In c pat -> mem_cp c replace_meta = false).
    { intros c Hin. destruct (mem_cp c replace_meta) eqn:Ec; [|reflexivity].
      assert (existsb (fun c => mem_cp c replace_meta) pat = true)
        by (apply existsb_exists; exists c; auto). congruence. }
    destruct (HL1 (flag_prefix flags) pat s repl (has_g flags) Hmeta Hpfx Hc) as [Hv Hr].
    cbn [run_pure]. rewrite Hv, Hr. reflexivity.
  - rewrite pattern_to_use_is_prefix. rewrite run_pure_pbind, run_pure_get_cached_regex.
    destruct (re_valid E (flag_prefix flags ++ pat)); reflexivity.
Qed.

Lemma impl_single_refines o v sep :
  (forall b, o <> Map b) ->
  run_pure (impl_single E o v sep) = spec_step E o v sep.
Proof.
  intros Hnm. destruct o; try (exfalso; eapply Hnm; reflexivity);
    cbn [impl_single spec_step ret_o run_pure str_only list_only].
  - (* Split *)
    rewrite run_pure_pbind. cbn [run_pure ret_o bind].
    assert (Hparts: run_pure (match v with
                      | VStr s => get_cached_split s sep0
                      | VList l => pbind (pmapM (fun s => get_cached_split s sep0) l) (fun ps => Ret (concat ps))
                      end) = match v with VStr s => split s sep0 | VList l => flat_map (fun s => split s sep0) l end).
    { destruct v as [s|l]; [apply run_pure_get_cached_split|].
      rewrite run_pure_pbind. cbn [run_pure]. rewrite run_pure_pmapM, flat_map_concat_map.
      f_equal. apply map_ext. intros a. apply run_pure_get_cached_split. }
    rewrite Hparts. rewrite apply_range_m_is_select.
    destruct r as [i|a b inc]; [|reflexivity].
    destruct (select_index_le1 i (match v with VStr s => split s sep0 | VList l => flat_map (fun s => split s sep0) l end))
      as [-> | [x ->]]; reflexivity.
  - (* Join *) reflexivity.
  - (* Replace *)
    destruct v as [s|l]; [|reflexivity].
    rewrite run_pure_pbind, impl_replace_refines. cbn [run_pure ret_o].
    destruct (spec_replace E pat repl flags s); reflexivity.
  - (* Upper *) destruct v; reflexivity.
  - (* Lower *) destruct v; reflexivity.
  - (* Trim *)
    destruct v as [s|l]; [|reflexivity]. do 2 f_equal. f_equal.
    unfold trim_pred. change (trim_with is_ws TBoth chars) with (drop_while_end is_ws (drop_while is_ws chars)).
    rewrite blank_iff_all_ws. destruct (forallb is_ws chars); [|reflexivity].
    destruct d; try reflexivity. unfold ascii_trim. destruct (is_ascii s); reflexivity.
  - (* Substring *)
    destruct v as [s|l]; [|reflexivity].
    destruct (is_ascii s) eqn:Ha; cbn [bind]; rewrite apply_range_m_is_select; [rewrite (utf8_ascii _ Ha)|]; reflexivity.
  - (* Append *) destruct v; reflexivity.
  - (* Prepend *) destruct v; reflexivity.
  - (* Surround *) destruct v; reflexivity.
  - (* StripAnsi *) destruct v; reflexivity.
  - (* Filter *)
    rewrite run_pure_pbind, run_pure_get_cached_regex. unfold spec_filter.
    destruct (re_valid E p); cbn [run_pure ret_o bind omap]; [|reflexivity].
    destruct v as [s|l].
    + destruct (re_is_match E p s); reflexivity.
    + rewrite (filter_ext (fun s => re_is_match E p s) (fun s => Bool.eqb (re_is_match E p s) true)); [reflexivity|].
      intros a. destruct (re_is_match E p a); reflexivity.
  - (* FilterNot *)
    rewrite run_pure_pbind, run_pure_get_cached_regex. unfold spec_filter.
    destruct (re_valid E p); cbn [run_pure ret_o bind omap]; [|reflexivity].
    destruct v as [s|l].
    + destruct (re_is_match E p s); reflexivity.
    + rewrite (filter_ext (fun s => negb (re_is_match E p s)) (fun s => Bool.eqb (re_is_match E p s) false)); [reflexivity|].
      intros a. destruct (re_is_match E p a); reflexivity.
  - (* Slice *)
    destruct v as [s|l]; [reflexivity|]. cbn [bind]. rewrite apply_range_m_is_select. reflexivity.
  - (* Sort *) destruct v as [s|l]; destruct d; reflexivity.
  - (* Reverse *)
    destruct v as [s|l]; [|reflexivity]. unfold ascii_reverse. destruct (is_ascii s); reflexivity.
  - (* Unique *) destruct v; reflexivity.
  - (* Pad *) destruct v; reflexivity.
  - (* RegexExtract *)
    destruct v as [s|l]; [|reflexivity].
    rewrite run_pure_pbind, run_pure_get_cached_regex. unfold spec_extract.
    destruct (re_valid E p); reflexivity.
Qed.

Lemma impl_finish_refines dbg v sep : run_pure (impl_finish dbg v sep) = Ok (render v sep).
Proof.
  unfold impl_finish, ret_o. cbn [run_pure].
  destruct dbg; [rewrite trace_value_ok|]; cbn [bind]; destruct v as [s|[|x l]]; reflexivity.
Qed.

Lemma trace_step_ok (dbg : bool) (v : value) :
  run_pure (if dbg then ret_o (trace_value v) else ret_o (Ok tt)) = Ok tt.
Proof. destruct dbg; cbn [ret_o run_pure]; [apply trace_value_ok | reflexivity]. Qed.

(* the spec's local loop inside Map is spec_steps *)
Lemma spec_map_body_is_steps body : forall v sep,
  (fix go (ops : list op) (v : value) (sep : str) : outcome str :=
     match ops with
     | [] => Ok (render v sep)
     | o' :: ops' => bind (spec_step E o' v sep) (fun r => go ops' (fst r) (snd r))
     end) body v sep = spec_steps E body v sep.
Proof. induction body as [|o b IH]; intros v sep; [reflexivity|]. cbn [spec_steps]. reflexivity. Qed.

Lemma impl_step_refines dbg o : forall v sep,
  run_pure (impl_step E dbg o v sep) = spec_step E o v sep.
Proof.
  induction o using op_ind'; intros v sep;
    try (cbn [impl_step]; apply impl_single_refines; intros b0 Hb0; discriminate Hb0).
  (* Map *)
  cbn [impl_step spec_step]. destruct v as [s|l]; [reflexivity|].
  rewrite run_pure_pbind, run_pure_pmapM_o. cbn [ret_o run_pure].
  assert (Hbody: forall item,
    run_pure ((fix go (b : list op) (v : value) (sep : str) {struct b} : prog (outcome str) :=
                 match b with
                 | [] => impl_finish dbg v sep
                 | o' :: b' =>
                     pbind (if dbg then ret_o (trace_value v) else ret_o (Ok tt)) (fun t =>
                     match t with
                     | Ok _ =>
                       pbind (impl_step E dbg o' v sep) (fun r =>
                         match r with
                         | Ok (v', sep') => go b' v' sep'
                         | Err => Ret Err
                         | Panic => Ret Panic
                         end)
                     | Err => Ret Err
                     | Panic => Ret Panic
                     end)
                 end) body (VStr item) [32%N])
    = spec_steps E body (VStr item) default_sep).
  { intros item. unfold default_sep. generalize (VStr item) as v0. generalize [32%N] as sep0.
    induction body as [|o' b IHb]; intros sep0 v0.
    - apply impl_finish_refines.
    - inversion H as [|? ? Ho Hb]; subst.
      rewrite run_pure_pbind, trace_step_ok, run_pure_pbind, Ho. cbn [spec_steps].
      destruct (spec_step E o' v0 sep0) as [[v' sep']| |]; cbn [bind run_pure fst snd]; try reflexivity.
      apply IHb. exact Hb. }
  rewrite (mapM_ext _ _ l Hbody).
  rewrite (mapM_ext _ (fun item => spec_steps E body (VStr item) default_sep) l
             (fun item => spec_map_body_is_steps body (VStr item) default_sep)).
  destruct (mapM _ l); reflexivity.
Qed.

Lemma impl_ops_refines dbg ops : forall v sep,
  run_pure (impl_ops E dbg ops v sep) = spec_steps E ops v sep.
Proof.
  induction ops as [|o ops IH]; intros v sep; cbn [impl_ops spec_steps].
  - apply impl_finish_refines.
  - rewrite run_pure_pbind, trace_step_ok, run_pure_pbind, impl_step_refines.
    destruct (spec_step E o v sep) as [[v' sep']| |]; cbn [bind run_pure fst snd]; try reflexivity.
    apply IH.
Qed.

(* C01: whatever the debug flag, the cache-free meaning of the code is the
   documented semantics *)
Theorem impl_run_refines dbg ops x : run_pure (impl_run E dbg ops x) = spec_run E ops x.
Proof. apply impl_ops_refines. Qed.

End Refine.
