(* C18: every section of format_with_inputs sees its own slot of inputs and
   separators and nothing else; the call is the concatenation of its parts *)
From SP Require Import Model.Template Proofs.TemplateLaws.
From Coq Require Import Lia.

Section F.
Variable E : Env.

(* only the slots idx .. idx + (number of sections) - 1 are looked at *)
Theorem fwi_only_own_slots secs : forall (inputs inputs' : list (list str)) (seps seps' : list str) idx,
  (forall k, (idx <= k < idx + length (filter is_sec secs))%nat ->
     nth k inputs [] = nth k inputs' [] /\ nth k seps [32%N] = nth k seps' [32%N]) ->
  spec_fwi E secs inputs seps idx = spec_fwi E secs inputs' seps' idx.
Proof.
  induction secs as [|s secs IH]; intros inputs inputs' seps seps' idx H; [reflexivity|].
  destruct s as [l|ops]; cbn [spec_fwi filter is_sec length] in *.
  - rewrite (IH inputs inputs' seps seps' idx H). reflexivity.
  - destruct (H idx ltac:(lia)) as [Hi Hs]. rewrite Hi.
    destruct (mapM (spec_run E ops) (nth idx inputs' [])) as [outs| |]; cbn [bind]; try reflexivity.
    rewrite Hs. rewrite (IH inputs inputs' seps seps' (S idx)); [reflexivity|].
    intros k Hk. apply H. lia.
Qed.

(* a template is its first part followed by its second part; the second part's
   sections are numbered after those of the first *)
Theorem fwi_app s1 : forall s2 inputs seps idx,
  spec_fwi E (s1 ++ s2) inputs seps idx =
    bind (spec_fwi E s1 inputs seps idx) (fun a =>
      omap (app a) (spec_fwi E s2 inputs seps (idx + length (filter is_sec s1)))).
Proof.
  induction s1 as [|s s1 IH]; intros s2 inputs seps idx; cbn [app spec_fwi filter length bind].
  - rewrite Nat.add_0_r. destruct (spec_fwi E s2 inputs seps idx); reflexivity.
  - destruct s as [l|ops]; cbn [spec_fwi is_sec filter length].
    + rewrite IH. destruct (spec_fwi E s1 inputs seps idx) as [a| |]; cbn [omap bind]; try reflexivity.
      destruct (spec_fwi E s2 inputs seps _); reflexivity.
    + destruct (mapM (spec_run E ops) (nth idx inputs [])) as [outs| |]; cbn [bind]; try reflexivity.
      rewrite IH. replace (S idx + length (filter is_sec s1))%nat with (idx + S (length (filter is_sec s1)))%nat by lia.
      destruct (spec_fwi E s1 inputs seps (S idx)) as [a| |]; cbn [omap bind]; try reflexivity.
      destruct (spec_fwi E s2 inputs seps _); reflexivity.
Qed.

(* changing the inputs or the separator of ONE section leaves every other section's
   contribution untouched: stated for the sections before it *)
Corollary fwi_later_slots_do_not_matter s1 (inputs inputs' : list (list str)) (seps seps' : list str) idx :
  (forall k, (k < idx + length (filter is_sec s1))%nat ->
     nth k inputs [] = nth k inputs' [] /\ nth k seps [32%N] = nth k seps' [32%N]) ->
  spec_fwi E s1 inputs seps idx = spec_fwi E s1 inputs' seps' idx.
Proof. intros H. apply fwi_only_own_slots. intros k Hk. apply H. lia. Qed.

End F.
