(* C20: get_template_sections lists exactly the sections, in order, numbered 0, 1, 2 ...,
   and agrees entry by entry with get_section_info *)
From SP Require Import Model.Template Proofs.TemplateLaws.
From Coq Require Import Lia.

Definition sec_ops (secs : list section) : list (list op) :=
  flat_map (fun s => match s with Sec o => [o] | Lit _ => [] end) secs.

Theorem template_sections_positions secs : forall a,
  map fst (template_sections_from secs a) = seq a (length (filter is_sec secs)).
Proof.
  induction secs as [|s secs IH]; intros a; [reflexivity|].
  destruct s as [l|ops]; cbn [template_sections_from filter is_sec length map fst seq]; [apply IH|].
  f_equal. apply IH.
Qed.

Theorem template_sections_ops secs : forall a,
  map snd (template_sections_from secs a) = sec_ops secs.
Proof.
  induction secs as [|s secs IH]; intros a; [reflexivity|].
  destruct s as [l|ops]; cbn [template_sections_from sec_ops flat_map map snd app]; [apply IH|].
  f_equal. apply IH.
Qed.

(* the two accessors agree: the template sections are the template entries of the
   section info, with the same position and the same operations *)
Definition info_entry (i : section_info) : list (nat * list op) :=
  match si_template_pos i, si_ops i with Some p, Some o => [(p, o)] | _, _ => [] end.

Theorem template_sections_agree_with_info secs : forall a b,
  template_sections_from secs b = flat_map info_entry (section_info_from secs a b).
Proof.
  induction secs as [|s secs IH]; intros a b; [reflexivity|].
  destruct s as [l|ops]; cbn [template_sections_from section_info_from flat_map info_entry
    si_template_pos si_ops app]; [apply IH|]. f_equal. apply IH.
Qed.

Corollary accessors_agree t :
  get_template_sections t = flat_map info_entry (get_section_info t)
  /\ map fst (get_template_sections t) = seq 0 (template_section_count t)
  /\ map snd (get_template_sections t) = sec_ops (t_sections t).
Proof.
  unfold get_template_sections, get_section_info, template_section_count. repeat split.
  - apply template_sections_agree_with_info.
  - apply template_sections_positions.
  - apply template_sections_ops.
Qed.

(* the literal parts listed by the section info, concatenated with what the sections
   produce, is the formatted text: introspection and formatting see the same parts *)
Theorem info_lists_the_parts secs : forall a b,
  map (fun i => (si_content i, si_ops i)) (section_info_from secs a b)
  = map (fun s => match s with Lit l => (Some l, None) | Sec o => (None, Some o) end) secs.
Proof.
  induction secs as [|s secs IH]; intros a b; [reflexivity|].
  destruct s as [l|ops]; cbn [section_info_from map si_content si_ops]; f_equal; apply IH.
Qed.
