(* C10, the {!...} route: the inline debug marker only sets the debug flag. *)
From SP Require Import Model.Scanner Proofs.PegP Proofs.ArgP.
Local Open Scope N_scope.

Definition tpl_rest : peg rule :=
  PSeq (POpt r_operation_list) (PSeq (PStr [125]) PEoiTok).

Lemma r_template_shape : r_template = PRule R_template Normal (PSeq (PStr [123]) (PSeq (POpt r_debug_flag) tpl_rest)).
Proof. reflexivity. Qed.

Lemma run_debug_flag_bang w : run (POpt r_debug_flag) false (33 :: w) = Some ([33], [Node (Some R_debug_flag) [33] []], w).
Proof. reflexivity. Qed.
Lemma run_debug_flag_absent w : match w with 33 :: _ => False | _ => True end ->
  run (POpt r_debug_flag) false w = Some ([], [], w).
Proof.
  intros H. destruct w as [|c w]; [reflexivity|].
  unfold r_debug_flag. cbn [run strip_prefix].
  destruct (N.eqb_spec 33 c) as [<-|Hne]; [contradiction | reflexivity].
Qed.

(* the loop of parse_template over the children of the template node *)
Definition tree_go := (fix go (l : list ptree) (ops : list op) (dbg : bool) : outcome (list op * bool) :=
     match l with
     | [] => Ok (ops, dbg)
     | p :: l' =>
         match t_rule p with
         | Some R_operation_list =>
             bind (mapM (fun op_pair => bind (unwrap_first (t_kids op_pair)) parse_operation) (t_kids p))
                  (fun more => go l' (ops ++ more) dbg)
         | Some R_debug_flag => go l' ops true
         | _ => go l' ops dbg
         end
     end).

Lemma parse_template_tree_go top : parse_template_tree top = tree_go (t_kids top) [] false.
Proof. reflexivity. Qed.

Lemma tree_go_flag k : forall ops, tree_go k ops true = omap (fun od => (fst od, true)) (tree_go k ops false).
Proof.
  induction k as [|p k IH]; intros ops; [reflexivity|]. cbn [tree_go].
  destruct (t_rule p) as [id|]; [|apply IH].
  destruct id; try apply IH.
  - (* a debug_flag child: both sides continue with true *)
    rewrite IH. destruct (tree_go k ops false) as [[o d]| |]; reflexivity.
  - match goal with |- bind ?m _ = _ => destruct m end; cbn [bind omap]; [apply IH | reflexivity | reflexivity].
Qed.

Theorem bang_only_sets_debug w : match w with 33 :: _ => False | _ => True end ->
  parse_template (123 :: 33 :: w) = omap (fun od => (fst od, true)) (parse_template (123 :: w)).
Proof.
  intros Hw. unfold parse_template. rewrite r_template_shape.
  rewrite !run_rule_normal, !run_seq.
  change (123 :: 33 :: w) with ([123] ++ 33 :: w). change (123 :: w) with ([123] ++ w).
  rewrite !run_str, !seq_res_some. rewrite !run_seq.
  rewrite run_debug_flag_bang, (run_debug_flag_absent w Hw), !seq_res_some.
  destruct (run tpl_rest false w) as [[[t k] r]|]; [|reflexivity].
  cbn [unwrap_first bind app]. rewrite !parse_template_tree_go. cbn [t_kids app tree_go t_rule].
  apply tree_go_flag.
Qed.
