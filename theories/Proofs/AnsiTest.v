(* Regression examples for Model/Ansi.v: every pair below was produced by the
   real fast_strip_ansi::strip_ansi_string (0.13.1) through a probe program;
   the same pairs are in corpus/ansi_pairs.txt (hex).  Inputs and outputs are
   UTF-8 byte strings.  GENERATED from the probe output; see
   design-notes/ansi-notes.md. *)
From SP Require Import Model.Ansi.
Local Open Scope N_scope.

(* (input bytes, output bytes) *)
Definition corpus : list (list N * list N) := [
  (* empty *)
  ([], []);
  (* plain ascii *)
  ([104;101;108;108;111], [104;101;108;108;111]);
  (* plain non-ascii *)
  ([104;195;169;108;108;111;32;240;159;152;128], [104;195;169;108;108;111;32;240;159;152;128]);
  (* tab nl cr kept *)
  ([97;9;98;10;99;13;100], [97;9;98;10;99;13;100]);
  (* CSI colours *)
  ([27;91;51;49;109;104;105;27;91;48;109], [104;105]);
  (* CSI multi params *)
  ([97;27;91;49;59;51;49;59;52;109;98], [97;98]);
  (* CSI private *)
  ([97;27;91;63;50;53;104;98], [97;98]);
  (* CSI intermediate SP q *)
  ([97;27;91;49;32;113;98], [97;98]);
  (* CSI ! p *)
  ([97;27;91;33;112;98], [97;98]);
  (* CSI two intermediates *)
  ([97;27;91;49;32;33;112;98], [97;98]);
  (* CSI three intermediates *)
  ([97;27;91;49;32;33;35;112;98], [97;98]);
  (* CSI dup intermediates *)
  ([97;27;91;49;32;32;112;98], [97;98]);
  (* CSI colon params *)
  ([97;27;91;51;56;58;50;58;49;58;50;58;51;109;98], [97;98]);
  (* CSI final @ *)
  ([97;27;91;64;98], [97;98]);
  (* CSI final ~ *)
  ([97;27;91;53;126;98], [97;98]);
  (* CSI param after intermediate *)
  ([97;27;91;32;49;109;98], [97;98]);
  (* CSI with non-ascii inside *)
  ([97;27;91;195;169;109;98], [97;98]);
  (* CSI with C0 inside (BEL) *)
  ([97;27;91;51;7;49;109;98], [97;98]);
  (* CSI with NL inside *)
  ([97;27;91;51;10;49;109;98], [97;98]);
  (* CSI with DEL inside *)
  ([97;27;91;51;127;49;109;98], [97;98]);
  (* CSI CAN inside *)
  ([97;27;91;51;49;24;109;98], [97;109;98]);
  (* CSI SUB inside *)
  ([97;27;91;51;49;26;109;98], [97;109;98]);
  (* CSI nested ESC restarts *)
  ([97;27;91;51;49;27;91;51;50;109;98], [97;98]);
  (* CSI nested ESC then plain final *)
  ([97;27;91;51;49;27;99;98], [97;98]);
  (* OSC BEL *)
  ([97;27;93;48;59;116;105;116;108;101;7;98], [97;98]);
  (* OSC ST *)
  ([97;27;93;48;59;116;105;116;108;101;27;92;98], [97;98]);
  (* OSC non-ascii payload *)
  ([97;27;93;56;59;59;104;116;116;112;58;47;47;120;47;195;169;27;92;98], [97;98]);
  (* OSC with C0 (NL,NUL) in payload *)
  ([97;27;93;48;59;120;10;121;0;122;7;98], [97;98]);
  (* OSC with DEL in payload *)
  ([97;27;93;48;59;120;127;121;7;98], [97;98]);
  (* OSC CAN aborts *)
  ([97;27;93;48;59;120;24;121;98;7;99], [97;121;98;99]);
  (* OSC SUB aborts *)
  ([97;27;93;48;59;120;26;121;98;7;99], [97;121;98;99]);
  (* OSC ESC non-backslash continues *)
  ([97;27;93;48;59;120;27;91;51;49;109;121;7;98], [97;98]);
  (* OSC ESC ESC backslash *)
  ([97;27;93;48;59;120;27;27;92;98], [97;98]);
  (* OSC ESC DEL backslash *)
  ([97;27;93;48;59;120;27;127;92;98], [97;98]);
  (* OSC ESC CAN does not abort *)
  ([97;27;93;48;59;120;27;24;121;7;98], [97;98]);
  (* OSC unterminated *)
  ([97;98;27;93;48;120], [97;98]);
  (* OSC unterminated ESC at end *)
  ([97;98;27;93;48;120;27], [97;98]);
  (* OSC empty BEL *)
  ([97;27;93;7;98], [97;98]);
  (* ESC 7 *)
  ([97;27;55;98], [97;98]);
  (* ESC c *)
  ([97;27;99;98], [97;98]);
  (* ESC = *)
  ([97;27;61;98], [97;98]);
  (* ESC > *)
  ([97;27;62;98], [97;98]);
  (* ESC < *)
  ([97;27;60;98], [97;98]);
  (* ESC M *)
  ([97;27;77;98], [97;98]);
  (* ESC \ alone *)
  ([97;27;92;98], [97;98]);
  (* ESC ~ *)
  ([97;27;126;98], [97;98]);
  (* ESC : *)
  ([97;27;58;98], [97;98]);
  (* ESC ; *)
  ([97;27;59;98], [97;98]);
  (* ESC ? x *)
  ([97;27;63;120;98], [97;98]);
  (* ESC ? SP x *)
  ([97;27;63;32;120;98], [97;98]);
  (* ESC ? ? *)
  ([97;27;63;63;98], [97;98]);
  (* ESC ( B *)
  ([97;27;40;66;98], [97;98]);
  (* ESC ( 0 *)
  ([97;27;40;48;98], [97;98]);
  (* ESC # 8 *)
  ([97;27;35;56;98], [97;98]);
  (* ESC SP F *)
  ([97;27;32;70;98], [97;98]);
  (* ESC two distinct intermediates *)
  ([97;27;32;33;70;98], [97;98]);
  (* ESC three distinct intermediates *)
  ([97;27;32;33;35;70;98], [97;70;98]);
  (* ESC dup intermediates *)
  ([97;27;40;40;66;98], [97;66;98]);
  (* ESC dup second only *)
  ([97;27;32;33;33;70;98], [97;70;98]);
  (* ESC ( [ *)
  ([97;27;40;91;98], [97;98]);
  (* ESC ( ? *)
  ([97;27;40;63;98], [97;98]);
  (* ESC ( : *)
  ([97;27;40;58;98], [97;98]);
  (* ESC ( CAN *)
  ([97;27;40;24;98], [97;98]);
  (* ESC ( DEL *)
  ([97;27;40;127;98], [97;98]);
  (* ESC ( NUL *)
  ([97;27;40;0;98], [97;98]);
  (* ESC ( ESC [ m *)
  ([97;27;40;27;91;109;98], [97;98]);
  (* ESC ( ESC ( B  (ints not cleared) *)
  ([97;27;40;27;40;66;98], [97;66;98]);
  (* ESC ( ESC ) B *)
  ([97;27;40;27;41;66;98], [97;98]);
  (* ESC ( ESC ) * B *)
  ([97;27;40;27;41;42;66;98], [97;66;98]);
  (* ESC ( at end *)
  ([97;27;40], [97]);
  (* ESC at end *)
  ([97;98;27], [97;98]);
  (* ESC only *)
  ([27], []);
  (* ESC [ at end *)
  ([97;98;27;91], [97;98]);
  (* unfinished CSI at end *)
  ([97;98;27;91;51;49;59], [97;98]);
  (* ESC ESC [ m *)
  ([97;27;27;91;109;98], [97;98]);
  (* ESC ESC c *)
  ([97;27;27;99;98], [97;98]);
  (* ESC CAN *)
  ([97;27;24;98], [97;98]);
  (* ESC SUB *)
  ([97;27;26;98], [97;98]);
  (* ESC DEL *)
  ([97;27;127;98], [97;98]);
  (* ESC NUL *)
  ([97;27;0;98], [97;98]);
  (* ESC NL *)
  ([97;27;10;98], [97;98]);
  (* ESC TAB *)
  ([97;27;9;98], [97;98]);
  (* ESC non-ascii 2byte *)
  ([97;27;195;169;98], [97;239;191;189;98]);
  (* ESC non-ascii 3byte *)
  ([97;27;226;130;172;98], [97;239;191;189;239;191;189;98]);
  (* ESC non-ascii 4byte *)
  ([97;27;240;159;152;128;98], [97;239;191;189;239;191;189;239;191;189;98]);
  (* ESC ( non-ascii *)
  ([97;27;40;195;169;98], [97;239;191;189;98]);
  (* ESC N x (SS2) *)
  ([97;27;78;120;98], [97;98]);
  (* ESC O x (SS3) *)
  ([97;27;79;120;98], [97;98]);
  (* ESC N ESC [ m *)
  ([97;27;78;27;91;109;98], [97;98]);
  (* ESC N CAN *)
  ([97;27;78;24;98], [97;98]);
  (* ESC N NUL *)
  ([97;27;78;0;98], [97;98]);
  (* ESC N DEL *)
  ([97;27;78;127;98], [97;98]);
  (* ESC N non-ascii *)
  ([97;27;78;195;169;98], [97;239;191;189;98]);
  (* ESC O at end *)
  ([97;27;79], [97]);
  (* DCS ST *)
  ([97;27;80;49;59;50;124;100;97;116;97;27;92;98], [97;98]);
  (* DCS BEL does not end *)
  ([97;27;80;100;97;116;97;7;98;27;92;99], [97;99]);
  (* DCS CAN *)
  ([97;27;80;100;97;24;116;97;98], [97;116;97;98]);
  (* DCS ESC x continues *)
  ([97;27;80;100;97;27;120;116;97;27;92;98], [97;98]);
  (* DCS ESC CAN aborts *)
  ([97;27;80;100;97;27;24;98], [97;98]);
  (* DCS ESC ESC backslash *)
  ([97;27;80;100;97;27;27;92;98], [97;98]);
  (* DCS ESC DEL backslash *)
  ([97;27;80;100;97;27;127;92;98], [97;98]);
  (* DCS unterminated *)
  ([97;27;80;100;97;116;97], [97]);
  (* DCS non-ascii *)
  ([97;27;80;195;169;27;92;98], [97;98]);
  (* SOS ST *)
  ([97;27;88;100;97;116;97;27;92;98], [97;98]);
  (* PM ST *)
  ([97;27;94;100;97;116;97;27;92;98], [97;98]);
  (* APC ST *)
  ([97;27;95;100;97;116;97;27;92;98], [97;98]);
  (* APC BEL does not end *)
  ([97;27;95;100;97;7;116;97;27;92;98], [97;98]);
  (* APC CAN *)
  ([97;27;95;100;97;24;116;97;98], [97;116;97;98]);
  (* APC ESC CAN does not abort *)
  ([97;27;95;100;97;27;24;98;27;92;99], [97;99]);
  (* APC ESC x continues *)
  ([97;27;95;100;97;27;91;109;98;27;92;99], [97;99]);
  (* APC unterminated *)
  ([97;27;95;100;97;116;97], [97]);
  (* C0 00-08 dropped *)
  ([97;0;98;1;99;2;100;3;101;4;102;5;103;6;104;7;105;8;106], [97;98;99;100;101;102;103;104;105;106]);
  (* C0 0b 0c dropped *)
  ([97;11;98;12;99], [97;98;99]);
  (* C0 0e-1a dropped *)
  ([97;14;98;15;99;16;100;17;101;18;102;19;103;20;104;21;105;22;106;23;107;24;108;25;109;26;110], [97;98;99;100;101;102;103;104;105;106;107;108;109;110]);
  (* C0 1c-1f dropped *)
  ([97;28;98;29;99;30;100;31;101], [97;98;99;100;101]);
  (* DEL dropped *)
  ([97;127;98], [97;98]);
  (* only controls *)
  ([0;7;127], []);
  (* only NUL *)
  ([0], []);
  (* U+0080 *)
  ([97;194;128;98], [97;194;128;98]);
  (* U+009B as text *)
  ([97;194;155;51;49;109;98], [97;194;155;51;49;109;98]);
  (* U+009D as text *)
  ([97;194;157;48;59;116;194;156;98], [97;194;157;48;59;116;194;156;98]);
  (* U+0085 NEL *)
  ([97;194;133;98], [97;194;133;98]);
  (* U+FFFD in input *)
  ([97;239;191;189;98], [97;239;191;189;98]);
  (* non-ascii around seq *)
  ([195;169;27;91;51;49;109;226;130;172;27;91;48;109;240;159;152;128], [195;169;226;130;172;240;159;152;128]);
  (* non-ascii adjacent to C0 *)
  ([195;169;7;226;130;172], [195;169;226;130;172]);
  (* seq then control then text *)
  ([27;91;109;0;120], [120]);
  (* text ESC [ m text (test for shortcut) *)
  ([120;27;91;109], [120]);
  (* leading seq only text after *)
  ([27;91;109;120], [120]);
  (* whole input one chunk after nothing *)
  ([120], [120]);
  (* single tab *)
  ([9], [9]);
  (* adjacent seqs *)
  ([27;91;49;109;27;91;50;109;27;93;48;59;97;7;27;40;66;27;55;120], [120]);
  (* CSI [ [ A (linux console) *)
  ([97;27;91;91;65;98], [97;65;98]);
  (* CSI final [ *)
  ([97;27;91;91;98], [97;98]);
  (* CSI ESC at end *)
  ([97;27;91;51;49;27], [97]);
  (* CSI < params (SGR mouse) *)
  ([97;27;91;60;48;59;49;48;59;50;48;77;98], [97;98]);
  (* CSI = > *)
  ([97;27;91;62;48;99;98], [97;98])
].

(* the string-level function, on the decoded input, re-encoded *)
Definition check_str (p : list N * list N) : bool :=
  list_eqb N.eqb (utf8 (strip_str (utf8_decode (fst p)))) (snd p).
(* lossy decoding of the byte-level function gives the same *)
Definition check_bytes (p : list N * list N) : bool :=
  list_eqb N.eqb (utf8 (utf8_decode (strip_bytes (fst p)))) (snd p).
(* the inputs really are UTF-8: decoding then encoding is the identity *)
Definition check_input (p : list N * list N) : bool :=
  list_eqb N.eqb (utf8 (utf8_decode (fst p))) (fst p).

Example corpus_size : length corpus = 136%nat.
Proof. reflexivity. Qed.
Example corpus_inputs_utf8 : forallb check_input corpus = true.
Proof. vm_compute. reflexivity. Qed.
Example corpus_str : forallb check_str corpus = true.
Proof. vm_compute. reflexivity. Qed.
Example corpus_bytes : forallb check_bytes corpus = true.
Proof. vm_compute. reflexivity. Qed.

(* a few readable ones *)
Example ex_colours : (* ESC[31mhi ESC[0m *)
  strip_str [27;91;51;49;109;104;105;27;91;48;109] = [104;105].
Proof. vm_compute. reflexivity. Qed.
Example ex_osc_st : (* a ESC]0;title ESC\ b *)
  strip_str [97;27;93;48;59;116;27;92;98] = [97;98].
Proof. vm_compute. reflexivity. Qed.
Example ex_c0_dropped : (* a BEL b DEL c TAB d *)
  strip_str [97;7;98;127;99;9;100] = [97;98;99;9;100].
Proof. vm_compute. reflexivity. Qed.
Example ex_c1_is_text : (* U+009B 3 1 m is NOT a CSI *)
  strip_str [155;51;49;109] = [155;51;49;109].
Proof. vm_compute. reflexivity. Qed.
Example ex_esc_eats_lead_byte : (* a ESC U+00E9 b  ->  a U+FFFD b *)
  strip_str [97;27;233;98] = [97;65533;98].
Proof. vm_compute. reflexivity. Qed.
Example ex_dup_intermediate : (* a ESC ( ( B b  ->  a B b *)
  strip_str [97;27;40;40;66;98] = [97;66;98].
Proof. vm_compute. reflexivity. Qed.
Example ex_ints_survive_restart : (* a ESC ( ESC ( B b  ->  a B b *)
  strip_str [97;27;40;27;40;66;98] = [97;66;98].
Proof. vm_compute. reflexivity. Qed.
Example ex_unfinished_csi : (* ab ESC [ 3 1 ; *)
  strip_str [97;98;27;91;51;49;59] = [97;98].
Proof. vm_compute. reflexivity. Qed.
Example ex_can_in_csi : (* a ESC [ 3 1 CAN m b -> a m b *)
  strip_str [97;27;91;51;49;24;109;98] = [97;109;98].
Proof. vm_compute. reflexivity. Qed.

(* Spec vocabulary *)
Example ex_decorate :
  let items := [T [233]; Sq (Csi [51;49] [] 109); T [104;105]; Sq (Osc [48;59;8364] true);
                Sq (Esc3 40 66); Sq (Esc2 55); Sq (Ss false 120); Sq (Cstr 95 [1;2;3]); T [33]] in
  items_ok items = true /\ strip_str (decorate items) = texts items
  /\ texts items = [233;104;105;33].
Proof. vm_compute. repeat split; reflexivity. Qed.
