(* Every printable operation, written by the canonical printer, is read back by the
   regenerated grammar and the converter as exactly that operation: rule by rule. *)
From SP Require Import Model.Syntax Model.Scanner Proofs.PegP Proofs.SyntaxP Proofs.ArgP Proofs.NumP Proofs.RangeSynP.
Local Open Scope N_scope.

Lemma op_stops_stops rest : op_stops rest -> stops rest.
Proof. intros (c & t & -> & [-> | ->]); split; (reflexivity || discriminate). Qed.

Lemma op_stops_not_colon rest : op_stops rest -> exists c t, rest = c :: t /\ N.eqb 58 c = false.
Proof. intros (c & t & -> & [-> | ->]); eexists; eexists; split; reflexivity. Qed.

(* ---- keyword-only operations ---------------------------------------------------- *)
Lemma run_kw_atomic (id : rule) (k : str) rest :
  run (PRule id Atomic (PStr k)) false (k ++ rest) = Some (k, [Node (Some id) k []], rest).
Proof. rewrite run_rule_atomic, run_str. reflexivity. Qed.

(* ---- substring / slice ------------------------------------------------------------ *)
Lemma run_kw_range (id : rule) (k : str) r rest : op_stops rest ->
  exists kr, run (PRule id Normal (PSeq (PStr k) (PSeq (PStr [58]) r_range_spec))) false (k ++ 58 :: print_range r ++ rest)
             = Some (k ++ 58 :: print_range r, [Node (Some id) (k ++ 58 :: print_range r) [kr]], rest)
             /\ parse_range_spec kr = conv_range r.
Proof.
  intros Hst. destruct (range_spec_reads r rest Hst) as (kr & Hrun & Hconv).
  exists kr. split; [|exact Hconv].
  rewrite run_rule_normal, run_seq, run_str, seq_res_some, run_seq.
  change (58 :: print_range r ++ rest) with ([58] ++ print_range r ++ rest).
  rewrite run_str, seq_res_some, Hrun. reflexivity.
Qed.

(* ---- text-argument operations: append prepend surround join map_join ------------- *)
Lemma run_kw_simple (id : rule) (k : str) s rest : stops rest ->
  run (PRule id Normal (PSeq (PStr k) (PSeq (PStr [58]) r_simple_arg))) false (k ++ 58 :: esc s ++ rest)
  = Some (k ++ 58 :: esc s, [Node (Some id) (k ++ 58 :: esc s) [Node (Some R_simple_arg) (esc s) []]], rest).
Proof.
  intros Hst. rewrite run_rule_normal, run_seq, run_str, seq_res_some, run_seq.
  change (58 :: esc s ++ rest) with ([58] ++ esc s ++ rest).
  rewrite run_str, seq_res_some. destruct (simple_arg_reads_escaped s rest Hst) as [-> _]. reflexivity.
Qed.

(* ---- split ------------------------------------------------------------------------- *)
Lemma range_lookahead r rest : op_stops rest ->
  exists x, run num_or_range true (print_range r ++ rest) = Some x.
Proof.
  intros Hst. destruct r as [i | [a|] b inc]; cbn [print_range print_optz].
  - cbv [num_or_range r_split_content]. rewrite run_alt.
    rewrite (run_number_print true i rest (op_stops_no_digit rest Hst)). eexists; reflexivity.
  - cbv [num_or_range r_split_content]. rewrite run_alt. rewrite <- app_assoc.
    rewrite (run_number_print true a); [eexists; reflexivity|]. destruct inc; reflexivity.
  - cbn [app]. destruct inc; cbn [dots app]; apply num_or_range_dots.
Qed.

Lemma run_rule_normal_atomic (id : rule) (body : peg rule) inp :
  run (PRule id Normal body) true inp =
    match run body true inp with Some (t, k, r) => Some (t, [], r) | None => None end.
Proof. reflexivity. Qed.
Lemma run_not (a : peg rule) at_ inp :
  run (PNot a) at_ inp = match run a true inp with Some _ => None | None => Some ([], [], inp) end.
Proof. reflexivity. Qed.

Lemma split_stop_colon r rest : op_stops rest -> run split_alt true (58 :: print_range r ++ rest) = None.
Proof.
  intros Hst. destruct (range_lookahead r rest Hst) as (x & Hx). cbv [num_or_range r_split_content] in Hx.
  unfold split_alt. rewrite run_alt.
  assert (H1: run r_split_escaped_char true (58 :: print_range r ++ rest) = None) by reflexivity. rewrite H1.
  unfold r_split_content. rewrite run_rule_normal_atomic, run_seq, run_not, run_seq.
  change (58 :: print_range r ++ rest) with ([58] ++ print_range r ++ rest).
  rewrite run_str, seq_res_some, Hx. destruct x as [[? ?] ?]. reflexivity.
Qed.

Lemma run_split_arg_gen s r rest : op_stops rest ->
  run r_split_arg false (esc s ++ 58 :: print_range r ++ rest)
  = Some (esc s, [Node (Some R_split_arg) (esc s) []], 58 :: print_range r ++ rest).
Proof.
  intros Hst. unfold r_split_arg. rewrite run_rule_atomic. cbn [run]. fold split_alt.
  rewrite star_split_esc; [reflexivity | lia | apply split_stop_colon; exact Hst].
Qed.

Definition split_kids (s : str) (kr : ptree) : list ptree := [Node (Some R_split_arg) (esc s) []; kr].

Lemma run_split_top s r rest : op_stops rest ->
  exists kr, run r_split false (kw_split ++ 58 :: esc s ++ 58 :: print_range r ++ rest)
             = Some (kw_split ++ 58 :: esc s ++ 58 :: print_range r,
                     [Node (Some R_split) (kw_split ++ 58 :: esc s ++ 58 :: print_range r) (split_kids s kr)], rest)
             /\ parse_range_spec kr = conv_range r.
Proof.
  intros Hst. destruct (range_spec_reads r rest Hst) as (kr & Hrun & Hconv).
  exists kr. split; [|exact Hconv].
  unfold r_split. rewrite run_rule_normal, run_seq. unfold kw_split. rewrite run_str, seq_res_some, run_seq.
  change (58 :: esc s ++ 58 :: print_range r ++ rest) with ([58] ++ esc s ++ 58 :: print_range r ++ rest).
  rewrite run_str, seq_res_some, run_seq, (run_split_arg_gen s r rest Hst), seq_res_some, run_seq.
  change (58 :: print_range r ++ rest) with ([58] ++ print_range r ++ rest).
  rewrite run_str, seq_res_some, run_opt, Hrun.
  cbn [app]. rewrite <- ?app_assoc. reflexivity.
Qed.

Lemma run_split_map s r rest : op_stops rest ->
  exists kr, run r_map_split false (kw_split ++ 58 :: esc s ++ 58 :: print_range r ++ rest)
             = Some (kw_split ++ 58 :: esc s ++ 58 :: print_range r,
                     [Node (Some R_map_split) (kw_split ++ 58 :: esc s ++ 58 :: print_range r) (split_kids s kr)], rest)
             /\ parse_range_spec kr = conv_range r.
Proof.
  intros Hst. destruct (range_spec_reads r rest Hst) as (kr & Hrun & Hconv).
  exists kr. split; [|exact Hconv].
  unfold r_map_split. rewrite run_rule_normal, run_seq. unfold kw_split. rewrite run_str, seq_res_some, run_seq.
  change (58 :: esc s ++ 58 :: print_range r ++ rest) with ([58] ++ esc s ++ 58 :: print_range r ++ rest).
  rewrite run_str, seq_res_some, run_seq, (run_split_arg_gen s r rest Hst), seq_res_some, run_opt, run_seq.
  change (58 :: print_range r ++ rest) with ([58] ++ print_range r ++ rest).
  rewrite run_str, seq_res_some, Hrun.
  cbn [app]. rewrite <- ?app_assoc. reflexivity.
Qed.

(* ---- trim -------------------------------------------------------------------------- *)
Lemma esc_tdir d : esc (print_tdir d) = print_tdir d.
Proof. destruct d; reflexivity. Qed.
Lemma run_direction_t d rest :
  run r_direction false (print_tdir d ++ rest) = Some (print_tdir d, [Node (Some R_direction) (print_tdir d) []], rest).
Proof. destruct d; reflexivity. Qed.
Lemma run_direction_p d rest :
  run r_direction false (print_pdir d ++ rest) = Some (print_pdir d, [Node (Some R_direction) (print_pdir d) []], rest).
Proof. destruct d; reflexivity. Qed.

Lemma run_trim_dir d rest : op_stops rest ->
  run r_trim false (kw_trim ++ 58 :: print_tdir d ++ rest)
  = Some (kw_trim ++ 58 :: print_tdir d,
          [Node (Some R_trim) (kw_trim ++ 58 :: print_tdir d) [Node (Some R_simple_arg) (print_tdir d) []]], rest).
Proof.
  intros Hst. destruct (op_stops_not_colon rest Hst) as (c & t & Erest & Hc).
  unfold r_trim. rewrite run_rule_normal, run_seq. unfold kw_trim. rewrite run_str, seq_res_some, run_seq, run_opt, run_seq.
  change (58 :: print_tdir d ++ rest) with ([58] ++ print_tdir d ++ rest).
  rewrite run_str, seq_res_some. rewrite <- (esc_tdir d) at 1.
  destruct (simple_arg_reads_escaped (print_tdir d) rest (op_stops_stops rest Hst)) as [-> _].
  rewrite (esc_tdir d), seq_res_some, run_opt, run_seq, (str_fail_eq _ 58 _ rest c t Erest Hc), seq_res_none.
  cbn [app]. rewrite ?app_nil_r. reflexivity.
Qed.

Lemma run_trim_chars s d rest : op_stops rest ->
  run r_trim false (kw_trim ++ 58 :: esc s ++ 58 :: print_tdir d ++ rest)
  = Some (kw_trim ++ 58 :: esc s ++ 58 :: print_tdir d,
          [Node (Some R_trim) (kw_trim ++ 58 :: esc s ++ 58 :: print_tdir d)
             [Node (Some R_simple_arg) (esc s) []; Node (Some R_direction) (print_tdir d) []]], rest).
Proof.
  intros Hst.
  unfold r_trim. rewrite run_rule_normal, run_seq. unfold kw_trim. rewrite run_str, seq_res_some, run_seq, run_opt, run_seq.
  change (58 :: esc s ++ 58 :: print_tdir d ++ rest) with ([58] ++ esc s ++ 58 :: print_tdir d ++ rest).
  rewrite run_str, seq_res_some.
  destruct (simple_arg_reads_escaped s (58 :: print_tdir d ++ rest) (stops_colon _)) as [-> _].
  rewrite seq_res_some, run_opt, run_seq.
  change (58 :: print_tdir d ++ rest) with ([58] ++ print_tdir d ++ rest).
  rewrite run_str, seq_res_some, run_direction_t.
  cbn [app]. rewrite <- ?app_assoc. reflexivity.
Qed.

(* ---- sort (both rule families share the body) ------------------------------------------ *)
Definition sort_body : peg rule := PSeq (PStr [115; 111; 114; 116]) (POpt (PSeq (PStr [58]) r_sort_direction)).
Lemma run_sort_asc (id : rule) rest : op_stops rest ->
  run (PRule id Normal sort_body) false (kw_sort ++ rest) = Some (kw_sort, [Node (Some id) kw_sort []], rest).
Proof.
  intros Hst. destruct (op_stops_not_colon rest Hst) as (c & t & Erest & Hc).
  unfold sort_body. rewrite run_rule_normal, run_seq. unfold kw_sort. rewrite run_str, seq_res_some, run_opt, run_seq.
  rewrite (str_fail_eq _ 58 _ rest c t Erest Hc), seq_res_none. reflexivity.
Qed.
Lemma run_sort_desc (id : rule) rest :
  run (PRule id Normal sort_body) false (kw_sort ++ 58 :: s_desc ++ rest)
  = Some (kw_sort ++ 58 :: s_desc, [Node (Some id) (kw_sort ++ 58 :: s_desc) [Node (Some R_sort_direction) s_desc []]], rest).
Proof. reflexivity. Qed.

(* ---- pad ----------------------------------------------------------------------------------- *)
Lemma print_Z_of_N w : print_Z (Z.of_N w) = print_N w.
Proof. unfold print_Z. destruct (Z.ltb_spec (Z.of_N w) 0); [lia|]. rewrite N2Z.id. reflexivity. Qed.

Lemma run_pad_gen w c d rest :
  run r_pad false (kw_pad ++ 58 :: print_N w ++ 58 :: esc [c] ++ 58 :: print_pdir d ++ rest)
  = Some (kw_pad ++ 58 :: print_N w ++ 58 :: esc [c] ++ 58 :: print_pdir d,
          [Node (Some R_pad) (kw_pad ++ 58 :: print_N w ++ 58 :: esc [c] ++ 58 :: print_pdir d)
             [Node (Some R_number) (print_N w) []; Node (Some R_pad_char) (esc [c]) []; Node (Some R_direction) (print_pdir d) []]], rest).
Proof.
  unfold r_pad. rewrite run_rule_normal, run_seq. unfold kw_pad. rewrite run_str, seq_res_some, run_seq.
  change (58 :: print_N w ++ 58 :: esc [c] ++ 58 :: print_pdir d ++ rest) with ([58] ++ print_N w ++ 58 :: esc [c] ++ 58 :: print_pdir d ++ rest).
  rewrite run_str, seq_res_some, run_seq. rewrite <- (print_Z_of_N w).
  rewrite (run_number_print false (Z.of_N w)) by reflexivity. rewrite seq_res_some, run_seq, run_opt, run_seq.
  change (58 :: esc [c] ++ 58 :: print_pdir d ++ rest) with ([58] ++ esc [c] ++ 58 :: print_pdir d ++ rest).
  rewrite run_str, seq_res_some, (run_pad_char c _ (stops_colon _)), seq_res_some, run_opt, run_seq.
  change (58 :: print_pdir d ++ rest) with ([58] ++ print_pdir d ++ rest).
  rewrite run_str, seq_res_some, run_direction_p.
  cbn [app tok]. rewrite <- ?app_assoc. reflexivity.
Qed.

(* ---- dispatch: rule operation ---------------------------------------------------------- *)
Ltac norm_input :=
  cbn [print_simple];
  unfold kw_split, kw_join, kw_upper, kw_lower, kw_trim, kw_substring, kw_append, kw_prepend, kw_surround,
         kw_strip_ansi, kw_slice, kw_map, kw_sort, kw_reverse, kw_unique, kw_pad;
  repeat (rewrite <- app_assoc || rewrite <- app_comm_cons); cbn [app].

(* use an instance  H : run r false i = Some ...  on the convertible occurrence in the goal *)
Ltac use_run H :=
  match type of H with
  | ?L = _ =>
      match goal with
      | |- context [run ?r false ?i] => change (run r false i) with L
      end
  end; rewrite H.

Ltac enter_top := unfold r_operation; rewrite run_rule_normal; cbn [run]; norm_input; kill_alts.
Ltac enter_map := unfold r_map_inner_operation; rewrite run_rule_normal; cbn [run]; norm_input; kill_alts.

(* the operations the canonical printer writes, whatever their numbers *)
Definition shape_ok (o : op) : bool :=
  match o with Replace _ _ _ | Filter _ | FilterNot _ | RegexExtract _ _ | Map _ => false | _ => true end.
(* what the converter answers: the operation, or a parse error when a number is out of range *)
Definition conv_simple (o : op) : outcome op := if simple_ok o then Ok o else Err.

Theorem operation_reads_shape o rest : shape_ok o = true -> op_stops rest ->
  exists k, run r_operation false (print_simple o ++ rest)
            = Some (print_simple o, [Node (Some R_operation) (print_simple o) [k]], rest)
            /\ parse_operation k = conv_simple o.
Proof.
  intros Hok Hst. pose proof (op_stops_stops rest Hst) as Hss.
  destruct o as [sep r|sep|? ? ?| | |chars d|r|s|s|s| |?|?|r|?|d| | |w c d|? ?]; try discriminate Hok; unfold conv_simple; cbn [simple_ok].
  - destruct (run_split_top sep r rest Hst) as (kr & H & Hc). eexists; split; [enter_top; use_run H; reflexivity|].
    unfold parse_operation; cbn [t_rule]. unfold parse_split_like, split_kids. cbn [t_kids unwrap_first bind t_text nth_error].
    rewrite process_arg_esc, Hc. unfold conv_range. destruct (range_ok r); reflexivity.
  - pose proof (run_kw_simple R_join kw_join sep rest Hss) as H. eexists; split; [enter_top; use_run H; reflexivity|].
    unfold parse_operation; cbn [t_rule]. unfold extract_single_arg. cbn [t_kids unwrap_first bind t_text omap]. rewrite process_arg_esc. reflexivity.
  - pose proof (run_kw_atomic R_upper kw_upper rest) as H. eexists; split; [enter_top; use_run H; reflexivity | reflexivity].
  - pose proof (run_kw_atomic R_lower kw_lower rest) as H. eexists; split; [enter_top; use_run H; reflexivity | reflexivity].
  - destruct chars as [|c0 cs].
    + pose proof (run_trim_dir d rest Hst) as H. eexists; split; [enter_top; use_run H; reflexivity|]. destruct d; reflexivity.
    + pose proof (run_trim_chars (c0 :: cs) d rest Hst) as H. eexists; split; [enter_top; use_run H; reflexivity|].
      unfold parse_operation; cbn [t_rule]. unfold parse_trim_chars, parse_trim_direction. cbn [t_kids t_text]. rewrite process_arg_esc. destruct d; reflexivity.
  - destruct (run_kw_range R_substring kw_substring r rest Hst) as (kr & H & Hc). eexists; split; [enter_top; use_run H; reflexivity|].
    unfold parse_operation; cbn [t_rule]. unfold extract_range_arg. cbn [t_kids unwrap_first bind]. rewrite Hc. unfold conv_range. destruct (range_ok r); reflexivity.
  - pose proof (run_kw_simple R_append kw_append s rest Hss) as H. eexists; split; [enter_top; use_run H; reflexivity|].
    unfold parse_operation; cbn [t_rule]. unfold extract_single_arg. cbn [t_kids unwrap_first bind t_text omap]. rewrite process_arg_esc. reflexivity.
  - pose proof (run_kw_simple R_prepend kw_prepend s rest Hss) as H. eexists; split; [enter_top; use_run H; reflexivity|].
    unfold parse_operation; cbn [t_rule]. unfold extract_single_arg. cbn [t_kids unwrap_first bind t_text omap]. rewrite process_arg_esc. reflexivity.
  - pose proof (run_kw_simple R_surround kw_surround s rest Hss) as H. eexists; split; [enter_top; use_run H; reflexivity|].
    unfold parse_operation; cbn [t_rule]. unfold extract_single_arg. cbn [t_kids unwrap_first bind t_text omap]. rewrite process_arg_esc. reflexivity.
  - pose proof (run_kw_atomic R_strip_ansi kw_strip_ansi rest) as H. eexists; split; [enter_top; use_run H; reflexivity | reflexivity].
  - destruct (run_kw_range R_slice kw_slice r rest Hst) as (kr & H & Hc). eexists; split; [enter_top; use_run H; reflexivity|].
    unfold parse_operation; cbn [t_rule]. unfold extract_range_arg. cbn [t_kids unwrap_first bind]. rewrite Hc. unfold conv_range. destruct (range_ok r); reflexivity.
  - destruct d.
    + pose proof (run_sort_asc R_sort rest Hst) as H. eexists; split; [enter_top; use_run H; reflexivity | reflexivity].
    + pose proof (run_sort_desc R_sort rest) as H. eexists; split; [enter_top; use_run H; reflexivity | reflexivity].
  - pose proof (run_kw_atomic R_reverse kw_reverse rest) as H. eexists; split; [enter_top; use_run H; reflexivity | reflexivity].
  - pose proof (run_kw_atomic R_unique kw_unique rest) as H. eexists; split; [enter_top; use_run H; reflexivity | reflexivity].
  - pose proof (run_pad_gen w c d rest) as H. eexists; split; [enter_top; use_run H; reflexivity|].
    unfold parse_operation; cbn [t_rule]. unfold parse_pad_operation. cbn [t_kids unwrap_first bind t_text nth_error].
    rewrite (parse_usize_print_gen w). destruct (N.leb w usize_max); [|reflexivity]. rewrite process_arg_esc. destruct d; reflexivity.
Qed.

Theorem inner_reads_shape o rest : shape_ok o = true -> op_stops rest ->
  exists k, run r_map_inner_operation false (print_simple o ++ rest)
            = Some (print_simple o, [Node (Some R_map_inner_operation) (print_simple o) [k]], rest)
            /\ parse_map_inner_operation k = conv_simple o.
Proof.
  intros Hok Hst. pose proof (op_stops_stops rest Hst) as Hss.
  destruct o as [sep r|sep|? ? ?| | |chars d|r|s|s|s| |?|?|r|?|d| | |w c d|? ?]; try discriminate Hok; unfold conv_simple; cbn [simple_ok].
  - destruct (run_split_map sep r rest Hst) as (kr & H & Hc). eexists; split; [enter_map; use_run H; reflexivity|].
    unfold parse_map_inner_operation; cbn [t_rule]. unfold parse_split_like, split_kids. cbn [t_kids unwrap_first bind t_text nth_error].
    rewrite process_arg_esc, Hc. unfold conv_range. destruct (range_ok r); reflexivity.
  - pose proof (run_kw_simple R_map_join kw_join sep rest Hss) as H. eexists; split; [enter_map; use_run H; reflexivity|].
    unfold parse_map_inner_operation; cbn [t_rule]. unfold extract_single_arg. cbn [t_kids unwrap_first bind t_text omap]. rewrite process_arg_esc. reflexivity.
  - pose proof (run_kw_atomic R_upper kw_upper rest) as H. eexists; split; [enter_map; use_run H; reflexivity | reflexivity].
  - pose proof (run_kw_atomic R_lower kw_lower rest) as H. eexists; split; [enter_map; use_run H; reflexivity | reflexivity].
  - destruct chars as [|c0 cs].
    + pose proof (run_trim_dir d rest Hst) as H. eexists; split; [enter_map; use_run H; reflexivity|]. destruct d; reflexivity.
    + pose proof (run_trim_chars (c0 :: cs) d rest Hst) as H. eexists; split; [enter_map; use_run H; reflexivity|].
      unfold parse_map_inner_operation; cbn [t_rule]. unfold parse_trim_chars, parse_trim_direction. cbn [t_kids t_text]. rewrite process_arg_esc. destruct d; reflexivity.
  - destruct (run_kw_range R_substring kw_substring r rest Hst) as (kr & H & Hc). eexists; split; [enter_map; use_run H; reflexivity|].
    unfold parse_map_inner_operation; cbn [t_rule]. unfold extract_range_arg. cbn [t_kids unwrap_first bind]. rewrite Hc. unfold conv_range. destruct (range_ok r); reflexivity.
  - pose proof (run_kw_simple R_append kw_append s rest Hss) as H. eexists; split; [enter_map; use_run H; reflexivity|].
    unfold parse_map_inner_operation; cbn [t_rule]. unfold extract_single_arg. cbn [t_kids unwrap_first bind t_text omap]. rewrite process_arg_esc. reflexivity.
  - pose proof (run_kw_simple R_prepend kw_prepend s rest Hss) as H. eexists; split; [enter_map; use_run H; reflexivity|].
    unfold parse_map_inner_operation; cbn [t_rule]. unfold extract_single_arg. cbn [t_kids unwrap_first bind t_text omap]. rewrite process_arg_esc. reflexivity.
  - pose proof (run_kw_simple R_surround kw_surround s rest Hss) as H. eexists; split; [enter_map; use_run H; reflexivity|].
    unfold parse_map_inner_operation; cbn [t_rule]. unfold extract_single_arg. cbn [t_kids unwrap_first bind t_text omap]. rewrite process_arg_esc. reflexivity.
  - pose proof (run_kw_atomic R_strip_ansi kw_strip_ansi rest) as H. eexists; split; [enter_map; use_run H; reflexivity | reflexivity].
  - destruct (run_kw_range R_map_slice kw_slice r rest Hst) as (kr & H & Hc). eexists; split; [enter_map; use_run H; reflexivity|].
    unfold parse_map_inner_operation; cbn [t_rule]. unfold extract_range_arg. cbn [t_kids unwrap_first bind]. rewrite Hc. unfold conv_range. destruct (range_ok r); reflexivity.
  - destruct d.
    + pose proof (run_sort_asc R_map_sort rest Hst) as H. eexists; split; [enter_map; use_run H; reflexivity | reflexivity].
    + pose proof (run_sort_desc R_map_sort rest) as H. eexists; split; [enter_map; use_run H; reflexivity | reflexivity].
  - pose proof (run_kw_atomic R_reverse kw_reverse rest) as H. eexists; split; [enter_map; use_run H; reflexivity | reflexivity].
  - pose proof (run_kw_atomic R_map_unique kw_unique rest) as H. eexists; split; [enter_map; use_run H; reflexivity | reflexivity].
  - pose proof (run_pad_gen w c d rest) as H. eexists; split; [enter_map; use_run H; reflexivity|].
    unfold parse_map_inner_operation; cbn [t_rule]. unfold parse_pad_operation. cbn [t_kids unwrap_first bind t_text nth_error].
    rewrite (parse_usize_print_gen w). destruct (N.leb w usize_max); [|reflexivity]. rewrite process_arg_esc. destruct d; reflexivity.
Qed.

Lemma simple_ok_shape o : simple_ok o = true -> shape_ok o = true.
Proof. destruct o; intros H; try discriminate H; reflexivity. Qed.

Theorem operation_reads_simple o rest : simple_ok o = true -> op_stops rest ->
  exists k, run r_operation false (print_simple o ++ rest)
            = Some (print_simple o, [Node (Some R_operation) (print_simple o) [k]], rest)
            /\ parse_operation k = Ok o.
Proof.
  intros Hok Hst. destruct (operation_reads_shape o rest (simple_ok_shape o Hok) Hst) as (k & H & Hc).
  exists k. split; [exact H|]. rewrite Hc. unfold conv_simple. rewrite Hok. reflexivity.
Qed.

Theorem inner_reads_simple o rest : simple_ok o = true -> op_stops rest ->
  exists k, run r_map_inner_operation false (print_simple o ++ rest)
            = Some (print_simple o, [Node (Some R_map_inner_operation) (print_simple o) [k]], rest)
            /\ parse_map_inner_operation k = Ok o.
Proof.
  intros Hok Hst. destruct (inner_reads_shape o rest (simple_ok_shape o Hok) Hst) as (k & H & Hc).
  exists k. split; [exact H|]. rewrite Hc. unfold conv_simple. rewrite Hok. reflexivity.
Qed.

(* ---- the other documented spellings ------------------------------------------------------ *)
Lemma run_trim_bare rest : op_stops rest ->
  run r_trim false (kw_trim ++ rest) = Some (kw_trim, [Node (Some R_trim) kw_trim []], rest).
Proof.
  intros Hst. destruct (op_stops_not_colon rest Hst) as (c & t & Erest & Hc).
  unfold r_trim. rewrite run_rule_normal, run_seq. unfold kw_trim. rewrite run_str, seq_res_some, run_seq, run_opt, run_seq.
  rewrite (str_fail_eq _ 58 _ rest c t Erest Hc), seq_res_none, seq_res_some, run_opt, run_seq.
  rewrite (str_fail_eq _ 58 _ rest c t Erest Hc), seq_res_none. reflexivity.
Qed.

Lemma run_trim_chars_only s rest : op_stops rest ->
  run r_trim false (kw_trim ++ 58 :: esc s ++ rest)
  = Some (kw_trim ++ 58 :: esc s, [Node (Some R_trim) (kw_trim ++ 58 :: esc s) [Node (Some R_simple_arg) (esc s) []]], rest).
Proof.
  intros Hst. destruct (op_stops_not_colon rest Hst) as (c & t & Erest & Hc).
  unfold r_trim. rewrite run_rule_normal, run_seq. unfold kw_trim. rewrite run_str, seq_res_some, run_seq, run_opt, run_seq.
  change (58 :: esc s ++ rest) with ([58] ++ esc s ++ rest).
  rewrite run_str, seq_res_some.
  destruct (simple_arg_reads_escaped s rest (op_stops_stops rest Hst)) as [-> _].
  rewrite seq_res_some, run_opt, run_seq, (str_fail_eq _ 58 _ rest c t Erest Hc), seq_res_none.
  cbn [app]. rewrite ?app_nil_r. reflexivity.
Qed.

Lemma run_sort_asc_written (id : rule) rest :
  run (PRule id Normal sort_body) false (kw_sort ++ 58 :: s_asc ++ rest)
  = Some (kw_sort ++ 58 :: s_asc, [Node (Some id) (kw_sort ++ 58 :: s_asc) [Node (Some R_sort_direction) s_asc []]], rest).
Proof. reflexivity. Qed.

Lemma run_pad_width w rest : op_stops rest ->
  run r_pad false (kw_pad ++ 58 :: print_N w ++ rest)
  = Some (kw_pad ++ 58 :: print_N w, [Node (Some R_pad) (kw_pad ++ 58 :: print_N w) [Node (Some R_number) (print_N w) []]], rest).
Proof.
  intros Hst. destruct (op_stops_not_colon rest Hst) as (c & t & Erest & Hc).
  unfold r_pad. rewrite run_rule_normal, run_seq. unfold kw_pad. rewrite run_str, seq_res_some, run_seq.
  change (58 :: print_N w ++ rest) with ([58] ++ print_N w ++ rest).
  rewrite run_str, seq_res_some, run_seq. rewrite <- (print_Z_of_N w).
  rewrite (run_number_print false (Z.of_N w) rest (op_stops_no_digit rest Hst)). rewrite seq_res_some, run_seq, run_opt, run_seq.
  rewrite (str_fail_eq _ 58 _ rest c t Erest Hc), seq_res_none, seq_res_some, run_opt, run_seq.
  rewrite (str_fail_eq _ 58 _ rest c t Erest Hc), seq_res_none.
  cbn [app tok]. rewrite ?app_nil_r. reflexivity.
Qed.

Lemma run_pad_width_char w c rest : op_stops rest ->
  run r_pad false (kw_pad ++ 58 :: print_N w ++ 58 :: esc [c] ++ rest)
  = Some (kw_pad ++ 58 :: print_N w ++ 58 :: esc [c],
          [Node (Some R_pad) (kw_pad ++ 58 :: print_N w ++ 58 :: esc [c])
             [Node (Some R_number) (print_N w) []; Node (Some R_pad_char) (esc [c]) []]], rest).
Proof.
  intros Hst. destruct (op_stops_not_colon rest Hst) as (c1 & t & Erest & Hc).
  unfold r_pad. rewrite run_rule_normal, run_seq. unfold kw_pad. rewrite run_str, seq_res_some, run_seq.
  change (58 :: print_N w ++ 58 :: esc [c] ++ rest) with ([58] ++ print_N w ++ 58 :: esc [c] ++ rest).
  rewrite run_str, seq_res_some, run_seq. rewrite <- (print_Z_of_N w).
  rewrite (run_number_print false (Z.of_N w)) by reflexivity. rewrite seq_res_some, run_seq, run_opt, run_seq.
  change (58 :: esc [c] ++ rest) with ([58] ++ esc [c] ++ rest).
  rewrite run_str, seq_res_some, (run_pad_char c rest (op_stops_stops rest Hst)), seq_res_some, run_opt, run_seq.
  rewrite (str_fail_eq _ 58 _ rest c1 t Erest Hc), seq_res_none.
  cbn [app tok]. rewrite <- ?app_assoc, ?app_nil_r. reflexivity.
Qed.

Ltac norm_spelled :=
  unfold kw_quote, kw_trim, kw_sort, kw_pad, s_asc;
  repeat (rewrite <- app_assoc || rewrite <- app_comm_cons); cbn [app].
Ltac enter_top' := unfold r_operation; rewrite run_rule_normal; cbn [run]; norm_spelled; kill_alts.
Ltac enter_map' := unfold r_map_inner_operation; rewrite run_rule_normal; cbn [run]; norm_spelled; kill_alts.

Lemma tdir_of_not_word t : is_direction_word t = false -> tdir_of t = TBoth.
Proof.
  unfold is_direction_word, tdir_of. intros H. repeat rewrite orb_false_iff in H. destruct H as [[H1 H2] _].
  rewrite H1, H2. reflexivity.
Qed.

Theorem operation_reads_spelled o txt rest : spells_simple o txt -> op_stops rest ->
  exists k, run r_operation false (txt ++ rest) = Some (txt, [Node (Some R_operation) txt [k]], rest)
            /\ parse_operation k = Ok o.
Proof.
  intros Hsp Hst. pose proof (op_stops_stops rest Hst) as Hss.
  destruct Hsp as [o Hok | s | | s Hnd | | w Hw | w c Hw].
  - exact (operation_reads_simple o rest Hok Hst).
  - pose proof (run_kw_simple R_quote kw_quote s rest Hss) as H. eexists; split; [enter_top'; use_run H; reflexivity|].
    unfold parse_operation; cbn [t_rule]. unfold extract_single_arg. cbn [t_kids unwrap_first bind t_text omap]. rewrite process_arg_esc. reflexivity.
  - pose proof (run_trim_bare rest Hst) as H. eexists; split; [enter_top'; use_run H; reflexivity | reflexivity].
  - pose proof (run_trim_chars_only s rest Hst) as H. eexists; split; [enter_top'; use_run H; reflexivity|].
    unfold parse_operation; cbn [t_rule]. unfold parse_trim_chars, parse_trim_direction. cbn [t_kids t_text].
    rewrite Hnd, (tdir_of_not_word _ Hnd), process_arg_esc. reflexivity.
  - pose proof (run_sort_asc_written R_sort rest) as H. eexists; split; [enter_top'; use_run H; reflexivity | reflexivity].
  - pose proof (run_pad_width w rest Hst) as H. eexists; split; [enter_top'; use_run H; reflexivity|].
    unfold parse_operation; cbn [t_rule]. unfold parse_pad_operation. cbn [t_kids unwrap_first bind t_text nth_error].
    rewrite (parse_usize_print w) by (apply N.leb_le; exact Hw). reflexivity.
  - pose proof (run_pad_width_char w c rest Hst) as H. eexists; split; [enter_top'; use_run H; reflexivity|].
    unfold parse_operation; cbn [t_rule]. unfold parse_pad_operation. cbn [t_kids unwrap_first bind t_text nth_error].
    rewrite (parse_usize_print w) by (apply N.leb_le; exact Hw). rewrite process_arg_esc. reflexivity.
Qed.

Theorem inner_reads_spelled o txt rest : spells_simple o txt -> op_stops rest ->
  exists k, run r_map_inner_operation false (txt ++ rest) = Some (txt, [Node (Some R_map_inner_operation) txt [k]], rest)
            /\ parse_map_inner_operation k = Ok o.
Proof.
  intros Hsp Hst. pose proof (op_stops_stops rest Hst) as Hss.
  destruct Hsp as [o Hok | s | | s Hnd | | w Hw | w c Hw].
  - exact (inner_reads_simple o rest Hok Hst).
  - pose proof (run_kw_simple R_quote kw_quote s rest Hss) as H. eexists; split; [enter_map'; use_run H; reflexivity|].
    unfold parse_map_inner_operation; cbn [t_rule]. unfold extract_single_arg. cbn [t_kids unwrap_first bind t_text omap]. rewrite process_arg_esc. reflexivity.
  - pose proof (run_trim_bare rest Hst) as H. eexists; split; [enter_map'; use_run H; reflexivity | reflexivity].
  - pose proof (run_trim_chars_only s rest Hst) as H. eexists; split; [enter_map'; use_run H; reflexivity|].
    unfold parse_map_inner_operation; cbn [t_rule]. unfold parse_trim_chars, parse_trim_direction. cbn [t_kids t_text].
    rewrite Hnd, (tdir_of_not_word _ Hnd), process_arg_esc. reflexivity.
  - pose proof (run_sort_asc_written R_map_sort rest) as H. eexists; split; [enter_map'; use_run H; reflexivity | reflexivity].
  - pose proof (run_pad_width w rest Hst) as H. eexists; split; [enter_map'; use_run H; reflexivity|].
    unfold parse_map_inner_operation; cbn [t_rule]. unfold parse_pad_operation. cbn [t_kids unwrap_first bind t_text nth_error].
    rewrite (parse_usize_print w) by (apply N.leb_le; exact Hw). reflexivity.
  - pose proof (run_pad_width_char w c rest Hst) as H. eexists; split; [enter_map'; use_run H; reflexivity|].
    unfold parse_map_inner_operation; cbn [t_rule]. unfold parse_pad_operation. cbn [t_kids unwrap_first bind t_text nth_error].
    rewrite (parse_usize_print w) by (apply N.leb_le; exact Hw). rewrite process_arg_esc. reflexivity.
Qed.
