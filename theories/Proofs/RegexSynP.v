(* The operations that take a regular expression: replace, filter, filter_not, regex_extract.
   Their arguments are raw text; the rules that read them are stars over "escaped pair or
   allowed character" with look-aheads that decide where the argument ends. *)
From SP Require Import Model.Syntax Model.Scanner Proofs.PegP Proofs.SyntaxP Proofs.ArgP Proofs.NumP Proofs.RangeSynP Proofs.OpSynP.
Local Open Scope N_scope.

(* ---- a star over units ------------------------------------------------------------------ *)
Section Units.
  Variable alt : peg rule.
  Variable okc : N -> bool.
  Hypothesis Hesc : forall d r, run alt true (92 :: d :: r) = Some ([92; d], [], r).
  Hypothesis Hplain : forall c r, N.eqb c 92 = false -> okc c = true -> run alt true (c :: r) = Some ([c], [], r).

  Lemma star_units : forall n s, (length s <= n)%nat -> units okc s = true ->
    forall fuel rest, Nat.lt (length (s ++ rest)) fuel -> run alt true rest = None ->
    star_loop (run alt true) fuel (s ++ rest) = Some (s, [], rest).
  Proof.
    induction n as [|n IH]; intros s Hn Hu fuel rest Hlen Hstop.
    - destruct s; [|cbn in Hn; lia]. destruct fuel; [cbn in Hlen; lia|]. rewrite star_loop_S. cbn [app]. rewrite Hstop. reflexivity.
    - destruct s as [|c s].
      + destruct fuel; [cbn in Hlen; lia|]. rewrite star_loop_S. cbn [app]. rewrite Hstop. reflexivity.
      + destruct fuel as [|fuel]; [cbn in Hlen; lia|]. rewrite star_loop_S. cbn [units] in Hu.
        destruct (N.eqb c 92) eqn:Ec.
        * apply N.eqb_eq in Ec. subst c. destruct s as [|d s]; [discriminate|].
          cbn [app]. rewrite Hesc.
          assert (Hlt : Nat.ltb (length (s ++ rest)) (length (92 :: d :: s ++ rest)) = true) by (apply Nat.ltb_lt; cbn [length]; lia).
          rewrite Hlt. rewrite (IH s) ; [reflexivity | cbn [length] in Hn; lia | exact Hu | cbn [app length] in Hlen; lia | exact Hstop].
        * apply andb_true_iff in Hu as [Hc Hs]. cbn [app]. rewrite (Hplain c _ Ec Hc).
          assert (Hlt : Nat.ltb (length (s ++ rest)) (length (c :: s ++ rest)) = true) by (apply Nat.ltb_lt; cbn [length]; lia).
          rewrite Hlt. rewrite (IH s); [reflexivity | cbn [length] in Hn; lia | exact Hs | cbn [app length] in Hlen; lia | exact Hstop].
  Qed.

  Lemma run_star_units s rest : units okc s = true -> run alt true rest = None ->
    run (PStar alt) true (s ++ rest) = Some (s, [], rest).
  Proof. intros Hu Hstop. change (run (PStar alt) true (s ++ rest)) with (star_loop (run alt true) (S (length (s ++ rest))) (s ++ rest)). apply (star_units (length s) s (le_n _) Hu); [apply Nat.lt_succ_diag_r | exact Hstop]. Qed.
End Units.

(* ---- s/pattern/replacement/flags ------------------------------------------------------------ *)
Definition sed_alt : peg rule := PAlt r_sed_escaped_char r_sed_normal_char.
Lemma sed_esc d r : run sed_alt true (92 :: d :: r) = Some ([92; d], [], r).
Proof. reflexivity. Qed.
Lemma sed_plain c r : N.eqb c 92 = false -> negb (N.eqb c 47) = true -> run sed_alt true (c :: r) = Some ([c], [], r).
Proof.
  intros H92 H47. apply negb_true_iff in H47.
  unfold sed_alt, r_sed_escaped_char, r_sed_normal_char.
  do 5 (cbn [run seq_res strip_prefix]; rewrite ?(N.eqb_sym 92 c), ?(N.eqb_sym 47 c), ?H92, ?H47).
  reflexivity.
Qed.
Lemma sed_stop t : run sed_alt true (47 :: t) = None.
Proof. reflexivity. Qed.

Lemma run_sed_part (id : rule) s t : sed_units s = true ->
  run (PRule id Atomic r_sed_content) false (s ++ 47 :: t) = Some (s, [Node (Some id) s []], 47 :: t).
Proof.
  intros Hu. rewrite run_rule_atomic. unfold r_sed_content. rewrite run_rule_normal_atomic. fold sed_alt.
  rewrite (run_star_units sed_alt _ sed_esc sed_plain s (47 :: t) Hu (sed_stop t)). reflexivity.
Qed.

Definition flag_alt : peg rule := PAlt (PRange 97 122) (PRange 65 90).
Lemma flag_step c r : is_letter c = true -> run flag_alt true (c :: r) = Some ([c], [], r).
Proof.
  unfold is_letter, flag_alt. intros H. cbn [run]. apply orb_true_iff in H as [H|H]; rewrite H; [reflexivity|].
  destruct (N.leb 97 c && N.leb c 122)%bool; reflexivity.
Qed.
Lemma flag_stop c r : is_letter c = false -> run flag_alt true (c :: r) = None.
Proof. unfold is_letter, flag_alt. intros H. cbn [run]. apply orb_false_iff in H as [H1 H2]. rewrite H1, H2. reflexivity. Qed.

Lemma star_flags f : forallb is_letter f = true -> forall fuel c t,
  Nat.lt (length (f ++ c :: t)) fuel -> is_letter c = false ->
  star_loop (run flag_alt true) fuel (f ++ c :: t) = Some (f, [], c :: t).
Proof.
  induction f as [|d f IH]; intros Hall fuel c t Hlen Hc.
  - destruct fuel; [cbn in Hlen; lia|]. rewrite star_loop_S. cbn [app]. rewrite (flag_stop c t Hc). reflexivity.
  - cbn [forallb] in Hall. apply andb_true_iff in Hall as [Hd Hf].
    destruct fuel as [|fuel]; [cbn in Hlen; lia|]. rewrite star_loop_S. rewrite <- app_comm_cons. rewrite (flag_step d _ Hd).
    assert (Hlt: Nat.ltb (length (f ++ c :: t)) (length (d :: f ++ c :: t)) = true) by (apply Nat.ltb_lt; cbn [length]; lia).
    rewrite Hlt, IH by (try assumption; rewrite <- app_comm_cons in Hlen; cbn [length] in Hlen; lia). reflexivity.
Qed.

Lemma op_stops_not_letter rest : op_stops rest -> exists c t, rest = c :: t /\ is_letter c = false.
Proof. intros (c & t & -> & [-> | ->]); eexists; eexists; split; reflexivity. Qed.

Lemma run_sed_flags f rest : forallb is_letter f = true -> op_stops rest ->
  run r_sed_flags false (f ++ rest) = Some (f, [Node (Some R_sed_flags) f []], rest).
Proof.
  intros Hf Hst. destruct (op_stops_not_letter rest Hst) as (c & t & -> & Hc).
  unfold r_sed_flags. rewrite run_rule_atomic. fold flag_alt.
  change (run (PStar flag_alt) true (f ++ c :: t)) with (star_loop (run flag_alt true) (S (length (f ++ c :: t))) (f ++ c :: t)).
  rewrite (star_flags f Hf _ c t (Nat.lt_succ_diag_r _) Hc). reflexivity.
Qed.

Definition sed_text (p r f : str) : str := 115 :: 47 :: p ++ 47 :: r ++ 47 :: f.

Lemma run_replace p r f rest : sed_units p = true -> sed_units r = true -> forallb is_letter f = true -> op_stops rest ->
  run r_replace false (kw_replace ++ 58 :: 115 :: 47 :: p ++ 47 :: r ++ 47 :: f ++ rest)
  = Some (kw_replace ++ 58 :: sed_text p r f,
          [Node (Some R_replace) (kw_replace ++ 58 :: sed_text p r f)
             [Node (Some R_sed_string) (sed_text p r f)
                [Node (Some R_sed_pattern) p []; Node (Some R_sed_replacement) r []; Node (Some R_sed_flags) f []]]], rest).
Proof.
  intros Hp Hr Hf Hst.
  unfold r_replace. rewrite run_rule_normal, run_seq. unfold kw_replace. rewrite run_str, seq_res_some, run_seq.
  change (58 :: 115 :: 47 :: p ++ 47 :: r ++ 47 :: f ++ rest) with ([58] ++ 115 :: 47 :: p ++ 47 :: r ++ 47 :: f ++ rest).
  rewrite run_str, seq_res_some. unfold r_sed_string. rewrite run_rule_normal, run_seq.
  change (115 :: 47 :: p ++ 47 :: r ++ 47 :: f ++ rest) with ([115; 47] ++ p ++ 47 :: r ++ 47 :: f ++ rest).
  rewrite run_str, seq_res_some, run_seq. unfold r_sed_pattern. rewrite (run_sed_part R_sed_pattern p _ Hp), seq_res_some, run_seq.
  change (47 :: r ++ 47 :: f ++ rest) with ([47] ++ r ++ 47 :: f ++ rest).
  rewrite run_str, seq_res_some, run_seq. unfold r_sed_replacement. rewrite (run_sed_part R_sed_replacement r _ Hr), seq_res_some, run_seq.
  change (47 :: f ++ rest) with ([47] ++ f ++ rest).
  rewrite run_str, seq_res_some, run_opt, (run_sed_flags f rest Hf Hst).
  unfold sed_text. cbn [app]. rewrite <- ?app_assoc, ?app_nil_r. cbn [app]. reflexivity.
Qed.

Lemma conv_replace txt1 txt2 p r f : p <> [] ->
  parse_replace (Node (Some R_replace) txt1
     [Node (Some R_sed_string) txt2 [Node (Some R_sed_pattern) p []; Node (Some R_sed_replacement) r []; Node (Some R_sed_flags) f []]])
  = Ok (Replace p r f).
Proof.
  intros Hne. unfold parse_replace. cbn [t_kids unwrap_first bind]. unfold parse_sed_string. cbn [t_kids nth_error t_text].
  destruct p; [congruence | reflexivity].
Qed.

(* ---- regex arguments at top level ------------------------------------------------------------- *)
Definition starts_kw (t : str) : Prop := exists x, run kw_alt true t = Some x.
(* what must follow a regex argument at top level: the end of the block, or "|" and a keyword *)
Definition ktop_stops (rest : str) : Prop := rest = [125] \/ exists t, rest = 124 :: t /\ starts_kw t.
(* ... and inside map:{...}: the "}" that closes the map body, or "|" and a keyword *)
Definition kmap_stops (rest : str) : Prop :=
  (exists t, rest = 125 :: t /\ (t = [] \/ exists c t', t = c :: t' /\ (c = 124 \/ c = 125)))
  \/ exists t, rest = 124 :: t /\ starts_kw t.

Lemma ktop_op_stops rest : ktop_stops rest -> op_stops rest.
Proof. intros [-> | (t & -> & _)]; eexists; eexists; (split; [reflexivity|]); auto. Qed.
Lemma kmap_op_stops rest : kmap_stops rest -> op_stops rest.
Proof. intros [(t & -> & _) | (t & -> & _)]; eexists; eexists; (split; [reflexivity|]); auto. Qed.

Definition regex_alt : peg rule := PAlt r_regex_escaped_char r_regex_content.
Lemma regex_esc d r : run regex_alt true (92 :: d :: r) = Some ([92; d], [], r).
Proof. reflexivity. Qed.
Lemma regex_plain c r : N.eqb c 92 = false -> negb (arg_special c) = true -> run regex_alt true (c :: r) = Some ([c], [], r).
Proof.
  intros H92 Hs. apply negb_true_iff in Hs. unfold arg_special in Hs. repeat rewrite orb_false_iff in Hs. destruct Hs as [[[[H1 H2] H3] H4] H5].
  unfold regex_alt, r_regex_escaped_char, r_regex_content.
  do 6 (cbn [run seq_res strip_prefix];
        rewrite ?(N.eqb_sym 92 c), ?(N.eqb_sym 58 c), ?(N.eqb_sym 124 c), ?(N.eqb_sym 125 c), ?H92, ?H1, ?H2, ?H4).
  reflexivity.
Qed.
Lemma regex_stop_end : run regex_alt true [125] = None.
Proof. reflexivity. Qed.
Lemma regex_stop_pipe t : starts_kw t -> run regex_alt true (124 :: t) = None.
Proof.
  intros (x & Hx). cbv [kw_alt r_split_content] in Hx. unfold regex_alt. rewrite run_alt.
  assert (H1 : run r_regex_escaped_char true (124 :: t) = None) by reflexivity. rewrite H1.
  unfold r_regex_content. rewrite run_rule_normal_atomic, run_seq, run_not, run_seq.
  rewrite (str_fail_head [] 58 true 124 t eq_refl), seq_res_none, seq_res_some, run_seq, run_not, run_seq.
  change (124 :: t) with ([124] ++ t). rewrite run_str, seq_res_some, Hx. destruct x as [[? ?] ?]. reflexivity.
Qed.
Lemma regex_stop_group g rest : no_digit_head rest -> run regex_alt true (58 :: print_N g ++ rest) = None.
Proof.
  intros Hnd. unfold regex_alt. rewrite run_alt.
  assert (H1 : run r_regex_escaped_char true (58 :: print_N g ++ rest) = None) by reflexivity. rewrite H1.
  unfold r_regex_content. rewrite run_rule_normal_atomic, run_seq, run_not, run_seq.
  change (58 :: print_N g ++ rest) with ([58] ++ print_N g ++ rest). rewrite run_str, seq_res_some, run_alt.
  rewrite <- (print_Z_of_N g), (run_number_print true (Z.of_N g) rest Hnd). reflexivity.
Qed.
Lemma regex_stop_top rest : ktop_stops rest -> run regex_alt true rest = None.
Proof. intros [-> | (t & -> & Hk)]; [apply regex_stop_end | apply regex_stop_pipe; exact Hk]. Qed.

Lemma run_regex_arg p rest : regex_units p = true -> run regex_alt true rest = None ->
  run r_regex_arg false (p ++ rest) = Some (p, [Node (Some R_regex_arg) p []], rest).
Proof.
  intros Hu Hstop. unfold r_regex_arg. rewrite run_rule_atomic. fold regex_alt.
  rewrite (run_star_units regex_alt _ regex_esc regex_plain p rest Hu Hstop). reflexivity.
Qed.

Lemma run_kw_regex (id : rule) (k : str) p rest : regex_units p = true -> run regex_alt true rest = None ->
  run (PRule id Normal (PSeq (PStr k) (PSeq (PStr [58]) r_regex_arg))) false (k ++ 58 :: p ++ rest)
  = Some (k ++ 58 :: p, [Node (Some id) (k ++ 58 :: p) [Node (Some R_regex_arg) p []]], rest).
Proof.
  intros Hu Hstop. rewrite run_rule_normal, run_seq, run_str, seq_res_some, run_seq.
  change (58 :: p ++ rest) with ([58] ++ p ++ rest).
  rewrite run_str, seq_res_some, (run_regex_arg p rest Hu Hstop). reflexivity.
Qed.

Lemma run_extract_top p rest : regex_units p = true -> ktop_stops rest ->
  run r_regex_extract false (kw_regex_extract ++ 58 :: p ++ rest)
  = Some (kw_regex_extract ++ 58 :: p, [Node (Some R_regex_extract) (kw_regex_extract ++ 58 :: p) [Node (Some R_regex_arg) p []]], rest).
Proof.
  intros Hu Hst. destruct (op_stops_not_colon rest (ktop_op_stops rest Hst)) as (c & t & Erest & Hc).
  unfold r_regex_extract. rewrite run_rule_normal, run_seq. unfold kw_regex_extract. rewrite run_str, seq_res_some, run_seq.
  change (58 :: p ++ rest) with ([58] ++ p ++ rest).
  rewrite run_str, seq_res_some, run_seq, (run_regex_arg p rest Hu (regex_stop_top rest Hst)), seq_res_some, run_opt, run_seq.
  rewrite (str_fail_eq _ 58 _ rest c t Erest Hc), seq_res_none.
  cbn [app]. rewrite ?app_nil_r. reflexivity.
Qed.

Lemma run_extract_group_top p g rest : regex_units p = true -> op_stops rest ->
  run r_regex_extract false (kw_regex_extract ++ 58 :: p ++ 58 :: print_N g ++ rest)
  = Some (kw_regex_extract ++ 58 :: p ++ 58 :: print_N g,
          [Node (Some R_regex_extract) (kw_regex_extract ++ 58 :: p ++ 58 :: print_N g)
             [Node (Some R_regex_arg) p []; Node (Some R_number) (print_N g) []]], rest).
Proof.
  intros Hu Hst. pose proof (op_stops_no_digit rest Hst) as Hnd.
  unfold r_regex_extract. rewrite run_rule_normal, run_seq. unfold kw_regex_extract. rewrite run_str, seq_res_some, run_seq.
  change (58 :: p ++ 58 :: print_N g ++ rest) with ([58] ++ p ++ 58 :: print_N g ++ rest).
  rewrite run_str, seq_res_some, run_seq, (run_regex_arg p _ Hu (regex_stop_group g rest Hnd)), seq_res_some, run_opt, run_seq.
  change (58 :: print_N g ++ rest) with ([58] ++ print_N g ++ rest).
  rewrite run_str, seq_res_some. rewrite <- (print_Z_of_N g), (run_number_print false (Z.of_N g) rest Hnd).
  cbn [app tok]. rewrite <- ?app_assoc. reflexivity.
Qed.

(* ---- regex arguments inside map:{...} ----------------------------------------------------------- *)
Definition mregex_alt : peg rule := PAlt r_map_regex_escaped_char (PAlt r_map_regex_brace r_map_regex_content).
Lemma mregex_esc d r : run mregex_alt true (92 :: d :: r) = Some ([92; d], [], r).
Proof. reflexivity. Qed.
Lemma mregex_plain c r : N.eqb c 92 = false -> negb (arg_special c) = true -> run mregex_alt true (c :: r) = Some ([c], [], r).
Proof.
  intros H92 Hs. apply negb_true_iff in Hs. unfold arg_special in Hs. repeat rewrite orb_false_iff in Hs. destruct Hs as [[[[H1 H2] H3] H4] H5].
  unfold mregex_alt, r_map_regex_escaped_char, r_map_regex_brace, r_map_regex_content.
  do 6 (cbn [run seq_res strip_prefix];
        rewrite ?(N.eqb_sym 92 c), ?(N.eqb_sym 123 c), ?(N.eqb_sym 58 c), ?(N.eqb_sym 124 c), ?(N.eqb_sym 125 c), ?H92, ?H1, ?H2, ?H3, ?H4).
  reflexivity.
Qed.
Lemma mregex_stop_close_end : run mregex_alt true [125] = None.
Proof. reflexivity. Qed.
Lemma mregex_stop_close_pipe t : run mregex_alt true (125 :: 124 :: t) = None.
Proof. reflexivity. Qed.
Lemma mregex_stop_close_close t : run mregex_alt true (125 :: 125 :: t) = None.
Proof. reflexivity. Qed.
Lemma mregex_stop_pipe t : starts_kw t -> run mregex_alt true (124 :: t) = None.
Proof.
  intros (x & Hx). cbv [kw_alt r_split_content] in Hx. unfold mregex_alt. rewrite !run_alt.
  assert (H1 : run r_map_regex_escaped_char true (124 :: t) = None) by reflexivity. rewrite H1.
  assert (H2 : run r_map_regex_brace true (124 :: t) = None) by reflexivity. rewrite H2.
  unfold r_map_regex_content. rewrite run_rule_normal_atomic, run_seq, run_not, run_seq.
  rewrite (str_fail_head [] 58 true 124 t eq_refl), seq_res_none, seq_res_some, run_seq, run_not, run_seq.
  change (124 :: t) with ([124] ++ t). rewrite run_str, seq_res_some, Hx. destruct x as [[? ?] ?]. reflexivity.
Qed.
Lemma mregex_stop_group g rest : no_digit_head rest -> run mregex_alt true (58 :: print_N g ++ rest) = None.
Proof.
  intros Hnd. unfold mregex_alt. rewrite !run_alt.
  assert (H1 : run r_map_regex_escaped_char true (58 :: print_N g ++ rest) = None) by reflexivity. rewrite H1.
  assert (H2 : run r_map_regex_brace true (58 :: print_N g ++ rest) = None) by reflexivity. rewrite H2.
  unfold r_map_regex_content. rewrite run_rule_normal_atomic, run_seq, run_not, run_seq.
  change (58 :: print_N g ++ rest) with ([58] ++ print_N g ++ rest). rewrite run_str, seq_res_some.
  rewrite <- (print_Z_of_N g), (run_number_print true (Z.of_N g) rest Hnd). reflexivity.
Qed.
Lemma mregex_stop rest : kmap_stops rest -> run mregex_alt true rest = None.
Proof.
  intros [(t & -> & [-> | (c & t' & -> & [-> | ->])]) | (t & -> & Hk)];
    [apply mregex_stop_close_end | apply mregex_stop_close_pipe | apply mregex_stop_close_close | apply mregex_stop_pipe; exact Hk].
Qed.

Lemma run_mregex_arg p rest : regex_units p = true -> run mregex_alt true rest = None ->
  run r_map_regex_arg false (p ++ rest) = Some (p, [Node (Some R_map_regex_arg) p []], rest).
Proof.
  intros Hu Hstop. unfold r_map_regex_arg. rewrite run_rule_atomic. fold mregex_alt.
  rewrite (run_star_units mregex_alt _ mregex_esc mregex_plain p rest Hu Hstop). reflexivity.
Qed.

Lemma run_kw_mregex (id : rule) (k : str) p rest : regex_units p = true -> run mregex_alt true rest = None ->
  run (PRule id Normal (PSeq (PStr k) (PSeq (PStr [58]) r_map_regex_arg))) false (k ++ 58 :: p ++ rest)
  = Some (k ++ 58 :: p, [Node (Some id) (k ++ 58 :: p) [Node (Some R_map_regex_arg) p []]], rest).
Proof.
  intros Hu Hstop. rewrite run_rule_normal, run_seq, run_str, seq_res_some, run_seq.
  change (58 :: p ++ rest) with ([58] ++ p ++ rest).
  rewrite run_str, seq_res_some, (run_mregex_arg p rest Hu Hstop). reflexivity.
Qed.

Lemma run_extract_map p rest : regex_units p = true -> kmap_stops rest ->
  run r_map_regex_extract false (kw_regex_extract ++ 58 :: p ++ rest)
  = Some (kw_regex_extract ++ 58 :: p, [Node (Some R_map_regex_extract) (kw_regex_extract ++ 58 :: p) [Node (Some R_map_regex_arg) p []]], rest).
Proof.
  intros Hu Hst. destruct (op_stops_not_colon rest (kmap_op_stops rest Hst)) as (c & t & Erest & Hc).
  unfold r_map_regex_extract. rewrite run_rule_normal, run_seq. unfold kw_regex_extract. rewrite run_str, seq_res_some, run_seq.
  change (58 :: p ++ rest) with ([58] ++ p ++ rest).
  rewrite run_str, seq_res_some, run_seq, (run_mregex_arg p rest Hu (mregex_stop rest Hst)), seq_res_some, run_opt, run_seq.
  rewrite (str_fail_eq _ 58 _ rest c t Erest Hc), seq_res_none.
  cbn [app]. rewrite ?app_nil_r. reflexivity.
Qed.

Lemma run_extract_group_map p g rest : regex_units p = true -> op_stops rest ->
  run r_map_regex_extract false (kw_regex_extract ++ 58 :: p ++ 58 :: print_N g ++ rest)
  = Some (kw_regex_extract ++ 58 :: p ++ 58 :: print_N g,
          [Node (Some R_map_regex_extract) (kw_regex_extract ++ 58 :: p ++ 58 :: print_N g)
             [Node (Some R_map_regex_arg) p []; Node (Some R_number) (print_N g) []]], rest).
Proof.
  intros Hu Hst. pose proof (op_stops_no_digit rest Hst) as Hnd.
  unfold r_map_regex_extract. rewrite run_rule_normal, run_seq. unfold kw_regex_extract. rewrite run_str, seq_res_some, run_seq.
  change (58 :: p ++ 58 :: print_N g ++ rest) with ([58] ++ p ++ 58 :: print_N g ++ rest).
  rewrite run_str, seq_res_some, run_seq, (run_mregex_arg p _ Hu (mregex_stop_group g rest Hnd)), seq_res_some, run_opt, run_seq.
  change (58 :: print_N g ++ rest) with ([58] ++ print_N g ++ rest).
  rewrite run_str, seq_res_some. rewrite <- (print_Z_of_N g), (run_number_print false (Z.of_N g) rest Hnd).
  cbn [app tok]. rewrite <- ?app_assoc. reflexivity.
Qed.

(* ---- dispatch ------------------------------------------------------------------------------------ *)
(* the context an operation needs after its text *)
Definition needs_kw (o : op) : bool :=
  match o with Filter _ | FilterNot _ | RegexExtract _ None => true | _ => false end.
Definition ctx_top (o : op) (rest : str) : Prop := if needs_kw o then ktop_stops rest else op_stops rest.
Definition ctx_map (o : op) (rest : str) : Prop := if needs_kw o then kmap_stops rest else op_stops rest.

Ltac norm_regex :=
  unfold kw_replace, kw_filter, kw_filter_not, kw_regex_extract, sed_text;
  repeat (rewrite <- app_assoc || rewrite <- app_comm_cons); cbn [app].
Ltac enter_top_r := unfold r_operation; rewrite run_rule_normal; cbn [run]; norm_regex; kill_alts.
Ltac enter_map_r := unfold r_map_inner_operation; rewrite run_rule_normal; cbn [run]; norm_regex; kill_alts.

Theorem operation_reads_regex o txt rest : spells_regex o txt -> ctx_top o rest ->
  exists k, run r_operation false (txt ++ rest) = Some (txt, [Node (Some R_operation) txt [k]], rest)
            /\ parse_operation k = Ok o.
Proof.
  intros Hsp Hctx. destruct Hsp as [p r f Hne Hp Hr Hf | p Hu | p Hu | p Hu | p g Hu Hg]; unfold ctx_top in Hctx; cbn [needs_kw] in Hctx.
  - pose proof (run_replace p r f rest Hp Hr Hf Hctx) as H. eexists; split; [enter_top_r; use_run H; reflexivity|].
    unfold parse_operation; cbn [t_rule]. apply conv_replace. exact Hne.
  - pose proof (run_kw_regex R_filter kw_filter p rest Hu (regex_stop_top rest Hctx)) as H.
    eexists; split; [enter_top_r; use_run H; reflexivity | reflexivity].
  - pose proof (run_kw_regex R_filter_not kw_filter_not p rest Hu (regex_stop_top rest Hctx)) as H.
    eexists; split; [enter_top_r; use_run H; reflexivity | reflexivity].
  - pose proof (run_extract_top p rest Hu Hctx) as H.
    eexists; split; [enter_top_r; use_run H; reflexivity | reflexivity].
  - pose proof (run_extract_group_top p g rest Hu Hctx) as H.
    eexists; split; [enter_top_r; use_run H; reflexivity|].
    unfold parse_operation; cbn [t_rule]. unfold parse_regex_extract_operation. cbn [t_kids unwrap_first bind nth_error t_text].
    rewrite (parse_usize_print g) by (apply N.leb_le; exact Hg). reflexivity.
Qed.

Theorem inner_reads_regex o txt rest : spells_regex o txt -> ctx_map o rest ->
  exists k, run r_map_inner_operation false (txt ++ rest) = Some (txt, [Node (Some R_map_inner_operation) txt [k]], rest)
            /\ parse_map_inner_operation k = Ok o.
Proof.
  intros Hsp Hctx. destruct Hsp as [p r f Hne Hp Hr Hf | p Hu | p Hu | p Hu | p g Hu Hg]; unfold ctx_map in Hctx; cbn [needs_kw] in Hctx.
  - pose proof (run_replace p r f rest Hp Hr Hf Hctx) as H. eexists; split; [enter_map_r; use_run H; reflexivity|].
    unfold parse_map_inner_operation; cbn [t_rule]. apply conv_replace. exact Hne.
  - pose proof (run_kw_mregex R_map_filter kw_filter p rest Hu (mregex_stop rest Hctx)) as H.
    eexists; split; [enter_map_r; use_run H; reflexivity | reflexivity].
  - pose proof (run_kw_mregex R_map_filter_not kw_filter_not p rest Hu (mregex_stop rest Hctx)) as H.
    eexists; split; [enter_map_r; use_run H; reflexivity | reflexivity].
  - pose proof (run_extract_map p rest Hu Hctx) as H.
    eexists; split; [enter_map_r; use_run H; reflexivity | reflexivity].
  - pose proof (run_extract_group_map p g rest Hu Hctx) as H.
    eexists; split; [enter_map_r; use_run H; reflexivity|].
    unfold parse_map_inner_operation; cbn [t_rule]. unfold parse_regex_extract_operation. cbn [t_kids unwrap_first bind nth_error t_text].
    rewrite (parse_usize_print g) by (apply N.leb_le; exact Hg). reflexivity.
Qed.

(* every spelling begins with an operation keyword *)
Definition kw_led (txt : str) : Prop := forall r, starts_kw (txt ++ r).
Lemma spells_simple_kw o t : spells_simple o t -> kw_led t.
Proof.
  intros H r. destruct H as [o Hok | s | | s Hnd | | w Hw | w c Hw]; try (eexists; reflexivity).
  destruct o as [sep rg|sep|? ? ?| | |chars d|rg|s|s|s| |?|?|rg|body|d| | |w c d|? ?]; try discriminate Hok;
    try (eexists; reflexivity).
  - destruct chars; eexists; reflexivity.
  - destruct d; eexists; reflexivity.
Qed.
Lemma spells_regex_kw o t : spells_regex o t -> kw_led t.
Proof. intros H r. destruct H; eexists; reflexivity. Qed.
