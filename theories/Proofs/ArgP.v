(* C11 at the level of the grammar: the argument rules read exactly the escaped
   text, so a block written with the documented escapes parses to the operation
   carrying exactly the argument. *)
From SP Require Import Model.Syntax Model.Scanner Proofs.PegP Proofs.SyntaxP Proofs.StrP Proofs.ImplSpec Proofs.TemplateP Proofs.TemplateLaws.
Local Open Scope N_scope.

Definition is_special (c : N) : bool :=
  (N.eqb c 58 || N.eqb c 124 || N.eqb c 125 || N.eqb c 123 || N.eqb c 92)%bool.

(* equations of the PEG interpreter used before the general ones further down *)
Lemma run_alt_eq (a b : peg rule) at_ inp :
  run (PAlt a b) at_ inp = match run a at_ inp with Some x => Some x | None => run b at_ inp end.
Proof. reflexivity. Qed.
Lemma run_seq_eq (a b : peg rule) at_ inp : run (PSeq a b) at_ inp = seq_res rule (run a at_ inp) (run b at_).
Proof. reflexivity. Qed.
Lemma run_not_eq (a : peg rule) at_ inp :
  run (PNot a) at_ inp = match run a true inp with Some _ => None | None => Some ([], [], inp) end.
Proof. reflexivity. Qed.
Lemma run_rule_normal_atomic_eq (id : rule) (body : peg rule) inp :
  run (PRule id Normal body) true inp = match run body true inp with Some (t, k, r) => Some (t, [], r) | None => None end.
Proof. reflexivity. Qed.
Lemma run_str_eq (p : str) at_ r : run (@PStr rule p) at_ (p ++ r) = Some (p, [], r).
Proof. cbn [run]. rewrite strip_prefix_app. reflexivity. Qed.
Lemma seq_res_some_eq t1 k1 r1 (f : str -> res rule) :
  seq_res rule (Some (t1, k1, r1)) f = match f r1 with Some (t2, k2, r2) => Some (t1 ++ t2, k1 ++ k2, r2) | None => None end.
Proof. reflexivity. Qed.

(* one step of simple_arg_content in an atomic context *)
Lemma content_escaped d r :
  run r_simple_arg_content true (92 :: d :: r) = Some ([92; d], [], r).
Proof. reflexivity. Qed.

Lemma content_plain c r : is_special c = false ->
  run r_simple_arg_content true (c :: r) = Some ([c], [], r).
Proof.
  unfold is_special. intros H. repeat rewrite orb_false_iff in H. destruct H as [[[[H1 H2] H3] H4] H5].
  unfold r_simple_arg_content, r_escaped_char, r_simple_normal_char.
  (* whatever the order and grouping of the comparisons in the rule *)
  do 8 (cbn [run seq_res strip_prefix];
        rewrite ?(N.eqb_sym 92 c), ?(N.eqb_sym 58 c), ?(N.eqb_sym 124 c), ?(N.eqb_sym 125 c), ?(N.eqb_sym 123 c), ?H1, ?H2, ?H3, ?H4, ?H5).
  reflexivity.
Qed.

Lemma content_stop c r : is_special c = true -> c <> 92 ->
  run r_simple_arg_content true (c :: r) = None.
Proof.
  unfold is_special. intros H Hb.
  assert (H5: N.eqb c 92 = false) by (apply N.eqb_neq; exact Hb).
  rewrite H5, orb_false_r in H.
  unfold r_simple_arg_content, r_escaped_char, r_simple_normal_char. cbn [run seq_res strip_prefix].
  rewrite (N.eqb_sym 92 c), H5. cbn [run seq_res strip_prefix].
  repeat rewrite orb_true_iff in H. repeat rewrite N.eqb_eq in H.
  destruct H as [[[->| ->]| ->]| ->]; reflexivity.
Qed.

Lemma content_nil : run r_simple_arg_content true [] = None.
Proof. reflexivity. Qed.

(* the direct scanner that simple_arg amounts to: pairs \x, and characters outside : | { } \ *)
Fixpoint scan_simple (inp : str) : str * str :=
  match inp with
  | [] => ([], [])
  | c :: r =>
      if N.eqb c 92 then
        match r with
        | [] => ([], inp)
        | d :: r' => let ab := scan_simple r' in (92 :: d :: fst ab, snd ab)
        end
      else if is_special c then ([], inp)
      else let ab := scan_simple r in (c :: fst ab, snd ab)
  end.

Lemma scan_simple_eq inp :
  scan_simple inp =
  match inp with
  | [] => ([], [])
  | c :: r =>
      if N.eqb c 92 then
        match r with
        | [] => ([], inp)
        | d :: r' => let ab := scan_simple r' in (92 :: d :: fst ab, snd ab)
        end
      else if is_special c then ([], inp)
      else let ab := scan_simple r in (c :: fst ab, snd ab)
  end.
Proof. destruct inp; reflexivity. Qed.

Lemma content_lone_backslash : run r_simple_arg_content true [92] = None.
Proof. reflexivity. Qed.

Lemma star_simple fuel : forall inp, (length inp < fuel)%nat ->
  star_loop (run r_simple_arg_content true) fuel inp = Some (fst (scan_simple inp), [], snd (scan_simple inp)).
Proof.
  induction fuel as [|fuel IH]; intros inp Hlen; [lia|].
  rewrite star_loop_S. destruct inp as [|c r].
  - rewrite content_nil. reflexivity.
  - rewrite scan_simple_eq. destruct (N.eqb_spec c 92) as [->|Hc].
    + destruct r as [|d r'].
      * rewrite content_lone_backslash. reflexivity.
      * rewrite content_escaped.
        assert (Hlt: Nat.ltb (length r') (length (92 :: d :: r')) = true) by (apply Nat.ltb_lt; cbn [length]; lia).
        rewrite Hlt. rewrite IH by (cbn [length] in Hlen; lia). reflexivity.
    + destruct (is_special c) eqn:Es.
      * rewrite (content_stop c r Es Hc). reflexivity.
      * rewrite (content_plain c r Es).
        assert (Hlt: Nat.ltb (length r) (length (c :: r)) = true) by (apply Nat.ltb_lt; cbn [length]; lia).
        rewrite Hlt. rewrite IH by (cbn [length] in Hlen; lia). reflexivity.
Qed.

(* rule simple_arg of the regenerated grammar IS the direct scanner *)
Theorem simple_arg_is_scan (a : bool) inp :
  run r_simple_arg a inp =
    Some (fst (scan_simple inp), (if a then [] else [Node (Some R_simple_arg) (fst (scan_simple inp)) []]), snd (scan_simple inp)).
Proof.
  unfold r_simple_arg. cbn [run]. fold r_simple_arg_content.
  rewrite star_simple by lia. reflexivity.
Qed.

(* what may follow an argument: nothing, or one of : | { } (not a backslash) *)
Definition stops (rest : str) : Prop :=
  match rest with [] => True | c :: _ => is_special c = true /\ c <> 92 end.

Lemma scan_simple_stop rest : stops rest -> scan_simple rest = ([], rest).
Proof.
  destruct rest as [|c r]; [reflexivity|]. intros [Hs Hc]. rewrite scan_simple_eq.
  destruct (N.eqb_spec c 92); [contradiction|]. rewrite Hs. reflexivity.
Qed.

(* the escaped text is read in full and nothing more *)
Theorem scan_simple_esc s rest : stops rest -> scan_simple (esc s ++ rest) = (esc s, rest).
Proof.
  intros Hst. induction s as [|c s IH]; [apply scan_simple_stop; exact Hst|].
  unfold esc in *. cbn [flat_map]. rewrite <- app_assoc. unfold esc_cp at 1 3.
  destruct (N.eqb c 58 || N.eqb c 124 || N.eqb c 123 || N.eqb c 125 || N.eqb c 92)%bool eqn:Esp.
  - change (scan_simple (92 :: c :: (flat_map esc_cp s ++ rest)) = (92 :: c :: flat_map esc_cp s, rest)).
    rewrite scan_simple_eq. cbn [N.eqb Pos.eqb]. cbn zeta. rewrite IH. reflexivity.
  - repeat rewrite orb_false_iff in Esp. destruct Esp as [[[[E1 E2] E3] E4] E5].
    destruct (N.eqb_spec c 10) as [->|Hn];
      [change (scan_simple (92 :: 110 :: (flat_map esc_cp s ++ rest)) = (92 :: 110 :: flat_map esc_cp s, rest));
       rewrite scan_simple_eq; cbn [N.eqb Pos.eqb]; cbn zeta; rewrite IH; reflexivity|].
    destruct (N.eqb_spec c 9) as [->|Ht];
      [change (scan_simple (92 :: 116 :: (flat_map esc_cp s ++ rest)) = (92 :: 116 :: flat_map esc_cp s, rest));
       rewrite scan_simple_eq; cbn [N.eqb Pos.eqb]; cbn zeta; rewrite IH; reflexivity|].
    destruct (N.eqb_spec c 13) as [->|Hr];
      [change (scan_simple (92 :: 114 :: (flat_map esc_cp s ++ rest)) = (92 :: 114 :: flat_map esc_cp s, rest));
       rewrite scan_simple_eq; cbn [N.eqb Pos.eqb]; cbn zeta; rewrite IH; reflexivity|].
    change (scan_simple (c :: (flat_map esc_cp s ++ rest)) = (c :: flat_map esc_cp s, rest)).
    rewrite scan_simple_eq. rewrite E5. unfold is_special. rewrite E1, E2, E4, E3, E5. cbn [orb]. cbn zeta. rewrite IH. reflexivity.
Qed.

(* C11 at the grammar level: the simple_arg rule applied to the escaped spelling of
   ANY text, followed by the end of the argument, yields one token whose text is that
   spelling -- which process_arg decodes back to the text *)
Theorem simple_arg_reads_escaped (s rest : str) : stops rest ->
  run r_simple_arg false (esc s ++ rest) = Some (esc s, [Node (Some R_simple_arg) (esc s) []], rest)
  /\ process_arg (esc s) = s.
Proof.
  intros Hst. rewrite simple_arg_is_scan, (scan_simple_esc s rest Hst). split; [reflexivity | apply process_arg_esc].
Qed.

(* ---- from the argument rule to whole blocks, by symbolic evaluation of the
        regenerated grammar on "{kw:" ++ esc s ++ "}" --------------------------- *)

Lemma stops_rbrace t : stops (125 :: t).
Proof. split; [reflexivity | discriminate]. Qed.

(* replace every alternative that fails on the known prefix by None *)
Ltac kill_alts :=
  repeat match goal with
  | |- context [run ?r false (?c :: ?t)] =>
      let H := fresh "Hfail" in
      assert (H: run r false (c :: t) = None) by reflexivity; rewrite H; clear H
  end.

Lemma run_append s rest : stops rest ->
  run r_append false ([97; 112; 112; 101; 110; 100; 58] ++ esc s ++ rest)
  = Some ([97; 112; 112; 101; 110; 100; 58] ++ esc s,
          [Node (Some R_append) ([97; 112; 112; 101; 110; 100; 58] ++ esc s) [Node (Some R_simple_arg) (esc s) []]], rest).
Proof.
  intros Hst. cbn [app]. unfold r_append. cbn [run seq_res strip_prefix N.eqb Pos.eqb].
  destruct (simple_arg_reads_escaped s rest Hst) as [-> _]. reflexivity.
Qed.

Ltac run_simple_arg_op r :=
  intros Hst; cbn [app]; unfold r; cbn [run seq_res strip_prefix N.eqb Pos.eqb];
  match goal with Hst : stops ?rest |- context [run r_simple_arg false (esc ?s ++ ?rest)] =>
    destruct (simple_arg_reads_escaped s rest Hst) as [-> _] end; reflexivity.

Lemma run_prepend s rest : stops rest ->
  run r_prepend false ([112; 114; 101; 112; 101; 110; 100; 58] ++ esc s ++ rest)
  = Some ([112; 114; 101; 112; 101; 110; 100; 58] ++ esc s,
          [Node (Some R_prepend) ([112; 114; 101; 112; 101; 110; 100; 58] ++ esc s) [Node (Some R_simple_arg) (esc s) []]], rest).
Proof. run_simple_arg_op r_prepend. Qed.
Lemma run_surround s rest : stops rest ->
  run r_surround false ([115; 117; 114; 114; 111; 117; 110; 100; 58] ++ esc s ++ rest)
  = Some ([115; 117; 114; 114; 111; 117; 110; 100; 58] ++ esc s,
          [Node (Some R_surround) ([115; 117; 114; 114; 111; 117; 110; 100; 58] ++ esc s) [Node (Some R_simple_arg) (esc s) []]], rest).
Proof. run_simple_arg_op r_surround. Qed.
Lemma run_quote s rest : stops rest ->
  run r_quote false ([113; 117; 111; 116; 101; 58] ++ esc s ++ rest)
  = Some ([113; 117; 111; 116; 101; 58] ++ esc s,
          [Node (Some R_quote) ([113; 117; 111; 116; 101; 58] ++ esc s) [Node (Some R_simple_arg) (esc s) []]], rest).
Proof. run_simple_arg_op r_quote. Qed.
Lemma run_join s rest : stops rest ->
  run r_join false ([106; 111; 105; 110; 58] ++ esc s ++ rest)
  = Some ([106; 111; 105; 110; 58] ++ esc s,
          [Node (Some R_join) ([106; 111; 105; 110; 58] ++ esc s) [Node (Some R_simple_arg) (esc s) []]], rest).
Proof. run_simple_arg_op r_join. Qed.
Lemma run_map_join s rest : stops rest ->
  run r_map_join false ([106; 111; 105; 110; 58] ++ esc s ++ rest)
  = Some ([106; 111; 105; 110; 58] ++ esc s,
          [Node (Some R_map_join) ([106; 111; 105; 110; 58] ++ esc s) [Node (Some R_simple_arg) (esc s) []]], rest).
Proof. run_simple_arg_op r_map_join. Qed.

(* a whole single block "{kw:" ++ esc s ++ "}" *)
Ltac eval_top_block kwlist lem :=
  intros s; cbn [app];
  unfold parse_template, r_template; cbn [run seq_res strip_prefix N.eqb Pos.eqb];
  match goal with |- context [run r_debug_flag false ?i] =>
    let H := fresh in assert (H: run r_debug_flag false i = None) by reflexivity; rewrite H; clear H end;
  cbn [seq_res];
  unfold r_operation_list; cbn [run seq_res];
  unfold r_operation; cbn [run];
  kill_alts;
  match goal with |- context [run ?r false (?c :: ?t)] =>
    change (run r false (c :: t)) with (run r false (kwlist ++ esc s ++ [125])) end;
  rewrite lem by apply stops_rbrace;
  cbn [seq_res];
  rewrite star_loop_S; cbn [run seq_res strip_prefix N.eqb Pos.eqb];
  cbn -[process_arg esc];
  rewrite process_arg_esc; reflexivity.

Theorem append_block : forall s,
  parse_template ([123; 97; 112; 112; 101; 110; 100; 58] ++ esc s ++ [125]) = Ok ([Append s], false).
Proof. eval_top_block [97; 112; 112; 101; 110; 100; 58] run_append. Qed.
Theorem prepend_block : forall s,
  parse_template ([123; 112; 114; 101; 112; 101; 110; 100; 58] ++ esc s ++ [125]) = Ok ([Prepend s], false).
Proof. eval_top_block [112; 114; 101; 112; 101; 110; 100; 58] run_prepend. Qed.
Theorem surround_block : forall s,
  parse_template ([123; 115; 117; 114; 114; 111; 117; 110; 100; 58] ++ esc s ++ [125]) = Ok ([Surround s], false).
Proof. eval_top_block [115; 117; 114; 114; 111; 117; 110; 100; 58] run_surround. Qed.
Theorem quote_block : forall s,
  parse_template ([123; 113; 117; 111; 116; 101; 58] ++ esc s ++ [125]) = Ok ([Surround s], false).
Proof. eval_top_block [113; 117; 111; 116; 101; 58] run_quote. Qed.
Theorem join_block : forall s,
  parse_template ([123; 106; 111; 105; 110; 58] ++ esc s ++ [125]) = Ok ([Join s], false).
Proof. eval_top_block [106; 111; 105; 110; 58] run_join. Qed.

(* the same inside a map body: "{map:{kw:" ++ esc s ++ "}}" *)
Ltac eval_map_block kwlist lem :=
  intros s; cbn [app];
  unfold parse_template, r_template; cbn [run seq_res strip_prefix N.eqb Pos.eqb];
  match goal with |- context [run r_debug_flag false ?i] =>
    let H := fresh in assert (H: run r_debug_flag false i = None) by reflexivity; rewrite H; clear H end;
  cbn [seq_res];
  unfold r_operation_list; cbn [run seq_res];
  unfold r_operation; cbn [run];
  kill_alts;
  unfold r_map, r_map_operation, r_map_operation_list; cbn [run seq_res strip_prefix N.eqb Pos.eqb];
  unfold r_map_inner_operation; cbn [run];
  kill_alts;
  match goal with |- context [run ?r false (?c :: ?t)] =>
    change (run r false (c :: t)) with (run r false (kwlist ++ esc s ++ [125; 125])) end;
  rewrite lem by apply stops_rbrace;
  cbn [seq_res];
  rewrite star_loop_S; cbn [run seq_res strip_prefix N.eqb Pos.eqb];
  rewrite star_loop_S; cbn [run seq_res strip_prefix N.eqb Pos.eqb];
  cbn -[process_arg esc];
  rewrite process_arg_esc; reflexivity.

Theorem append_in_map : forall s,
  parse_template ([123; 109; 97; 112; 58; 123; 97; 112; 112; 101; 110; 100; 58] ++ esc s ++ [125; 125]) = Ok ([Map [Append s]], false).
Proof. eval_map_block [97; 112; 112; 101; 110; 100; 58] run_append. Qed.
Theorem prepend_in_map : forall s,
  parse_template ([123; 109; 97; 112; 58; 123; 112; 114; 101; 112; 101; 110; 100; 58] ++ esc s ++ [125; 125]) = Ok ([Map [Prepend s]], false).
Proof. eval_map_block [112; 114; 101; 112; 101; 110; 100; 58] run_prepend. Qed.
Theorem surround_in_map : forall s,
  parse_template ([123; 109; 97; 112; 58; 123; 115; 117; 114; 114; 111; 117; 110; 100; 58] ++ esc s ++ [125; 125]) = Ok ([Map [Surround s]], false).
Proof. eval_map_block [115; 117; 114; 114; 111; 117; 110; 100; 58] run_surround. Qed.
Theorem quote_in_map : forall s,
  parse_template ([123; 109; 97; 112; 58; 123; 113; 117; 111; 116; 101; 58] ++ esc s ++ [125; 125]) = Ok ([Map [Surround s]], false).
Proof. eval_map_block [113; 117; 111; 116; 101; 58] run_quote. Qed.
Theorem join_in_map : forall s,
  parse_template ([123; 109; 97; 112; 58; 123; 106; 111; 105; 110; 58] ++ esc s ++ [125; 125]) = Ok ([Map [Join s]], false).
Proof. eval_map_block [106; 111; 105; 110; 58] run_map_join. Qed.

(* ---- trim: "{trim:" ++ esc s ++ ":both}" ---------------------------------------- *)
Lemma stops_colon t : stops (58 :: t).
Proof. split; [reflexivity | discriminate]. Qed.

Lemma run_direction_both t :
  run r_direction false (98 :: 111 :: 116 :: 104 :: 125 :: t) = Some ([98; 111; 116; 104], [Node (Some R_direction) [98; 111; 116; 104] []], 125 :: t).
Proof. reflexivity. Qed.
Lemma run_direction_left t :
  run r_direction false (108 :: 101 :: 102 :: 116 :: 125 :: t) = Some ([108; 101; 102; 116], [Node (Some R_direction) [108; 101; 102; 116] []], 125 :: t).
Proof. reflexivity. Qed.

Lemma run_trim_both s t :
  run r_trim false ([116; 114; 105; 109; 58] ++ esc s ++ [58; 98; 111; 116; 104] ++ 125 :: t)
  = Some ([116; 114; 105; 109; 58] ++ esc s ++ [58; 98; 111; 116; 104],
          [Node (Some R_trim) ([116; 114; 105; 109; 58] ++ esc s ++ [58; 98; 111; 116; 104])
             [Node (Some R_simple_arg) (esc s) []; Node (Some R_direction) [98; 111; 116; 104] []]], 125 :: t).
Proof.
  cbn [app]. unfold r_trim. cbn [run seq_res strip_prefix N.eqb Pos.eqb].
  destruct (simple_arg_reads_escaped s (58 :: 98 :: 111 :: 116 :: 104 :: 125 :: t) (stops_colon _)) as [-> _].
  cbn [run seq_res strip_prefix N.eqb Pos.eqb]. rewrite run_direction_both.
  cbn [app]. rewrite <- ?app_assoc. cbn [app]. reflexivity.
Qed.

Theorem trim_block : forall s,
  parse_template ([123; 116; 114; 105; 109; 58] ++ esc s ++ [58; 98; 111; 116; 104; 125]) = Ok ([Trim s TBoth], false).
Proof.
  intros s; cbn [app];
  unfold parse_template, r_template; cbn [run seq_res strip_prefix N.eqb Pos.eqb].
  match goal with |- context [run r_debug_flag false ?i] =>
    let H := fresh in assert (H: run r_debug_flag false i = None) by reflexivity; rewrite H; clear H end.
  cbn [seq_res]. unfold r_operation_list; cbn [run seq_res]. unfold r_operation; cbn [run].
  kill_alts.
  match goal with |- context [run ?r false (?c :: ?t)] =>
    change (run r false (c :: t)) with (run r false ([116; 114; 105; 109; 58] ++ esc s ++ [58; 98; 111; 116; 104] ++ 125 :: [])) end.
  rewrite run_trim_both. cbn [seq_res].
  rewrite star_loop_S; cbn [run seq_res strip_prefix N.eqb Pos.eqb].
  cbn -[process_arg esc]. rewrite process_arg_esc. reflexivity.
Qed.

(* ---- pad: "{pad:3:" ++ esc [c] ++ ":left}" ---------------------------------------- *)
Lemma plus_simple inp : fst (scan_simple inp) <> [] ->
  run (PPlus r_simple_arg_content) true inp = Some (fst (scan_simple inp), [], snd (scan_simple inp)).
Proof.
  intros Hne. cbn [run]. destruct inp as [|c r]; [cbn in Hne; congruence|].
  rewrite scan_simple_eq in *. destruct (N.eqb_spec c 92) as [->|Hc].
  - destruct r as [|d r']; [cbn in Hne; congruence|].
    rewrite content_escaped. unfold seq_res. rewrite star_simple by lia. reflexivity.
  - destruct (is_special c) eqn:Es; [cbn in Hne; congruence|].
    rewrite (content_plain c r Es). unfold seq_res. rewrite star_simple by lia. reflexivity.
Qed.

Lemma esc_cp_nonempty c : esc_cp c <> [].
Proof. unfold esc_cp. repeat destruct (_ || _)%bool; repeat destruct (N.eqb _ _); discriminate. Qed.

Lemma run_rule_atomic (id : rule) (body : peg rule) inp :
  run (PRule id Atomic body) false inp =
    match run body true inp with Some (t, _, r) => Some (t, [Node (Some id) t []], r) | None => None end.
Proof. reflexivity. Qed.

Lemma run_pad_char c rest : stops rest ->
  run r_pad_char false (esc [c] ++ rest) = Some (esc [c], [Node (Some R_pad_char) (esc [c]) []], rest).
Proof.
  intros Hst. unfold r_pad_char. rewrite run_rule_atomic.
  assert (Hs: scan_simple (esc [c] ++ rest) = (esc [c], rest)) by (apply scan_simple_esc; exact Hst).
  rewrite plus_simple; rewrite Hs; cbn [fst snd]; [reflexivity|].
  unfold esc. cbn [flat_map]. rewrite app_nil_r. apply esc_cp_nonempty.
Qed.

Theorem pad_block : forall c,
  parse_template ([123; 112; 97; 100; 58; 51; 58] ++ esc [c] ++ [58; 108; 101; 102; 116; 125]) = Ok ([Pad 3 c PLeft], false).
Proof.
  intros c; cbn [app];
  unfold parse_template, r_template; cbn [run seq_res strip_prefix N.eqb Pos.eqb].
  match goal with |- context [run r_debug_flag false ?i] =>
    let H := fresh in assert (H: run r_debug_flag false i = None) by reflexivity; rewrite H; clear H end.
  cbn [seq_res]. unfold r_operation_list; cbn [run seq_res]. unfold r_operation; cbn [run].
  kill_alts.
  unfold r_pad. cbn [run seq_res strip_prefix N.eqb Pos.eqb].
  assert (Hnum: forall t, run r_number false (51 :: 58 :: t) = Some ([51], [Node (Some R_number) [51] []], 58 :: t)) by (intros; reflexivity).
  rewrite Hnum. cbn [run seq_res strip_prefix N.eqb Pos.eqb].
  rewrite (run_pad_char c (58 :: 108 :: 101 :: 102 :: 116 :: [125]) (stops_colon _)).
  cbn [run seq_res strip_prefix N.eqb Pos.eqb]. rewrite run_direction_left.
  cbn [seq_res].
  rewrite star_loop_S; cbn [run seq_res strip_prefix N.eqb Pos.eqb].
  cbn -[process_arg esc]. rewrite process_arg_esc. reflexivity.
Qed.

(* ---- split: "{split:" ++ esc s ++ ":..}" ------------------------------------------ *)
Definition split_alt : peg rule := PAlt r_split_escaped_char r_split_content.

Lemma split_step_escaped d r : run split_alt true (92 :: d :: r) = Some ([92; d], [], r).
Proof. reflexivity. Qed.

Lemma split_step_plain c r : is_special c = false -> run split_alt true (c :: r) = Some ([c], [], r).
Proof.
  unfold is_special. intros H. repeat rewrite orb_false_iff in H. destruct H as [[[[H1 H2] H3] H4] H5].
  unfold split_alt, r_split_escaped_char, r_split_content. cbn [run seq_res strip_prefix].
  rewrite (N.eqb_sym 92 c), H5. cbn [run seq_res strip_prefix].
  rewrite (N.eqb_sym 58 c), H1. cbn [run seq_res strip_prefix].
  rewrite (N.eqb_sym 124 c), H2. cbn [run seq_res strip_prefix].
  rewrite (N.eqb_sym 125 c), H3. reflexivity.
Qed.

(* the separator ends where ":.." begins *)
(* pieces of the (normalised) grammar, taken from the rule that contains them: what may follow ":"
   to end a split / regex argument (number | ".." | "..=" in some order), and the operation keywords *)
Definition num_or_range : peg rule :=
  match r_split_content with PRule _ _ (PSeq (PNot (PSeq _ x)) _) => x | _ => PAny end.
Definition kw_alt : peg rule :=
  match r_split_content with PRule _ _ (PSeq _ (PSeq (PNot (PSeq _ k)) _)) => k | _ => PAny end.

(* ".." is accepted there, whichever of ".." and "..=" the grammar lists first *)
Lemma num_or_range_dots a t : exists x, run num_or_range a (46 :: 46 :: t) = Some x.
Proof.
  cbv [num_or_range r_split_content]. rewrite run_alt_eq.
  assert (Hn : run r_number a (46 :: 46 :: t) = None) by (destruct a; reflexivity). rewrite Hn.
  cbn [run strip_prefix N.eqb Pos.eqb].
  destruct t as [|c t]; [eexists; reflexivity|].
  destruct c as [|q]; [eexists; reflexivity|]. destruct (Pos.eqb 61 q); eexists; reflexivity.
Qed.

Lemma split_stop_at_range t : run split_alt true (58 :: 46 :: 46 :: t) = None.
Proof.
  destruct (num_or_range_dots true t) as (x & Hx). cbv [num_or_range r_split_content] in Hx.
  unfold split_alt, r_split_escaped_char, r_split_content.
  rewrite run_alt_eq. assert (H1 : run (PRule R_split_escaped_char Normal (PSeq (PStr [92]) PAny)) true (58 :: 46 :: 46 :: t) = None) by reflexivity.
  rewrite H1. rewrite run_rule_normal_atomic_eq, run_seq_eq, run_not_eq, run_seq_eq.
  change (58 :: 46 :: 46 :: t) with ([58] ++ 46 :: 46 :: t). rewrite run_str_eq, seq_res_some_eq, Hx.
  destruct x as [[? ?] ?]. reflexivity.
Qed.

Lemma esc_cp_cases c : (exists y, esc_cp c = [92; y]) \/ (esc_cp c = [c] /\ is_special c = false).
Proof.
  unfold esc_cp.
  destruct (N.eqb c 58 || N.eqb c 124 || N.eqb c 123 || N.eqb c 125 || N.eqb c 92)%bool eqn:Esp; [left; eauto|].
  destruct (N.eqb c 10); [left; eauto|]. destruct (N.eqb c 9); [left; eauto|]. destruct (N.eqb c 13); [left; eauto|].
  right. split; [reflexivity|]. repeat rewrite orb_false_iff in Esp. destruct Esp as [[[[E1 E2] E3] E4] E5].
  unfold is_special. rewrite E1, E2, E4, E3, E5. reflexivity.
Qed.

Lemma star_split_esc s : forall fuel rest,
  (length (esc s ++ rest) < fuel)%nat -> run split_alt true rest = None ->
  star_loop (run split_alt true) fuel (esc s ++ rest) = Some (esc s, [], rest).
Proof.
  induction s as [|c s IH]; intros fuel rest Hlen Hstop.
  - destruct fuel; [cbn in Hlen; lia|]. rewrite star_loop_S. cbn [esc flat_map app]. rewrite Hstop. reflexivity.
  - destruct fuel as [|fuel]; [lia|]. rewrite star_loop_S.
    unfold esc in *. cbn [flat_map] in *. rewrite <- app_assoc in *.
    destruct (esc_cp_cases c) as [[y He] | [He Hns]]; rewrite He in *.
    + change ([92; y] ++ flat_map esc_cp s ++ rest) with (92 :: y :: (flat_map esc_cp s ++ rest)) in *.
      rewrite split_step_escaped.
      assert (Hlt: Nat.ltb (length (flat_map esc_cp s ++ rest)) (length (92 :: y :: flat_map esc_cp s ++ rest)) = true)
        by (apply Nat.ltb_lt; cbn [length]; lia).
      rewrite Hlt. rewrite IH by (cbn [length] in Hlen; try lia; exact Hstop). reflexivity.
    + change ([c] ++ flat_map esc_cp s ++ rest) with (c :: (flat_map esc_cp s ++ rest)) in *.
      rewrite (split_step_plain c _ Hns).
      assert (Hlt: Nat.ltb (length (flat_map esc_cp s ++ rest)) (length (c :: flat_map esc_cp s ++ rest)) = true)
        by (apply Nat.ltb_lt; cbn [length]; lia).
      rewrite Hlt. rewrite IH by (cbn [length] in Hlen; try lia; exact Hstop). reflexivity.
Qed.

Lemma run_split_arg s t :
  run r_split_arg false (esc s ++ 58 :: 46 :: 46 :: t) = Some (esc s, [Node (Some R_split_arg) (esc s) []], 58 :: 46 :: 46 :: t).
Proof.
  unfold r_split_arg. rewrite run_rule_atomic. cbn [run]. fold split_alt.
  rewrite star_split_esc; [reflexivity | lia | apply split_stop_at_range].
Qed.

Lemma run_range_full_then_rbrace t :
  run (POpt r_range_spec) false (46 :: 46 :: 125 :: t)
  = Some ([46; 46], [Node (Some R_range_spec) [46; 46] [Node (Some R_range_exclusive) [46; 46] []]], 125 :: t).
Proof. reflexivity. Qed.

Lemma run_rule_normal (id : rule) (body : peg rule) inp :
  run (PRule id Normal body) false inp =
    match run body false inp with Some (t, k, r) => Some (t, [Node (Some id) t k], r) | None => None end.
Proof. reflexivity. Qed.
Lemma run_seq (a b : peg rule) at_ inp : run (PSeq a b) at_ inp = seq_res rule (run a at_ inp) (run b at_).
Proof. reflexivity. Qed.
Lemma run_str (p : str) at_ r : run (@PStr rule p) at_ (p ++ r) = Some (p, [], r).
Proof. cbn [run]. rewrite strip_prefix_app. reflexivity. Qed.
Lemma seq_res_some t1 k1 r1 (f : str -> res rule) :
  seq_res rule (Some (t1, k1, r1)) f =
    match f r1 with Some (t2, k2, r2) => Some (t1 ++ t2, k1 ++ k2, r2) | None => None end.
Proof. reflexivity. Qed.

Lemma run_split_full s t :
  run r_split false ([115; 112; 108; 105; 116] ++ [58] ++ esc s ++ [58] ++ 46 :: 46 :: 125 :: t)
  = Some ([115; 112; 108; 105; 116] ++ [58] ++ esc s ++ [58] ++ [46; 46],
          [Node (Some R_split) ([115; 112; 108; 105; 116] ++ [58] ++ esc s ++ [58] ++ [46; 46])
             [Node (Some R_split_arg) (esc s) []; Node (Some R_range_spec) [46; 46] [Node (Some R_range_exclusive) [46; 46] []]]],
          125 :: t).
Proof.
  unfold r_split. rewrite run_rule_normal.
  rewrite run_seq, run_str, seq_res_some.
  rewrite run_seq, run_str, seq_res_some.
  rewrite run_seq. change (esc s ++ [58] ++ 46 :: 46 :: 125 :: t) with (esc s ++ 58 :: 46 :: 46 :: 125 :: t).
  rewrite run_split_arg, seq_res_some.
  rewrite run_seq. change (58 :: 46 :: 46 :: 125 :: t) with ([58] ++ 46 :: 46 :: 125 :: t).
  rewrite run_str, seq_res_some, run_range_full_then_rbrace.
  cbn [app]. rewrite <- ?app_assoc. cbn [app]. rewrite ?app_nil_r. reflexivity.
Qed.

Theorem split_block : forall s,
  parse_template ([123; 115; 112; 108; 105; 116; 58] ++ esc s ++ [58; 46; 46; 125]) = Ok ([Split s (Range None None false)], false).
Proof.
  intros s; cbn [app];
  unfold parse_template, r_template; cbn [run seq_res strip_prefix N.eqb Pos.eqb].
  match goal with |- context [run r_debug_flag false ?i] =>
    let H := fresh in assert (H: run r_debug_flag false i = None) by reflexivity; rewrite H; clear H end.
  cbn [seq_res]. unfold r_operation_list; cbn [run seq_res]. unfold r_operation; cbn [run].
  kill_alts.
  match goal with |- context [run r_split false (?c :: ?t)] =>
    change (run r_split false (c :: t)) with (run r_split false ([115; 112; 108; 105; 116] ++ [58] ++ esc s ++ [58] ++ 46 :: 46 :: 125 :: [])) end.
  rewrite run_split_full. cbn [seq_res].
  rewrite star_loop_S; cbn [run seq_res strip_prefix N.eqb Pos.eqb].
  cbn -[process_arg esc]. rewrite process_arg_esc. reflexivity.
Qed.

(* ---- up to the template object and to format() ---------------------------------- *)
Lemma single_scan_esc s : forall rest d, single_scan (esc s ++ rest) d false = single_scan rest d false.
Proof.
  induction s as [|c s IH]; intros rest d; [reflexivity|].
  unfold esc in *. cbn [flat_map]. rewrite <- app_assoc.
  destruct (esc_cp_cases c) as [[y He] | [He Hns]]; rewrite He.
  - change ([92; y] ++ flat_map esc_cp s ++ rest) with (92 :: y :: (flat_map esc_cp s ++ rest)).
    cbn [single_scan]. unfold c_bslash. rewrite N.eqb_refl. apply IH.
  - change ([c] ++ flat_map esc_cp s ++ rest) with (c :: (flat_map esc_cp s ++ rest)).
    unfold is_special in Hns. repeat rewrite orb_false_iff in Hns. destruct Hns as [[[[H1 H2] H3] H4] H5].
    cbn [single_scan]. unfold c_bslash, c_lbrace, c_rbrace. rewrite H5, H4, H3. apply IH.
Qed.

Definition plain_kw (kw : str) : Prop := forall d, single_scan kw d false = Some (d, false) /\ True.

Lemma single_scan_app_plain kw : (forall c, In c kw -> N.eqb c 92 = false /\ N.eqb c 123 = false /\ N.eqb c 125 = false) ->
  forall rest d, single_scan (kw ++ rest) d false = single_scan rest d false.
Proof.
  induction kw as [|c kw IH]; intros H rest d; [reflexivity|]. cbn [app single_scan].
  destruct (H c (or_introl eq_refl)) as (H1 & H2 & H3). unfold c_bslash, c_lbrace, c_rbrace. rewrite H1, H2, H3.
  apply IH. intros x Hx. apply H. right. exact Hx.
Qed.

Theorem escaped_block_is_single kw s ops :
  (forall c, In c kw -> N.eqb c 92 = false /\ N.eqb c 123 = false /\ N.eqb c 125 = false) ->
  parse_template (123 :: kw ++ esc s ++ [125]) = Ok (ops, false) ->
  template_parse (123 :: kw ++ esc s ++ [125])
  = Ok {| t_raw := 123 :: kw ++ esc s ++ [125]; t_sections := [Sec ops]; t_debug := false |}.
Proof.
  intros Hkw Hp. unfold template_parse, try_single_block.
  assert (Hs: is_single_block (123 :: kw ++ esc s ++ [125]) = true).
  { unfold is_single_block. rewrite frev_rev. rewrite app_assoc, rev_app_distr. cbn [rev app].
    unfold c_lbrace, c_rbrace. rewrite !N.eqb_refl. cbn [andb]. rewrite frev_rev, rev_involutive.
    rewrite <- (app_nil_r (kw ++ esc s)), <- app_assoc.
    rewrite (single_scan_app_plain kw Hkw), single_scan_esc. reflexivity. }
  rewrite Hs, Hp. reflexivity.
Qed.

Ltac kw_plain := intros c Hc; cbn [In] in Hc;
  repeat match goal with H : _ \/ _ |- _ => destruct H as [<-|H] | H : False |- _ => destruct H end; repeat split; reflexivity.

(* C11, user level, for every text s and every input x *)
Section UserLevel.
Variable E : Env.
Hypothesis HL1 : L1 replace_meta E.

Lemma format_of_single_section t ops x :
  t_sections t = [Sec ops] -> run_pure (impl_format E t x) = spec_run E ops x.
Proof.
  intros Hs. rewrite (Proofs.TemplateP.format_refines E HL1), Hs. apply Proofs.TemplateLaws.spec_format_section.
Qed.

Theorem append_escaped_roundtrip s x :
  bind (template_parse ([123; 97; 112; 112; 101; 110; 100; 58] ++ esc s ++ [125])) (fun t => run_pure (impl_format E t x)) = Ok (x ++ s).
Proof.
  change ([123; 97; 112; 112; 101; 110; 100; 58] ++ esc s ++ [125]) with (123 :: [97; 112; 112; 101; 110; 100; 58] ++ esc s ++ [125]).
  rewrite (escaped_block_is_single _ s [Append s]); [| kw_plain | apply append_block].
  cbn [bind]. rewrite (format_of_single_section _ [Append s]) by reflexivity. reflexivity.
Qed.

Theorem prepend_escaped_roundtrip s x :
  bind (template_parse ([123; 112; 114; 101; 112; 101; 110; 100; 58] ++ esc s ++ [125])) (fun t => run_pure (impl_format E t x)) = Ok (s ++ x).
Proof.
  change ([123; 112; 114; 101; 112; 101; 110; 100; 58] ++ esc s ++ [125]) with (123 :: [112; 114; 101; 112; 101; 110; 100; 58] ++ esc s ++ [125]).
  rewrite (escaped_block_is_single _ s [Prepend s]); [| kw_plain | apply prepend_block].
  cbn [bind]. rewrite (format_of_single_section _ [Prepend s]) by reflexivity. reflexivity.
Qed.

Theorem surround_escaped_roundtrip s x :
  bind (template_parse ([123; 115; 117; 114; 114; 111; 117; 110; 100; 58] ++ esc s ++ [125])) (fun t => run_pure (impl_format E t x)) = Ok (s ++ x ++ s).
Proof.
  change ([123; 115; 117; 114; 114; 111; 117; 110; 100; 58] ++ esc s ++ [125]) with (123 :: [115; 117; 114; 114; 111; 117; 110; 100; 58] ++ esc s ++ [125]).
  rewrite (escaped_block_is_single _ s [Surround s]); [| kw_plain | apply surround_block].
  cbn [bind]. rewrite (format_of_single_section _ [Surround s]) by reflexivity. reflexivity.
Qed.

Theorem quote_escaped_roundtrip s x :
  bind (template_parse ([123; 113; 117; 111; 116; 101; 58] ++ esc s ++ [125])) (fun t => run_pure (impl_format E t x)) = Ok (s ++ x ++ s).
Proof.
  change ([123; 113; 117; 111; 116; 101; 58] ++ esc s ++ [125]) with (123 :: [113; 117; 111; 116; 101; 58] ++ esc s ++ [125]).
  rewrite (escaped_block_is_single _ s [Surround s]); [| kw_plain | apply quote_block].
  cbn [bind]. rewrite (format_of_single_section _ [Surround s]) by reflexivity. reflexivity.
Qed.
End UserLevel.
