(* C09, the other direction: splitting a joined list gives the list back, for a
   one-character separator that occurs in no item *)
From SP Require Import Model.Split Proofs.SplitP.

Lemma split_char_go_free c : forall x cur rest,
  mem_cp c x = false ->
  split_char_go c (x ++ rest) cur = split_char_go c rest (rev x ++ cur).
Proof.
  induction x as [|d x IH]; intros cur rest Hf; [reflexivity|].
  cbn [mem_cp existsb] in Hf. apply orb_false_iff in Hf as [Hd Hx].
  cbn [app split_char_go]. rewrite Hd. rewrite IH by exact Hx.
  cbn [rev]. rewrite <- app_assoc. reflexivity.
Qed.

Lemma split_char_go_join c : forall l cur,
  l <> [] -> forallb (fun x => negb (mem_cp c x)) l = true ->
  split_char_go c (join [c] l) cur =
    match l with [] => [] | x :: rest => (rev cur ++ x) :: rest end.
Proof.
  induction l as [|x l IH]; intros cur Hne Hall; [congruence|].
  cbn [forallb] in Hall. apply andb_true_iff in Hall as [Hx Hl].
  apply negb_true_iff in Hx.
  destruct l as [|y l].
  - cbn [join]. rewrite <- (app_nil_r x) at 1. rewrite split_char_go_free by exact Hx.
    cbn [split_char_go]. rewrite frev_rev, rev_app_distr, rev_involutive. reflexivity.
  - rewrite join_cons by discriminate. rewrite split_char_go_free by exact Hx.
    cbn [app split_char_go]. rewrite N.eqb_refl.
    rewrite frev_rev, rev_app_distr, rev_involutive. f_equal.
    rewrite IH by (discriminate || exact Hl). reflexivity.
Qed.

Theorem split_join_id (c : N) (l : list str) :
  l <> [] -> forallb (fun x => negb (mem_cp c x)) l = true ->
  split (join [c] l) [c] = l.
Proof.
  intros Hne Hall. rewrite <- split_char_is_split. unfold split_char.
  rewrite split_char_go_join by assumption. destruct l; [congruence | reflexivity].
Qed.

(* the side condition is needed: an item containing the separator is cut *)
Example split_join_needs_free_items :
  split (join [44]%N [[97; 44; 98]%N]) [44]%N = [[97]%N; [98]%N].
Proof. reflexivity. Qed.

(* number of pieces = number of separator occurrences + 1 (one-character separator) *)
Theorem split_char_count (c : N) (s : str) :
  length (split s [c]) = S (length (filter (N.eqb c) s)).
Proof.
  rewrite <- split_char_is_split. unfold split_char. generalize (@nil N) as cur.
  induction s as [|d s IH]; intros cur; cbn [split_char_go filter]; [reflexivity|].
  destruct (N.eqb c d); cbn [length]; rewrite IH; reflexivity.
Qed.
