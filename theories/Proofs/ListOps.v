(* C15: algebraic laws of the list operations of the Spec layer. *)
From SP Require Import Model.Ops Proofs.StrP.
From Coq Require Import Permutation Sorted.
Local Open Scope N_scope.

(* ---- the order ------------------------------------------------------- *)
Lemma str_leb_refl a : str_leb a a = true.
Proof. induction a as [|x a IH]; [reflexivity|]. cbn [str_leb]. rewrite N.ltb_irrefl, N.eqb_refl. exact IH. Qed.

Lemma str_leb_total a b : str_leb a b = true \/ str_leb b a = true.
Proof.
  revert b; induction a as [|x a IH]; intros [|y b]; cbn [str_leb]; auto.
  destruct (N.ltb_spec x y), (N.ltb_spec y x); auto; try lia.
  assert (x = y) by lia. subst. rewrite N.eqb_refl. apply IH.
Qed.

Lemma str_leb_antisym a b : str_leb a b = true -> str_leb b a = true -> a = b.
Proof.
  revert b; induction a as [|x a IH]; intros [|y b]; cbn [str_leb]; try discriminate; auto.
  destruct (N.ltb_spec x y), (N.ltb_spec y x); try lia; try discriminate.
  - destruct (N.eqb_spec y x); [lia | discriminate].
  - destruct (N.eqb_spec x y); [lia | discriminate].
  - assert (x = y) by lia. subst. rewrite N.eqb_refl. intros H1 H2. f_equal. apply IH; assumption.
Qed.

Lemma str_leb_trans a b c : str_leb a b = true -> str_leb b c = true -> str_leb a c = true.
Proof.
  revert b c; induction a as [|x a IH]; intros [|y b] [|z c]; cbn [str_leb]; try discriminate; auto.
  destruct (N.ltb_spec x y), (N.ltb_spec y z), (N.ltb_spec x z); try reflexivity; try lia;
    destruct (N.eqb_spec x y), (N.eqb_spec y z), (N.eqb_spec x z); try discriminate; try lia; try reflexivity.
  apply IH.
Qed.

Definition sle (a b : str) : Prop := str_leb a b = true.

(* ---- sort -------------------------------------------------------------- *)
Lemma insert_perm x l : Permutation (insert_sorted x l) (x :: l).
Proof.
  induction l as [|y l IH]; cbn [insert_sorted]; [reflexivity|].
  destruct (str_leb x y); [reflexivity|]. rewrite IH. apply perm_swap.
Qed.

Theorem sort_perm l : Permutation (sort_asc l) l.
Proof. induction l as [|x l IH]; [reflexivity|]. cbn [sort_asc]. rewrite insert_perm. now constructor. Qed.

Lemma insert_sorted_sorted x l : StronglySorted sle l -> StronglySorted sle (insert_sorted x l).
Proof.
  induction l as [|y l IH]; intros Hs; cbn [insert_sorted].
  - repeat constructor.
  - inversion Hs as [|? ? Hs' Hall]; subst. destruct (str_leb x y) eqn:E.
    + constructor; [exact Hs|]. constructor; [exact E|].
      eapply Forall_impl; [|exact Hall]. intros z Hz. unfold sle in *. eapply str_leb_trans; eauto.
    + constructor; [apply IH; exact Hs'|].
      assert (Hyx: sle y x) by (destruct (str_leb_total x y); [congruence | assumption]).
      rewrite (Forall_forall). intros z Hz.
      apply (Permutation_in _ (insert_perm x l)) in Hz. destruct Hz as [<-|Hz]; [exact Hyx|].
      rewrite Forall_forall in Hall. apply Hall. exact Hz.
Qed.

Theorem sort_sorted l : StronglySorted sle (sort_asc l).
Proof. induction l as [|x l IH]; [constructor|]. cbn [sort_asc]. apply insert_sorted_sorted. exact IH. Qed.

(* a sorted permutation is unique: the choice of sorting algorithm in the model
   is without loss of generality with respect to slice::sort *)
Theorem sorted_perm_unique l1 : forall l2,
  StronglySorted sle l1 -> StronglySorted sle l2 -> Permutation l1 l2 -> l1 = l2.
Proof.
  induction l1 as [|x l1 IH]; intros l2 H1 H2 HP.
  - apply Permutation_nil in HP. now subst.
  - destruct l2 as [|y l2]; [apply Permutation_sym, Permutation_nil in HP; discriminate|].
    inversion H1 as [|? ? H1' Hall1]; inversion H2 as [|? ? H2' Hall2]; subst.
    assert (x = y).
    { rewrite Forall_forall in Hall1, Hall2.
      assert (Hy: In y (x :: l1)) by (eapply Permutation_in; [apply Permutation_sym; exact HP | left; reflexivity]).
      assert (Hx: In x (y :: l2)) by (eapply Permutation_in; [exact HP | left; reflexivity]).
      destruct Hy as [->|Hy]; [reflexivity|]. destruct Hx as [->|Hx]; [reflexivity|].
      apply str_leb_antisym; [apply Hall1; exact Hy | apply Hall2; exact Hx]. }
    subst. f_equal. apply IH; auto. eapply Permutation_cons_inv. exact HP.
Qed.

Corollary sort_characterised l s : StronglySorted sle s -> Permutation s l -> s = sort_asc l.
Proof.
  intros Hs Hp. apply sorted_perm_unique; [exact Hs | apply sort_sorted|].
  rewrite Hp. symmetry. apply sort_perm.
Qed.

Lemma sort_idempotent l : sort_asc (sort_asc l) = sort_asc l.
Proof. symmetry. apply sort_characterised; [apply sort_sorted | reflexivity]. Qed.

(* ---- order-preserving sub-lists ---------------------------------------- *)
Inductive subseq {A} : list A -> list A -> Prop :=
| sub_nil : subseq [] []
| sub_skip x l1 l2 : subseq l1 l2 -> subseq l1 (x :: l2)
| sub_keep x l1 l2 : subseq l1 l2 -> subseq (x :: l1) (x :: l2).

Lemma subseq_refl {A} (l : list A) : subseq l l.
Proof. induction l as [|x l IH]; [apply sub_nil | apply sub_keep; exact IH]. Qed.
Lemma subseq_incl {A} (a b : list A) : subseq a b -> incl a b.
Proof.
  induction 1; intros z Hz; auto.
  - right. apply IHsubseq. exact Hz.
  - destruct Hz as [<-|Hz]; [left; reflexivity | right; apply IHsubseq; exact Hz].
Qed.
Lemma filter_subseq {A} (f : A -> bool) l : subseq (filter f l) l.
Proof. induction l as [|x l IH]; [constructor|]. cbn [filter]. destruct (f x); [apply sub_keep | apply sub_skip]; exact IH. Qed.

(* ---- unique ------------------------------------------------------------ *)
Lemma existsb_str_eqb x seen : existsb (str_eqb x) seen = true <-> In x seen.
Proof.
  rewrite existsb_exists. split.
  - intros [y [Hy He]]. apply str_eqb_eq in He. now subst.
  - intros H. exists x. split; [exact H | apply str_eqb_refl].
Qed.

Lemma unique_go_In seen l x : In x (unique_go seen l) <-> (In x l /\ ~ In x seen).
Proof.
  revert seen; induction l as [|y l IH]; intros seen; cbn [unique_go].
  - cbn. tauto.
  - destruct (existsb (str_eqb y) seen) eqn:E.
    + apply existsb_str_eqb in E. rewrite IH. cbn [In]. split; [tauto|].
      intros [[<-|H] Hn]; [contradiction | tauto].
    + assert (Hy: ~ In y seen) by (intros H; apply existsb_str_eqb in H; congruence).
      cbn [In]. rewrite IH. cbn [In]. split.
      * intros [<-|[H Hn]]; [tauto | tauto].
      * intros [[<-|H] Hn]; [tauto|]. destruct (list_eq_dec N.eq_dec y x) as [->|Hne]; [tauto|]. right. tauto.
Qed.

Lemma unique_go_NoDup seen l : NoDup (unique_go seen l).
Proof.
  revert seen; induction l as [|y l IH]; intros seen; cbn [unique_go]; [constructor|].
  destruct (existsb (str_eqb y) seen); [apply IH|]. constructor; [|apply IH].
  rewrite unique_go_In. cbn [In]. tauto.
Qed.

Lemma unique_go_subseq seen l : subseq (unique_go seen l) l.
Proof.
  revert seen; induction l as [|y l IH]; intros seen; cbn [unique_go]; [constructor|].
  destruct (existsb (str_eqb y) seen); [apply sub_skip | apply sub_keep]; apply IH.
Qed.

Theorem unique_nodup l : NoDup (unique l).
Proof. apply unique_go_NoDup. Qed.
Theorem unique_same_set l x : In x (unique l) <-> In x l.
Proof. unfold unique. rewrite unique_go_In. cbn. tauto. Qed.
Theorem unique_subseq l : subseq (unique l) l.
Proof. apply unique_go_subseq. Qed.

Lemma unique_go_app seen p q :
  unique_go seen (p ++ q) = unique_go seen p ++ unique_go (rev (unique_go seen p) ++ seen) q.
Proof.
  revert seen; induction p as [|y p IH]; intros seen; cbn [app unique_go]; [reflexivity|].
  destruct (existsb (str_eqb y) seen) eqn:E; [apply IH|].
  cbn [app rev]. rewrite IH. f_equal. rewrite <- app_assoc. reflexivity.
Qed.

Lemma unique_go_seen_ext seen1 seen2 l :
  (forall x, In x seen1 <-> In x seen2) -> unique_go seen1 l = unique_go seen2 l.
Proof.
  revert seen1 seen2; induction l as [|y l IH]; intros s1 s2 H; cbn [unique_go]; [reflexivity|].
  assert (E: existsb (str_eqb y) s1 = existsb (str_eqb y) s2).
  { destruct (existsb (str_eqb y) s1) eqn:E1, (existsb (str_eqb y) s2) eqn:E2; try reflexivity.
    - apply existsb_str_eqb, H, existsb_str_eqb in E1. congruence.
    - apply existsb_str_eqb, H, existsb_str_eqb in E2. congruence. }
  rewrite E. destruct (existsb (str_eqb y) s2); [apply IH; exact H|].
  f_equal. apply IH. intros x. cbn [In]. rewrite H. tauto.
Qed.

(* the kept occurrence of x is the first one: everything kept before it is
   exactly what unique keeps of the prefix *)
Theorem unique_first_occurrence p x q : ~ In x p ->
  exists q', unique (p ++ x :: q) = unique p ++ x :: q'.
Proof.
  intros Hn. unfold unique. rewrite unique_go_app. cbn [unique_go].
  assert (E: existsb (str_eqb x) (rev (unique_go [] p) ++ []) = false).
  { destruct (existsb _ _) eqn:E; [|reflexivity]. apply existsb_str_eqb in E.
    rewrite app_nil_r in E. apply in_rev in E. apply unique_go_In in E. tauto. }
  rewrite E. eexists. reflexivity.
Qed.

Theorem unique_idempotent l : unique (unique l) = unique l.
Proof.
  unfold unique. assert (H: forall seen l, NoDup l -> (forall x, In x l -> ~ In x seen) -> unique_go seen l = l).
  { intros seen l0; revert seen; induction l0 as [|y l0 IH]; intros seen Hnd Hs; [reflexivity|].
    cbn [unique_go]. inversion Hnd; subst.
    assert (E: existsb (str_eqb y) seen = false).
    { destruct (existsb _ _) eqn:E; [|reflexivity]. apply existsb_str_eqb in E. exfalso. eapply Hs; [left; reflexivity | exact E]. }
    rewrite E. f_equal. apply IH; [assumption|]. intros x Hx [<-|Hin]; [contradiction|]. eapply Hs; [right; exact Hx | exact Hin]. }
  apply H; [apply unique_go_NoDup | intros x _ []].
Qed.

(* ---- filter / filter_not ------------------------------------------------ *)
Theorem filter_partition {A} (f : A -> bool) l :
  Permutation (filter f l ++ filter (fun x => negb (f x)) l) l.
Proof.
  induction l as [|x l IH]; [reflexivity|]. cbn [filter]. destruct (f x); cbn [negb app].
  - now constructor.
  - rewrite <- Permutation_middle. now constructor.
Qed.

Theorem filter_partition_length {A} (f : A -> bool) l :
  (length (filter f l) + length (filter (fun x => negb (f x)) l) = length l)%nat.
Proof. rewrite <- app_length. apply Permutation_length, filter_partition. Qed.

(* the two halves re-interleave to the original: every item goes to exactly one side *)
Theorem filter_exactly_one_side {A} (f : A -> bool) l x :
  In x l -> (In x (filter f l) /\ ~ In x (filter (fun y => negb (f y)) l))
         \/ (~ In x (filter f l) /\ In x (filter (fun y => negb (f y)) l)).
Proof.
  intros H. rewrite !filter_In. destruct (f x) eqn:E; [left | right]; cbn; intuition congruence.
Qed.

(* ---- nothing is invented ------------------------------------------------ *)
Theorem sort_incl l : incl (sort_asc l) l.
Proof. intros x H. eapply Permutation_in; [apply sort_perm | exact H]. Qed.
Theorem rev_incl {A} (l : list A) : incl (rev l) l.
Proof. intros x H. apply in_rev. exact H. Qed.
Theorem filter_incl' {A} (f : A -> bool) l : incl (filter f l) l.
Proof. apply subseq_incl, filter_subseq. Qed.
Theorem unique_incl l : incl (unique l) l.
Proof. apply subseq_incl, unique_subseq. Qed.
