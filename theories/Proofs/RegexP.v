(* C14: the regex operations are the engine's, under every flag combination. *)
From SP Require Import Model.Impl Model.Spec Model.Typing Proofs.ImplSpec Proofs.StrP Proofs.ErrP.

Section R.
Variable E : Env.

Lemma extract_is_engine p g s sep :
  run_pure (impl_single E (RegexExtract p g) (VStr s) sep)
  = if re_valid E p
    then Ok (VStr (match (match g with Some i => re_group E p s i | None => re_find E p s end) with
                   | Some m => m | None => [] end), sep)
    else Err.
Proof.
  cbn [impl_single]. rewrite run_pure_pbind, run_pure_get_cached_regex.
  destruct (re_valid E p); reflexivity.
Qed.

Lemma filter_is_engine p l sep :
  run_pure (impl_single E (Filter p) (VList l) sep)
  = if re_valid E p then Ok (VList (filter (fun s => re_is_match E p s) l), sep) else Err.
Proof.
  cbn [impl_single]. rewrite run_pure_pbind, run_pure_get_cached_regex.
  destruct (re_valid E p); reflexivity.
Qed.

Lemma filter_not_is_engine p l sep :
  run_pure (impl_single E (FilterNot p) (VList l) sep)
  = if re_valid E p then Ok (VList (filter (fun s => negb (re_is_match E p s)) l), sep) else Err.
Proof.
  cbn [impl_single]. rewrite run_pure_pbind, run_pure_get_cached_regex.
  destruct (re_valid E p); reflexivity.
Qed.

Lemma filter_string_is_engine p s sep :
  run_pure (impl_single E (Filter p) (VStr s) sep)
  = if re_valid E p then Ok (VStr (if re_is_match E p s then s else []), sep) else Err.
Proof.
  cbn [impl_single]. rewrite run_pure_pbind, run_pure_get_cached_regex.
  destruct (re_valid E p); reflexivity.
Qed.

Hypothesis HL1 : L1 replace_meta E.

Lemma replace_is_engine pat repl flags s sep :
  run_pure (impl_single E (Replace pat repl flags) (VStr s) sep)
  = if re_valid E (flag_prefix flags ++ pat)
    then Ok (VStr (re_replace E (has_g flags) (flag_prefix flags ++ pat) s repl), sep)
    else Err.
Proof.
  rewrite (impl_single_refines E HL1) by discriminate.
  cbn [spec_step]. unfold spec_replace. destruct (re_valid E _); reflexivity.
Qed.

Lemma invalid_pattern_is_error o v sep p :
  (forall b, o <> Map b) -> regex_used o v = Some p -> re_valid E p = false ->
  run_pure (impl_single E o v sep) = Err.
Proof.
  intros Hm Hu Hv. rewrite (impl_single_refines E HL1) by exact Hm.
  apply step_err_iff. right. left. exists p. split; assumption.
Qed.

End R.

Lemma mem_cp_ext c f1 f2 : (forall x, In x f1 <-> In x f2) -> mem_cp c f1 = mem_cp c f2.
Proof.
  intros H. destruct (mem_cp c f1) eqn:E1, (mem_cp c f2) eqn:E2; try reflexivity.
  - apply mem_cp_In, H, mem_cp_In in E1. congruence.
  - apply mem_cp_In, H, mem_cp_In in E2. congruence.
Qed.

(* the flag letters may be written in any order and repeated *)
Lemma flag_prefix_perm f1 f2 : (forall c, In c f1 <-> In c f2) -> flag_prefix f1 = flag_prefix f2 /\ has_g f1 = has_g f2.
Proof.
  intros H. unfold flag_prefix, inline_flags, has_g. split; [|apply mem_cp_ext; exact H].
  rewrite (filter_ext (fun c => mem_cp c f1) (fun c => mem_cp c f2)); [reflexivity|].
  intros c. apply mem_cp_ext. exact H.
Qed.

Lemma flag_prefix_table (g i m s : bool) :
  let fl : str := ((if g then [103] else []) ++ (if i then [105] else []) ++ (if m then [109] else []) ++ (if s then [115] else []))%N in
  flag_prefix fl = (if (i || m || s)%bool then [40; 63] ++ (if i then [105] else []) ++ (if m then [109] else []) ++ (if s then [115] else []) ++ [41] else [])%N
  /\ has_g fl = g.
Proof. destruct g, i, m, s; vm_compute; split; reflexivity. Qed.
