(* C01, error half: the documented semantics fails exactly when a reached
   operation gets a kind it does not accept or uses an invalid regular expression
   (for map: when that happens inside the sub-pipeline of some item). *)
From SP Require Import Model.Typing Proofs.TypingP Proofs.MapSepP Proofs.ImplSpec.

Section Err.
Variable E : Env.

(* the regular expression an operation compiles when it is applied to v *)
Definition regex_used (o : op) (v : value) : option str :=
  match o, v with
  | Filter p, _ | FilterNot p, _ => Some p
  | RegexExtract p _, VStr _ => Some p
  | Replace pat _ flags, VStr _ => Some (flag_prefix flags ++ pat)
  | _, _ => None
  end.

Lemma mapM_err_iff {A B} (f : A -> outcome B) l :
  (forall x, f x <> Panic) ->
  (mapM f l = Err <-> exists x, In x l /\ f x = Err).
Proof.
  intros Hnp. induction l as [|a l IH]; cbn [mapM].
  - split; [discriminate | intros [x [[] _]]].
  - destruct (f a) as [b| |] eqn:Ea; cbn [bind].
    + destruct (mapM f l) as [bs| |] eqn:El; cbn [bind].
      * split; [discriminate|]. intros [x [[<-|Hin] Hx]]; [congruence|].
        destruct IH as [_ IH2]. assert (Hbad: Ok bs = Err) by (apply IH2; eauto). discriminate Hbad.
      * split; [intros _|reflexivity]. destruct IH as [IH1 _]. destruct (IH1 eq_refl) as [x [Hin Hx]]. exists x; split; [right|]; assumption.
      * split; [discriminate|]. intros [x [[<-|Hin] Hx]]; [congruence|].
        destruct IH as [_ IH2]. assert (Hbad: @Panic (list B) = Err) by (apply IH2; eauto). discriminate Hbad.
    + split; [intros _; exists a; split; [left; reflexivity | exact Ea] | reflexivity].
    + exfalso. eapply Hnp. exact Ea.
Qed.

Lemma str_only_err v f sep : str_only v f sep = Err <-> kind_of v = KList.
Proof. destruct v; cbn; split; congruence. Qed.
Lemma list_only_err v f sep : list_only v f sep = Err <-> kind_of v = KStr.
Proof. destruct v; cbn; split; congruence. Qed.

Theorem step_err_iff o v sep :
  spec_step E o v sep = Err <->
  ( kind_step (kind_of v) o = None
    \/ (exists p, regex_used o v = Some p /\ re_valid E p = false)
    \/ (exists body l item, o = Map body /\ v = VList l /\ In item l /\ spec_run E body item = Err) ).
Proof.
  (* operations that need a string *)
  assert (Hstr: forall o f, (forall v sep, spec_step E o v sep = str_only v f sep) ->
            (forall k, kind_step k o = match k with KStr => Some KStr | KList => None end) ->
            (forall v, regex_used o v = None) -> (forall b, o <> Map b) ->
            forall v sep, spec_step E o v sep = Err <->
              ( kind_step (kind_of v) o = None
                \/ (exists p, regex_used o v = Some p /\ re_valid E p = false)
                \/ (exists body l item, o = Map body /\ v = VList l /\ In item l /\ spec_run E body item = Err) )).
  { intros o0 f Hs Hk Hr Hm v0 sep0. rewrite Hs, str_only_err, Hk. split.
    - intros ->. left. reflexivity.
    - intros [H|[[p [Hp _]]|(b & l & it & Ho & _)]].
      + destruct (kind_of v0); [discriminate | reflexivity].
      + rewrite Hr in Hp. discriminate.
      + exfalso. eapply Hm. exact Ho. }
  assert (Hlist: forall o f, (forall v sep, spec_step E o v sep = list_only v f sep) ->
            (forall k, kind_step k o = match k with KList => Some KList | KStr => None end) ->
            (forall v, regex_used o v = None) -> (forall b, o <> Map b) ->
            forall v sep, spec_step E o v sep = Err <->
              ( kind_step (kind_of v) o = None
                \/ (exists p, regex_used o v = Some p /\ re_valid E p = false)
                \/ (exists body l item, o = Map body /\ v = VList l /\ In item l /\ spec_run E body item = Err) )).
  { intros o0 f Hs Hk Hr Hm v0 sep0. rewrite Hs, list_only_err, Hk. split.
    - intros ->. left. reflexivity.
    - intros [H|[[p [Hp _]]|(b & l & it & Ho & _)]].
      + destruct (kind_of v0); [reflexivity | discriminate].
      + rewrite Hr in Hp. discriminate.
      + exfalso. eapply Hm. exact Ho. }
  (* operations that never fail *)
  assert (Hany: forall o, (forall v sep, exists r, spec_step E o v sep = Ok r) ->
            (forall k, kind_step k o <> None) ->
            (forall v, regex_used o v = None) -> (forall b, o <> Map b) ->
            forall v sep, spec_step E o v sep = Err <->
              ( kind_step (kind_of v) o = None
                \/ (exists p, regex_used o v = Some p /\ re_valid E p = false)
                \/ (exists body l item, o = Map body /\ v = VList l /\ In item l /\ spec_run E body item = Err) )).
  { intros o0 Hs Hk Hr Hm v0 sep0. destruct (Hs v0 sep0) as [r ->]. split; [discriminate|].
    intros [H|[[p [Hp _]]|(b & l & it & Ho & _)]].
    - exfalso. eapply Hk. exact H.
    - rewrite Hr in Hp. discriminate.
    - exfalso. eapply Hm. exact Ho. }
  destruct o.
  - apply Hany; [intros; eexists; reflexivity | intros k; destruct r; discriminate | intros [|]; reflexivity | discriminate].
  - apply Hany; [intros; eexists; reflexivity | discriminate | intros [|]; reflexivity | discriminate].
  - (* Replace *)
    destruct v as [s|l]; cbn [spec_step kind_step kind_of regex_used].
    + unfold spec_replace. destruct (re_valid E (flag_prefix flags ++ pat)) eqn:Ev; cbn [omap].
      * split; [discriminate|]. intros [H|[[p [Hp Hv]]|(b & l & it & Ho & _)]]; try discriminate. injection Hp as <-. congruence.
      * split; [intros _; right; left; eexists; split; [reflexivity | exact Ev] | reflexivity].
    + split; [left; reflexivity | reflexivity].
  - eapply Hstr; [reflexivity | intros [|]; reflexivity | intros [|]; reflexivity | discriminate].
  - eapply Hstr; [reflexivity | intros [|]; reflexivity | intros [|]; reflexivity | discriminate].
  - eapply Hstr; [reflexivity | intros [|]; reflexivity | intros [|]; reflexivity | discriminate].
  - eapply Hstr; [reflexivity | intros [|]; reflexivity | intros [|]; reflexivity | discriminate].
  - eapply Hstr; [reflexivity | intros [|]; reflexivity | intros [|]; reflexivity | discriminate].
  - eapply Hstr; [reflexivity | intros [|]; reflexivity | intros [|]; reflexivity | discriminate].
  - eapply Hstr; [reflexivity | intros [|]; reflexivity | intros [|]; reflexivity | discriminate].
  - eapply Hstr; [reflexivity | intros [|]; reflexivity | intros [|]; reflexivity | discriminate].
  - (* Filter *)
    cbn [spec_step]. unfold spec_filter. destruct (re_valid E p) eqn:Ev; cbn [omap].
    + split; [discriminate|]. intros [H|[[q [Hq Hv]]|(b & l & it & Ho & _)]];
        [cbn in H; discriminate H | | discriminate Ho].
      destruct v; injection Hq as <-; congruence.
    + split; [intros _; right; left; exists p; split; [destruct v; reflexivity | exact Ev] | reflexivity].
  - (* FilterNot *)
    cbn [spec_step]. unfold spec_filter. destruct (re_valid E p) eqn:Ev; cbn [omap].
    + split; [discriminate|]. intros [H|[[q [Hq Hv]]|(b & l & it & Ho & _)]];
        [cbn in H; discriminate H | | discriminate Ho].
      destruct v; injection Hq as <-; congruence.
    + split; [intros _; right; left; exists p; split; [destruct v; reflexivity | exact Ev] | reflexivity].
  - eapply Hlist; [reflexivity | intros [|]; reflexivity | intros [|]; reflexivity | discriminate].
  - (* Map *)
    destruct v as [s|l].
    + split; [left; reflexivity | reflexivity].
    + rewrite map_is_mapM. split.
      * intros H. right; right.
        destruct (mapM (fun item => spec_run E body item) l) as [l'| |] eqn:Em; try discriminate.
        apply mapM_err_iff in Em as [x [Hin Hx]]; [|intros x; apply spec_steps_no_panic].
        exists body, l, x. auto.
      * intros [H|[[p [Hp _]]|(b & l0 & it & Ho & Hv & Hin & Hr)]]; try discriminate.
        injection Ho as <-. injection Hv as <-.
        assert (Hm: mapM (fun item => spec_run E body item) l = Err).
        { apply mapM_err_iff; [intros x; apply spec_steps_no_panic | eauto]. }
        rewrite Hm. reflexivity.
  - (* Sort *)
    destruct d; eapply Hlist; [reflexivity | intros [|]; reflexivity | intros [|]; reflexivity | discriminate
                              | reflexivity | intros [|]; reflexivity | intros [|]; reflexivity | discriminate].
  - apply Hany; [intros; eexists; reflexivity | discriminate | intros [|]; reflexivity | discriminate].
  - eapply Hlist; [reflexivity | intros [|]; reflexivity | intros [|]; reflexivity | discriminate].
  - eapply Hstr; [reflexivity | intros [|]; reflexivity | intros [|]; reflexivity | discriminate].
  - (* RegexExtract *)
    destruct v as [s|l]; cbn [spec_step kind_step kind_of regex_used].
    + unfold spec_extract. destruct (re_valid E p) eqn:Ev; cbn [omap].
      * split; [discriminate|]. intros [H|[[q [Hq Hv]]|(b & l & it & Ho & _)]]; try discriminate. injection Hq as <-. congruence.
      * split; [intros _; right; left; eexists; split; [reflexivity | exact Ev] | reflexivity].
    + split; [left; reflexivity | reflexivity].
Qed.

(* whole pipelines: Err exactly when some reached step faults; never a partial text *)
Theorem run_err_iff ops : forall v sep,
  spec_steps E ops v sep = Err <->
  exists pre o post v' sep', ops = pre ++ o :: post /\
    (fix run (ops : list op) (v : value) (sep : str) : outcome (value * str) :=
       match ops with
       | [] => Ok (v, sep)
       | o :: ops' => bind (spec_step E o v sep) (fun r => run ops' (fst r) (snd r))
       end) pre v sep = Ok (v', sep') /\ spec_step E o v' sep' = Err.
Proof.
  induction ops as [|o ops IH]; intros v sep; cbn [spec_steps].
  - split; [discriminate|]. intros (pre & o & post & v' & sep' & H & _). destruct pre; discriminate.
  - destruct (spec_step E o v sep) as [[v1 sep1]| |] eqn:Es; cbn [bind fst snd].
    + rewrite IH. split.
      * intros (pre & o' & post & v' & sep' & -> & Hr & He).
        exists (o :: pre), o', post, v', sep'. split; [reflexivity|]. rewrite Es. cbn [bind fst snd]. auto.
      * intros (pre & o' & post & v' & sep' & Heq & Hr & He).
        destruct pre as [|p pre]; cbn [app] in Heq; injection Heq as <- ->.
        -- injection Hr as <- <-. congruence.
        -- rewrite Es in Hr. cbn [bind fst snd] in Hr. exists pre, o', post, v', sep'. auto.
    + split; [intros _|reflexivity]. exists [], o, ops, v, sep. auto.
    + exfalso. eapply spec_step_no_panic. exact Es.
Qed.

End Err.
