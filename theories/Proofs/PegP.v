(* Generic facts about the PEG engine, for any rule type. *)
From SP Require Import Model.Peg.

Section P.
Context {rule : Type}.
Notation peg := (peg rule).
Notation tree := (tree rule).

Lemma strip_prefix_spec p s r : strip_prefix p s = Some r -> s = p ++ r.
Proof.
  revert s; induction p as [|c p IH]; intros s H; cbn [strip_prefix] in H.
  - injection H as ->. reflexivity.
  - destruct s as [|d s]; [discriminate|]. destruct (N.eqb_spec c d); [|discriminate]. subst. cbn. f_equal. apply IH. exact H.
Qed.

Lemma strip_prefix_app p r : strip_prefix p (p ++ r) = Some r.
Proof. induction p as [|c p IH]; cbn; [reflexivity|]. rewrite N.eqb_refl. exact IH. Qed.

(* ---- star_loop ----------------------------------------------------------- *)
Lemma star_loop_0 (f : str -> res rule) inp : star_loop f 0 inp = Some ([], [], inp).
Proof. reflexivity. Qed.
Lemma star_loop_S (f : str -> res rule) fuel inp :
  star_loop f (S fuel) inp =
    match f inp with
    | Some (t1, k1, r1) =>
        if Nat.ltb (length r1) (length inp) then
          match star_loop f fuel r1 with
          | Some (t2, k2, r2) => Some (t1 ++ t2, k1 ++ k2, r2)
          | None => None
          end
        else Some ([], [], inp)
    | None => Some ([], [], inp)
    end.
Proof. reflexivity. Qed.

Lemma star_loop_prop (f : str -> res rule) (Q : str -> list tree -> str -> Prop) :
  (forall inp, Q inp [] inp) ->
  (forall inp t1 k1 r1 k2 r2, f inp = Some (t1, k1, r1) -> Q r1 k2 r2 -> Q inp (k1 ++ k2) r2) ->
  forall fuel inp t k r, star_loop f fuel inp = Some (t, k, r) -> Q inp k r.
Proof.
  intros Hnil Hstep. induction fuel as [|fuel IH]; intros inp t k r H; [rewrite star_loop_0 in H | rewrite star_loop_S in H].
  - injection H as <- <- <-. apply Hnil.
  - destruct (f inp) as [[[t1 k1] r1]|] eqn:Ef; [|injection H as <- <- <-; apply Hnil].
    destruct (Nat.ltb (length r1) (length inp)); [|injection H as <- <- <-; apply Hnil].
    destruct (star_loop f fuel r1) as [[[t2 k2] r2]|] eqn:Es; [|discriminate].
    injection H as <- <- <-. eapply Hstep; [exact Ef | eapply IH; exact Es].
Qed.

Lemma star_loop_text (f : str -> res rule) :
  (forall inp t k r, f inp = Some (t, k, r) -> inp = t ++ r) ->
  forall fuel inp t k r, star_loop f fuel inp = Some (t, k, r) -> inp = t ++ r.
Proof.
  intros Hf. induction fuel as [|fuel IH]; intros inp t k r H; [rewrite star_loop_0 in H | rewrite star_loop_S in H].
  - injection H as <- <- <-. reflexivity.
  - destruct (f inp) as [[[t1 k1] r1]|] eqn:Ef; [|injection H as <- <- <-; reflexivity].
    destruct (Nat.ltb (length r1) (length inp)); [|injection H as <- <- <-; reflexivity].
    destruct (star_loop f fuel r1) as [[[t2 k2] r2]|] eqn:Es; [|discriminate].
    injection H as <- <- <-. rewrite (Hf _ _ _ _ Ef), (IH _ _ _ _ Es), app_assoc. reflexivity.
Qed.

Lemma star_loop_never_fails (f : str -> res rule) fuel inp : star_loop f fuel inp <> None ->  True.
Proof. trivial. Qed.

(* the consumed text is a prefix of the input and the rest is what follows it *)
Theorem run_text (e : peg) : forall a inp t k r, run e a inp = Some (t, k, r) -> inp = t ++ r.
Proof.
  induction e as [s| | |lo hi|e1 IH1 e2 IH2|e1 IH1 e2 IH2|e IH|e IH|e IH|e IH|e IH|id kd body IH];
    intros a inp t k r H; cbn [run] in H.
  - destruct (strip_prefix s inp) eqn:E; [|discriminate]. injection H as <- <- <-. apply strip_prefix_spec. exact E.
  - destruct inp; [discriminate|]. injection H as <- <- <-. reflexivity.
  - destruct inp; [|discriminate]. injection H as <- <- <-. reflexivity.
  - destruct inp; [discriminate|]. destruct (_ && _)%bool; [|discriminate]. injection H as <- <- <-. reflexivity.
  - unfold seq_res in H. destruct (run e1 a inp) as [[[t1 k1] r1]|] eqn:E1; [|discriminate].
    destruct (run e2 a r1) as [[[t2 k2] r2]|] eqn:E2; [|discriminate]. injection H as <- <- <-.
    rewrite (IH1 _ _ _ _ _ E1), (IH2 _ _ _ _ _ E2), app_assoc. reflexivity.
  - destruct (run e1 a inp) as [x|] eqn:E1; [injection H as ->; eapply IH1; exact E1 | eapply IH2; exact H].
  - eapply star_loop_text; [|exact H]. intros; eapply IH; eassumption.
  - unfold seq_res in H. destruct (run e a inp) as [[[t1 k1] r1]|] eqn:E1; [|discriminate].
    destruct (star_loop (run e a) (S (length r1)) r1) as [[[t2 k2] r2]|] eqn:E2; [|discriminate]. injection H as <- <- <-.
    rewrite (IH _ _ _ _ _ E1). rewrite (star_loop_text (run e a) (fun i t k r => IH a i t k r) _ _ _ _ _ E2), app_assoc. reflexivity.
  - destruct (run e a inp) as [x|] eqn:E1; [injection H as ->; eapply IH; exact E1 | injection H as <- <- <-; reflexivity].
  - destruct (run e true inp); [discriminate | injection H as <- <- <-; reflexivity].
  - destruct (run e true inp); [injection H as <- <- <-; reflexivity | discriminate].
  - destruct kd.
    + destruct (run body a inp) as [[[t1 k1] r1]|] eqn:E1; [|discriminate]. injection H as <- <- <-. eapply IH; exact E1.
    + destruct (run body true inp) as [[[t1 k1] r1]|] eqn:E1; [|discriminate]. injection H as <- <- <-. eapply IH; exact E1.
    + eapply IH; exact H.
Qed.

(* inside an atomic context no tokens are produced *)
Theorem run_atomic_no_kids (e : peg) : forall inp t k r, run e true inp = Some (t, k, r) -> k = [].
Proof.
  induction e as [s| | |lo hi|e1 IH1 e2 IH2|e1 IH1 e2 IH2|e IH|e IH|e IH|e IH|e IH|id kd body IH];
    intros inp t k r H; cbn [run] in H.
  - destruct (strip_prefix s inp); [|discriminate]. injection H as <- <- <-. reflexivity.
  - destruct inp; [discriminate|]. injection H as <- <- <-. reflexivity.
  - destruct inp; [|discriminate]. injection H as <- <- <-. reflexivity.
  - destruct inp; [discriminate|]. destruct (_ && _)%bool; [|discriminate]. injection H as <- <- <-. reflexivity.
  - unfold seq_res in H. destruct (run e1 true inp) as [[[t1 k1] r1]|] eqn:E1; [|discriminate].
    destruct (run e2 true r1) as [[[t2 k2] r2]|] eqn:E2; [|discriminate]. injection H as <- <- <-.
    rewrite (IH1 _ _ _ _ E1), (IH2 _ _ _ _ E2). reflexivity.
  - destruct (run e1 true inp) as [x|] eqn:E1; [injection H as ->; eapply IH1; exact E1 | eapply IH2; exact H].
  - eapply (star_loop_prop (run e true) (fun _ k _ => k = [])); [reflexivity | | exact H].
    intros i t1 k1 r1 k2 r2 Hf ->. rewrite (IH _ _ _ _ Hf). reflexivity.
  - unfold seq_res in H. destruct (run e true inp) as [[[t1 k1] r1]|] eqn:E1; [|discriminate].
    destruct (star_loop (run e true) (S (length r1)) r1) as [[[t2 k2] r2]|] eqn:E2; [|discriminate]. injection H as <- <- <-.
    rewrite (IH _ _ _ _ E1). cbn [app].
    eapply (star_loop_prop (run e true) (fun _ k _ => k = [])); [reflexivity | | exact E2].
    intros i t1' k1' r1' k2' r2' Hf ->. rewrite (IH _ _ _ _ Hf). reflexivity.
  - destruct (run e true inp) as [x|] eqn:E1; [injection H as ->; eapply IH; exact E1 | injection H as <- <- <-; reflexivity].
  - destruct (run e true inp); [discriminate | injection H as <- <- <-; reflexivity].
  - destruct (run e true inp); [injection H as <- <- <-; reflexivity | discriminate].
  - destruct kd.
    + destruct (run body true inp) as [[[t1 k1] r1]|] eqn:E1; [|discriminate]. injection H as <- <- <-. reflexivity.
    + destruct (run body true inp) as [[[t1 k1] r1]|] eqn:E1; [|discriminate]. injection H as <- <- <-. reflexivity.
    + eapply IH; exact H.
Qed.

(* ---- "this expression can only succeed at end of input" ------------------- *)
Fixpoint ends_eoi (e : peg) : bool :=
  match e with
  | PEoiTok => true
  | PSeq _ b => ends_eoi b
  | PAlt a b => ends_eoi a && ends_eoi b
  | PRule _ _ body => ends_eoi body
  | PPlus a => ends_eoi a
  | _ => false
  end.

Lemma star_loop_rest_nil (f : str -> res rule) fuel inp t k r :
  star_loop f fuel inp = Some (t, k, r) -> inp = [] -> r = [].
Proof.
  intros H ->. destruct fuel; [rewrite star_loop_0 in H | rewrite star_loop_S in H]; [injection H as <- <- <-; reflexivity|].
  destruct (f []) as [[[t1 k1] r1]|]; [|injection H as <- <- <-; reflexivity].
  cbn [length] in H. destruct (Nat.ltb (length r1) 0) eqn:E; [apply Nat.ltb_lt in E; lia|].
  injection H as <- <- <-. reflexivity.
Qed.

Theorem ends_eoi_sound (e : peg) : ends_eoi e = true ->
  forall a inp t k r, run e a inp = Some (t, k, r) -> r = [].
Proof.
  induction e as [s| | |lo hi|e1 IH1 e2 IH2|e1 IH1 e2 IH2|e IH|e IH|e IH|e IH|e IH|id kd body IH];
    intros He a inp t k r H; cbn [ends_eoi] in He; try discriminate; cbn [run] in H.
  - destruct inp; [|discriminate]. injection H as <- <- <-. reflexivity.
  - unfold seq_res in H. destruct (run e1 a inp) as [[[t1 k1] r1]|]; [|discriminate].
    destruct (run e2 a r1) as [[[t2 k2] r2]|] eqn:E2; [|discriminate]. injection H as <- <- <-. eapply IH2; eauto.
  - apply andb_true_iff in He as [H1 H2].
    destruct (run e1 a inp) as [x|] eqn:E1; [injection H as ->; eapply IH1; eauto | eapply IH2; eauto].
  - unfold seq_res in H. destruct (run e a inp) as [[[t1 k1] r1]|] eqn:E1; [|discriminate].
    destruct (star_loop (run e a) (S (length r1)) r1) as [[[t2 k2] r2]|] eqn:E2; [|discriminate]. injection H as <- <- <-.
    eapply star_loop_rest_nil; [exact E2 | eapply IH; eauto].
  - destruct kd.
    + destruct (run body a inp) as [[[t1 k1] r1]|] eqn:E1; [|discriminate]. injection H as <- <- <-. eapply IH; eauto.
    + destruct (run body true inp) as [[[t1 k1] r1]|] eqn:E1; [|discriminate]. injection H as <- <- <-. eapply IH; eauto.
    + eapply IH; eauto.
Qed.

(* ---- a verified static analysis of the token (kid) structure ---------------- *)
Definition t_id (t : tree) : option rule := match t with Node id _ _ => id end.

Fixpoint min_tokens (e : peg) : nat :=
  match e with
  | PRule _ Silent b => min_tokens b
  | PRule _ _ _ => 1
  | PEoiTok => 1
  | PSeq a b => min_tokens a + min_tokens b
  | PAlt a b => Nat.min (min_tokens a) (min_tokens b)
  | PPlus a => min_tokens a
  | _ => 0
  end.

(* None = unbounded *)
Fixpoint max_tokens (e : peg) : option nat :=
  match e with
  | PRule _ Silent b => max_tokens b
  | PRule _ _ _ => Some 1
  | PEoiTok => Some 1
  | PSeq a b => match max_tokens a, max_tokens b with Some x, Some y => Some (x + y) | _, _ => None end
  | PAlt a b => match max_tokens a, max_tokens b with Some x, Some y => Some (Nat.max x y) | _, _ => None end
  | PStar _ | PPlus _ => None
  | POpt a => max_tokens a
  | _ => Some 0
  end.

Fixpoint tok_ids (e : peg) : list (option rule) :=
  match e with
  | PRule _ Silent b => tok_ids b
  | PRule id _ _ => [Some id]
  | PEoiTok => [None]
  | PSeq a b | PAlt a b => tok_ids a ++ tok_ids b
  | PStar a | PPlus a | POpt a => tok_ids a
  | _ => []
  end.

Definition count_ok (e : peg) (c : nat) : bool :=
  (min_tokens e <=? c)%nat && match max_tokens e with Some m => (c <=? m)%nat | None => true end.

(* over-approximation of the ids the i-th token can have *)
Fixpoint nth_ids (e : peg) (i : nat) : list (option rule) :=
  match e with
  | PRule _ Silent b => nth_ids b i
  | PRule id _ _ => match i with O => [Some id] | _ => [] end
  | PEoiTok => match i with O => [None] | _ => [] end
  | PSeq a b =>
      nth_ids a i ++ flat_map (fun c => if count_ok a c then nth_ids b (i - c) else []) (seq 0 (S i))
  | PAlt a b => nth_ids a i ++ nth_ids b i
  | PStar a | PPlus a => tok_ids a
  | POpt a => nth_ids a i
  | _ => []
  end.

Definition tok_sem (e : peg) (kids : list tree) : Prop :=
  (min_tokens e <= length kids)%nat
  /\ (forall m, max_tokens e = Some m -> (length kids <= m)%nat)
  /\ (forall k, In k kids -> In (t_id k) (tok_ids e))
  /\ (forall i k, nth_error kids i = Some k -> In (t_id k) (nth_ids e i)).

Lemma tok_sem_nil (e : peg) : min_tokens e = 0%nat -> tok_sem e [].
Proof.
  intros H. split; [rewrite H; cbn; lia|]. split; [intros; cbn; lia|].
  split; [intros k []|]. intros i k Hn. destruct i; discriminate.
Qed.

Lemma nth_ids_sub_tok_ids (e : peg) : forall i x, In x (nth_ids e i) -> In x (tok_ids e).
Proof.
  induction e as [s| | |lo hi|e1 IH1 e2 IH2|e1 IH1 e2 IH2|e IH|e IH|e IH|e IH|e IH|id kd body IH];
    intros i x H; cbn [nth_ids tok_ids] in *; try contradiction; auto.
  - destruct i; [exact H | contradiction].
  - apply in_app_or in H as [H|H]; apply in_or_app; [left; eapply IH1; exact H|].
    apply in_flat_map in H as (c & _ & Hc). destruct (count_ok e1 c); [right; eapply IH2; exact Hc | contradiction].
  - apply in_app_or in H as [H|H]; apply in_or_app; [left; eapply IH1 | right; eapply IH2]; exact H.
  - eapply IH; exact H.
  - destruct kd; [destruct i; [exact H | contradiction] | destruct i; [exact H | contradiction] | eapply IH; exact H].
Qed.

Lemma star_tok (a : peg) fuel : forall inp t k r,
  (forall inp t k r, run a false inp = Some (t, k, r) -> tok_sem a k) ->
  star_loop (run a false) fuel inp = Some (t, k, r) -> forall x, In x k -> In (t_id x) (tok_ids a).
Proof.
  intros inp t k r Ha H.
  eapply (star_loop_prop (run a false) (fun _ k _ => forall x, In x k -> In (t_id x) (tok_ids a))); [intros ? ? [] | | exact H].
  intros i t1 k1 r1 k2 r2 Hf IH x Hx. apply in_app_or in Hx as [Hx|Hx]; [|apply IH; exact Hx].
  destruct (Ha _ _ _ _ Hf) as (_ & _ & Hin & _). apply Hin. exact Hx.
Qed.

Theorem tok_sound (e : peg) : forall inp t k r, run e false inp = Some (t, k, r) -> tok_sem e k.
Proof.
  induction e as [s| | |lo hi|e1 IH1 e2 IH2|e1 IH1 e2 IH2|e IH|e IH|e IH|e IH|e IH|id kd body IH];
    intros inp t k r H; cbn [run] in H.
  - destruct (strip_prefix s inp); [|discriminate]. injection H as <- <- <-. apply tok_sem_nil. reflexivity.
  - destruct inp; [discriminate|]. injection H as <- <- <-. apply tok_sem_nil. reflexivity.
  - destruct inp; [|discriminate]. injection H as <- <- <-.
    split; [cbn; lia|]. split; [intros m Hm; injection Hm as <-; cbn; lia|].
    split; [intros k [<-|[]]; left; reflexivity|]. intros [|i] k Hn; cbn in Hn; [injection Hn as <-; left; reflexivity | destruct i; discriminate].
  - destruct inp; [discriminate|]. destruct (_ && _)%bool; [|discriminate]. injection H as <- <- <-. apply tok_sem_nil. reflexivity.
  - (* PSeq *)
    unfold seq_res in H. destruct (run e1 false inp) as [[[t1 k1] r1]|] eqn:E1; [|discriminate].
    destruct (run e2 false r1) as [[[t2 k2] r2]|] eqn:E2; [|discriminate]. injection H as <- <- <-.
    destruct (IH1 _ _ _ _ E1) as (Hmin1 & Hmax1 & Hin1 & Hnth1).
    destruct (IH2 _ _ _ _ E2) as (Hmin2 & Hmax2 & Hin2 & Hnth2).
    split; [cbn [min_tokens]; rewrite app_length; lia|].
    split.
    { intros m Hm. cbn [max_tokens] in Hm. destruct (max_tokens e1) as [x|]; [|discriminate].
      destruct (max_tokens e2) as [y|]; [|discriminate]. injection Hm as <-.
      rewrite app_length. specialize (Hmax1 x eq_refl). specialize (Hmax2 y eq_refl). lia. }
    split.
    { intros x Hx. cbn [tok_ids]. apply in_app_or in Hx as [Hx|Hx]; apply in_or_app; auto. }
    intros i x Hn. cbn [nth_ids]. apply in_or_app.
    destruct (Nat.ltb_spec i (length k1)) as [Hlt|Hge].
    + left. apply Hnth1. rewrite nth_error_app1 in Hn by exact Hlt. exact Hn.
    + right. rewrite nth_error_app2 in Hn by exact Hge.
      apply in_flat_map. exists (length k1). split; [apply in_seq; lia|].
      assert (Hc: count_ok e1 (length k1) = true).
      { unfold count_ok. apply andb_true_iff. split; [apply Nat.leb_le; exact Hmin1|].
        destruct (max_tokens e1) as [m|] eqn:Em; [apply Nat.leb_le; apply Hmax1; reflexivity | reflexivity]. }
      rewrite Hc. apply Hnth2. exact Hn.
  - (* PAlt *)
    destruct (run e1 false inp) as [[[t1 k1] r1]|] eqn:E1.
    + injection H as <- <- <-. destruct (IH1 _ _ _ _ E1) as (Hmin1 & Hmax1 & Hin1 & Hnth1).
      split; [cbn [min_tokens]; lia|]. split.
      { intros m Hm. cbn [max_tokens] in Hm. destruct (max_tokens e1) as [x|]; [|discriminate].
        destruct (max_tokens e2) as [y|]; [|discriminate]. injection Hm as <-. specialize (Hmax1 x eq_refl). lia. }
      split; [intros x Hx; cbn [tok_ids]; apply in_or_app; left; auto|].
      intros i x Hn. cbn [nth_ids]. apply in_or_app. left. eapply Hnth1; exact Hn.
    + destruct (IH2 _ _ _ _ H) as (Hmin2 & Hmax2 & Hin2 & Hnth2).
      split; [cbn [min_tokens]; lia|]. split.
      { intros m Hm. cbn [max_tokens] in Hm. destruct (max_tokens e1) as [x|]; [|discriminate].
        destruct (max_tokens e2) as [y|]; [|discriminate]. injection Hm as <-. specialize (Hmax2 y eq_refl). lia. }
      split; [intros x Hx; cbn [tok_ids]; apply in_or_app; right; auto|].
      intros i x Hn. cbn [nth_ids]. apply in_or_app. right. eapply Hnth2; exact Hn.
  - (* PStar *)
    pose proof (star_tok e _ _ _ _ _ IH H) as Hall.
    split; [cbn; lia|]. split; [intros m Hm; discriminate|]. split; [exact Hall|].
    intros i x Hn. cbn [nth_ids]. apply Hall. eapply nth_error_In; exact Hn.
  - (* PPlus *)
    unfold seq_res in H. destruct (run e false inp) as [[[t1 k1] r1]|] eqn:E1; [|discriminate].
    destruct (star_loop (run e false) (S (length r1)) r1) as [[[t2 k2] r2]|] eqn:E2; [|discriminate]. injection H as <- <- <-.
    destruct (IH _ _ _ _ E1) as (Hmin1 & Hmax1 & Hin1 & Hnth1).
    pose proof (star_tok e _ _ _ _ _ IH E2) as Hall.
    assert (Hany: forall x, In x (k1 ++ k2) -> In (t_id x) (tok_ids e)).
    { intros x Hx. apply in_app_or in Hx as [Hx|Hx]; auto. }
    split; [cbn [min_tokens]; rewrite app_length; lia|]. split; [intros m Hm; discriminate|]. split; [exact Hany|].
    intros i x Hn. cbn [nth_ids]. apply Hany. eapply nth_error_In; exact Hn.
  - (* POpt *)
    destruct (run e false inp) as [[[t1 k1] r1]|] eqn:E1.
    + injection H as <- <- <-. destruct (IH _ _ _ _ E1) as (Hmin1 & Hmax1 & Hin1 & Hnth1).
      split; [cbn; lia|]. split; [exact Hmax1|]. split; [exact Hin1 | exact Hnth1].
    + injection H as <- <- <-. split; [cbn; lia|]. split; [intros; cbn; lia|].
      split; [intros x []|]. intros [|i] x Hn; discriminate.
  - destruct (run e true inp); [discriminate|]. injection H as <- <- <-. apply tok_sem_nil. reflexivity.
  - destruct (run e true inp); [|discriminate]. injection H as <- <- <-. apply tok_sem_nil. reflexivity.
  - (* PRule *)
    destruct kd.
    + destruct (run body false inp) as [[[t1 k1] r1]|] eqn:E1; [|discriminate]. injection H as <- <- <-.
      split; [cbn; lia|]. split; [intros m Hm; injection Hm as <-; cbn; lia|].
      split; [intros x [<-|[]]; left; reflexivity|].
      intros [|i] x Hn; cbn in Hn; [injection Hn as <-; left; reflexivity | destruct i; discriminate].
    + destruct (run body true inp) as [[[t1 k1] r1]|] eqn:E1; [|discriminate]. injection H as <- <- <-.
      split; [cbn; lia|]. split; [intros m Hm; injection Hm as <-; cbn; lia|].
      split; [intros x [<-|[]]; left; reflexivity|].
      intros [|i] x Hn; cbn in Hn; [injection Hn as <-; left; reflexivity | destruct i; discriminate].
    + exact (IH _ _ _ _ H).
Qed.

(* ---- every node of every produced tree satisfies the analysis of its rule ---- *)
Inductive sub : peg -> peg -> Prop :=
| sub_refl e : sub e e
| sub_seq1 e a b : sub e (PSeq a b) -> sub e a
| sub_seq2 e a b : sub e (PSeq a b) -> sub e b
| sub_alt1 e a b : sub e (PAlt a b) -> sub e a
| sub_alt2 e a b : sub e (PAlt a b) -> sub e b
| sub_star e a : sub e (PStar a) -> sub e a
| sub_plus e a : sub e (PPlus a) -> sub e a
| sub_opt e a : sub e (POpt a) -> sub e a
| sub_not e a : sub e (PNot a) -> sub e a
| sub_and e a : sub e (PAnd a) -> sub e a
| sub_rule e id k b : sub e (PRule id k b) -> sub e b.

Section Deep.
Variable root : peg.

(* a node is well-formed when it was produced by some rule occurrence of the
   grammar: its kids obey the analysis of that occurrence's body (none for an
   atomic rule) *)
Inductive wf_tree : tree -> Prop :=
| wf_eoi : wf_tree (Node None [] [])
| wf_normal id body txt kids :
    sub root (PRule id Normal body) -> tok_sem body kids -> Forall wf_tree kids ->
    wf_tree (Node (Some id) txt kids)
| wf_atomic id body txt :
    sub root (PRule id Atomic body) -> wf_tree (Node (Some id) txt []).

Lemma star_wf (a : peg) fuel : forall inp t k r,
  (forall inp t k r, run a false inp = Some (t, k, r) -> Forall wf_tree k) ->
  star_loop (run a false) fuel inp = Some (t, k, r) -> Forall wf_tree k.
Proof.
  intros inp t k r Ha H.
  eapply (star_loop_prop (run a false) (fun _ k _ => Forall wf_tree k)); [constructor | | exact H].
  intros i t1 k1 r1 k2 r2 Hf IH. apply Forall_app. split; [eapply Ha; exact Hf | exact IH].
Qed.

Theorem run_wf (e : peg) : sub root e ->
  forall inp t k r, run e false inp = Some (t, k, r) -> Forall wf_tree k.
Proof.
  induction e as [s| | |lo hi|e1 IH1 e2 IH2|e1 IH1 e2 IH2|e IH|e IH|e IH|e IH|e IH|id kd body IH];
    intros Hsub inp t k r H; cbn [run] in H.
  - destruct (strip_prefix s inp); [|discriminate]. injection H as <- <- <-. constructor.
  - destruct inp; [discriminate|]. injection H as <- <- <-. constructor.
  - destruct inp; [|discriminate]. injection H as <- <- <-. repeat constructor.
  - destruct inp; [discriminate|]. destruct (_ && _)%bool; [|discriminate]. injection H as <- <- <-. constructor.
  - unfold seq_res in H. destruct (run e1 false inp) as [[[t1 k1] r1]|] eqn:E1; [|discriminate].
    destruct (run e2 false r1) as [[[t2 k2] r2]|] eqn:E2; [|discriminate]. injection H as <- <- <-.
    apply Forall_app. split; [eapply IH1; [eapply sub_seq1; exact Hsub | exact E1] | eapply IH2; [eapply sub_seq2; exact Hsub | exact E2]].
  - destruct (run e1 false inp) as [x|] eqn:E1.
    + injection H as ->. eapply IH1; [eapply sub_alt1; exact Hsub | exact E1].
    + eapply IH2; [eapply sub_alt2; exact Hsub | exact H].
  - eapply star_wf; [|exact H]. intros. eapply IH; [eapply sub_star; exact Hsub | eassumption].
  - unfold seq_res in H. destruct (run e false inp) as [[[t1 k1] r1]|] eqn:E1; [|discriminate].
    destruct (star_loop (run e false) (S (length r1)) r1) as [[[t2 k2] r2]|] eqn:E2; [|discriminate]. injection H as <- <- <-.
    apply Forall_app. split; [eapply IH; [eapply sub_plus; exact Hsub | exact E1]|].
    eapply star_wf; [|exact E2]. intros. eapply IH; [eapply sub_plus; exact Hsub | eassumption].
  - destruct (run e false inp) as [x|] eqn:E1.
    + injection H as ->. eapply IH; [eapply sub_opt; exact Hsub | exact E1].
    + injection H as <- <- <-. constructor.
  - destruct (run e true inp); [discriminate|]. injection H as <- <- <-. constructor.
  - destruct (run e true inp); [|discriminate]. injection H as <- <- <-. constructor.
  - destruct kd.
    + destruct (run body false inp) as [[[t1 k1] r1]|] eqn:E1; [|discriminate]. injection H as <- <- <-.
      constructor; [|constructor]. eapply wf_normal; [exact Hsub | eapply tok_sound; exact E1 |].
      eapply IH; [eapply sub_rule; exact Hsub | exact E1].
    + destruct (run body true inp) as [[[t1 k1] r1]|] eqn:E1; [|discriminate]. injection H as <- <- <-.
      constructor; [|constructor]. eapply wf_atomic. exact Hsub.
    + eapply IH; [eapply sub_rule; exact Hsub | exact H].
Qed.

(* a boolean per-rule check, evaluated on every rule occurrence of the grammar *)
Variable chk : rule -> rkind -> peg -> bool.
Fixpoint all_rules (e : peg) : bool :=
  match e with
  | PSeq a b | PAlt a b => all_rules a && all_rules b
  | PStar a | PPlus a | POpt a | PNot a | PAnd a => all_rules a
  | PRule id k b => chk id k b && all_rules b
  | _ => true
  end.

Lemma all_rules_sub e : sub root e -> all_rules root = true -> all_rules e = true.
Proof.
  induction 1; intros Hr; auto; specialize (IHsub Hr); cbn [all_rules] in IHsub;
    try (apply andb_true_iff in IHsub; tauto); exact IHsub.
Qed.

Lemma chk_of_sub id k b : all_rules root = true -> sub root (PRule id k b) -> chk id k b = true.
Proof.
  intros Hr Hs. pose proof (all_rules_sub _ Hs Hr) as H. cbn [all_rules] in H. apply andb_true_iff in H. tauto.
Qed.

End Deep.
End P.
