(* The tree-to-operation converter never panics on any tree the regenerated
   grammar can produce (all unwrap()s of parser.rs are justified), hence parsing
   any string returns a value or an error. *)
From SP Require Import Model.Scanner Proofs.PegP.

Lemma rule_eqb_eq a b : rule_eqb a b = true -> a = b.
Proof. destruct a, b; cbn; intros H; try reflexivity; discriminate H. Qed.

Definition mem_rule (al : list rule) (x : option rule) : bool :=
  match x with Some r => existsb (rule_eqb r) al | None => false end.
Lemma mem_rule_sound al x : mem_rule al x = true -> exists r, x = Some r /\ In r al.
Proof.
  destruct x as [r|]; cbn; [|discriminate]. rewrite existsb_exists. intros [y [Hy He]].
  apply rule_eqb_eq in He. subst. eauto.
Qed.

(* what the converter relies on, per rule *)
Definition need_kids (id : rule) : nat :=
  match id with
  | R_sed_string => 2
  | R_operation | R_map_inner_operation | R_split | R_map_split | R_join | R_map_join | R_substring
  | R_slice | R_map_slice | R_replace | R_append | R_prepend | R_surround | R_quote | R_filter
  | R_filter_not | R_map_filter | R_map_filter_not | R_pad | R_regex_extract | R_map_regex_extract
  | R_map | R_map_operation | R_range_spec | R_shorthand_range | R_range_from | R_range_to
  | R_range_to_inclusive | R_index => 1
  | _ => 0
  end.
Definition pos_allowed (id : rule) (i : nat) : option (list rule) :=
  match id, i with
  | R_split, 1 | R_map_split, 1 => Some [R_range_spec]
  | R_substring, 0 | R_slice, 0 | R_map_slice, 0 => Some [R_range_spec]
  | R_replace, 0 => Some [R_sed_string]
  | R_map, 0 => Some [R_map_operation]
  | R_map_operation, 0 => Some [R_map_operation_list]
  | _, _ => None
  end%nat.
Definition all_allowed (id : rule) : option (list rule) :=
  match id with
  | R_operation_list => Some [R_operation]
  | R_map_operation_list => Some [R_map_inner_operation]
  | _ => None
  end.
Definition is_normal (k : rkind) : bool := match k with Normal => true | _ => false end.
Definition constrained (id : rule) : bool :=
  negb (Nat.eqb (need_kids id) 0)
  || match pos_allowed id 0, pos_allowed id 1, all_allowed id with None, None, None => false | _, _, _ => true end.

Definition chk (id : rule) (k : rkind) (body : peg rule) : bool :=
  if constrained id then
    is_normal k
    && (need_kids id <=? min_tokens body)%nat
    && match pos_allowed id 0 with Some al => forallb (mem_rule al) (nth_ids body 0) | None => true end
    && match pos_allowed id 1 with Some al => forallb (mem_rule al) (nth_ids body 1) | None => true end
    && match all_allowed id with Some al => forallb (mem_rule al) (tok_ids body) | None => true end
  else true.

(* the check holds of the grammar regenerated from template.pest *)
Lemma grammar_checked : all_rules chk r_template = true.
Proof. vm_compute. reflexivity. Qed.

Notation wf := (wf_tree r_template).

Record node_facts (id : rule) (kids : list ptree) : Prop := {
  nf_count : (need_kids id <= length kids)%nat;
  nf_pos : forall i al k, (i < 2)%nat -> pos_allowed id i = Some al -> nth_error kids i = Some k ->
             exists r, t_rule k = Some r /\ In r al;
  nf_all : forall al k, all_allowed id = Some al -> In k kids -> exists r, t_rule k = Some r /\ In r al;
  nf_kids : Forall wf kids;
}.

Lemma t_rule_t_id (k : ptree) : t_rule k = t_id k.
Proof. destruct k; reflexivity. Qed.

Lemma facts_of_wf id txt kids : wf (Node (Some id) txt kids) -> node_facts id kids.
Proof.
  intros H. inversion H as [| id' body txt' kids' Hsub Hsem Hwk | id' body txt' Hsub]; subst.
  - pose proof (chk_of_sub r_template chk id Normal body grammar_checked Hsub) as Hc.
    unfold chk in Hc. destruct Hsem as (Hmin & Hmax & Hin & Hnth).
    destruct (constrained id) eqn:Econ.
    + apply andb_true_iff in Hc as [Hc Hall]. apply andb_true_iff in Hc as [Hc Hp1].
      apply andb_true_iff in Hc as [Hc Hp0]. apply andb_true_iff in Hc as [_ Hn]. apply Nat.leb_le in Hn.
      split.
      * eapply Nat.le_trans; eassumption.
      * intros i al k Hi Hpa Hk. rewrite t_rule_t_id. apply mem_rule_sound.
        specialize (Hnth i k Hk).
        destruct i as [|[|i]]; [| |lia].
        -- rewrite Hpa in Hp0. rewrite forallb_forall in Hp0. apply Hp0. exact Hnth.
        -- rewrite Hpa in Hp1. rewrite forallb_forall in Hp1. apply Hp1. exact Hnth.
      * intros al k Ha Hk. rewrite t_rule_t_id. apply mem_rule_sound.
        rewrite Ha in Hall. rewrite forallb_forall in Hall. apply Hall. apply Hin. exact Hk.
      * exact Hwk.
    + unfold constrained in Econ. apply orb_false_iff in Econ as [E1 E2].
      apply negb_false_iff, Nat.eqb_eq in E1.
      split.
      * rewrite E1. apply Nat.le_0_l.
      * intros i al k Hi Hpa Hk. destruct i as [|[|i]]; [| |lia]; rewrite Hpa in E2; [discriminate|].
        destruct (pos_allowed id 0); discriminate.
      * intros al k Ha Hk. rewrite Ha in E2. destruct (pos_allowed id 0), (pos_allowed id 1); discriminate.
      * exact Hwk.
  - pose proof (chk_of_sub r_template chk id Atomic body grammar_checked Hsub) as Hc.
    unfold chk in Hc. destruct (constrained id) eqn:Econ; [cbn in Hc; discriminate|].
    unfold constrained in Econ. apply orb_false_iff in Econ as [E1 E2].
    apply negb_false_iff, Nat.eqb_eq in E1.
    split.
    + rewrite E1. apply Nat.le_0_l.
    + intros i al k Hi Hpa Hk. destruct i; discriminate.
    + intros al k Ha [].
    + constructor.
Qed.

Lemma wf_facts (t : ptree) id : wf t -> t_rule t = Some id -> node_facts id (t_kids t).
Proof. destruct t as [i txt kids]. cbn. intros H ->. eapply facts_of_wf. exact H. Qed.

Lemma unwrap_first_ok (l : list ptree) : (1 <= length l)%nat -> exists k, unwrap_first l = Ok k /\ In k l.
Proof. destruct l as [|k l]; cbn; [lia|]. intros _. exists k. auto. Qed.

Lemma wf_in (l : list ptree) k : Forall wf l -> In k l -> wf k.
Proof. rewrite Forall_forall. auto. Qed.

(* ---- converter functions never panic on well-formed nodes ------------------- *)
Lemma parse_bound_np t : parse_bound t <> Panic.
Proof. unfold parse_bound. destruct (parse_isize _); discriminate. Qed.
Lemma opt_bound_np o : opt_bound o <> Panic.
Proof. destruct o as [t|]; cbn; [|discriminate]. pose proof (parse_bound_np t). destruct (parse_bound t); cbn; congruence. Qed.

Ltac np_bind H :=
  match goal with
  | |- bind ?m _ <> Panic => let E := fresh "E" in destruct m eqn:E; cbn [bind]; [| discriminate | exfalso; eapply H; exact E]
  end.

Lemma range_inner_np (inner : ptree) : wf inner -> 
  (let parts := t_kids inner in
    match t_rule inner with
    | Some R_range_inclusive =>
        bind (opt_bound (nth_error parts 0)) (fun a =>
        bind (opt_bound (nth_error parts 1)) (fun b => Ok (Range a b true)))
    | Some R_range_exclusive =>
        bind (opt_bound (nth_error parts 0)) (fun a =>
        bind (opt_bound (nth_error parts 1)) (fun b => Ok (Range a b false)))
    | Some R_range_from =>
        bind (unwrap_first parts) (fun p => bind (parse_bound p) (fun a => Ok (Range (Some a) None false)))
    | Some R_range_to =>
        bind (unwrap_first parts) (fun p => bind (parse_bound p) (fun b => Ok (Range None (Some b) false)))
    | Some R_range_to_inclusive =>
        bind (unwrap_first parts) (fun p => bind (parse_bound p) (fun b => Ok (Range None (Some b) true)))
    | Some R_range_full => Ok (Range None None false)
    | Some R_index =>
        bind (unwrap_first parts) (fun p => bind (parse_bound p) (fun i => Ok (Index i)))
    | _ => Err
    end) <> Panic.
Proof.
  intros Hwf. cbn zeta. destruct (t_rule inner) as [id|] eqn:Er; [|discriminate].
  pose proof (wf_facts inner id Hwf Er) as F.
  assert (Hone: need_kids id = 1%nat -> forall (f : ptree -> outcome range), (forall p, f p <> Panic) ->
                bind (unwrap_first (t_kids inner)) f <> Panic).
  { intros Hn f Hf. destruct (unwrap_first_ok (t_kids inner)) as (k & -> & _); [pose proof (nf_count _ _ F); lia|]. cbn [bind]. apply Hf. }
  assert (Hpb: forall (g : Z -> range) p, bind (parse_bound p) (fun a => Ok (g a)) <> Panic).
  { intros g p. pose proof (parse_bound_np p). destruct (parse_bound p); cbn; congruence. }
  assert (Hob: forall inc, bind (opt_bound (nth_error (t_kids inner) 0)) (fun a =>
                 bind (opt_bound (nth_error (t_kids inner) 1)) (fun b => Ok (Range a b inc))) <> Panic).
  { intros inc. pose proof (opt_bound_np (nth_error (t_kids inner) 0)) as H0.
    destruct (opt_bound (nth_error (t_kids inner) 0)); cbn [bind]; try congruence.
    pose proof (opt_bound_np (nth_error (t_kids inner) 1)) as H1.
    destruct (opt_bound (nth_error (t_kids inner) 1)); cbn [bind]; congruence. }
  destruct id; try discriminate; try apply Hob; try (apply Hone; [reflexivity | intros p; apply Hpb]).
Qed.

Lemma parse_range_spec_np (t : ptree) id : wf t -> t_rule t = Some id ->
  (id = R_range_spec \/ id = R_shorthand_range) -> parse_range_spec t <> Panic.
Proof.
  intros Hwf Er Hid. unfold parse_range_spec.
  pose proof (wf_facts t id Hwf Er) as F.
  destruct (unwrap_first_ok (t_kids t)) as (k & -> & Hin).
  { pose proof (nf_count _ _ F) as Hc. destruct Hid as [-> | ->]; cbn in Hc; lia. }
  cbn [bind]. apply range_inner_np. eapply wf_in; [apply (nf_kids _ _ F) | exact Hin].
Qed.

Lemma first_kid (t : ptree) id : wf t -> t_rule t = Some id -> need_kids id = 1%nat ->
  exists k rest, t_kids t = k :: rest /\ wf k.
Proof.
  intros Hwf Er Hn. pose proof (wf_facts t id Hwf Er) as F. pose proof (nf_count _ _ F) as Hc. rewrite Hn in Hc.
  destruct (t_kids t) as [|k rest] eqn:Ek; [cbn in Hc; lia|].
  exists k, rest. split; [reflexivity|]. pose proof (nf_kids _ _ F) as Hk. rewrite ?Ek in Hk. inversion Hk; assumption.
Qed.

Lemma extract_single_arg_np t id : wf t -> t_rule t = Some id -> need_kids id = 1%nat -> extract_single_arg t <> Panic.
Proof. intros H1 H2 H3. destruct (first_kid t id H1 H2 H3) as (k & rest & Ek & _). unfold extract_single_arg. rewrite Ek. discriminate. Qed.
Lemma extract_single_arg_raw_np t id : wf t -> t_rule t = Some id -> need_kids id = 1%nat -> extract_single_arg_raw t <> Panic.
Proof. intros H1 H2 H3. destruct (first_kid t id H1 H2 H3) as (k & rest & Ek & _). unfold extract_single_arg_raw. rewrite Ek. discriminate. Qed.

Lemma omap_np {A B} (f : A -> B) (m : outcome A) : m <> Panic -> omap f m <> Panic.
Proof. destruct m; cbn; congruence. Qed.

Lemma extract_range_arg_np t id : wf t -> t_rule t = Some id -> need_kids id = 1%nat ->
  pos_allowed id 0 = Some [R_range_spec] -> extract_range_arg t <> Panic.
Proof.
  intros H1 H2 H3 H4. pose proof (wf_facts t id H1 H2) as F.
  destruct (first_kid t id H1 H2 H3) as (k & rest & Ek & Hk). unfold extract_range_arg. rewrite Ek. cbn [unwrap_first bind].
  destruct (nf_pos _ _ F 0%nat [R_range_spec] k) as (r & Hr & Hin); [lia | exact H4 | rewrite Ek; reflexivity|].
  destruct Hin as [<-|[]]. eapply parse_range_spec_np; [exact Hk | exact Hr | left; reflexivity].
Qed.

Lemma parse_pad_np t : wf t -> t_rule t = Some R_pad -> parse_pad_operation t <> Panic.
Proof.
  intros H1 H2. destruct (first_kid t R_pad H1 H2 eq_refl) as (k & rest & Ek & _).
  unfold parse_pad_operation. rewrite Ek. cbn [unwrap_first bind]. destruct (parse_usize _); discriminate.
Qed.

Lemma parse_regex_extract_np t id : wf t -> t_rule t = Some id -> need_kids id = 1%nat -> parse_regex_extract_operation t <> Panic.
Proof.
  intros H1 H2 H3. destruct (first_kid t id H1 H2 H3) as (k & rest & Ek & _).
  unfold parse_regex_extract_operation. rewrite Ek. cbn [unwrap_first bind].
  destruct (nth_error _ 1); [destruct (parse_usize _)|]; discriminate.
Qed.

Lemma parse_replace_np t : wf t -> t_rule t = Some R_replace -> parse_replace t <> Panic.
Proof.
  intros H1 H2. pose proof (wf_facts t R_replace H1 H2) as F.
  destruct (first_kid t R_replace H1 H2 eq_refl) as (k & rest & Ek & Hk).
  unfold parse_replace. rewrite Ek. cbn [unwrap_first bind].
  destruct (nf_pos _ _ F 0%nat [R_sed_string] k) as (r & Hr & Hin); [lia | reflexivity | rewrite Ek; reflexivity|].
  destruct Hin as [<-|[]].
  pose proof (wf_facts k R_sed_string Hk Hr) as Fk. pose proof (nf_count _ _ Fk) as Hc. cbn in Hc.
  unfold parse_sed_string. destruct (t_kids k) as [|p [|rp rest2]]; cbn in Hc; try lia. cbn [nth_error].
  destruct (t_text p); cbn; discriminate.
Qed.

Lemma parse_split_like_np t id : wf t -> t_rule t = Some id -> (id = R_split \/ id = R_map_split) -> parse_split_like t <> Panic.
Proof.
  intros H1 H2 Hid. pose proof (wf_facts t id H1 H2) as F.
  assert (Hn: need_kids id = 1%nat) by (destruct Hid as [-> | ->]; reflexivity).
  destruct (first_kid t id H1 H2 Hn) as (k & rest & Ek & Hk).
  unfold parse_split_like. rewrite Ek. cbn [unwrap_first bind].
  destruct (nth_error (k :: rest) 1) as [rp|] eqn:En; [|discriminate].
  destruct (nf_pos _ _ F 1%nat [R_range_spec] rp) as (r & Hr & Hin);
    [lia | destruct Hid as [-> | ->]; reflexivity | rewrite Ek; exact En|].
  destruct Hin as [<-|[]].
  assert (Hwrp: wf rp).
  { eapply wf_in; [apply (nf_kids _ _ F)|]. rewrite Ek. eapply nth_error_In. exact En. }
  pose proof (parse_range_spec_np rp R_range_spec Hwrp Hr (or_introl eq_refl)) as Hnp.
  destruct (parse_range_spec rp); cbn; congruence.
Qed.

Lemma mapM_np {A B} (f : A -> outcome B) l : (forall x, In x l -> f x <> Panic) -> mapM f l <> Panic.
Proof.
  induction l as [|x l IH]; intros H; cbn [mapM]; [discriminate|].
  pose proof (H x (or_introl eq_refl)) as Hx. destruct (f x); cbn [bind]; try congruence.
  assert (Hl: mapM f l <> Panic) by (apply IH; intros y Hy; apply H; right; exact Hy).
  destruct (mapM f l); cbn [bind]; congruence.
Qed.

Lemma parse_map_inner_np t : wf t -> parse_map_inner_operation t <> Panic.
Proof.
  intros Hwf. unfold parse_map_inner_operation. destruct (t_rule t) as [id|] eqn:Er; [|discriminate].
  destruct id; try discriminate;
    first [ apply omap_np; first [ eapply extract_single_arg_np; [exact Hwf | exact Er | reflexivity]
                                 | eapply extract_single_arg_raw_np; [exact Hwf | exact Er | reflexivity]
                                 | eapply extract_range_arg_np; [exact Hwf | exact Er | reflexivity | reflexivity] ]
          | eapply parse_regex_extract_np; [exact Hwf | exact Er | reflexivity]
          | eapply parse_split_like_np; [exact Hwf | exact Er | first [left; reflexivity | right; reflexivity]]
          | apply parse_pad_np; assumption
          | apply parse_replace_np; assumption
          | (destruct (parse_isize _); discriminate)
          | (let H := fresh "H" in
             pose proof (parse_range_spec_np t R_shorthand_range Hwf Er (or_intror eq_refl)) as H;
             destruct (parse_range_spec t); cbn; congruence) ].
Qed.

Lemma parse_map_operation_np t : wf t -> t_rule t = Some R_map -> parse_map_operation t <> Panic.
Proof.
  intros H1 H2. pose proof (wf_facts t R_map H1 H2) as F.
  destruct (first_kid t R_map H1 H2 eq_refl) as (mo & rest & Ek & Hmo).
  unfold parse_map_operation. rewrite Ek. cbn [unwrap_first bind].
  destruct (nf_pos _ _ F 0%nat [R_map_operation] mo) as (r & Hr & Hin); [lia | reflexivity | rewrite Ek; reflexivity|].
  destruct Hin as [<-|[]].
  pose proof (wf_facts mo R_map_operation Hmo Hr) as Fmo.
  destruct (first_kid mo R_map_operation Hmo Hr eq_refl) as (lp & rest2 & Ek2 & Hlp).
  rewrite Ek2. cbn [unwrap_first bind].
  destruct (nf_pos _ _ Fmo 0%nat [R_map_operation_list] lp) as (r2 & Hr2 & Hin2); [lia | reflexivity | rewrite Ek2; reflexivity|].
  destruct Hin2 as [<-|[]].
  pose proof (wf_facts lp R_map_operation_list Hlp Hr2) as Flp.
  match goal with |- bind ?m _ <> Panic => assert (Hm: m <> Panic) end.
  { apply mapM_np. intros op_pair Hop.
    destruct (nf_all _ _ Flp [R_map_inner_operation] op_pair eq_refl Hop) as (r3 & Hr3 & Hin3). destruct Hin3 as [<-|[]].
    assert (Hwop: wf op_pair) by (eapply wf_in; [apply (nf_kids _ _ Flp) | exact Hop]).
    destruct (first_kid op_pair R_map_inner_operation Hwop Hr3 eq_refl) as (inner & rest3 & Ek3 & Hinner).
    rewrite Ek3. cbn [unwrap_first bind]. apply parse_map_inner_np. exact Hinner. }
  match goal with |- bind ?m _ <> Panic => destruct m; cbn [bind]; congruence end.
Qed.

Lemma parse_operation_np t : wf t -> parse_operation t <> Panic.
Proof.
  intros Hwf. unfold parse_operation. destruct (t_rule t) as [id|] eqn:Er; [|discriminate].
  destruct id; try discriminate;
    first [ apply omap_np; first [ eapply extract_single_arg_np; [exact Hwf | exact Er | reflexivity]
                                 | eapply extract_single_arg_raw_np; [exact Hwf | exact Er | reflexivity]
                                 | eapply extract_range_arg_np; [exact Hwf | exact Er | reflexivity | reflexivity] ]
          | eapply parse_regex_extract_np; [exact Hwf | exact Er | reflexivity]
          | eapply parse_split_like_np; [exact Hwf | exact Er | first [left; reflexivity | right; reflexivity]]
          | apply parse_pad_np; assumption
          | apply parse_replace_np; assumption
          | apply parse_map_operation_np; assumption
          | (destruct (parse_isize _); discriminate)
          | (let H := fresh "H" in
             pose proof (parse_range_spec_np t R_shorthand_range Hwf Er (or_intror eq_refl)) as H;
             destruct (parse_range_spec t); cbn; congruence) ].
Qed.

Lemma parse_template_tree_np top : wf top -> parse_template_tree top <> Panic.
Proof.
  intros Hwf. unfold parse_template_tree.
  assert (Hkids: Forall wf (t_kids top)).
  { destruct top as [[id|] txt kids]; cbn.
    - apply (nf_kids _ _ (facts_of_wf id txt kids Hwf)).
    - inversion Hwf. constructor. }
  generalize (@nil op) as ops. generalize false as dbg. 
  induction (t_kids top) as [|p l IH]; intros dbg ops; [discriminate|].
  inversion Hkids as [|? ? Hp Hl]; subst.
  destruct (t_rule p) as [id|] eqn:Er; [|apply IH; exact Hl].
  destruct id; try (apply IH; exact Hl).
  pose proof (wf_facts p R_operation_list Hp Er) as Fp.
  match goal with |- bind ?m _ <> Panic => assert (Hm: m <> Panic) end.
  { apply mapM_np. intros op_pair Hop.
    destruct (nf_all _ _ Fp [R_operation] op_pair eq_refl Hop) as (r3 & Hr3 & Hin3). destruct Hin3 as [<-|[]].
    assert (Hwop: wf op_pair) by (eapply wf_in; [apply (nf_kids _ _ Fp) | exact Hop]).
    destruct (first_kid op_pair R_operation Hwop Hr3 eq_refl) as (inner & rest3 & Ek3 & Hinner).
    rewrite Ek3. cbn [unwrap_first bind]. apply parse_operation_np. exact Hinner. }
  match goal with |- bind ?m _ <> Panic => destruct m; cbn [bind]; [apply IH; exact Hl | discriminate | congruence] end.
Qed.

(* parse_template(template) never panics, for any string *)
Theorem parse_template_np (s : str) : parse_template s <> Panic.
Proof.
  unfold parse_template. destruct (run r_template false s) as [[[t pairs] r]|] eqn:E; [|discriminate].
  pose proof (run_wf r_template r_template (sub_refl _) s t pairs r E) as Hwf.
  (* r_template is a Normal rule: exactly one pair *)
  unfold r_template in E. cbn [run] in E.
  match type of E with match ?m with _ => _ end = _ => destruct m as [[[t1 k1] r1]|]; [|discriminate] end.
  injection E as <- <- <-. cbn [unwrap_first bind].
  apply parse_template_tree_np. inversion Hwf; assumption.
Qed.

(* the scanners are total functions; the only partial step inside them is parse_template *)
Lemma try_single_block_np s : try_single_block s <> Panic.
Proof.
  unfold try_single_block. destruct (is_single_block s); [|discriminate].
  pose proof (parse_template_np s). destruct (parse_template s); cbn; congruence.
Qed.

Lemma scan_step_no_panic st ch : st_fail st <> Some true -> st_fail (scan_step st ch) <> Some true.
Proof.
  intros H. unfold scan_step. destruct (st_fail st) as [b|] eqn:Ef; [rewrite Ef; exact H|].
  destruct (st_mode st) as [|n|c n esc].
  - destruct (N.eqb ch c_lbrace); [|cbn; discriminate].
    destruct (st_lit_rev st) as [|d l]; [cbn; discriminate|]. destruct (N.eqb d c_dollar); cbn; discriminate.
  - cbn. discriminate.
  - destruct esc; [cbn; discriminate|]. destruct (N.eqb ch c_bslash); [cbn; discriminate|].
    destruct (N.eqb ch c_lbrace); [cbn; discriminate|]. destruct (N.eqb ch c_rbrace); [|cbn; discriminate].
    destruct n as [|[|k]]; try (cbn; discriminate);
      (pose proof (parse_template_np (c_lbrace :: frev c ++ [c_rbrace])) as Hp;
       destruct (parse_template (c_lbrace :: frev c ++ [c_rbrace])) as [[ops d]| |]; cbn; congruence).
Qed.

Lemma parse_multi_template_np s : parse_multi_template s <> Panic.
Proof.
  unfold parse_multi_template.
  assert (H: st_fail (fold_left scan_step s scan_init) <> Some true).
  { assert (G: forall st, st_fail st <> Some true -> st_fail (fold_left scan_step s st) <> Some true).
    { induction s as [|ch s IH]; intros st Hst; cbn [fold_left]; [exact Hst | apply IH, scan_step_no_panic, Hst]. }
    apply G. cbn. discriminate. }
  destruct (st_fail (fold_left scan_step s scan_init)) as [[|]|]; [congruence | discriminate|].
  destruct (st_mode _); discriminate.
Qed.

(* C03, parse half: Template::parse / parse_with_debug return a value or an error *)
Theorem template_parse_total s : template_parse s <> Panic.
Proof.
  unfold template_parse. pose proof (try_single_block_np s) as H1.
  destruct (try_single_block s) as [[t|]| |]; cbn [bind]; try congruence; try discriminate.
  pose proof (parse_multi_template_np s) as H2. destruct (parse_multi_template s); cbn; congruence.
Qed.

Theorem template_parse_with_debug_total s d : template_parse_with_debug s d <> Panic.
Proof.
  unfold template_parse_with_debug. pose proof (try_single_block_np s) as H1.
  destruct (try_single_block s) as [[t|]| |]; cbn [bind]; try congruence; try discriminate.
  pose proof (parse_multi_template_np s) as H2. destruct (parse_multi_template s); cbn; congruence.
Qed.
