(* C12: an operation that takes arguments, written without them, is a parse error -- at the head
   of a block and after any pipeline, whatever follows.  The alternatives of `operation` that
   cannot match are discarded by the computed beginnings of FirstP (so their order and number do
   not matter); the one that carries the name fails on the missing ":". *)
From SP Require Import Model.Syntax Model.Scanner Proofs.StrP Proofs.PegP Proofs.FirstP Proofs.ArgP Proofs.RangeSynP
  Proofs.OpSynP Proofs.BlockSynP Proofs.RejectP Proofs.NamesP.
Local Open Scope N_scope.

(* no match of e can begin an input that begins with p (decided on e and p alone) *)
Fixpoint clash (s p : str) : bool :=
  match s, p with
  | c :: s', d :: p' => if N.eqb c d then clash s' p' else true
  | _, _ => false
  end.
Definition starter_clashes (p : str) (st : starter) : bool :=
  match st with
  | SLit s => clash s p
  | SRng lo hi => match p with d :: _ => negb (N.leb lo d && N.leb d hi) | [] => false end
  | SAny => false
  end.
Definition cannot_start (e : peg rule) (p : str) : bool :=
  negb (nullable e) && forallb (starter_clashes p) (starters e).

Lemma clash_sound s p rest r : clash s p = true -> p ++ rest <> s ++ r.
Proof.
  revert p. induction s as [|c s IH]; intros [|d p] H; cbn in H; try discriminate.
  destruct (N.eqb c d) eqn:E.
  - intros Heq. cbn in Heq. injection Heq as _ Heq. exact (IH p H Heq).
  - intros Heq. cbn in Heq. injection Heq as Hd _. apply N.eqb_neq in E. congruence.
Qed.

Lemma cannot_start_fails (e : peg rule) (p rest : str) a :
  cannot_start e p = true -> run e a (p ++ rest) = None.
Proof.
  intros H. unfold cannot_start in H. apply andb_true_iff in H. destruct H as [Hn Hf]. apply negb_true_iff in Hn.
  destruct (run e a (p ++ rest)) as [[[t k] r]|] eqn:E; [|reflexivity]. exfalso.
  pose proof (first_sound_strict e a _ t k r Hn E) as Hs.
  pose proof (run_text _ _ _ _ _ _ E) as Ht.
  apply Exists_exists in Hs. destruct Hs as (st & Hin & Hst).
  rewrite forallb_forall in Hf. specialize (Hf st Hin).
  destruct st as [s|lo hi|]; cbn in Hf, Hst.
  - destruct Hst as [u ->]. rewrite <- app_assoc in Ht. exact (clash_sound s p rest (u ++ r) Hf Ht).
  - destruct Hst as (c & u & -> & H1 & H2). destruct p as [|d p]; [discriminate|].
    cbn in Ht. injection Ht as -> _. apply negb_true_iff in Hf.
    apply N.leb_le in H1. apply N.leb_le in H2. rewrite H1, H2 in Hf. discriminate.
  - discriminate.
Qed.

(* a rule `name ":" ...` on name followed by something that is not ":" *)
Lemma needs_colon (id : rule) k (name : str) (rest : peg rule) a c w :
  N.eqb 58 c = false -> run (PRule id k (PSeq (PStr name) (PSeq (PStr [58]) rest))) a (name ++ c :: w) = None.
Proof.
  intros Hc. destruct k; cbn [run]; unfold seq_res; rewrite strip_prefix_app; cbn [strip_prefix]; rewrite Hc; reflexivity.
Qed.

(* a longer name on a shorter one followed by a character that does not continue it *)
Lemma longer_name_fails (id : rule) k (name : str) (d : N) (more : str) (rest : peg rule) a c w :
  N.eqb d c = false -> run (PRule id k (PSeq (PStr (name ++ d :: more)) rest)) a (name ++ c :: w) = None.
Proof.
  intros Hc.
  assert (Hs : strip_prefix (name ++ d :: more) (name ++ c :: w) = None).
  { induction name as [|x name IH]; cbn [app strip_prefix]; [rewrite Hc; reflexivity | rewrite N.eqb_refl; exact IH]. }
  destruct k; cbn [run]; unfold seq_res; rewrite Hs; reflexivity.
Qed.

(* `filter` reads the first six characters of `filter_not...` and then misses its ":" *)
Lemma filter_on_filter_not (id : rule) k (rest : peg rule) a c w :
  run (PRule id k (PSeq (PStr kw_filter) (PSeq (PStr [58]) rest))) a (kw_filter_not ++ c :: w) = None.
Proof. destruct k; reflexivity. Qed.

Ltac kill_alt :=
  rewrite run_alt;
  first [ rewrite cannot_start_fails by (vm_compute; reflexivity)
        | rewrite needs_colon by assumption
        | rewrite filter_on_filter_not
        | match goal with |- context [run (PRule ?id ?k (PSeq (PStr ?s) ?r)) _ (?name ++ ?c :: ?w)] =>
            rewrite (longer_name_fails id k name 95 [110; 111; 116] r) by assumption end ].

(* the fourteen argument-taking operations of the top level: name, then a character that is not ":"
   (for filter: nor "_", which would continue it to filter_not) *)
Definition arg_names : list str :=
  [kw_split; kw_join; kw_substring; kw_append; kw_prepend; kw_surround; kw_quote; kw_slice; kw_map; kw_pad;
   kw_replace; kw_filter; kw_filter_not; kw_regex_extract].

Theorem operation_without_arguments_fails (name : str) (c : N) (w : str) :
  In name arg_names -> N.eqb 58 c = false -> N.eqb 95 c = false ->
  run r_operation false (name ++ c :: w) = None.
Proof.
  intros Hin Hc Hu. unfold r_operation. rewrite run_rule_normal.
  cbn [In arg_names] in Hin.
  repeat (destruct Hin as [<-|Hin]); [..|contradiction];
    unfold r_split, r_join, r_substring, r_append, r_prepend, r_surround, r_quote, r_slice, r_map, r_pad, r_replace,
           r_filter, r_filter_not, r_regex_extract;
    repeat kill_alt;
    first [ reflexivity
          | rewrite cannot_start_fails by (vm_compute; reflexivity); reflexivity
          | rewrite needs_colon by assumption; reflexivity ].
Qed.

Lemma operation_list_without_arguments_fails (name : str) (c : N) (w : str) :
  In name arg_names -> N.eqb 58 c = false -> N.eqb 95 c = false ->
  run r_operation_list false (name ++ c :: w) = None.
Proof.
  intros Hin Hc Hu. unfold r_operation_list. rewrite run_rule_normal, run_seq.
  rewrite (operation_without_arguments_fails name c w Hin Hc Hu). reflexivity.
Qed.

(* at the head of a block: {join}, {split|...}, {append x}, {!pad}, {filter}... *)
Theorem missing_arguments_rejected_at_head (dbg : bool) (name : str) (c : N) (w : str) :
  In name arg_names -> N.eqb 58 c = false -> N.eqb 95 c = false ->
  parse_template (123 :: (if dbg then [33] else []) ++ name ++ c :: w) = Err.
Proof.
  intros Hin Hc Hu. pose proof (operation_list_without_arguments_fails name c w Hin Hc Hu) as Hol.
  cbn [In arg_names] in Hin.
  repeat (destruct Hin as [<-|Hin]); [..|contradiction];
    (apply (block_without_operation_rejected dbg); [reflexivity | reflexivity | exact Hol]).
Qed.

(* after any pipeline in any regex-free spelling: a|b|join}, a|split|c, ... *)
Theorem missing_arguments_rejected_after_pipeline (dbg : bool) (items : list item) (name : str) (c : N) (w : str) :
  items <> [] -> all_spelled spells items ->
  In name arg_names -> N.eqb 58 c = false -> N.eqb 95 c = false ->
  parse_template (123 :: (if dbg then [33] else []) ++ pipe_text (texts items) ++ 124 :: name ++ c :: w) = Err.
Proof.
  intros Hne Hall Hin Hc Hu. apply dangling_pipe_rejected; [exact Hne | exact Hall |].
  exact (operation_without_arguments_fails name c w Hin Hc Hu).
Qed.

Example missing_arguments_examples :
  parse_template [123; 106; 111; 105; 110; 125] = Err /\                                   (* {join} *)
  parse_template [123; 117; 112; 112; 101; 114; 124; 97; 112; 112; 101; 110; 100; 32; 120; 125] = Err.  (* {upper|append x} *)
Proof.
  split.
  - exact (missing_arguments_rejected_at_head false kw_join 125 [] (or_intror (or_introl eq_refl)) eq_refl eq_refl).
  - apply (missing_arguments_rejected_after_pipeline false [(Upper, kw_upper)] kw_append 32 [120; 125]).
    + discriminate.
    + repeat constructor.
    + cbn; tauto.
    + reflexivity.
    + reflexivity.
Qed.

(* ---- surplus: an operation that takes no arguments, followed by anything but "|" or "}" ---- *)
Definition bare_names : list str := [kw_upper; kw_lower; kw_reverse; kw_unique; kw_strip_ansi].

Lemma bare_operation_reads (name : str) (rest : str) :
  In name bare_names -> exists k, run r_operation false (name ++ rest) = Some (name, k, rest).
Proof.
  intros Hin. unfold r_operation. rewrite run_rule_normal.
  cbn [In bare_names] in Hin.
  repeat (destruct Hin as [<-|Hin]); [..|contradiction];
    unfold r_split, r_join, r_substring, r_append, r_prepend, r_surround, r_quote, r_slice, r_map, r_pad, r_replace,
           r_filter, r_filter_not, r_regex_extract;
    repeat (rewrite run_alt; rewrite cannot_start_fails by (vm_compute; reflexivity));
    unfold r_upper, r_lower, r_reverse, r_unique, r_strip_ansi;
    first [ rewrite run_alt, run_kw_atomic | rewrite run_kw_atomic ]; eexists; reflexivity.
Qed.

Theorem surplus_after_bare_operation_rejected_at_head (dbg : bool) (name : str) (c : N) (w : str) :
  In name bare_names -> N.eqb 124 c = false -> N.eqb 125 c = false ->
  parse_template (123 :: (if dbg then [33] else []) ++ name ++ c :: w) = Err.
Proof.
  intros Hin Hp Hb. destruct (bare_operation_reads name (c :: w) Hin) as (k & Hop).
  assert (Hstar : run (PStar (PSeq (PStr [124]) r_operation)) false (c :: w) = Some ([], [], c :: w)).
  { rewrite run_star, star_loop_S, run_seq. rewrite (str_fail_head [] 124 false c w Hp). reflexivity. }
  assert (Hol : run r_operation_list false (name ++ c :: w) = Some (name, [Node (Some R_operation_list) name k], c :: w)).
  { unfold r_operation_list. rewrite run_rule_normal, run_seq, Hop, seq_res_some, Hstar. rewrite !app_nil_r. reflexivity. }
  assert (Hhead : exists n0 n', name = n0 :: n' /\ N.eqb 33 n0 = false).
  { cbn [In bare_names] in Hin. repeat (destruct Hin as [<-|Hin]); [..|contradiction]; eexists; eexists; (split; [reflexivity | reflexivity]). }
  destruct Hhead as (n0 & n' & En & Hn0).
  unfold parse_template, r_template. rewrite run_rule_normal, run_seq.
  destruct dbg.
  - change (123 :: [33] ++ name ++ c :: w) with ([123] ++ [33] ++ name ++ c :: w).
    rewrite run_str, seq_res_some, run_seq, run_opt.
    unfold r_debug_flag. rewrite run_rule_atomic, run_str.
    rewrite seq_res_some, run_seq, run_opt. fold r_operation_list. rewrite Hol, seq_res_some, run_seq.
    rewrite (str_fail_head [] 125 false c w Hb). reflexivity.
  - change (123 :: [] ++ name ++ c :: w) with ([123] ++ name ++ c :: w).
    rewrite run_str, seq_res_some, run_seq, run_opt.
    assert (Hdbg : run r_debug_flag false (name ++ c :: w) = None).
    { rewrite En. cbn [app]. unfold r_debug_flag. rewrite run_rule_atomic. rewrite (str_fail_head [] 33 true n0 _ Hn0). reflexivity. }
    rewrite Hdbg, seq_res_some, run_seq, run_opt. fold r_operation_list. rewrite Hol, seq_res_some, run_seq.
    rewrite (str_fail_head [] 125 false c w Hb). reflexivity.
Qed.

Example surplus_examples :
  parse_template [123; 117; 112; 112; 101; 114; 58; 120; 125] = Err /\                       (* {upper:x} *)
  parse_template [123; 117; 112; 112; 101; 114; 99; 97; 115; 101; 125] = Err /\              (* {uppercase} *)
  parse_template [123; 33; 117; 110; 105; 113; 117; 101; 32; 125] = Err.                      (* {!unique } *)
Proof.
  split; [|split].
  - exact (surplus_after_bare_operation_rejected_at_head false kw_upper 58 [120; 125] (or_introl eq_refl) eq_refl eq_refl).
  - exact (surplus_after_bare_operation_rejected_at_head false kw_upper 99 [97; 115; 101; 125] (or_introl eq_refl) eq_refl eq_refl).
  - exact (surplus_after_bare_operation_rejected_at_head true kw_unique 32 [125] (or_intror (or_intror (or_intror (or_introl eq_refl)))) eq_refl eq_refl).
Qed.

(* ... and after any pipeline: a|b|upper:x}, a|unique z|c *)
Definition bare_ops : list item := [(Upper, kw_upper); (Lower, kw_lower); (Reverse, kw_reverse); (Unique, kw_unique); (StripAnsi, kw_strip_ansi)].

Lemma bare_item_reads (o : op) (name rest : str) :
  In (o, name) bare_ops ->
  exists k, run r_operation false (name ++ rest) = Some (name, [Node (Some R_operation) name [k]], rest) /\ parse_operation k = Ok o.
Proof.
  intros Hin. unfold r_operation. rewrite run_rule_normal.
  cbn [In bare_ops] in Hin.
  repeat (destruct Hin as [Hin|Hin]; [injection Hin as <- <-|]); [..|contradiction];
    unfold r_split, r_join, r_substring, r_append, r_prepend, r_surround, r_quote, r_slice, r_map, r_pad, r_replace,
           r_filter, r_filter_not, r_regex_extract;
    repeat (rewrite run_alt; rewrite cannot_start_fails by (vm_compute; reflexivity));
    unfold r_upper, r_lower, r_reverse, r_unique, r_strip_ansi;
    first [ rewrite run_alt, run_kw_atomic | rewrite run_kw_atomic ]; eexists; split; reflexivity.
Qed.

Definition reads_here (o : op) (t rest : str) : Prop := (spells o t /\ op_stops rest) \/ In (o, t) bare_ops.

Lemma pipe_tail_text_app a b : pipe_tail_text (a ++ b) = pipe_tail_text a ++ pipe_tail_text b.
Proof. unfold pipe_tail_text. apply flat_map_app. Qed.

Theorem surplus_after_bare_operation_rejected_after_pipeline (dbg : bool) (items : list item) (o : op) (name : str) (c : N) (w : str) :
  items <> [] -> all_spelled spells items -> In (o, name) bare_ops ->
  N.eqb 124 c = false -> N.eqb 125 c = false ->
  parse_template (123 :: (if dbg then [33] else []) ++ pipe_text (texts items) ++ 124 :: name ++ c :: w) = Err.
Proof.
  intros Hne Hall Hin Hp Hb. destruct items as [|it items]; [congruence|].
  set (T := c :: w).
  assert (Hend : run (PSeq (PStr [124]) r_operation) false T = None).
  { unfold T. rewrite run_seq. rewrite (str_fail_head [] 124 false c w Hp). reflexivity. }
  assert (Hchain : chain_gen reads_here ((it :: items) ++ [(o, name)]) T).
  { clear Hne Hend. induction Hall as [|x l Hx _ IH].
    - cbn [app chain_gen]. split; [right; exact Hin | exact I].
    - cbn [app chain_gen]. split; [|exact IH]. left. split; [exact Hx|].
      destruct l as [|y l']; cbn; eexists; eexists; (split; [reflexivity|]); auto. }
  assert (Hop : forall o' txt rest, reads_here o' txt rest ->
            exists k, run r_operation false (txt ++ rest) = Some (txt, [Node (Some R_operation) txt [k]], rest) /\ parse_operation k = Ok o').
  { intros o' txt rest [[Hs Hst]|Hb']; [exact (operation_reads o' txt rest Hs Hst) | exact (bare_item_reads o' txt rest Hb')]. }
  destruct (run_pipe_gen r_operation R_operation reads_here parse_operation (fun o => Ok o) Hop R_operation_list it (items ++ [(o, name)]) T Hend Hchain)
    as (kids & Hrun & _).
  fold r_operation_list in Hrun.
  assert (Etext : pipe_text (texts (it :: items ++ [(o, name)])) = pipe_text (texts (it :: items)) ++ 124 :: name).
  { cbn [texts map pipe_text]. unfold texts. rewrite map_app, pipe_tail_text_app. cbn [map snd pipe_tail_text flat_map].
    rewrite app_nil_r, <- app_assoc. reflexivity. }
  rewrite Etext in Hrun. rewrite <- app_assoc in Hrun. cbn [app] in Hrun.
  assert (Hhead : exists c0 t0, pipe_text (texts (it :: items)) ++ 124 :: name ++ T = c0 :: t0 /\ N.eqb 33 c0 = false).
  { destruct it as [o0 txt0]. inversion Hall as [|? ? Ho _]; subst. cbn [fst snd] in Ho.
    destruct (spells_head o0 txt0 Ho) as (c0 & t0 & -> & Hc0). cbn [texts map snd pipe_text].
    exists c0. eexists. split; [rewrite <- !app_assoc, <- app_comm_cons; reflexivity | exact Hc0]. }
  destruct Hhead as (c0 & t0 & Eh & Hc0).
  set (body := pipe_text (texts (it :: items))) in *.
  unfold parse_template, r_template. rewrite run_rule_normal, run_seq.
  destruct dbg.
  - change (123 :: [33] ++ body ++ 124 :: name ++ T) with ([123] ++ [33] ++ body ++ 124 :: name ++ T).
    rewrite run_str, seq_res_some, run_seq, run_opt.
    unfold r_debug_flag. rewrite run_rule_atomic, run_str.
    rewrite seq_res_some, run_seq, run_opt, Hrun, seq_res_some, run_seq.
    unfold T. rewrite (str_fail_head [] 125 false c w Hb). reflexivity.
  - change (123 :: [] ++ body ++ 124 :: name ++ T) with ([123] ++ body ++ 124 :: name ++ T).
    rewrite run_str, seq_res_some, run_seq, run_opt.
    assert (Hdbg : run r_debug_flag false (body ++ 124 :: name ++ T) = None).
    { rewrite Eh. unfold r_debug_flag. rewrite run_rule_atomic. rewrite (str_fail_head [] 33 true c0 _ Hc0). reflexivity. }
    rewrite Hdbg, seq_res_some, run_seq, run_opt, Hrun, seq_res_some, run_seq.
    unfold T. rewrite (str_fail_head [] 125 false c w Hb). reflexivity.
Qed.

Example surplus_after_pipeline_example :                                                       (* {join:,|lower:x} *)
  parse_template ([123] ++ kw_join ++ [58; 44; 124] ++ kw_lower ++ [58; 120; 125]) = Err.
Proof.
  apply (surplus_after_bare_operation_rejected_after_pipeline false [(Join [44], print_simple (Join [44]))] Lower kw_lower 58 [120; 125]).
  - discriminate.
  - constructor; [|constructor]. cbn [fst snd]. apply sp_simple. apply (sp_canon (Join [44])). reflexivity.
  - cbn; tauto.
  - reflexivity.
  - reflexivity.
Qed.

Lemma arity_tables :
  arg_names = [kw_split; kw_join; kw_substring; kw_append; kw_prepend; kw_surround; kw_quote; kw_slice; kw_map; kw_pad;
               kw_replace; kw_filter; kw_filter_not; kw_regex_extract]
  /\ bare_names = [kw_upper; kw_lower; kw_reverse; kw_unique; kw_strip_ansi]
  /\ bare_ops = [(Upper, kw_upper); (Lower, kw_lower); (Reverse, kw_reverse); (Unique, kw_unique); (StripAnsi, kw_strip_ansi)].
Proof. repeat split. Qed.
