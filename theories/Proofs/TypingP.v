From SP Require Import Model.Typing.

Section T.
Variable E : Env.

(* the Spec never panics *)
Lemma spec_step_no_panic o : forall v sep, spec_step E o v sep <> Panic.
Proof.
  induction o using op_ind'; intros v sep; cbn [spec_step]; unfold str_only, list_only, spec_filter;
    try (destruct v; discriminate); try discriminate.
  - destruct v; [unfold spec_replace; destruct (re_valid E _); discriminate | discriminate].
  - destruct (re_valid E p); cbn; discriminate.
  - destruct (re_valid E p); cbn; discriminate.
  - (* Map *)
    destruct v as [s|l]; [discriminate|].
    assert (Hm: forall l0, mapM (fun item =>
              (fix go (ops : list op) (v : value) (sep : str) : outcome str :=
                 match ops with
                 | [] => Ok (render v sep)
                 | o' :: ops' => bind (spec_step E o' v sep) (fun r => go ops' (fst r) (snd r))
                 end) body (VStr item) default_sep) l0 <> Panic).
    { assert (Hb: forall v0 sep0,
        (fix go (ops : list op) (v : value) (sep : str) : outcome str :=
           match ops with
           | [] => Ok (render v sep)
           | o' :: ops' => bind (spec_step E o' v sep) (fun r => go ops' (fst r) (snd r))
           end) body v0 sep0 <> Panic).
      { induction body as [|o' b IHb]; intros v0 sep0; [discriminate|].
        inversion H as [|? ? Ho Hbb]; subst.
        destruct (spec_step E o' v0 sep0) as [[v' sep']| |] eqn:Es; cbn [bind].
        - apply IHb. exact Hbb.
        - discriminate.
        - exfalso. eapply Ho. exact Es. }
      induction l0 as [|x l0 IHl]; cbn [mapM]; [discriminate|].
      match goal with |- bind ?m _ <> _ => destruct m as [y| |] eqn:Em end; cbn [bind].
      - destruct (mapM _ l0) as [ys| |]; cbn [bind]; try discriminate. exfalso; apply IHl; reflexivity.
      - discriminate.
      - exfalso. eapply Hb. exact Em. }
    destruct (mapM _ l) eqn:Em; cbn [omap]; try discriminate. exfalso. eapply Hm. exact Em.
  - destruct d; destruct v; discriminate.
  - destruct v; [unfold spec_extract; destruct (re_valid E _); discriminate | discriminate].
Qed.

Lemma spec_steps_no_panic ops : forall v sep, spec_steps E ops v sep <> Panic.
Proof.
  induction ops as [|o ops IH]; intros v sep; cbn [spec_steps]; [discriminate|].
  destruct (spec_step E o v sep) as [[v' sep']| |] eqn:Es; cbn [bind]; [apply IH | discriminate |].
  exfalso. eapply spec_step_no_panic. exact Es.
Qed.

(* each operation yields the kind the documentation states *)
Lemma kind_sound o v sep v' sep' :
  spec_step E o v sep = Ok (v', sep') -> kind_step (kind_of v) o = Some (kind_of v').
Proof.
  destruct o; cbn [spec_step kind_step]; unfold str_only, list_only; intros H;
    try (destruct v; inversion H; subst; reflexivity).
  - destruct r; inversion H; subst; reflexivity.
  - destruct v; [|discriminate]. destruct (spec_replace E pat repl flags s); inversion H; reflexivity.
  - unfold spec_filter in H. destruct (re_valid E p); [|discriminate]. destruct v; inversion H; reflexivity.
  - unfold spec_filter in H. destruct (re_valid E p); [|discriminate]. destruct v; inversion H; reflexivity.
  - destruct v; [discriminate|]. destruct (mapM _ l); inversion H; reflexivity.
  - destruct d; destruct v; inversion H; reflexivity.
  - destruct v; [|discriminate]. destruct (spec_extract E p g s); inversion H; reflexivity.
Qed.

(* a wrong kind is an error, whatever the data *)
Lemma ill_kinded_step_fails o v sep : kind_step (kind_of v) o = None -> spec_step E o v sep = Err.
Proof.
  destruct o; cbn [spec_step kind_step]; unfold str_only, list_only; destruct v; cbn [kind_of];
    try discriminate; try reflexivity.
  - destruct r; discriminate.
  - destruct r; discriminate.
  - destruct d; reflexivity.
Qed.

Theorem ill_typed_fails ops : forall v sep,
  infer_from (kind_of v) ops = None -> spec_steps E ops v sep = Err.
Proof.
  induction ops as [|o ops IH]; intros v sep; cbn [infer_from spec_steps]; [discriminate|].
  destruct (kind_step (kind_of v) o) as [k'|] eqn:Ek.
  - intros Hinf. destruct (spec_step E o v sep) as [[v' sep']| |] eqn:Es; cbn [bind fst snd].
    + apply IH. apply kind_sound in Es. rewrite Ek in Es. injection Es as <-. exact Hinf.
    + reflexivity.
    + exfalso. eapply spec_step_no_panic. exact Es.
  - intros _. rewrite (ill_kinded_step_fails o v sep Ek). reflexivity.
Qed.

(* progress: a well-typed operation with valid regular expressions succeeds on every value *)
Lemma progress_step o : forall v sep k',
  well_typed_op o = true -> regex_valid_op E o = true ->
  kind_step (kind_of v) o = Some k' ->
  exists v' sep', spec_step E o v sep = Ok (v', sep').
Proof.
  induction o using op_ind'; intros v sep k' Hwt Hre Hk; cbn [spec_step]; unfold str_only, list_only;
    cbn [kind_step regex_valid_op] in *;
    try (destruct v; cbn [kind_of] in Hk; try discriminate; eexists; eexists; reflexivity).
  - (* Replace *)
    destruct v; cbn [kind_of] in Hk; [|discriminate]. unfold spec_replace. rewrite Hre. eexists; eexists; reflexivity.
  - unfold spec_filter. rewrite Hre. eexists; eexists; reflexivity.
  - unfold spec_filter. rewrite Hre. eexists; eexists; reflexivity.
  - (* Map *)
    destruct v as [s|l]; cbn [kind_of] in Hk; [discriminate|].
    assert (Hbody: forall b k0 v0 sep0,
      Forall (fun o => forall v sep k', well_typed_op o = true -> regex_valid_op E o = true ->
                kind_step (kind_of v) o = Some k' -> exists v' sep', spec_step E o v sep = Ok (v', sep')) b ->
      (fix go (k : kind) (b : list op) : bool :=
         match b with
         | [] => true
         | o' :: b' => well_typed_op o' && match kind_step k o' with Some k' => go k' b' | None => false end
         end) k0 b = true ->
      forallb (regex_valid_op E) b = true ->
      kind_of v0 = k0 ->
      exists r, (fix go (ops : list op) (v : value) (sep : str) : outcome str :=
                   match ops with
                   | [] => Ok (render v sep)
                   | o' :: ops' => bind (spec_step E o' v sep) (fun r => go ops' (fst r) (snd r))
                   end) b v0 sep0 = Ok r).
    { induction b as [|o' b IHb]; intros k0 v0 sep0 HF Hw Hr Hkv; [eexists; reflexivity|].
      inversion HF as [|? ? Ho HFb]; subst.
      apply andb_true_iff in Hw as [Hw1 Hw2]. cbn [forallb] in Hr. apply andb_true_iff in Hr as [Hr1 Hr2].
      destruct (kind_step (kind_of v0) o') as [k1|] eqn:Ek; [|discriminate].
      destruct (Ho v0 sep0 k1 Hw1 Hr1 Ek) as (v1 & sep1 & Hs). rewrite Hs. cbn [bind fst snd].
      eapply IHb; eauto. apply kind_sound in Hs. congruence. }
    assert (Hm: exists l', mapM (fun item =>
              (fix go (ops : list op) (v : value) (sep : str) : outcome str :=
                 match ops with
                 | [] => Ok (render v sep)
                 | o' :: ops' => bind (spec_step E o' v sep) (fun r => go ops' (fst r) (snd r))
                 end) body (VStr item) default_sep) l = Ok l').
    { induction l as [|x l IHl]; [eexists; reflexivity|]. cbn [mapM].
      destruct (Hbody body KStr (VStr x) default_sep H Hwt Hre eq_refl) as [r Hr]. rewrite Hr. cbn [bind].
      destruct IHl as [l' Hl']. rewrite Hl'. eexists; reflexivity. }
    destruct Hm as [l' Hl']. rewrite Hl'. eexists; eexists; reflexivity.
  - (* Sort *) destruct d; destruct v; cbn [kind_of] in Hk; try discriminate; eexists; eexists; reflexivity.
  - (* RegexExtract *)
    destruct v; cbn [kind_of] in Hk; [|discriminate]. unfold spec_extract. rewrite Hre. eexists; eexists; reflexivity.
Qed.

Theorem progress ops : forall v sep,
  well_typed_from (kind_of v) ops = true -> regexes_valid E ops = true ->
  exists s, spec_steps E ops v sep = Ok s.
Proof.
  induction ops as [|o ops IH]; intros v sep Hwt Hre; cbn [spec_steps]; [eexists; reflexivity|].
  cbn [well_typed_from] in Hwt. apply andb_true_iff in Hwt as [Hw1 Hw2].
  unfold regexes_valid in Hre. cbn [forallb] in Hre. apply andb_true_iff in Hre as [Hr1 Hr2].
  destruct (kind_step (kind_of v) o) as [k1|] eqn:Ek; [|discriminate].
  destruct (progress_step o v sep k1 Hw1 Hr1 Ek) as (v1 & sep1 & Hs). rewrite Hs. cbn [bind fst snd].
  apply IH; [|exact Hr2]. apply kind_sound in Hs. rewrite Ek in Hs. injection Hs as <-. exact Hw2.
Qed.

(* kinds of intermediate results follow the static inference *)
Theorem kind_preservation ops : forall v sep k,
  infer_from (kind_of v) ops = Some k ->
  forall n v' sep', 
    (fix run (n : nat) (ops : list op) (v : value) (sep : str) : outcome (value * str) :=
       match n, ops with
       | S n', o :: ops' => bind (spec_step E o v sep) (fun r => run n' ops' (fst r) (snd r))
       | _, _ => Ok (v, sep)
       end) n ops v sep = Ok (v', sep') ->
    infer_from (kind_of v) (firstn n ops) = Some (kind_of v').
Proof.
  induction ops as [|o ops IH]; intros v sep k Hinf n v' sep' Hrun.
  - destruct n; cbn in *; injection Hrun as <- <-; reflexivity.
  - destruct n as [|n]; [cbn in *; injection Hrun as <- <-; reflexivity|].
    cbn [firstn infer_from] in *.
    destruct (kind_step (kind_of v) o) as [k1|] eqn:Ek; [|discriminate].
    destruct (spec_step E o v sep) as [[v1 sep1]| |] eqn:Es; cbn [bind fst snd] in Hrun; try discriminate.
    pose proof (kind_sound _ _ _ _ _ Es) as Hk. rewrite Ek in Hk. injection Hk as ->.
    eapply IH; eauto.
Qed.

End T.
