(* The two process-wide caches are unobservable: sequentially over any call
   history (C05) and under any interleaving of any number of threads (C17). *)
From SP Require Import Model.Template Proofs.ImplSpec Proofs.StrP Proofs.SplitP.

Section Eff.
Variable E : Env.

(* every split entry holds the split of the input its key names; every cached
   regex is a valid pattern *)
Definition CacheInv (c : caches) : Prop :=
  (forall k v, split_lookup (c_split c) k = Some v -> v = split (fst k) (snd k))
  /\ (forall p, regex_cached (c_regex c) p = true -> re_valid E p = true).

Lemma CacheInv_empty : CacheInv empty_caches.
Proof. split; [intros k v H; discriminate | intros p H; discriminate]. Qed.

(* a program is well-formed when every Put writes the value its key determines
   and every Get continues to the same cache-free result on a hit as on a miss *)
Fixpoint wf {A} (m : prog A) : Prop :=
  match m with
  | Ret _ => True
  | SplitGet k cont =>
      wf (cont None) /\ wf (cont (Some (split (fst k) (snd k))))
      /\ run_pure (cont (Some (split (fst k) (snd k)))) = run_pure (cont None)
  | SplitPut k v cont => v = split (fst k) (snd k) /\ wf cont
  | RegexGet p cont =>
      wf (cont false) /\ (re_valid E p = true -> wf (cont true) /\ run_pure (cont true) = run_pure (cont false))
  | RegexPut p cont => re_valid E p = true /\ wf cont
  end.

Lemma key_eqb_eq a b : key_eqb a b = true -> a = b.
Proof.
  unfold key_eqb. rewrite andb_true_iff, !str_eqb_eq. destruct a, b; cbn. intros [-> ->]. reflexivity.
Qed.

Lemma regex_cached_In c p : regex_cached c p = true <-> In p c.
Proof.
  unfold regex_cached. rewrite existsb_exists. split.
  - intros [x [Hx He]]. apply str_eqb_eq in He. now subst.
  - intros H. exists p. split; [exact H | apply str_eqb_refl].
Qed.

(* one atomic step preserves everything *)
Lemma step_ok {A} (m : prog A) c : CacheInv c -> wf m ->
  CacheInv (snd (step m c)) /\ wf (fst (step m c)) /\ run_pure (fst (step m c)) = run_pure m.
Proof.
  intros [HS HR] Hwf. destruct m as [a|k cont|k v cont|p cont|p cont]; cbn [step fst snd wf run_pure] in *.
  - repeat split; auto.
  - destruct Hwf as (Hn & Hs & He). split; [split; assumption|].
    destruct (split_lookup (c_split c) k) as [v|] eqn:L.
    + apply HS in L. subst v. auto.
    + auto.
  - destruct Hwf as (-> & Hc). split; [|auto]. split; [|exact HR].
    intros k' v' L. cbn [c_split split_lookup] in L. destruct (key_eqb k k') eqn:Ek.
    + apply key_eqb_eq in Ek. subst. injection L as <-. reflexivity.
    + apply HS. exact L.
  - destruct Hwf as (Hf & Ht). split; [split; assumption|].
    destruct (regex_cached (c_regex c) p) eqn:L; [|auto].
    destruct (Ht (HR _ L)). auto.
  - destruct Hwf as (Hv & Hc). split; [|auto]. split; [exact HS|].
    intros q Hq. cbn [c_regex] in Hq. destruct (regex_cached (c_regex c) p) eqn:L; [apply HR; exact Hq|].
    apply regex_cached_In in Hq. destruct Hq as [<-|Hq]; [exact Hv | apply HR, regex_cached_In, Hq].
Qed.

(* one thread to completion *)
Theorem run_st_pure {A} (m : prog A) : forall c, CacheInv c -> wf m ->
  fst (run_st m c) = run_pure m /\ CacheInv (snd (run_st m c)).
Proof.
  induction m as [a|k cont IH|k v cont IH|p cont IH|p cont IH]; intros c Hc Hwf; cbn [run_st run_pure].
  - auto.
  - pose proof (step_ok (SplitGet k cont) c Hc Hwf) as (Hc' & Hw' & Hp'). cbn [step fst snd run_pure] in *.
    destruct (IH _ c Hc' Hw') as [H1 H2]. split; [rewrite H1; exact Hp' | exact H2].
  - pose proof (step_ok (SplitPut k v cont) c Hc Hwf) as (Hc' & Hw' & Hp'). cbn [step fst snd run_pure] in *.
    apply IH; assumption.
  - pose proof (step_ok (RegexGet p cont) c Hc Hwf) as (Hc' & Hw' & Hp'). cbn [step fst snd run_pure] in *.
    destruct (IH _ c Hc' Hw') as [H1 H2]. split; [rewrite H1; exact Hp' | exact H2].
  - pose proof (step_ok (RegexPut p cont) c Hc Hwf) as (Hc' & Hw' & Hp'). cbn [step fst snd run_pure] in *.
    apply IH; assumption.
Qed.

(* ---- C05: any history of calls in one process ------------------------------------ *)
Fixpoint run_history {A} (calls : list (prog A)) (c : caches) : list A * caches :=
  match calls with
  | [] => ([], c)
  | m :: rest => let (a, c') := run_st m c in let (l, c'') := run_history rest c' in (a :: l, c'')
  end.

Theorem history_pure {A} (calls : list (prog A)) : forall c, CacheInv c -> Forall wf calls ->
  fst (run_history calls c) = map run_pure calls /\ CacheInv (snd (run_history calls c)).
Proof.
  induction calls as [|m rest IH]; intros c Hc Hw; cbn [run_history map]; [auto|].
  inversion Hw as [|? ? Hm Hr]; subst.
  destruct (run_st_pure m c Hc Hm) as [H1 H2]. destruct (run_st m c) as [a c']. cbn [fst snd] in *.
  destruct (IH c' H2 Hr) as [H3 H4]. destruct (run_history rest c') as [l c'']. cbn [fst snd] in *.
  split; [rewrite H1, H3; reflexivity | exact H4].
Qed.

(* ---- C17: any schedule over any number of threads --------------------------------- *)
Lemma nth_error_set_nth {X} (l : list X) i j x :
  nth_error (set_nth l i x) j =
    if Nat.eqb i j then (match nth_error l i with Some _ => Some x | None => None end) else nth_error l j.
Proof.
  revert i j; induction l as [|h t IH]; intros i j; cbn [set_nth].
  - destruct (Nat.eqb i j); destruct i, j; reflexivity.
  - destruct i, j; cbn; try reflexivity. apply IH.
Qed.
Lemma length_set_nth {X} (l : list X) i x : length (set_nth l i x) = length l.
Proof. revert i; induction l; intros [|i]; cbn; auto. Qed.

Definition Good {A} (init : list (prog A)) (st : list (prog A) * caches) : Prop :=
  CacheInv (snd st) /\ length (fst st) = length init /\
  forall i p, nth_error (fst st) i = Some p ->
    wf p /\ exists p0, nth_error init i = Some p0 /\ run_pure p = run_pure p0.

Lemma sched_step_good {A} (init : list (prog A)) st i : Good init st -> Good init (sched_step st i).
Proof.
  intros (HI & HL & HP). destruct st as [pool c]. cbn [fst snd] in *. unfold sched_step.
  destruct (nth_error pool i) as [p|] eqn:Hp; [|split; [exact HI | split; [exact HL | exact HP]]].
  destruct (HP i p Hp) as (Hwf & p0 & Hp0 & Hpure).
  pose proof (step_ok p c HI Hwf) as (HI' & Hwf' & Hpure'). destruct (step p c) as [p' c']. cbn [fst snd] in *.
  unfold Good. cbn [fst snd]. split; [exact HI'|]. split; [rewrite length_set_nth; exact HL|].
  intros j q Hq. rewrite nth_error_set_nth in Hq. destruct (Nat.eqb_spec i j) as [->|Hne].
  - rewrite Hp in Hq. injection Hq as <-. split; [exact Hwf'|]. exists p0. split; [exact Hp0 | congruence].
  - apply (HP j q Hq).
Qed.

Theorem schedule_independent {A} (init : list (prog A)) (c0 : caches) (sched : list nat) :
  CacheInv c0 -> Forall wf init ->
  let st := run_sched sched (init, c0) in
  CacheInv (snd st) /\
  forall i a, nth_error (fst st) i = Some (Ret a) -> exists p0, nth_error init i = Some p0 /\ a = run_pure p0.
Proof.
  intros HI Hwf.
  assert (G0: Good init (init, c0)).
  { split; [exact HI|]. split; [reflexivity|]. intros i p Hn. cbn [fst] in Hn. split.
    - rewrite Forall_forall in Hwf. apply Hwf. eapply nth_error_In; eauto.
    - exists p; auto. }
  assert (G: forall s st, Good init st -> Good init (fold_left sched_step s st)).
  { induction s as [|i s IH]; intros st Hst; cbn [fold_left]; [exact Hst | apply IH, sched_step_good, Hst]. }
  specialize (G sched _ G0). destruct G as (HI' & _ & HP). split; [exact HI'|].
  intros i a Hn. destruct (HP i _ Hn) as (_ & p0 & Hp0 & Hpure). exists p0. split; [exact Hp0 | exact Hpure].
Qed.

(* no thread ever waits: every unfinished program can take its step in every state *)
Theorem no_blocking {A} (m : prog A) c : (forall a, m <> Ret a) -> exists m' c', step m c = (m', c').
Proof. intros _. destruct (step m c) as [m' c']. eauto. Qed.

(* a Get only ever returns a value that is a function of its own key *)
Theorem no_foreign_data c k v : CacheInv c -> split_lookup (c_split c) k = Some v -> v = split (fst k) (snd k).
Proof. intros [H _]. apply H. Qed.

(* ---- the library's programs are well-formed ----------------------------------------- *)
Lemma wf_pbind {A B} (m : prog A) (f : A -> prog B) : wf m -> (forall a, wf (f a)) -> wf (pbind m f).
Proof.
  induction m as [a|k cont IH|k v cont IH|p cont IH|p cont IH]; intros Hm Hf; cbn [pbind wf] in *.
  - apply Hf.
  - destruct Hm as (H1 & H2 & H3). split; [apply IH; assumption|]. split; [apply IH; assumption|].
    rewrite !run_pure_pbind, H3. reflexivity.
  - destruct Hm as (H1 & H2). split; [exact H1 | apply IH; assumption].
  - destruct Hm as (H1 & H2). split; [apply IH; assumption|]. intros Hv. destruct (H2 Hv) as [H3 H4].
    split; [apply IH; assumption|]. rewrite !run_pure_pbind, H4. reflexivity.
  - destruct Hm as (H1 & H2). split; [exact H1 | apply IH; assumption].
Qed.

Lemma wf_get_cached_split s sep : wf (get_cached_split s sep).
Proof.
  unfold get_cached_split. cbn [wf fst snd run_pure]. rewrite raw_split_is_split.
  split; [destruct (_ && _)%bool; cbn; auto|]. split; [exact I|]. destruct (_ && _)%bool; reflexivity.
Qed.

Lemma wf_get_cached_regex p : wf (get_cached_regex E p).
Proof.
  unfold get_cached_regex. cbn [wf run_pure]. split.
  - destruct (re_valid E p) eqn:Ev; cbn; auto.
  - intros Hv. rewrite Hv. cbn. auto.
Qed.

Lemma wf_pmapM {A B} (f : A -> prog B) l : (forall x, wf (f x)) -> wf (pmapM f l).
Proof.
  intros H. induction l as [|x l IH]; cbn [pmapM wf]; [exact I|].
  apply wf_pbind; [apply H|]. intros y. apply wf_pbind; [exact IH | intros; exact I].
Qed.

Lemma wf_pmapM_o {A B} (f : A -> prog (outcome B)) l : (forall x, wf (f x)) -> wf (pmapM_o f l).
Proof.
  intros H. induction l as [|x l IH]; cbn [pmapM_o wf]; [exact I|].
  apply wf_pbind; [apply H|]. intros [y| |]; [|exact I|exact I].
  apply wf_pbind; [exact IH | intros; exact I].
Qed.

Lemma wf_impl_replace pat repl flags s : wf (impl_replace E pat repl flags s).
Proof.
  unfold impl_replace. destruct (_ && _ && _ && _)%bool; [exact I|].
  apply wf_pbind; [apply wf_get_cached_regex|]. intros [u| |]; exact I.
Qed.

Lemma wf_impl_single o v sep : wf (impl_single E o v sep).
Proof.
  destruct o; cbn [impl_single ret_o]; try exact I.
  - apply wf_pbind; [|intros; exact I]. destruct v as [s|l]; [apply wf_get_cached_split|].
    apply wf_pbind; [apply wf_pmapM; intros; apply wf_get_cached_split | intros; exact I].
  - destruct v; [|exact I]. apply wf_pbind; [apply wf_impl_replace | intros; exact I].
  - apply wf_pbind; [apply wf_get_cached_regex | intros; exact I].
  - apply wf_pbind; [apply wf_get_cached_regex | intros; exact I].
  - destruct v; [|exact I]. apply wf_pbind; [apply wf_get_cached_regex | intros; exact I].
Qed.

Lemma wf_trace (dbg : bool) (v : value) : wf (if dbg then ret_o (trace_value v) else ret_o (Ok tt)).
Proof. destruct dbg; exact I. Qed.

Lemma wf_impl_step dbg o : forall v sep, wf (impl_step E dbg o v sep).
Proof.
  induction o using op_ind'; intros v sep; try (cbn [impl_step]; apply wf_impl_single).
  cbn [impl_step]. destruct v as [s|l]; [exact I|].
  apply wf_pbind; [|intros; exact I]. apply wf_pmapM_o. intros item.
  generalize (VStr item) as v0. generalize [32%N] as sep0.
  induction body as [|o' b IHb]; intros sep0 v0; [exact I|].
  inversion H as [|? ? Ho Hb]; subst.
  apply wf_pbind; [apply wf_trace|]. intros [u| |]; [|exact I|exact I].
  apply wf_pbind; [apply Ho|]. intros [[v' sep']| |]; [apply IHb; exact Hb | exact I | exact I].
Qed.

Lemma wf_impl_ops dbg ops : forall v sep, wf (impl_ops E dbg ops v sep).
Proof.
  induction ops as [|o ops IH]; intros v sep; cbn [impl_ops]; [exact I|].
  apply wf_pbind; [apply wf_trace|]. intros [u| |]; [|exact I|exact I].
  apply wf_pbind; [apply wf_impl_step|]. intros [[v' sep']| |]; [apply IH | exact I | exact I].
Qed.

Lemma wf_impl_run dbg ops x : wf (impl_run E dbg ops x).
Proof. apply wf_impl_ops. Qed.

Lemma wf_apply_section dbg x ops m : wf (apply_section E dbg x ops m).
Proof.
  assert (Hgen: wf (match memo_lookup m x ops with
                    | Some out => Ret (Ok out, m)
                    | None => pbind (impl_run E dbg ops x) (fun r =>
                        match r with
                        | Ok out => Ret (Ok out, ((x, ops), out) :: m)
                        | Err => Ret (Err, m)
                        | Panic => Ret (Panic, m)
                        end)
                    end)).
  { destruct (memo_lookup m x ops); [exact I|]. apply wf_pbind; [apply wf_impl_run|]. intros [o| |]; exact I. }
  destruct ops as [|o rest]; [exact Hgen|]. destruct o; try exact Hgen. destruct rest; [|exact Hgen].
  unfold apply_section. apply wf_pbind; [|intros; exact I].
  unfold fast_single_split. apply wf_pbind; [apply wf_get_cached_split | intros; exact I].
Qed.

Lemma wf_format_loop_plain dbg x secs : forall acc m, wf (format_loop_plain E dbg x secs acc m).
Proof.
  induction secs as [|s secs IH]; intros acc m; cbn [format_loop_plain]; [exact I|].
  destruct s; [apply IH|]. apply wf_pbind; [apply wf_apply_section|]. intros [[o| |] m']; cbn [fst snd]; [apply IH | exact I | exact I].
Qed.
Lemma wf_format_loop_debug x secs : forall acc m, wf (format_loop_debug E x secs acc m).
Proof.
  induction secs as [|s secs IH]; intros acc m; cbn [format_loop_debug]; [exact I|].
  destruct s; [destruct (literal_preview s); [apply IH | exact I | exact I]|].
  apply wf_pbind; [apply wf_apply_section|]. intros [[o| |] m']; cbn [fst snd]; [apply IH | exact I | exact I].
Qed.

Theorem wf_impl_format t x : wf (impl_format E t x).
Proof. unfold impl_format. destruct (t_debug t); [apply wf_format_loop_debug | apply wf_format_loop_plain]. Qed.

Lemma wf_fwi_inputs dbg ops inputs : forall m, wf (fwi_inputs E dbg ops inputs m).
Proof.
  induction inputs as [|i rest IH]; intros m; cbn [fwi_inputs]; [exact I|].
  apply wf_pbind; [apply wf_apply_section|]. intros [[o| |] m']; cbn [fst snd]; [|exact I|exact I].
  apply wf_pbind; [apply IH | intros; exact I].
Qed.

Lemma wf_fwi_loop dbg inputs seps secs : forall idx acc m, wf (fwi_loop E dbg secs inputs seps idx acc m).
Proof.
  induction secs as [|s secs IH]; intros idx acc m; cbn [fwi_loop]; [exact I|].
  destruct s; [apply IH|]. destruct (nth idx inputs []) as [|i [|i2 rest]]; [apply IH| |].
  - apply wf_pbind; [apply wf_apply_section|]. intros [[o| |] m']; cbn [fst snd]; [apply IH | exact I | exact I].
  - apply wf_pbind; [apply wf_fwi_inputs|]. intros [[o| |] m']; cbn [fst snd]; [apply IH | exact I | exact I].
Qed.

Theorem wf_impl_format_with_inputs t inputs seps : wf (impl_format_with_inputs E t inputs seps).
Proof. apply wf_fwi_loop. Qed.

End Eff.
