From SP Require Import Model.Range.
Local Open Scope Z_scope.

Lemma in_isize_iff z : in_isize z = true <-> isize_min <= z <= isize_max.
Proof. unfold in_isize. rewrite andb_true_iff, !Z.leb_le. tauto. Qed.

Lemma isize_vals : isize_min = -9223372036854775808 /\ isize_max = 9223372036854775807.
Proof. split; reflexivity. Qed.

Lemma resolve_index_norm idx len :
  in_isize idx = true -> 0 <= len <= isize_max ->
  resolve_index idx len = Ok (norm idx len).
Proof.
  intros Hi Hl. apply in_isize_iff in Hi. destruct isize_vals as [Emin Emax].
  unfold resolve_index, norm, checked_add.
  destruct (idx <? 0) eqn:Hneg.
  - apply Z.ltb_lt in Hneg.
    assert (Hin: in_isize (len + idx) = true) by (apply in_isize_iff; lia).
    rewrite Hin. cbn [bind]. f_equal. lia.
  - cbn [bind]. f_equal. lia.
Qed.

(* the checked addition never overflows: no panic from index arithmetic *)
Lemma resolve_index_no_panic idx len :
  in_isize idx = true -> 0 <= len <= isize_max -> resolve_index idx len <> Panic.
Proof. intros H1 H2. rewrite resolve_index_norm by assumption. discriminate. Qed.

Lemma norm_bounds i len : 0 <= len -> 0 <= norm i len <= len.
Proof. intros H. unfold norm. destruct (i <? 0); lia. Qed.

Lemma nth_error_firstn1_skipn {T} (l : list T) n :
  firstn 1 (skipn n l) = match nth_error l n with Some x => [x] | None => [] end.
Proof.
  revert n; induction l as [|x l IH]; intros [|n]; cbn; try reflexivity.
  apply IH.
Qed.

Theorem apply_range_is_select {T} (l : list T) r :
  range_in_isize r = true -> Z.of_nat (length l) <= isize_max ->
  apply_range l r = Ok (select r l).
Proof.
  intros Hr Hlen. unfold apply_range, select.
  destruct l as [|x0 l0] eqn:El; [reflexivity|].
  rewrite <- El in *. set (len := Z.of_nat (length l)) in *.
  assert (Hpos: 0 < len) by (subst len l; cbn [length]; lia).
  assert (Hne: (len =? 0) = false) by (apply Z.eqb_neq; lia). rewrite Hne.
  destruct r as [i | a b inc]; cbn [range_in_isize] in Hr.
  - rewrite resolve_index_norm by (auto; lia). cbn [bind].
    rewrite nth_error_firstn1_skipn.
    destruct (nth_error l (Z.to_nat (Z.min (norm i len) (len - 1)))); reflexivity.
  - apply andb_true_iff in Hr as [Ha Hb].
    assert (Hs: (match a with None => Ok 0 | Some s => resolve_index s len end)
                = Ok (range_start a len)).
    { unfold range_start. destruct a; [apply resolve_index_norm; auto; lia | reflexivity]. }
    assert (He: (match b with None => Ok len | Some e => resolve_index e len end)
                = Ok (match b with Some x => norm x len | None => len end)).
    { destruct b; [apply resolve_index_norm; auto; lia | reflexivity]. }
    rewrite Hs. cbn [bind].
    set (s := range_start a len).
    assert (Hsb: 0 <= s <= len).
    { subst s; unfold range_start; destruct a; [apply norm_bounds|]; lia. }
    unfold range_end.
    set (e0 := match b with Some x => norm x len | None => len end) in *.
    assert (Heb: 0 <= e0 <= len) by (subst e0; destruct b; [apply norm_bounds|]; lia).
    set (e := Z.min len (e0 + (if inc then 1 else 0))).
    destruct (len <=? s) eqn:Hls.
    + apply Z.leb_le in Hls.
      destruct (s <? e) eqn:Hlt; [apply Z.ltb_lt in Hlt; subst e; lia | reflexivity].
    + apply Z.leb_gt in Hls. rewrite He. cbn [bind].
      replace (Z.min (if inc then e0 + 1 else e0) len) with e by (subst e; destruct inc; lia).
      destruct (e <=? s) eqn:Hes.
      * apply Z.leb_le in Hes.
        destruct (s <? e) eqn:Hlt; [apply Z.ltb_lt in Hlt; lia | reflexivity].
      * apply Z.leb_gt in Hes.
        assert (Hlt: (s <? e) = true) by (apply Z.ltb_lt; lia). rewrite Hlt.
        unfold slice_range. fold len.
        assert (Hc: ((s <=? e) && (e <=? len)) = true).
        { apply andb_true_iff; split; apply Z.leb_le; subst e; lia. }
        rewrite Hc. reflexivity.
Qed.

Corollary apply_range_never_fails {T} (l : list T) r :
  range_in_isize r = true -> Z.of_nat (length l) <= isize_max ->
  exists v, apply_range l r = Ok v.
Proof. intros. eexists. apply apply_range_is_select; assumption. Qed.

Lemma resolve_index_m_norm idx len : 0 <= len -> resolve_index_m idx len = norm idx len.
Proof. intros H. unfold resolve_index_m, norm. destruct (idx <? 0); lia. Qed.

(* unconditional: the code's control flow over mathematical integers is the
   documented rule, for every bound whatsoever *)
Theorem apply_range_m_is_select {T} (l : list T) r : apply_range_m l r = select r l.
Proof.
  unfold apply_range_m, select.
  destruct l as [|x0 l0] eqn:El; [reflexivity|].
  rewrite <- El in *. set (len := Z.of_nat (length l)) in *.
  assert (Hpos: 0 < len) by (subst len l; cbn [length]; lia).
  assert (Hne: (len =? 0) = false) by (apply Z.eqb_neq; lia). rewrite Hne.
  destruct r as [i | a b inc].
  - rewrite resolve_index_m_norm by lia. rewrite nth_error_firstn1_skipn.
    destruct (nth_error l _); reflexivity.
  - assert (Hs: match a with None => 0 | Some s => resolve_index_m s len end = range_start a len).
    { unfold range_start. destruct a; [apply resolve_index_m_norm; lia | reflexivity]. }
    rewrite Hs. set (s := range_start a len).
    assert (Hsb: 0 <= s <= len).
    { subst s; unfold range_start; destruct a; [apply norm_bounds|]; lia. }
    assert (He: match b with None => len | Some e => resolve_index_m e len end
                = match b with Some x => norm x len | None => len end).
    { destruct b; [apply resolve_index_m_norm; lia | reflexivity]. }
    rewrite He. unfold range_end.
    set (e0 := match b with Some x => norm x len | None => len end).
    assert (Heb: 0 <= e0 <= len) by (subst e0; destruct b; [apply norm_bounds|]; lia).
    set (e := Z.min len (e0 + (if inc then 1 else 0))).
    replace (Z.min (if inc then e0 + 1 else e0) len) with e by (subst e; destruct inc; lia).
    destruct (len <=? s) eqn:Hls.
    + apply Z.leb_le in Hls.
      destruct (s <? e) eqn:Hlt; [apply Z.ltb_lt in Hlt; subst e; lia | reflexivity].
    + destruct (e <=? s) eqn:Hes.
      * apply Z.leb_le in Hes. destruct (s <? e) eqn:Hlt; [apply Z.ltb_lt in Hlt; lia | reflexivity].
      * apply Z.leb_gt in Hes.
        assert (Hlt: (s <? e) = true) by (apply Z.ltb_lt; lia). rewrite Hlt. reflexivity.
Qed.

(* machine-level faithfulness: with checked isize arithmetic and real slice
   indexing nothing overflows or panics, and the result is the same *)
Corollary apply_range_checked_is_m {T} (l : list T) r :
  range_in_isize r = true -> Z.of_nat (length l) <= isize_max ->
  apply_range l r = Ok (apply_range_m l r).
Proof. intros. rewrite apply_range_m_is_select. apply apply_range_is_select; assumption. Qed.

(* ---- laws of the documented rule ------------------------------------- *)

Lemma select_nil {T} r : @select T r [] = [].
Proof. reflexivity. Qed.

(* a single index picks exactly one item of a non-empty collection, the one at
   the clamped position *)
Lemma select_index_one {T} (l : list T) i :
  l <> [] ->
  let len := Z.of_nat (length l) in
  let p := Z.min (norm i len) (len - 1) in
  0 <= p < len /\ exists x, nth_error l (Z.to_nat p) = Some x /\ select (Index i) l = [x].
Proof.
  intros Hl len p.
  assert (Hpos: 0 < len) by (subst len; destruct l; [congruence | cbn [length]; lia]).
  pose proof (norm_bounds i len ltac:(lia)) as Hn.
  assert (Hp: 0 <= p < len) by (subst p; lia).
  split; [exact Hp|].
  destruct (nth_error l (Z.to_nat p)) as [x|] eqn:En.
  - exists x. split; [reflexivity|]. unfold select. destruct l; [congruence|].
    fold len. fold p. rewrite nth_error_firstn1_skipn, En. reflexivity.
  - apply nth_error_None in En. subst len. lia.
Qed.

Lemma select_index_position (i len : Z) :
  0 < len ->
  Z.min (norm i len) (len - 1) =
    if i <? 0 then (if len + i <? 0 then 0 else len + i)
    else (if i <? len then i else len - 1).
Proof.
  intros H. unfold norm. destruct (i <? 0) eqn:E1.
  - apply Z.ltb_lt in E1. destruct (len + i <? 0) eqn:E2; [apply Z.ltb_lt in E2 | apply Z.ltb_ge in E2]; lia.
  - apply Z.ltb_ge in E1. destruct (i <? len) eqn:E2; [apply Z.ltb_lt in E2 | apply Z.ltb_ge in E2]; lia.
Qed.

(* a range picks the contiguous run between the clamped bounds, empty when the
   start is not before the end *)
Lemma select_range_contiguous {T} (l : list T) a b inc :
  let len := Z.of_nat (length l) in
  let s := range_start a len in
  let e := range_end b inc len in
  select (Range a b inc) l = if s <? e then firstn (Z.to_nat (e - s)) (skipn (Z.to_nat s) l) else [].
Proof.
  intros len s e. unfold select. destruct l as [|x l'] eqn:El.
  - destruct (s <? e); [|reflexivity]. rewrite skipn_nil, firstn_nil. reflexivity.
  - reflexivity.
Qed.

Lemma select_range_empty_iff {T} (l : list T) a b inc :
  let len := Z.of_nat (length l) in
  select (Range a b inc) l = [] <-> (l = [] \/ range_end b inc len <= range_start a len).
Proof.
  intros len. rewrite select_range_contiguous. fold len.
  set (s := range_start a len). set (e := range_end b inc len).
  assert (Hs: 0 <= s <= len).
  { subst s; unfold range_start; destruct a; [apply norm_bounds; subst len|]; lia. }
  assert (He: e <= len) by (subst e; unfold range_end; lia).
  destruct (s <? e) eqn:Hlt.
  - apply Z.ltb_lt in Hlt. split.
    + intros H. apply (f_equal (@length T)) in H. rewrite firstn_length, skipn_length in H.
      cbn [length] in H. subst len. lia.
    + intros [->|H]; [subst len; cbn [length] in *; lia | lia].
  - apply Z.ltb_ge in Hlt. split; [right; lia | reflexivity].
Qed.

Lemma select_range_length {T} (l : list T) a b inc :
  let len := Z.of_nat (length l) in
  Z.of_nat (length (select (Range a b inc) l)) = Z.max 0 (range_end b inc len - range_start a len).
Proof.
  intros len. rewrite select_range_contiguous. fold len.
  set (s := range_start a len). set (e := range_end b inc len).
  assert (Hs: 0 <= s <= len).
  { subst s; unfold range_start; destruct a; [apply norm_bounds; subst len|]; lia. }
  assert (He: e <= len) by (subst e; unfold range_end; lia).
  destruct (s <? e) eqn:Hlt; [apply Z.ltb_lt in Hlt | apply Z.ltb_ge in Hlt; cbn [length]; lia].
  rewrite firstn_length, skipn_length. subst len. lia.
Qed.

(* the rule is the same whatever the items are: it commutes with any relabelling
   of the items (characters vs bytes of an ASCII string, parts vs words, ...) *)
Lemma select_map {A B} (f : A -> B) r (l : list A) : select r (map f l) = map f (select r l).
Proof.
  unfold select. rewrite map_length.
  destruct l as [|x l']; [reflexivity|].
  cbn [map]. change (f x :: map f l') with (map f (x :: l')).
  destruct r as [i|a b inc].
  - rewrite skipn_map, firstn_map. reflexivity.
  - destruct (_ <? _); [|reflexivity]. rewrite skipn_map, firstn_map. reflexivity.
Qed.

(* selected items are a contiguous block of the original, in original order *)
Lemma select_is_block {T} r (l : list T) : exists p q, l = p ++ select r l ++ q.
Proof.
  assert (Hblock: forall n k, exists p q, l = p ++ firstn k (skipn n l) ++ q).
  { intros n k. exists (firstn n l), (skipn k (skipn n l)).
    rewrite firstn_skipn. rewrite firstn_skipn. reflexivity. }
  unfold select. destruct l as [|x l'] eqn:El; [exists [], []; reflexivity|]. rewrite <- El in *.
  destruct r as [i|a b inc].
  - apply Hblock.
  - destruct (_ <? _); [apply Hblock | exists l, []; rewrite app_nil_r; reflexivity].
Qed.

Lemma select_incl {T} r (l : list T) : incl (select r l) l.
Proof.
  destruct (select_is_block r l) as (p & q & H). intros x Hx. rewrite H.
  apply in_or_app; right; apply in_or_app; left; exact Hx.
Qed.

(* full range is the identity, on every carrier *)
Lemma select_full {T} (l : list T) : select (Range None None false) l = l.
Proof.
  rewrite select_range_contiguous. unfold range_start, range_end. cbn.
  destruct l as [|x l']; [reflexivity|].
  set (len := Z.of_nat (length (x :: l'))).
  assert (0 < len) by (subst len; cbn [length]; lia).
  replace (Z.min len (len + 0)) with len by lia.
  assert (E: (0 <? len) = true) by (apply Z.ltb_lt; lia). rewrite E.
  rewrite Z.sub_0_r. subst len. rewrite Nat2Z.id. cbn [Z.to_nat skipn]. apply firstn_all.
Qed.
